/-
C19 — Parsers accept or reject with the documented error, never crash; a returned value can be printed.
Property theorems only (helper lemmas in Proofs/ParserTotalGM.lean and Proofs/ParserTotalVC.lean).

Totality ("returns a value or raises") holds by construction: every model parser is a total function into
`PyM = Except PyErr`.  What is proved is the *classification* of the error (`.value` = ValueError family, the
documented error of the regex parsers; `.syntax` = lark `UnexpectedInput`, the documented error of the marker
grammar) and that parser-produced values print.  Part I: versions, string constraints, markers.  Part II:
version constraints (`parse_constraint`, `parse_marker_version_constraint`).
Part IV: the algebra hypothesis of Part II discharged outside the local-label case.  Part V: PEP 508 requirements
and dependencies (decompositions; classification relative to Parts II/IV and the marker simplifier).
`Factory.validate` is covered by the real-code oracle of vp/c19.py only.
-/
import PoetryVerif.Proofs.ParserTotalGM
import PoetryVerif.Proofs.ParserTotalVC
import PoetryVerif.Proofs.ParserTotalVC2
import PoetryVerif.Proofs.ParserTotalReq
import PoetryVerif.Proofs.ParserTotalVC3
import PoetryVerif.Proofs.ParserTotalSimp
import PoetryVerif.Proofs.ParserTotalSimp2
import PoetryVerif.Proofs.ParserTotalConv
import PoetryVerif.Proofs.ParserTotalComment
import PoetryVerif.Proofs.ParserTotalLex
import PoetryVerif.Proofs.ParserTotalRewrite

/-! # Part I — versions, string constraints, markers -/
/-!
C19 (version / generic-constraint / marker part) — parsers accept, or reject with the documented error;
they never crash; a returned value can be printed.
Property theorems only (helper lemmas: Proofs/ParserTotalGM.lean).  Every statement is over every `String`.

Error values (`Model/Basic.lean`): `.value` = `ValueError` family, the documented error of the regex
parsers; `.syntax` = lark `UnexpectedInput`, the documented error of the marker grammar; `.unmodelled` =
the text leaves the fragment the model covers (`platform_release` values that are not PEP 440 versions),
never a claim about the code.

History: before poetry-core 4011dd2 `parse_constraint("'x' IN")` raised `KeyError('IN')`
(`STR_CMP_CONSTRAINT` is case-insensitive and `\s` admits any white space, `Constraint._trans_op_str` is
neither), and the same escaped `parse_marker('os_name == "a, \'x\' IN"')`.  The parser normalises the
operator text now; the witnesses are kept below as regression `example`s.
-/
set_option linter.unusedSimpArgs false
set_option linter.unusedVariables false

namespace Poetry.C19
open Poetry Generic Marker ParserTotal

/-! ## V — `Version.parse` -/

/-- **V1.** The version parser rejects with `ValueError` (`InvalidVersionError`) only. -/
theorem version_parse_err_documented (s : String) (e : PyErr) (h : Version.parse s = .error e) :
    e = .value := version_parse_err s e h

example : Version.parse "1.0.x" = .error .value := rfl
example : Version.parse "" = .error .value := rfl

/-- A returned version is well-formed (non-empty release, tags in their slots, no empty local segment)
and carries the input as its text (`str(v)` of a parsed version returns `v.text`).  Printing
(`Version.toString`, `Version.dump`) is a total `String` function by construction: no error value exists
for it in the model, mirroring `to_string()` which only concatenates. -/
theorem version_parsed_printable (s : String) (v : Version) (h : Version.parse s = .ok v) :
    v.wf = true ∧ v.text = s := ⟨Version.parse_wf s v h, parseText_text s v h⟩

example : ∃ v, Version.parse "1!2.0RC1.post3.dev4+Ubuntu.01" = .ok v ∧ v.wf = true ∧
    v.toString = "1!2.0rc1.post3.dev4+ubuntu.1" := ⟨_, rfl, by decide, by decide⟩

/-! ## G — `parse_constraint` / `parse_extra_constraint` -/

/-- **G1.** Both generic parsers (`x = false`: `parse_constraint`, `x = true`: `parse_extra_constraint`)
reject with `ValueError` (`ParseConstraintError`, or the `ValueError` of the constructors) only.  In
particular: the operator text handed to `Constraint(value, op)` is always a key of
`Constraint._trans_op_str` (checked against the extracted table), so no `KeyError`; the `IndexError` of
`constraints[0]` is unreachable (`re.split` returns a piece); folding `intersect` over the clauses of a
group raises `ValueError` at most (`MultiConstraint.__init__`'s operator check, `ExtraConstraint.invert`),
never `KeyError`/`AssertionError`/`NotImplementedError`. -/
theorem generic_parse_err_documented (x : Bool) (s : String) (e : PyErr)
    (h : Generic.parseWith x s = .error e) : e = .value := parseWith_err x s e h

theorem generic_parse_constraint_err_documented (s : String) (e : PyErr)
    (h : Generic.parseConstraint s = .error e) : e = .value := parseWith_err false s e h

theorem generic_parse_extra_constraint_err_documented (s : String) (e : PyErr)
    (h : Generic.parseExtraConstraint s = .error e) : e = .value := parseWith_err true s e h

/-- rejected with the documented error: a second value after white space; `in` for an extra -/
example : Generic.parseConstraint "a b" = .error .value := rfl
example : Generic.parseExtraConstraint "'x' in" = .error .value := rfl

/-- Regression (poetry-core 4011dd2): these raised `KeyError` — upper case, a tab inside `not in`, after a
comma / `||`.  They are accepted now (for an extra: rejected with `ValueError`). -/
example : Generic.parseConstraint "'x' IN" = .ok (.atom ⟨"x", .in_, false⟩) := rfl
example : Generic.parseConstraint "'x' not\tin" = .ok (.atom ⟨"x", .nc, false⟩) := rfl
example : Generic.parseConstraint "'x' NOT IN" = .ok (.atom ⟨"x", .nc, false⟩) := rfl
example : Generic.parseConstraint "a, 'x' In" = .ok .empty := rfl
example : Generic.parseConstraint "b || 'x' iN" =
    .ok (.union [.atom ⟨"b", .eq, false⟩, .atom ⟨"x", .in_, false⟩]) := rfl
example : Generic.parseExtraConstraint "'x' IN" = .error .value := rfl

/-- **G2.** What a successful parse returns: atoms of the parser's class (`ExtraConstraint` atoms carry
`==`/`!=`); a `[Extra]MultiConstraint` has at least two members, each with an operator from the class's
`OPERATORS` table; a `UnionConstraint` has at least two members and no union among them.  `str()` of it
(`GC.toStr`) is a total `String` function by construction (`__str__` only joins the members' texts). -/
theorem generic_parsed_printable (x : Bool) (s : String) (c : GC) (h : Generic.parseWith x s = .ok c) :
    GC.wfP x c := parseWith_wfP x s c h

example : ∃ c, Generic.parseConstraint "'x' in, !=b || c" = .ok c ∧
    c = .union [.multi false [⟨"x", .in_, false⟩, ⟨"b", .ne, false⟩], .atom ⟨"c", .eq, false⟩] ∧
    c.toStr = "'x' in, !=b || c" := ⟨_, rfl, rfl, by decide⟩

example : ∃ c, Generic.parseExtraConstraint "a, !=b" = .ok c ∧
    c = .multi true [⟨"a", .eq, true⟩, ⟨"b", .ne, true⟩] ∧ c.toStr = "a, !=b" := ⟨_, rfl, rfl, by decide⟩

/-! ## M — marker grammar, leaves, `_compact_markers`, `parse_marker` -/

/-- **M1.** The marker grammar rejects with lark's syntax error only. -/
theorem marker_parse_err_documented (s : String) (e : PyErr) (h : Marker.parseText s = .error e) :
    e = .syntax := parseText_err s e h

example : Marker.parseText "os_name ==" = .error .syntax := rfl
example : Marker.parseText "os_name == \"nt\" and (python_version >= \"3.8\" or extra == 'x')" =
    .ok (.more (.item "os_name" "==" "nt" false) false
      (.one (.paren (.more (.item "python_version" ">=" "3.8" false) true
        (.one (.item "extra" "==" "x" false)))))) := by decide +kernel

/-- **M2.** `SingleMarker(name, constraint_string, swapped)` fails with `ValueError`
(`InvalidMarkerError`, or a `ValueError` of the constraint parsers), or — only for `platform_release` —
the text leaves the model.  Hypothesis `VCErrDocumented`: the version-constraint parser raises
`ValueError` only (the `VParser` part of C19). -/
theorem mkSingle_err_classified (hvc : VCErrDocumented) (name cstr : String) (swapped : Bool) (e : PyErr)
    (h : mkSingle name cstr swapped = .error e) :
    e = .value ∨ (e = .unmodelled ∧ name = "platform_release") :=
  mkSingle_err hvc name cstr swapped e h

example : mkSingle "os_name" "" false = .error .value := rfl
example : mkSingle "extra" "'x' in" false = .error .value := rfl
example : mkSingle "platform_release" "==5.10.0-generic" false = .error .unmodelled := rfl
example : ∃ s, mkSingle "extra" "foo" false = .ok s ∧
    s.c = .gen (.atom ⟨"foo", .eq, true⟩) := ⟨_, rfl, rfl⟩
example : ∃ s, mkSingle "python_version" ">=3.8" false = .ok s := ⟨_, rfl⟩

/-- the statement for leaves without the model-coverage disjunct (what the code is expected to satisfy;
`.unmodelled` is not an outcome of the code) -/
def marker_leaf_err_documented_full_statement : Prop :=
  ∀ s syn e, parseText s = .ok syn → compactRaw syn = .error e → e = .value

/-- **M3 (partial: up to model coverage, under `VCErrDocumented`).** `_compact_markers` (without the final
simplification) on ANY syntax tree — in particular on every tree the grammar returns — fails with
`ValueError`, or the text leaves the model (a `platform_release` value that is not a PEP 440 version). -/
theorem compactRaw_err_classified_partial (hvc : VCErrDocumented) (s : String) (syn : Syn) (e : PyErr)
    (hs : parseText s = .ok syn) (h : compactRaw syn = .error e) :
    e = .value ∨ e = .unmodelled := compactRaw_err hvc syn e h

theorem compactSubMarkers_err_classified_partial (hvc : VCErrDocumented) (s : String) (syn : Syn)
    (e : PyErr) (hs : parseText s = .ok syn) (h : compactSubMarkers syn = .error e) :
    e = .value ∨ e = .unmodelled := compactSubMarkers_err hvc syn e h

example : ∃ syn, parseText "python_version == \"abc\" or os_name == \"nt\"" = .ok syn ∧
    compactRaw syn = .error .value :=
  ⟨.more (.item "python_version" "==" "abc" false) true (.one (.item "os_name" "==" "nt" false)),
    by decide +kernel, rfl⟩

/-- Regression (poetry-core 4011dd2): `parse_marker('os_name == "a, \'x\' IN"')` raised `KeyError: 'IN'`
(the value becomes the constraint string `==a, 'x' IN`, the comma splits it, the second clause matched
the `'value' op` form with operator text `IN`).  The leaf is built now (its constraint is empty) and
prints back. -/
example : ∃ syn m, parseText "os_name == \"a, 'x' IN\"" = .ok syn ∧ compactSubMarkers syn = .ok [m] ∧
    M.toStr m = .ok "os_name == \"a, 'x' IN\"" ∧ M.dump m = "S(os_name|==|a, 'x' IN|0|g:)" ∧
    ∃ r, compactRaw syn = .ok r :=
  ⟨.one (.item "os_name" "==" "a, 'x' IN" false), _, by decide +kernel, rfl, by decide +kernel,
    by decide +kernel, _, rfl⟩

/-- **M4.** A raw marker prints: `str()` of what `_compact_markers(…, top_level=False)` returns never
raises (it contains `SingleMarker` leaves only, so the `AttributeError` branches of the atomic
multi/union printers are out of reach). -/
theorem compactRaw_printable (syn : Syn) (m : M) (h : compactRaw syn = .ok m) :
    RawM m = true ∧ ∃ t, M.toStr m = .ok t :=
  ⟨compactRaw_raw syn m h, raw_toStr m (compactRaw_raw syn m h)⟩

theorem compactSubMarkers_printable (syn : Syn) (subs : List M) (h : compactSubMarkers syn = .ok subs) :
    ∀ m ∈ subs, RawM m = true ∧ ∃ t, M.toStr m = .ok t :=
  fun m hm => ⟨compactSubMarkers_raw syn subs h m hm, raw_toStr m (compactSubMarkers_raw syn subs h m hm)⟩

example : ∃ syn m, parseText "os_name == \"nt\" and (python_version >= \"3.8\" or extra == 'x')" = .ok syn ∧
    compactRaw syn = .ok m :=
  ⟨.more (.item "os_name" "==" "nt" false) false
      (.one (.paren (.more (.item "python_version" ">=" "3.8" false) true
        (.one (.item "extra" "==" "x" false))))), _, by decide +kernel, rfl⟩

/-! ### `parse_marker` -/

/-- the full statement; what is proved of it is `parse_marker_err_decomposed` /
`parse_marker_err_documented_partial` (the simplifier's errors stay a named hypothesis) -/
def parse_marker_err_documented_full_statement : Prop :=
  ∀ s e, parseMarker s = .error e → e = .syntax ∨ e = .value

/-- **M5 (decomposition).** An error of `parse_marker` is the grammar's syntax error, or a leaf error
(M2/M3), or it is raised by the simplifier `union(*sub_markers)` on sub-markers that are raw (and print). -/
theorem parse_marker_err_decomposed (hvc : VCErrDocumented) (s : String) (e : PyErr)
    (h : parseMarker s = .error e) :
    e = .syntax ∨ (e = .value ∨ e = .unmodelled) ∨
    ∃ syn subs, parseText s = .ok syn ∧ compactSubMarkers syn = .ok subs ∧
      (∀ m ∈ subs, RawM m = true) ∧ unionF defaultFuel [] subs = .error e := by
  rcases parseMarker_cases s _ h with ⟨_, h⟩ | ⟨_, _, h⟩ | ⟨_, _, _, h⟩
  · cases h
  · cases h
  · rcases h with ⟨e', h1, h2⟩ | ⟨syn, e', h1, h2, h3⟩ | ⟨syn, subs, h1, h2, h3⟩
    · cases h2; exact .inl (parseText_err s _ h1)
    · cases h3; exact .inr (.inl (compactSubMarkers_err hvc syn _ h2))
    · exact .inr (.inr ⟨syn, subs, h1, h2, compactSubMarkers_raw syn subs h2, h3.symm⟩)

/-- **M5 (partial).**  Named hypothesis `hsimp`: every error the simplifier raises on raw sub-markers lies
in `E` (the simplifier of MarkerAlg — fuel, recursion guard, constraint algebra — is not analysed here). -/
theorem parse_marker_err_documented_partial (hvc : VCErrDocumented) (E : PyErr → Prop)
    (hsimp : ∀ subs e, (∀ m ∈ subs, RawM m = true) → unionF defaultFuel [] subs = .error e → E e)
    (s : String) (e : PyErr) (h : parseMarker s = .error e) :
    e = .syntax ∨ (e = .value ∨ e = .unmodelled) ∨ E e := by
  rcases parse_marker_err_decomposed hvc s e h with h | h | ⟨_, subs, _, _, hr, hu⟩
  · exact .inl h
  · exact .inr (.inl h)
  · exact .inr (.inr (hsimp subs e hr hu))

example : parseMarker "os_name ==" = .error .syntax :=
  parseMarker_of_syntax_err _ _ (by decide) (by decide) (by decide) (by decide +kernel)
example : parseMarker "python_version == \"abc\"" = .error .value :=
  parseMarker_of_leaf_err _ (.one (.item "python_version" "==" "abc" false)) _
    (by decide) (by decide) (by decide) (by decide +kernel) rfl
example : parseMarker "" = .ok .any := rfl

end Poetry.C19

/-! # Part II — version constraints -/
/-!
C19 (version-constraint part) — `parse_constraint` / `parse_marker_version_constraint` accept or reject with
the documented error (`ValueError` and subclasses, `.value`), never crash, and what they return prints.
Property theorems only (helper lemmas in Proofs/ParserTotalVC.lean).  Vocabulary: `Clause c` — `c` is one of
the shapes `parse_single_constraint` builds; `Reach K c` — `c` is a `K`-clause met (`intersect`) with further
`K`-clauses; `Bad K e` — `e` is `ValueError`, or escaped from `acc.intersect(clause)` / `VersionUnion.of(groups)`
on such operands; `AllRng l` — every member of `l` is a `VersionRange`; `pieces s` — the clause texts of `s`.
-/
set_option linter.unusedSimpArgs false
set_option linter.unusedVariables false

namespace Poetry.C19
open Poetry Version VParser ParserTotal

/-! ## A. rejection with the documented error only -/

/-- the property at full strength: no `IndexError`, `AssertionError`, `AttributeError`, `RecursionError`,
`KeyError` (nor the model's `fuel` / `unmodelled`) escapes from the constraint parser, for any string.
NOT proved in full: what is missing is exactly `AlgebraTotal` below (see `vc_parse_err_decomposition`).
History: on poetry-core bc025c3 the statement was FALSE — `parse_constraint("==1.0a1.dev0.*,<=1.0")` raised
`AssertionError` (degenerate range `>=1.0a1.dev0,<1.0a1.dev0` from `_make_x_constraint_range`); fixed in
d270e58, see the regression example at the end of this section. -/
def vc_parse_err_documented_full_statement : Prop :=
  ∀ (s : String) (m : Bool) (e : PyErr), VParser.parseConstraintAux s m = .error e → e = .value

/-- **A1. `parse_single_constraint` raises `ValueError` only** — every character sequence, both modes.
(`Version.parse` raises `ValueError` only; `_make_x_constraint_range` never raises.) -/
theorem vc_parse_single_err_documented (cs : List Char) (m : Bool) (e : PyErr)
    (h : parseSingle cs m = .error e) : e = .value :=
  parseSingle_err_value cs m e h

/-- **A1'. `_make_x_constraint_range` (`==V.*`, `!=V.*`) is total**, and its result consists of ranges -/
theorem vc_make_x_range_total (v : Version) (invert isMarker : Bool) :
    ∃ c, makeXConstraintRange v invert isMarker = .ok c ∧ AllRng c.flatten :=
  makeXConstraintRange_ok v invert isMarker

/-- **`VersionUnion.of` never raises on ranges** (the merge loop's `RecursionError` needs a bare version among
the members); the result consists of ranges -/
theorem vc_union_of_ranges_total (l : List RC) (h : AllRng l) :
    ∃ res, unionOfFlat l = .ok res ∧ AllRng res.flatten :=
  unionOfFlat_allRng l h

example : AllRng [.rng ⟨none, some (Version.mk' 0 [1] none none none none), false, false⟩, .rng VRange.any] :=
  AllRng.nil.cons.cons

/-- **`VersionRange.difference(VersionRange)` never raises `AttributeError`** (`None.is_empty()` when a
`before`/`after` piece is a bare bound that is `None`): for ALL ranges, an exception of `a.difference(b)` is
an exception of `VersionUnion.of(before, after)`. -/
theorem vc_range_difference_no_attribute_error (a b : VRange) (e : PyErr)
    (h : RC.rngDifferenceRng a b = .error e) : ∃ x y, unionOfFlat [x, y] = .error e :=
  rngDifferenceRng_err a b e h

/-- **A2. what `parse_single_constraint` returns**: `*`, a well-formed version, a half line at a well-formed
version, a proper half-open range `[V, H)` with `V < H` both well-formed (`~V`, `^V`, `~=V`), the two half
lines of `!=V`, or the result of `_make_x_constraint_range` on a well-formed version.
Not proved: `min < max` for the `==V.*` range. -/
theorem vc_parse_single_shape (cs : List Char) (m : Bool) (c : VC) (h : parseSingle cs m = .ok c) : Clause c :=
  parseSingle_clause cs m c h

example : parseSingle "~=1.4.2".toList false =
    .ok (.single (.rng ⟨some ⟨0, [1, 4, 2], none, none, none, none, "1.4.2"⟩,
      some (Version.mk' 0 [1, 5, 0] none none none none), true, false⟩)) := by decide

/-- **A3. the `IndexError` of the group step is unreachable**: the and-splitter returns at least one piece -/
theorem vc_group_split_nonempty (s : List Char) : splitAnd s ≠ [] := splitAnd_ne_nil s

/-- **A4. decomposition** (every string, both modes): an exception of `_parse_constraint` is `ValueError`, or
it escaped from `acc.intersect(n)` with `acc` in the intersect-closure of clauses and `n` a clause, or from
`VersionUnion.of(gs)` with every `g` in that closure. -/
theorem vc_parse_err_decomposition (s : String) (m : Bool) (e : PyErr)
    (h : parseConstraintAux s m = .error e) :
    e = .value ∨ (∃ a n, Reach Clause a ∧ Clause n ∧ VC.intersect a n = .error e) ∨
      (∃ gs, (∀ g ∈ gs, Reach Clause g) ∧ VC.unionOf gs = .error e) := by
  rcases parseConstraintAux_spec Clause s m (fun p _ c hc => parseSingle_clause p m c hc) with ⟨c, hc⟩ | ⟨e', he, hb⟩
  · rw [hc] at h; cases h
  · rw [he] at h; cases h; exact hb

/-- **A4'. the property, given totality of the algebra on what the parser builds.**  `K` is any class of
clauses containing those of the string at hand (`K := Clause` for all strings; a smaller class makes
`AlgebraTotal K` easier).  Missing hypothesis for the full statement: `AlgebraTotal Clause`, i.e. that
`intersect` of an intersect-closure element with a clause and `VersionUnion.of` of such elements raise nothing
but `ValueError`. -/
theorem vc_parse_err_documented_partial (K : VC → Prop) (hA : AlgebraTotal K) (s : String) (m : Bool)
    (hK : ∀ p ∈ pieces s, ∀ c, parseSingle p m = .ok c → K c) (e : PyErr)
    (h : parseConstraintAux s m = .error e) : e = .value := by
  rcases parseConstraintAux_spec K s m hK with ⟨c, hc⟩ | ⟨e', he, hb⟩
  · rw [hc] at h; cases h
  · rw [he] at h; cases h; exact hb.value hA

/-- the same with `K := Clause`: `AlgebraTotal Clause` implies the full statement -/
theorem vc_parse_err_documented_of_algebra_total (hA : AlgebraTotal Clause) :
    vc_parse_err_documented_full_statement :=
  fun s m e h => vc_parse_err_documented_partial Clause hA s m (fun p _ c hc => parseSingle_clause p m c hc) e h

/-- **A5(i). a string that is a single clause** (one `||` group, one and-piece): unconditional -/
theorem vc_single_clause_err_documented (s : String) (m : Bool) (g p : List Char)
    (hs : splitOr (strip s.toList) = [g]) (hg : groupPieces g = [p]) (e : PyErr)
    (h : parseConstraintAux s m = .error e) : e = .value := by
  rw [parseConstraintAux_single_clause s m g p hs hg] at h
  split at h
  · cases h
  · exact parseSingle_err_value p m e h

example : splitOr (strip " >= 1.2.post3 ".toList) = [">= 1.2.post3".toList] ∧
    groupPieces ">= 1.2.post3".toList = [">= 1.2.post3".toList] := by decide

/-- **A5(iii). `||` of single clauses none of which is a bare / `==` version**: the parser returns or raises
`ValueError` (`VersionUnion.of` on ranges never raises). -/
theorem vc_or_of_range_clauses_err_documented (s : String) (m : Bool)
    (h : ∀ g ∈ splitOr (strip s.toList), ∃ p, groupPieces g = [p] ∧
      ∀ v, parseSingle p m ≠ .ok (.single (.ver v))) :
    (∃ c, parseConstraintAux s m = .ok c) ∨ parseConstraintAux s m = .error .value :=
  parse_or_of_range_clauses s m h

example : ∀ g ∈ splitOr (strip "<0.5 || >=1.0".toList), ∃ p, groupPieces g = [p] ∧
    ∀ v, parseSingle p false ≠ .ok (.single (.ver v)) := by
  have h : splitOr (strip "<0.5 || >=1.0".toList) = ["<0.5".toList, ">=1.0".toList] := by decide
  rw [h]
  intro g hg
  simp only [List.mem_cons, List.mem_nil_iff, or_false] at hg
  rcases hg with rfl | rfl
  · refine ⟨"<0.5".toList, by decide, fun v hv => ?_⟩
    have : (match parseSingle "<0.5".toList false with | .ok (.single (.rng _)) => true | _ => false) = true := by
      decide
    rw [hv] at this; cases this
  · refine ⟨">=1.0".toList, by decide, fun v hv => ?_⟩
    have : (match parseSingle ">=1.0".toList false with | .ok (.single (.rng _)) => true | _ => false) = true := by
      decide
    rw [hv] at this; cases this

/-- regression (d270e58): the former `AssertionError` witnesses are accepted, and the former degenerate range
is a proper one -/
example : (parseConstraint "==1.0a1.dev0.*,<=1.0").toBool = true ∧
    (parseConstraint "==1.0.post1.dev0.*,>1.0.0").toBool = true ∧
    (parseConstraint "==1.0a1.dev0.*,!=1.0.post2").toBool = true := by decide

/-! ## B. what the parser returns prints -/

/-- the property at full strength.  NOT proved in full: for a `VersionUnion` result, `__str__` calls
`excludes_single_version`, i.e. `VersionRange().difference(self)`; its totality on parsed unions is the
missing hypothesis (`vc_printable_partial`). -/
def vc_parsed_printable_full_statement : Prop :=
  ∀ (s : String) (m : Bool) (c : VC), VParser.parseConstraintAux s m = .ok c → ∃ t, VC.toStr c = .ok t

/-- **B1. every range prints — all ranges, not only parsed ones.**  No `IndexError` in the wildcard spelling:
`_is_wildcard_candidate` (with the D8 guard) implies a non-empty stripped release, whose last component is
non-zero. -/
theorem vc_range_printable (r : VRange) : ∃ t, r.toStr = .ok t := VRange.toStr_ok r

/-- **every version-or-range prints**, hence every empty / single-member constraint -/
theorem vc_member_printable (c : RC) : ∃ t, c.toStr = .ok t := RC.toStr_ok c

/-- the guard suffices, both orientations -/
theorem vc_wildcard_guard_suffices (mn mx : Version) (inv : Bool) (h : isWildcardCandidate mn mx inv = true) :
    ∃ t, singleWildcardRangeString (if inv then mx else mn) (if inv then mn else mx) = .ok t :=
  singleWildcardRangeString_ok _ _ (Or.inr (isWildcardCandidate_ne_nil h))

/-- **B2. a union prints whenever its complement can be computed** -/
theorem vc_union_printable_partial (rs : List RC) (hinv : ∀ e, VC.inverted rs ≠ .error e) :
    ∃ t, (VC.union rs).toStr = .ok t := by
  cases h : VC.inverted rs with
  | error e => exact absurd h (hinv e)
  | ok c => exact VC.union_toStr_ok rs c h

/-- **every constraint prints, given `_inverted` is total on it when it is a union** -/
theorem vc_printable_partial (c : VC) (hinv : ∀ rs, c = .union rs → ∀ e, VC.inverted rs ≠ .error e) :
    ∃ t, c.toStr = .ok t := by
  cases c with
  | empty => exact ⟨_, rfl⟩
  | single d => exact RC.toStr_ok d
  | union rs => exact vc_union_printable_partial rs (hinv rs rfl)

/-- the parsed form of the partial result: extra hypothesis `hinv` -/
theorem vc_parsed_printable_partial (s : String) (m : Bool) (c : VC) (h : parseConstraintAux s m = .ok c)
    (hinv : ∀ rs, c = .union rs → ∀ e, VC.inverted rs ≠ .error e) : ∃ t, VC.toStr c = .ok t :=
  vc_printable_partial c hinv

/-- **every single clause prints** — `!=V` and `!=V.*` included (their `_inverted` is computed explicitly) -/
theorem vc_clause_printable (cs : List Char) (m : Bool) (c : VC) (h : parseSingle cs m = .ok c) :
    ∃ t, c.toStr = .ok t :=
  (parseSingle_clause cs m c h).printable

/-- hence a string that is a single clause: unconditional -/
theorem vc_single_clause_printable (s : String) (m : Bool) (g p : List Char)
    (hs : splitOr (strip s.toList) = [g]) (hg : groupPieces g = [p]) (c : VC)
    (h : parseConstraintAux s m = .ok c) : ∃ t, c.toStr = .ok t := by
  rw [parseConstraintAux_single_clause s m g p hs hg] at h
  split at h
  · cases h; exact VC.single_toStr_ok _
  · exact vc_clause_printable p m c h

/-- **`!=V` prints as `!=V`**, for every `V` (only reflexivity of the version order is used) -/
theorem vc_ne_text (v : Version) :
    (VC.union [.rng ⟨none, some v, false, false⟩, .rng ⟨some v, none, false, false⟩]).toStr =
      .ok ("!=" ++ v.text) :=
  ne_toStr v

/-- `_inverted` of the two half lines of `!=V.*` never raises, whatever the order of the ends -/
theorem vc_ne_wildcard_inverted (mn mx : Version) :
    VC.inverted [.rng ⟨none, some mn, false, false⟩, .rng ⟨some mx, none, true, false⟩] =
      .ok (if Version.lt mn mx then .single (.rng ⟨some mn, some mx, true, false⟩) else .empty) :=
  inverted_neWild mn mx

/-! ### concrete strings -/

/-- the old `IndexError` witness of `__str__` (fixed by 4b3c12b; the model has the D8 guard) -/
example : (parseConstraint "!=0 || ==0.*" >>= VC.toStr) = .ok "<0 || >=0.dev0" := by decide

example : (parseConstraint "==1!1.0.*" >>= VC.toStr) = .ok "==1!1.0.*" := by decide
example : (parseConstraint ">=1.2,<2.0" >>= VC.toStr) = .ok ">=1.2,<2.0" := by decide
example : (parseConstraint "!=1.0+x" >>= VC.toStr) = .ok "!=1.0+x" := by decide
example : (parseConstraint "!=1.0.post1.*" >>= VC.toStr) = .ok "!=1.0.post1.*" := by decide
example : (parseMarkerVersionConstraint "!=1.*,!=2.*" >>= VC.toStr) = .ok "<1 || >=3" := by decide
example : parseConstraint "1.0,,2.0" = .error .value ∧ parseConstraint "" = .error .value ∧
    parseConstraint "||" = .error .value := by decide

end Poetry.C19

/-! # Part III — the two parts combined -/

namespace Poetry.C19
open Poetry Version VParser Marker ParserTotal

/-- the hypothesis of Part I about the version-constraint parser (`VCErrDocumented`) is exactly the marker-mode
instance of the full statement of Part II, hence follows from `AlgebraTotal Clause` -/
theorem vc_err_documented_of_algebra_total (hA : AlgebraTotal Clause) : VCErrDocumented :=
  fun s e h => vc_parse_err_documented_of_algebra_total hA s true e h

/-- **marker leaves (`SingleMarker.__init__`) under the single remaining hypothesis**: if `intersect` /
`VersionUnion.of` never raise on parser-built operands (`AlgebraTotal Clause`), every exception of
`SingleMarker(name, constraint_string)` is `InvalidMarkerError` (or the model's `unmodelled` for
`platform_release` literals outside PEP 440). -/
theorem marker_leaf_err_classified_of_algebra_total (hA : AlgebraTotal Clause) (name cstr : String)
    (swapped : Bool) (e : PyErr) (h : mkSingle name cstr swapped = .error e) :
    e = .value ∨ (e = .unmodelled ∧ name = "platform_release") :=
  mkSingle_err_classified (vc_err_documented_of_algebra_total hA) name cstr swapped e h

end Poetry.C19

/-! # Part IV — version constraints: the algebra hypothesis discharged outside the local-label case -/
/-!
C19, Part IV — the constraint algebra is total on what the parser builds when no clause denotes a local build.
Property theorems only (helper lemmas in Proofs/ParserTotalVC2.lean).  Vocabulary: `clauseBounds s m` — every
`min`/`max` version of every clause of `s`; `NoLocalBound s m` — none of them carries a local label (`V+x`);
`RegularBounds s m` — any two of them are equal or of different releases; `Inv B c` — every member of `c` is
well-formed (ends well-formed, `min < max`), tidy (an absent bound is not "included") and has its bounds in `B`;
`Plain c` — well-formed and not a `VersionUnion`.
-/
set_option linter.unusedSimpArgs false
set_option linter.unusedVariables false

namespace Poetry.C19
open Poetry Version VParser ParserTotal

/-! ## the algebra on invariant operands -/

/-- **`a.intersect(b)` is total and keeps the invariant**, for any two constraints (unions included) whose
members are well-formed and tidy over a bound set without local builds: `VersionRange.intersect`'s asserts do
not fire, the merge walk of `VersionUnion.intersect` ends within the model's fuel, `VersionUnion.of` of the
collected parts does not recurse. -/
theorem vc_intersect_total_nolocal (B : List Version) (hN : NoLocal B) (a b : VC) (ha : Inv B a) (hb : Inv B b) :
    ∃ c, VC.intersect a b = .ok c ∧ Inv B c :=
  vcIntersect_inv hN a b ha hb

/-- **`VersionUnion.of(*groups)` is total and keeps the invariant** under the same hypotheses -/
theorem vc_union_of_total_nolocal (B : List Version) (hN : NoLocal B) (gs : List VC) (h : ∀ g ∈ gs, Inv B g) :
    ∃ c, VC.unionOf gs = .ok c ∧ Inv B c :=
  unionOf_inv hN gs h

/-- hence the hypothesis of Part II holds for the class of invariant constraints -/
theorem vc_algebra_total_nolocal (B : List Version) (hN : NoLocal B) : AlgebraTotal (Inv B) :=
  algebraTotal_inv hN

/-- every parsed clause is invariant over any bound set containing its bounds (well-formedness: Part of C18;
tidiness: by the clause shapes) -/
theorem vc_clause_invariant (B : List Version) (p : List Char) (m : Bool) (c : VC)
    (h : parseSingle p m = .ok c) (hb : ∀ e ∈ c.bounds, e ∈ B) : Inv B c :=
  parseSingle_inv p m c h hb

/-! ## A. the documented error only — every string without a local bound -/

/-- **`_parse_constraint` returns or raises `ValueError`, for every string none of whose clauses denotes a
local build** (both modes; any number of `,` and `||`, `!=`, wildcards, `~`, `^`, `~=` included).  The returned
constraint satisfies the invariant over the bounds the string denotes. -/
theorem vc_parse_total_nolocal (s : String) (m : Bool) (h : NoLocalBound s m) :
    (∃ c, parseConstraintAux s m = .ok c ∧ Inv (clauseBounds s m) c) ∨
      parseConstraintAux s m = .error .value :=
  parseConstraintAux_nolocal s m h

/-- the same as an error classification -/
theorem vc_parse_err_documented_nolocal (s : String) (m : Bool) (h : NoLocalBound s m) (e : PyErr)
    (he : parseConstraintAux s m = .error e) : e = .value := by
  rcases parseConstraintAux_nolocal s m h with ⟨c, hc, _⟩ | hv
  · rw [hc] at he; cases he
  · rw [hv] at he; cases he; rfl

example : NoLocalBound ">=1.2,<2.0,!=1.5 || ==3.* || ~=4.1.post2 || ^0.0.3rc1,!=0.0.3" false := by decide
example : NoLocalBound "!=1.*,!=2.*,>=0.5.dev3" true := by decide
example : ¬ NoLocalBound ">=1.0+x || 1.0" false := by decide

/-- what remains of the full statement of Part II: strings with a clause that denotes a local build -/
def vc_parse_err_documented_local_case_statement : Prop :=
  ∀ (s : String) (m : Bool) (e : PyErr), ¬ NoLocalBound s m → parseConstraintAux s m = .error e → e = .value

/-- **the full statement of Part II is equivalent to its local-label case** -/
theorem vc_parse_err_documented_full_iff_local_case :
    vc_parse_err_documented_full_statement ↔ vc_parse_err_documented_local_case_statement := by
  constructor
  · intro h s m e _ he; exact h s m e he
  · intro h s m e he
    by_cases hn : NoLocalBound s m
    · exact vc_parse_err_documented_nolocal s m hn e he
    · exact h s m e hn he

/-- **one `||` group whose clauses are not unions (no `!=`): unconditional — local labels included.**
(`Version`/`VersionRange` intersections are total on well-formed operands and stay non-unions.) -/
theorem vc_plain_group_err_documented (s : String) (m : Bool) (g : List Char)
    (hs : splitOr (strip s.toList) = [g])
    (h : ∀ p ∈ groupPieces g, ∀ c, parseSingle p m = .ok c → c.notUnion) :
    (∃ c, parseConstraintAux s m = .ok c) ∨ parseConstraintAux s m = .error .value := by
  rw [parseConstraintAux_one_group s m g hs]
  split
  · exact Or.inl ⟨_, rfl⟩
  · rcases parseGroup_plain g m h with ⟨c, hc, _⟩ | hv
    · exact Or.inl ⟨c, hc⟩
    · exact Or.inr hv

example : splitOr (strip ">=1.0+x, <=2.0+y.1 1.5+z".toList) = [">=1.0+x, <=2.0+y.1 1.5+z".toList] ∧
    plainGroupB ">=1.0+x, <=2.0+y.1 1.5+z".toList false = true := by decide

example : ∀ p ∈ groupPieces ">=1.0+x, <=2.0+y.1 1.5+z".toList, ∀ c, parseSingle p false = .ok c → c.notUnion :=
  plainGroup_of_check _ _ (by decide)

/-- the group step alone, for any group of non-union clauses -/
theorem vc_plain_group_total (g : List Char) (m : Bool)
    (h : ∀ p ∈ groupPieces g, ∀ c, parseSingle p m = .ok c → c.notUnion) :
    (∃ c, parseGroup g m = .ok c ∧ ParserTotal.Plain c) ∨ parseGroup g m = .error .value :=
  parseGroup_plain g m h

/-! ## B. printing — no local bound, mutually regular bounds -/

/-- **`VersionUnion._inverted` is total** on a union whose members are invariant over a bound set that has no
local build and is mutually regular -/
theorem vc_inverted_total_regular (B : List Version) (hN : NoLocal B) (hR : MutReg B) (rs : List RC)
    (h : ∀ c ∈ rs, MemOK B c) : ∃ res, VC.inverted rs = .ok res :=
  inverted_total_inv hN hR rs h

/-- **what the parser returns prints**, for every string whose clause bounds carry no local label and are
mutually regular (any two equal or of different releases).  Missing for the full statement of Part II:
`_inverted` on unions with two bounds of the same release that differ (e.g. `1.0` and `1.0.post1`) or with a
local bound. -/
theorem vc_parsed_printable_regular (s : String) (m : Bool) (hN : NoLocalBound s m) (hR : RegularBounds s m)
    (c : VC) (h : parseConstraintAux s m = .ok c) : ∃ t, c.toStr = .ok t :=
  parsed_printable_regular s m hN hR c h

example : NoLocalBound ">=1.2,<2.0,!=1.5 || ==3.* || <0.5" false ∧
    RegularBounds ">=1.2,<2.0,!=1.5 || ==3.* || <0.5" false :=
  ⟨by decide, regularBounds_of_check _ _ (by decide)⟩

example : (parseConstraint ">=1.2,<2.0,!=1.5 || ==3.* || <0.5" >>= VC.toStr) =
    .ok "<0.5 || >=1.2,<1.5 || >1.5,<2.0 || ==3.*" := by decide

/-- not covered: two bounds of the same release (`1.0`, `1.0.post1`) -/
example : regularBoundsB ">1.0 || <1.0.post1" false = false := by decide

end Poetry.C19

/-! # Part V — PEP 508 requirements and dependencies -/
/-!
C19, Part V — requirement strings (`Requirement.__init__`) and `Dependency.create_from_pep_508`.
Property theorems only (helper lemmas: Proofs/ParserTotalReq.lean).  Fragment to be appended to Props/C19.lean
(the `import` of Props/C19 below only serves the stand-alone build: it provides
`vc_parse_err_documented_full_statement` and `vc_parsed_printable_full_statement`).

The documented error is `InvalidRequirementError` / `ValueError` (`.value`): `Requirement.__init__` wraps lark's
errors, `RecursionError` (repo 9ad3a46) and `ParseConstraintError`.  `.unmodelled` = the text leaves the model
(URL outside printable ASCII without brackets; `file:` / local-path / `%`-quoted URLs and git URLs outside the
restricted grammar in `create_from_pep_508`; `platform_release` marker values) — never a claim about the code.
What the two entry points add to the parsers analysed in Parts I–IV is classified here completely; what they
delegate stays visible as named disjuncts: the version-constraint parser (Part II/IV), `str()` of the parsed
constraint (Part II.B), the marker simplifier `union(*sub_markers)` and `convert_markers` (not analysed).
-/
set_option linter.unusedSimpArgs false
set_option linter.unusedVariables false

namespace Poetry.C19
open Poetry Marker Req Dep ParserTotal

/-! # Part V — requirements and dependencies -/

/-! ## R1 — `Requirement(text)` -/

/-- the full statement.  NOT proved in full; see `req_parse_err_decomposed` for exactly what is missing. -/
def req_parse_err_documented_full_statement : Prop :=
  ∀ s e, Req.parse s = .error e → e = .value

/-- the statement up to model coverage -/
def req_parse_err_classified_full_statement : Prop :=
  ∀ s e, Req.parse s = .error e → e = .value ∨ e = .unmodelled

/-- **R1 (grammar).** A text the PEP 508 grammar rejects is rejected with `ValueError`. -/
theorem req_grammar_err_documented (s : String) (h : parseRaw s.toList = none) :
    Req.parse s = .error .value := by
  unfold Req.parse parseL
  rw [h]

example : parseRaw "foo @".toList = none ∧ Req.parse "foo @" = .error .value := ⟨rfl, rfl⟩
example : Req.parse "foo >=1.0 ; os_name ==" = .error .value :=
  eq_error_of_isErrB _ _ (by decide +kernel)

/-- **R1 (decomposition, no hypothesis).** An error of `Requirement(text)` is: the grammar's (`ValueError`);
the URL check's (`ValueError`, or the URL leaves the model); the version-constraint parser's, on the
comma-join of the specifier tokens (`*` when there are none); or raised while compacting the marker
(`_compact_markers` + `union`). -/
theorem req_parse_err_decomposed (s : String) (e : PyErr) (h : Req.parse s = .error e) :
    e = .value ∨ e = .unmodelled ∨
    (∃ raw, parseRaw s.toList = some raw ∧
      VParser.parseConstraint (constraintTextOf raw.specs) = .error e) ∨
    (∃ raw syn, parseRaw s.toList = some raw ∧ raw.marker = some syn ∧ compactTop syn = .error e) := by
  rcases parseL_err s.toList e h with h | ⟨raw, hr, h⟩
  · exact .inl h
  · rcases ofRaw_err' raw e h with ⟨_, h | h⟩ | h | ⟨syn, hs, h⟩
    · exact .inl h
    · exact .inr (.inl h)
    · exact .inr (.inr (.inl ⟨raw, hr, h⟩))
    · exact .inr (.inr (.inr ⟨raw, syn, hr, hs, h⟩))

/-- … with the marker part split (under `VCErrDocumented`, Part III): marker leaves fail with `ValueError`
or leave the model (`platform_release`); what remains is the simplifier on raw sub-markers. -/
theorem req_parse_err_decomposed_marker (hvc : VCErrDocumented) (s : String) (e : PyErr)
    (h : Req.parse s = .error e) :
    e = .value ∨ e = .unmodelled ∨
    (∃ raw, parseRaw s.toList = some raw ∧
      VParser.parseConstraint (constraintTextOf raw.specs) = .error e) ∨
    (∃ subs, (∀ m ∈ subs, RawM m = true) ∧ unionF defaultFuel [] subs = .error e) := by
  rcases req_parse_err_decomposed s e h with h | h | h | ⟨raw, syn, _, _, h⟩
  · exact .inl h
  · exact .inr (.inl h)
  · exact .inr (.inr (.inl h))
  · rcases compactTop_err hvc syn e h with (h | h) | h
    · exact .inl h
    · exact .inr (.inl h)
    · exact .inr (.inr (.inr h))

/-- **R1 (partial).** Named hypotheses: `hV` — the version-constraint parser raises `ValueError` only, for
every string in both modes (Part II `vc_parse_err_documented_full_statement`; proved outside the local-label
case in Part IV); `hsimp` — every error of the simplifier on raw sub-markers lies in `E` (as in
`parse_marker_err_documented_partial`). -/
theorem req_parse_err_documented_partial (hV : vc_parse_err_documented_full_statement) (E : PyErr → Prop)
    (hsimp : ∀ subs e, (∀ m ∈ subs, RawM m = true) → unionF defaultFuel [] subs = .error e → E e)
    (s : String) (e : PyErr) (h : Req.parse s = .error e) :
    e = .value ∨ e = .unmodelled ∨ E e := by
  have hvc : VCErrDocumented := fun t e' ht => hV t true e' ht
  rcases req_parse_err_decomposed_marker hvc s e h with h | h | ⟨raw, _, h⟩ | ⟨subs, hr, h⟩
  · exact .inl h
  · exact .inr (.inl h)
  · exact .inl (hV _ false e h)
  · exact .inr (.inr (hsimp subs e hr h))

/-- **R1 (unconditional fragment: no marker).** Without a marker, the only undischarged source is the
version-constraint parser on the specifier text. -/
theorem req_no_marker_err (s : String) (raw : Raw) (e : PyErr) (hr : parseRaw s.toList = some raw)
    (hm : raw.marker = none) (h : Req.parse s = .error e) :
    e = .value ∨ e = .unmodelled ∨ VParser.parseConstraint (constraintTextOf raw.specs) = .error e := by
  rcases req_parse_err_decomposed s e h with h | h | ⟨raw', hr', h⟩ | ⟨raw', syn, hr', hs, _⟩
  · exact .inl h
  · exact .inr (.inl h)
  · rw [hr] at hr'; cases hr'; exact .inr (.inr h)
  · rw [hr] at hr'; cases hr'; rw [hm] at hs; cases hs

/-- **R1 (unconditional fragment: name, extras, URL only).** A requirement without version specifier and
without marker fails with `ValueError`, or its URL leaves the model — no hypothesis. -/
theorem req_no_marker_no_spec_err_documented (s : String) (raw : Raw) (e : PyErr)
    (hr : parseRaw s.toList = some raw) (hs : raw.specs = none) (hm : raw.marker = none)
    (h : Req.parse s = .error e) : e = .value ∨ e = .unmodelled := by
  rcases req_no_marker_err s raw e hr hm h with h | h | h
  · exact .inl h
  · exact .inr h
  · rw [hs] at h
    simp only [constraintTextOf] at h
    rw [vc_star] at h; cases h

/-- such requirements: accepted; rejected by the URL check (`urlparse` finds neither scheme+netloc nor path);
outside the model (a tab inside the URL) -/
example : ∃ raw r, parseRaw "foo[a,b] @ https://example.com/foo-1.0-py3-none-any.whl".toList = some raw ∧
    raw.specs = none ∧ raw.marker = none ∧
    Req.parse "foo[a,b] @ https://example.com/foo-1.0-py3-none-any.whl" = .ok r ∧
    r.constraintText = "*" := ⟨_, _, rfl, rfl, rfl, rfl, rfl⟩
example : ∃ raw, parseRaw "foo @ #".toList = some raw ∧ raw.specs = none ∧ raw.marker = none ∧
    Req.parse "foo @ #" = .error .value := ⟨_, rfl, rfl, rfl, rfl⟩
example : ∃ raw, parseRaw "foo @ http://exa\tmple.com/x".toList = some raw ∧ raw.specs = none ∧
    raw.marker = none ∧ Req.parse "foo @ http://exa\tmple.com/x" = .error .unmodelled :=
  ⟨_, rfl, rfl, rfl, rfl⟩
/-- the other disjuncts occur: the constraint parser's `ValueError`; a marker leaf's `ValueError` -/
example : ∃ raw, parseRaw "foo >=abc".toList = some raw ∧ raw.marker = none ∧
    VParser.parseConstraint (constraintTextOf raw.specs) = .error .value ∧
    Req.parse "foo >=abc" = .error .value := ⟨_, rfl, rfl, rfl, rfl⟩
example : ∃ r, Req.parse "foo[a,b]>=1.0,<2" = .ok r ∧ r.constraintText = ">=1.0,<2" :=
  ⟨_, rfl, by decide +kernel⟩
example : Req.parse "foo ; python_version == \"abc\"" = .error .value :=
  eq_error_of_isErrB _ _ (by decide +kernel)

/-! ## R2 — `Dependency.create_from_pep_508(text)` -/

/-- the full statement (up to model coverage).  NOT proved in full; see `dep_parse_err_decomposed`. -/
def dep_parse_err_classified_full_statement : Prop :=
  ∀ s e, createFromPep508 s = .error e → e = .value ∨ e = .unmodelled

/-- **R2 (after `parse_requirement`).** `create_from_pep_508` on a parsed requirement fails with `ValueError`
("Invalid wheel name", `URLDependency` without scheme/netloc), or leaves the model (file-system probes, git
URLs outside the restricted grammar, `%`-quoted paths), or: the version-constraint parser rejects the version
taken from a wheel file name; `str(constraint)` of the parsed constraint raises (plain `Dependency`); the
`marker` setter raises.  The dispatch itself adds nothing else — in particular the `AssertionError` of
`create_nested_marker` for an empty constraint (`nestedGS`) belongs to `to_pep_508`, which
`create_from_pep_508` never calls. -/
theorem dep_from_req_err_decomposed (req : Requirement) (e : PyErr) (h : fromReq req = .error e) :
    e = .value ∨ e = .unmodelled ∨
    (req.url.isSome ∧ ∃ t, VParser.parseConstraint t = .error e) ∨
    (req.url = none ∧ req.constraint.toStr = .error e) ∨
    (∃ (d : Dep) (m : M), req.marker = some m ∧ d.setMarker m = .error e) := fromReq_err req e h

/-- **R2 (the `marker` setter).** `dep.marker = m` fails with `ValueError` (`InvalidVersionError` from
`normalize_python_version_markers`), or in `convert_markers(m)` (DNF through the simplifier; its assertion
that conjunctions hold single-marker-likes only), or in the version-constraint parser on the normalised
`python_version` text. -/
theorem dep_set_marker_err_decomposed (d : Dep) (m : M) (e : PyErr) (h : d.setMarker m = .error e) :
    e = .value ∨ (∃ key, convertMarkersFor key m = .error e) ∨
    ∃ t, VParser.parseConstraint t = .error e := setMarker_err d m e h

/-- **R2 (decomposition, under `VCErrDocumented`).** -/
theorem dep_parse_err_decomposed (hvc : VCErrDocumented) (s : String) (e : PyErr)
    (h : createFromPep508 s = .error e) :
    e = .value ∨ e = .unmodelled ∨
    (∃ t, VParser.parseConstraint t = .error e) ∨
    (∃ subs, (∀ m ∈ subs, RawM m = true) ∧ unionF defaultFuel [] subs = .error e) ∨
    (∃ t c, VParser.parseConstraint t = .ok c ∧ c.toStr = .error e) ∨
    (∃ key m, convertMarkersFor key m = .error e) := by
  rcases createFromPep508L_err s.toList e h with h | ⟨req, hreq, h⟩
  · rcases req_parse_err_decomposed_marker hvc (String.ofList (stripComment s.toList)) e
        (by simpa [Req.parse] using h) with h | h | ⟨_, _, h⟩ | h
    · exact .inl h
    · exact .inr (.inl h)
    · exact .inr (.inr (.inl ⟨_, h⟩))
    · exact .inr (.inr (.inr (.inl h)))
  · rcases fromReq_err req e h with h | h | ⟨_, h⟩ | ⟨_, h⟩ | ⟨d, m, _, h⟩
    · exact .inl h
    · exact .inr (.inl h)
    · exact .inr (.inr (.inl h))
    · refine .inr (.inr (.inr (.inr (.inl ⟨req.constraintText, req.constraint, ?_, h⟩))))
      unfold parseL at hreq
      split at hreq
      · cases hreq
      · exact (ofRaw_ok _ _ hreq).1
    · rcases setMarker_err d m e h with h | ⟨key, h⟩ | h
      · exact .inl h
      · exact .inr (.inr (.inr (.inr (.inr ⟨key, m, h⟩))))
      · exact .inr (.inr (.inl h))

/-- **R2 (partial).** Named hypotheses: `hV` — the version-constraint parser raises `ValueError` only
(Part II full statement; Part IV proves it outside the local-label case); `hP` — what it returns prints
(Part II.B full statement; Part IV proves it for regular bounds); `hsimp` / `hconv` — every error of the
marker simplifier on raw sub-markers / of `convert_markers` lies in `E` (neither is analysed here; `hconv`
covers the `AssertionError` inside `convert_markers`). -/
theorem dep_parse_err_classified_partial (hV : vc_parse_err_documented_full_statement)
    (hP : vc_parsed_printable_full_statement) (E : PyErr → Prop)
    (hsimp : ∀ subs e, (∀ m ∈ subs, RawM m = true) → unionF defaultFuel [] subs = .error e → E e)
    (hconv : ∀ key m e, convertMarkersFor key m = .error e → E e)
    (s : String) (e : PyErr) (h : createFromPep508 s = .error e) :
    e = .value ∨ e = .unmodelled ∨ E e := by
  have hvc : VCErrDocumented := fun t e' ht => hV t true e' ht
  rcases dep_parse_err_decomposed hvc s e h with h | h | ⟨t, h⟩ | ⟨subs, hr, h⟩ | ⟨t, c, hc, h⟩ | ⟨key, m, h⟩
  · exact .inl h
  · exact .inr (.inl h)
  · exact .inl (hV t false e h)
  · exact .inr (.inr (hsimp subs e hr h))
  · obtain ⟨txt, htxt⟩ := hP t false c hc
    rw [htxt] at h; cases h
  · exact .inr (.inr (hconv key m e h))

/-- **R2 (unconditional fragment).** URL and VCS requirements without marker whose file name is not a wheel:
`ValueError` or outside the model, no hypothesis. -/
theorem dep_from_req_url_no_marker_err (req : Requirement) (e : PyErr) (hm : req.marker = none)
    (hu : req.url.isSome) (h : fromReq req = .error e) :
    e = .value ∨ e = .unmodelled ∨ ∃ t, VParser.parseConstraint t = .error e := by
  rcases fromReq_err req e h with h | h | ⟨_, h⟩ | ⟨hn, _⟩ | ⟨_, m, hs, _⟩
  · exact .inl h
  · exact .inr (.inl h)
  · exact .inr (.inr h)
  · rw [hn] at hu; cases hu
  · rw [hm] at hs; cases hs

example : ∃ d, createFromPep508 "foo" = .ok d ∧ d.kind = .registry := ⟨_, rfl, rfl⟩
example : ∃ d, createFromPep508 "foo[a,b]>=1.0,<2" = .ok d ∧ d.prettyConstraint = ">=1.0,<2" ∧
    d.spec.features = ["a", "b"] := ⟨_, rfl, by decide +kernel, by decide +kernel⟩
example : ∃ d, createFromPep508 "foo @ https://example.com/foo-1.0-py3-none-any.whl" = .ok d ∧
    d.kind = .url "https://example.com/foo-1.0-py3-none-any.whl" none := ⟨_, rfl, by decide +kernel⟩
example : ∃ d, createFromPep508 "foo @ git+https://github.com/a/b.git@main" = .ok d ∧
    d.kind = .vcs "git" "https://github.com/a/b.git" none none (some "main") none :=
  ⟨_, rfl, by decide +kernel⟩
example : createFromPep508 "foo @" = .error .value := rfl
example : createFromPep508 "foo @ https://example.com/foo.whl" = .error .value := rfl
example : createFromPep508 "foo @ file:///x" = .error .unmodelled := rfl
example : createFromPep508 "foo >=abc" = .error .value := rfl

end Poetry.C19

/-! # Part VI — version constraints: the local-label case closed; both full statements of Part II proved -/
/-!
C19, Part VI — version constraints: `parse_constraint` / `parse_marker_version_constraint` raise `ValueError`
only, for EVERY string (the local-label case of Part IV closed).  Property theorems only (helper lemmas in
Proofs/ParserTotalVC3.lean).  Vocabulary: `Good l` — every member of `l` is well-formed (ends well-formed,
`min < max`) and tidy (an absent bound is not "included"); `GoodVC c := Good c.flatten`; `SortedLt l` — sorted
for Python's `<` as `list.sort()` leaves it (no later element smaller than an earlier one); `MinOK acc l` — no
bare version of `l` is strictly below the lower bound of a member of `acc`.
-/
set_option linter.unusedSimpArgs false
set_option linter.unusedVariables false

namespace Poetry.C19
open Poetry Version VParser ParserTotal

/-! ## `VersionUnion.of` never recurses -/

/-- a version that allows a local build of itself without being equal to it is strictly below it
(`1.0 < 1.0+x`): the fact that makes the one non-mergeable pair contradict the sort order -/
theorem vc_public_version_below_local_build (v m : Version) (hm : m.wf = true) (h : v.allows m = true)
    (hl : m.isLocal = true) (hne : Version.eqv v m = false) : vk v < vk m :=
  lt_of_allows_local hm h hl hne

/-- **the merge loop of `VersionUnion.of` never raises `RecursionError` on a sorted list** of well-formed tidy
members — bare versions and local labels included.  The only pair the loop wants to merge although `a.union(b)`
is not a single member is a range starting at a local build `V+x` followed by the bare version `V`; `list.sort()`
puts `V` first. -/
theorem vc_merge_loop_total_sorted (l acc : List RC) (hg : Good (l ++ acc)) (hs : SortedLt l) (hi : MinOK acc l) :
    ∃ res, mergeLoop l acc = .ok res :=
  mergeLoop_total_sorted l acc hg hs hi

/-- **`VersionUnion.of(*members)` is total** on well-formed tidy members (no sortedness, no local-label
hypothesis: it sorts first) and returns well-formed tidy members -/
theorem vc_union_of_flat_total (l : List RC) (hg : Good l) : ∃ res, unionOfFlat l = .ok res ∧ Good res.flatten :=
  unionOfFlat_total_good l hg

/-! ## the algebra on well-formed tidy operands -/

/-- **`a.intersect(b)` is total** for any two well-formed tidy constraints — unions and local labels included:
the asserts of `VersionRange.intersect` do not fire, the merge walk of `VersionUnion.intersect` ends within the
model's fuel, `VersionUnion.of` of the collected parts does not recurse; the result is again well-formed and tidy. -/
theorem vc_intersect_total (a b : VC) (ha : GoodVC a) (hb : GoodVC b) : ∃ c, VC.intersect a b = .ok c ∧ GoodVC c :=
  vcIntersect_good a b ha hb

/-- **`VersionUnion.of(*constraints)` is total** on well-formed tidy constraints -/
theorem vc_union_of_total (gs : List VC) (h : ∀ g ∈ gs, GoodVC g) : ∃ c, VC.unionOf gs = .ok c ∧ GoodVC c :=
  unionOf_good gs h

/-- every clause `parse_single_constraint` returns is well-formed and tidy -/
theorem vc_clause_good (p : List Char) (m : Bool) (c : VC) (h : parseSingle p m = .ok c) : GoodVC c :=
  parseSingle_good p m c h

/-- **the hypothesis of Part II holds** for the class of well-formed tidy constraints, which contains every clause -/
theorem vc_algebra_total : AlgebraTotal GoodVC := algebraTotal_good

/-! ## A. the documented error only — every string -/

/-- **`_parse_constraint` returns a well-formed tidy constraint or raises `ValueError`**: every string, both
modes, any number of `,` and `||`, `!=`, wildcards, `~`, `^`, `~=`, local labels. -/
theorem vc_parse_total (s : String) (m : Bool) :
    (∃ c, parseConstraintAux s m = .ok c ∧ GoodVC c) ∨ parseConstraintAux s m = .error .value :=
  parseConstraintAux_total s m

/-- **the full statement of Part II** (`vc_parse_err_documented_full_statement`): no `IndexError`,
`AssertionError`, `AttributeError`, `RecursionError`, `KeyError` (nor the model's `fuel` / `unmodelled`) escapes
from the constraint parser, for any string. -/
theorem vc_parse_err_documented : vc_parse_err_documented_full_statement := by
  intro s m e he
  rcases parseConstraintAux_total s m with ⟨c, hc, _⟩ | hv
  · rw [hc] at he; cases he
  · rw [hv] at he; cases he; rfl

/-- in particular the local-label case left open in Part IV -/
theorem vc_parse_err_documented_local_case : vc_parse_err_documented_local_case_statement :=
  fun s m e _ he => vc_parse_err_documented s m e he

/-- and the hypothesis `VCErrDocumented` of Parts I and III (the marker-mode instance) -/
theorem vc_err_documented : VCErrDocumented :=
  fun s e he => vc_parse_err_documented s true e he

/-- `parse_constraint` and `parse_marker_version_constraint`, spelled out -/
theorem vc_parse_constraint_err_documented (s : String) (e : PyErr) :
    (parseConstraint s = .error e → e = .value) ∧ (parseMarkerVersionConstraint s = .error e → e = .value) :=
  ⟨vc_parse_err_documented s false e, vc_parse_err_documented s true e⟩

/-! ### concrete local-label strings (none satisfies `NoLocalBound` of Part IV) -/

example : ¬ NoLocalBound ">=1.0+x || 1.0" false ∧ ¬ NoLocalBound "1.0,>=1.0+x" false ∧
    ¬ NoLocalBound "!=1.0+x,!=1.0" false ∧ ¬ NoLocalBound "<=1.0+x,>=1.0 || ==1.0+y.*" true := by decide

example : (parseConstraint ">=1.0+x || 1.0" >>= VC.toStr) = .ok ">=1.0+x" ∧
    (parseConstraint "1.0,>=1.0+x" >>= VC.toStr) = .ok ">=1.0+x,<1.0.1" ∧
    (parseConstraint "!=1.0+x,!=1.0" >>= VC.toStr) = .ok "!=1.0+x" ∧
    (parseMarkerVersionConstraint "<=1.0+x,>=1.0 || ==1.0+y.*" >>= VC.toStr) =
      .ok ">=1.0,<=1.0+x || >=1.0+y,<1.1+y" := by decide

/-! ## B. what the parser returns prints — every string -/

/-- **`a.difference(b)` for two members is total whenever all bounds are well-formed versions**: no `min < max`,
no regularity, local labels allowed (`VersionUnion.of(before, after)` does not recurse; a union result has a
first and a last member). -/
theorem vc_member_difference_total (a b : RC) (ha : a.wfB) (hb : b.wfB) :
    ∃ d, RC.difference a b = .ok d ∧ BW d.flatten ∧ ∀ ds, d = .union ds → ds ≠ [] :=
  difference_total_bw a b ha hb

/-- **`VersionUnion._inverted` (`VersionRange().difference(self)`) always returns** when all bounds are
well-formed versions — the hypothesis `hinv` of Part II.B, for every union -/
theorem vc_inverted_total (rs : List RC) (h : BW rs) : ∃ res, VC.inverted rs = .ok res :=
  inverted_total_bw rs h

/-- **every constraint whose bounds are well-formed versions prints** (all such constraints, not only parsed
ones) -/
theorem vc_printable_total (c : VC) (h : BW c.flatten) : ∃ t, c.toStr = .ok t :=
  toStr_total_bw c h

/-- **the full statement of Part II.B** (`vc_parsed_printable_full_statement`): whatever
`parse_constraint` / `parse_marker_version_constraint` return can be printed. -/
theorem vc_parsed_printable : vc_parsed_printable_full_statement := by
  intro s m c h
  rcases parseConstraintAux_total s m with ⟨c', hc', hg⟩ | hv
  · rw [hc'] at h; cases h; exact toStr_total_bw c hg.bw
  · rw [hv] at h; cases h

/-- not covered by `RegularBounds` of Part IV (`1.0`, `1.0.post1`, `1.0+x` are of one release) -/
example : regularBoundsB ">1.0 || <1.0.post1 || !=1.0+x,!=1.0.post1" false = false ∧
    (parseConstraint "<1.0 || >1.0.post1,!=1.0.post2+x || 1.0+x" >>= VC.toStr) =
      .ok "<1.0 || 1.0+x || >1.0.post1,<1.0.post2+x || >1.0.post2+x" := by decide

end Poetry.C19

/-! # Part VII — the marker simplifier: error classification of the whole mutual block -/
/-!
C19, Part VII — the marker simplifier: which errors `union(*markers)` / `intersection(*markers)` / `cnf` /
`dnf` / `MultiMarker.of` / `MarkerUnion.of` / `_merge_single_markers` can return, and with it `parse_marker`
and `Requirement(text)` modulo the version-constraint algebra only.
Property theorems only (helper lemmas: Proofs/ParserTotalSimp.lean).  Fragment to be appended to
Props/C19.lean (the `import` of Props/C19 below only serves the stand-alone build).

Error values.  `.fuel`: the MODEL's recursion budget ran out (no counterpart in the code; the driver reports it
as its own outcome).  `.recursion`: the `RecursionError` raised on purpose by `detect_recursion` when
`intersection`/`union` is re-entered with an argument tuple already on its stack; `intersection` catches the
one coming out of its `cnf(...)` call, `union` the one coming out of its `dnf(...)` call (they fall back to the
less normalised candidates) — every other one propagates to the caller.  In the real `parse_marker` (since
9ad3a46) a `RecursionError` escaping `_compact_markers` — this one, or a genuine interpreter stack overflow —
is converted to `InvalidMarkerError` (a `ValueError`), and `Requirement.__init__` does the same; the model's
`parseMarker` / `compactTop` return `.recursion` unconverted (model ≠ code there: see the report).
`.syntax`: the merge of python_version / python_full_version markers re-parses a marker text it has just
printed (`parse_marker(...)` on one item); that this text is always accepted by the grammar is not proved
here, so lark's error stays in the list.  `.value` / `.unmodelled`: leaf construction, as in Part I.
-/
set_option linter.unusedSimpArgs false
set_option linter.unusedVariables false

namespace Poetry.C19
open Poetry Marker ParserTotal

/-! # Part VII — the marker simplifier -/

/-! ## S0 — the string-constraint algebra never crashes -/

/-- **`intersect` of string constraints raises `ValueError` at most — for EVERY pair of constraint objects**
(not only well-formed ones): the trailing `assert` of `UnionConstraint.intersect` is dead, no
`NotImplementedError`/`KeyError`. -/
theorem generic_intersect_err_documented (a b : Generic.GC) (e : PyErr) (h : a.intersect b = .error e) :
    e = .value := gc_intersect_err a b e h

/-- **`union` of string constraints raises `ValueError` at most — for EVERY pair of constraint objects.** -/
theorem generic_union_err_documented (a b : Generic.GC) (e : PyErr) (h : a.unionWith b = .error e) :
    e = .value := gc_unionWith_err a b e h

/-- the `ValueError` occurs (what `MultiConstraint.__init__` rejects): `ExtraConstraint("a", "in")` cannot be
built by the parser, but as objects: -/
example : Generic.GC.intersect (.atom ⟨"a", .in_, true⟩) (.atom ⟨"b", .eq, true⟩) = .error .value := rfl

/-! ## S1 — the mutual block -/

/-- the residue: an error of the VERSION-constraint algebra or printer on some operands
(`VersionConstraint.intersect`, `.union`, `is_simple()`, `str()`), or the `assert isinstance(m, SingleMarker)`
of the python_version / python_full_version merge hit by an atomic multi/union marker of that name. -/
def simplifier_residue (e : PyErr) : Prop :=
  ((∃ a b : VC, a.intersect b = .error e) ∨ (∃ a b : VC, a.unionWith b = .error e) ∨
   (∃ c : VC, c.isSimple = .error e) ∨ (∃ c : VC, c.toStr = .error e)) ∨
  (e = .assertion ∧ ∃ l1 l2 : Leaf,
    ((l1.name == "python_version" && l2.name == "python_full_version") ||
     (l1.name == "python_full_version" && l2.name == "python_version")) = true ∧
    ∀ s1 s2, l1 = .single s1 → l2 = .single s2 → False)

example (e : PyErr) : simplifier_residue e ↔ AlgErr e := Iff.rfl

/-- the full statement for the simplifier: no residue.  NOT proved; `simplifier_err_classified` is the
statement with the residue. -/
def simplifier_err_classified_full_statement : Prop :=
  ∀ fuel stk ms e, unionF fuel stk ms = .error e →
    e = .fuel ∨ e = .recursion ∨ e = .syntax ∨ e = .value ∨ e = .unmodelled

/-- **S1 (the block itself), no hypothesis on the leaves.** For every fuel, recursion stack and argument, an
error of any of the sixteen functions of the simplifier is fuel exhaustion, the `RecursionError` of
`detect_recursion`, or an error of `_merge_single_markers` on two single-marker-likes.  The `RuntimeError`
after `min(…, key=complexity)` is dead code; the block raises no `AssertionError`, `IndexError`, `KeyError`,
`AttributeError`, `TypeError`, `NotImplementedError` of its own. -/
theorem simplifier_block_err_classified (E : PyErr → Prop)
    (hM : ∀ l1 l2 b e, mergeLeaves l1 l2 b = .error e → E e) (n : Nat) : ErrAt E n := errAt hM n

/-- **S1 (the leaf merge)** under `VCErrDocumented`: `_merge_single_markers` fails with fuel (model), lark's
error or `ValueError`/`.unmodelled` from re-building a leaf, or the residue.  No `AttributeError` from mixing a
version constraint with a string constraint (the kinds are tested first); the string-constraint algebra
contributes `ValueError` only (S0). -/
theorem merge_err_classified (hvc : VCErrDocumented) (l1 l2 : Leaf) (isMulti : Bool) (e : PyErr)
    (h : mergeLeaves l1 l2 isMulti = .error e) :
    e = .fuel ∨ e = .syntax ∨ e = .value ∨ e = .unmodelled ∨ simplifier_residue e := by
  rcases mergeLeaves_merr hvc l1 l2 isMulti e h with h | h | h | h | h | h
  · exact .inl h
  · exact .inr (.inl h)
  · exact .inr (.inr (.inl h))
  · exact .inr (.inr (.inr (.inl h)))
  · exact .inr (.inr (.inr (.inr (.inl h))))
  · exact .inr (.inr (.inr (.inr (.inr h))))

/-- **S1 (result).** `union(*markers)` — every fuel, stack, argument list (no shape assumption). -/
theorem simplifier_err_classified (hvc : VCErrDocumented) (fuel : Nat) (stk : Stack) (ms : List M)
    (e : PyErr) (h : unionF fuel stk ms = .error e) :
    e = .fuel ∨ e = .recursion ∨ e = .syntax ∨ e = .value ∨ e = .unmodelled ∨ simplifier_residue e :=
  SimplifierErr.ofBlock ((simplifier_errAt hvc fuel).uniF stk ms e h)

/-- the same for `intersection(*markers)`, `a.intersect(b)`, `a.union(b)`, `cnf`, `dnf` -/
theorem simplifier_err_classified_all (hvc : VCErrDocumented) (fuel : Nat) (stk : Stack) (e : PyErr) :
    (∀ ms, intersectionF fuel stk ms = .error e → SimplifierErr e) ∧
    (∀ a b, mIntersect fuel stk a b = .error e → SimplifierErr e) ∧
    (∀ a b, mUnion fuel stk a b = .error e → SimplifierErr e) ∧
    (∀ m, cnf fuel stk m = .error e → SimplifierErr e) ∧
    (∀ m, dnf fuel stk m = .error e → SimplifierErr e) ∧
    (∀ ms, multiOf fuel stk ms = .error e → SimplifierErr e) ∧
    (∀ ms, unionOf fuel stk ms = .error e → SimplifierErr e) :=
  have A := simplifier_errAt hvc fuel
  ⟨fun ms h => .ofBlock (A.interF stk ms e h), fun a b h => .ofBlock (A.inter stk a b e h),
   fun a b h => .ofBlock (A.uni stk a b e h), fun m h => .ofBlock (A.cnf stk m e h),
   fun m h => .ofBlock (A.dnf stk m e h), fun ms h => .ofBlock (A.mOf stk ms e h),
   fun ms h => .ofBlock (A.uOf stk ms e h)⟩

/-- fuel exhaustion is an outcome of the model: -/
example : unionF 0 [] [] = .error .fuel := by rw [unionF.eq_def]
/-- … and `detect_recursion` fires when the argument tuple is already on the stack: -/
example : unionF 1 [(true, [M.any])] [M.any] = .error .recursion := by
  rw [unionF.eq_def]; simp [Stack.has, M.beqList, M.beq]

/-! ## S2 — `parse_marker` -/

/-- **`parse_marker`, classified** (under `VCErrDocumented`): lark's error, `ValueError`, `.unmodelled`
(`platform_release`), the model's fuel, the `RecursionError` of `detect_recursion` (which the real
`parse_marker` turns into `InvalidMarkerError`, a `ValueError`), or the residue.  This instantiates the
hypothesis `hsimp` of `parse_marker_err_documented_partial` (Part I). -/
theorem parse_marker_err_classified (hvc : VCErrDocumented) (s : String) (e : PyErr)
    (h : parseMarker s = .error e) :
    e = .syntax ∨ e = .value ∨ e = .unmodelled ∨ e = .fuel ∨ e = .recursion ∨ simplifier_residue e := by
  rcases parse_marker_err_documented_partial hvc SimplifierErr
      (fun subs e' _ hu => .ofBlock ((simplifier_errAt hvc _).uniF _ _ _ hu)) s e h with
    h | (h | h) | h
  · exact .inl h
  · exact .inr (.inl h)
  · exact .inr (.inr (.inl h))
  · rcases h with h | h | h | h | h | h
    · exact .inr (.inr (.inr (.inl h)))
    · exact .inr (.inr (.inr (.inr (.inl h))))
    · exact .inl h
    · exact .inr (.inl h)
    · exact .inr (.inr (.inl h))
    · exact .inr (.inr (.inr (.inr (.inr h))))

/-- … and from the version-constraint full statement of Part II alone -/
theorem parse_marker_err_classified_of_vc (hV : vc_parse_err_documented_full_statement) (s : String)
    (e : PyErr) (h : parseMarker s = .error e) :
    e = .syntax ∨ e = .value ∨ e = .unmodelled ∨ e = .fuel ∨ e = .recursion ∨ simplifier_residue e :=
  parse_marker_err_classified (fun t e' ht => hV t true e' ht) s e h

example : parseMarker "os_name ==" = .error .syntax :=
  parseMarker_of_syntax_err _ _ (by decide) (by decide) (by decide) (by decide +kernel)

/-! ## S3 — `Requirement(text)` -/

/-- the marker part of `Requirement.__init__` (`_compact_markers` + `union`) -/
theorem req_compact_top_err_classified (hvc : VCErrDocumented) (syn : Syn) (e : PyErr)
    (h : Req.compactTop syn = .error e) :
    e = .fuel ∨ e = .recursion ∨ e = .syntax ∨ e = .value ∨ e = .unmodelled ∨ simplifier_residue e :=
  compactTop_simplifierErr hvc syn e h

/-- **`Requirement(text)`, classified**: hypothesis `hV` (Part II full statement: the version-constraint
parser raises `ValueError` only; proved outside the local-label case in Part IV); Part V's `hsimp` is
discharged.  `.syntax` here can only come from the re-parse inside the python-version merge (the requirement
grammar's own errors are `.value`). -/
theorem req_parse_err_classified (hV : vc_parse_err_documented_full_statement) (s : String) (e : PyErr)
    (h : Req.parse s = .error e) :
    e = .value ∨ e = .unmodelled ∨ e = .fuel ∨ e = .recursion ∨ e = .syntax ∨ simplifier_residue e := by
  have hvc : VCErrDocumented := fun t e' ht => hV t true e' ht
  rcases req_parse_err_documented_partial hV SimplifierErr
      (fun subs e' _ hu => .ofBlock ((simplifier_errAt hvc _).uniF _ _ _ hu)) s e h with h | h | h
  · exact .inl h
  · exact .inr (.inl h)
  · rcases h with h | h | h | h | h | h
    · exact .inr (.inr (.inl h))
    · exact .inr (.inr (.inr (.inl h)))
    · exact .inr (.inr (.inr (.inr (.inl h))))
    · exact .inl h
    · exact .inr (.inl h)
    · exact .inr (.inr (.inr (.inr (.inr h))))

end Poetry.C19

/-! # Part VIII — the statements with every discharged hypothesis removed -/

namespace Poetry.C19
open Poetry Version VParser Marker Dep ParserTotal

/-- **marker leaves (`SingleMarker.__init__`), unconditional**: `InvalidMarkerError` only (`unmodelled`: the model
does not cover `platform_release` literals outside PEP 440) -/
theorem marker_leaf_err_classified (name cstr : String) (swapped : Bool) (e : PyErr)
    (h : mkSingle name cstr swapped = .error e) : e = .value ∨ (e = .unmodelled ∧ name = "platform_release") :=
  mkSingle_err_classified vc_err_documented name cstr swapped e h

/-- **the raw marker tree (`_compact_markers` without simplification), unconditional** -/
theorem compactRaw_err_classified (s : String) (syn : Syn) (e : PyErr)
    (hs : parseText s = .ok syn) (h : compactRaw syn = .error e) : e = .value ∨ e = .unmodelled :=
  compactRaw_err_classified_partial vc_err_documented s syn e hs h

/-- **`parse_marker`, for every string**: the grammar's error, `InvalidMarkerError`, the model's own `unmodelled` /
`fuel`, the `RecursionError` of `detect_recursion` that escapes the simplifier (converted into `InvalidMarkerError` by
`parse_marker` since repo commit 9ad3a46), or the named residue (`simplifier_residue`: an error of the version-constraint
algebra on simplifier-built operands, or the `assert isinstance(…, SingleMarker)` of the python_version pair merge). -/
theorem parse_marker_err_classified_unconditional (s : String) (e : PyErr) (h : parseMarker s = .error e) :
    e = .syntax ∨ e = .value ∨ e = .unmodelled ∨ e = .fuel ∨ e = .recursion ∨ simplifier_residue e :=
  parse_marker_err_classified vc_err_documented s e h

/-- **`Requirement(text)`, for every string** -/
theorem req_parse_err_classified_unconditional (s : String) (e : PyErr) (h : Req.parse s = .error e) :
    e = .value ∨ e = .unmodelled ∨ e = .fuel ∨ e = .recursion ∨ e = .syntax ∨ simplifier_residue e :=
  req_parse_err_classified vc_parse_err_documented s e h

/-- **`Dependency.create_from_pep_508(text)`, for every string**: `ValueError`, `unmodelled`, or an error of the marker
simplifier / of `convert_markers` (the version-constraint parser and printer contribute nothing else: Part VI). -/
theorem dep_parse_err_classified_unconditional (s : String) (e : PyErr) (h : createFromPep508 s = .error e) :
    e = .value ∨ e = .unmodelled ∨
    (∃ subs, (∀ m ∈ subs, RawM m = true) ∧ unionF defaultFuel [] subs = .error e) ∨
    (∃ key m, convertMarkersFor key m = .error e) := by
  rcases dep_parse_err_decomposed vc_err_documented s e h with h | h | ⟨t, h⟩ | h | ⟨t, c, hc, h⟩ | h
  · exact .inl h
  · exact .inr (.inl h)
  · exact .inl (vc_parse_err_documented t false e h)
  · exact .inr (.inr (.inl h))
  · obtain ⟨txt, ht⟩ := vc_parsed_printable t false c hc
    rw [ht] at h; cases h
  · exact .inr (.inr (.inr h))

/-- … with the simplifier disjunct classified by Part VII: what remains is `convert_markers` (`Dependency.marker` setter) -/
theorem dep_parse_err_classified_simplifier (s : String) (e : PyErr) (h : createFromPep508 s = .error e) :
    e = .value ∨ e = .unmodelled ∨ e = .fuel ∨ e = .recursion ∨ e = .syntax ∨ simplifier_residue e ∨
    (∃ key m, convertMarkersFor key m = .error e) := by
  rcases dep_parse_err_classified_unconditional s e h with h | h | ⟨subs, _, h⟩ | h
  · exact .inl h
  · exact .inr (.inl h)
  · rcases simplifier_err_classified vc_err_documented _ _ _ e h with h | h | h | h | h | h
    · exact .inr (.inr (.inl h))
    · exact .inr (.inr (.inr (.inl h)))
    · exact .inr (.inr (.inr (.inr (.inl h))))
    · exact .inl h
    · exact .inr (.inl h)
    · exact .inr (.inr (.inr (.inr (.inr (.inl h)))))
  · exact .inr (.inr (.inr (.inr (.inr (.inr h)))))

end Poetry.C19

/-! # Part IX — the public entry points (with the `RecursionError` guards of repo commit 9ad3a46)

`parse_marker` converts a `RecursionError` of `_compact_markers` into `InvalidMarkerError` (`parseMarkerTop`),
`Requirement.__init__` converts one from anywhere in its body into `InvalidRequirementError` (`Req.parseTop`), and
`create_from_pep_508` uses that constructor (`createFromPep508Top`; its own tail — the `marker` setter — is not
guarded in the code).  Hence `recursion` disappears from the marker and requirement statements. -/

namespace Poetry.C19
open Poetry Version VParser Marker Dep ParserTotal

theorem parseMarkerTop_err (s : String) (e : PyErr) (h : parseMarkerTop s = .error e) :
    (parseMarker s = .error e ∧ e ≠ .recursion) ∨ (parseMarker s = .error .recursion ∧ e = .value) := by
  unfold parseMarkerTop at h
  cases hp : parseMarker s with
  | ok m => simp [hp] at h
  | error e' => cases e' <;> simp [hp] at h <;> subst h <;> simp

/-- **`parse_marker(text)`, public function, for every string**: the grammar's syntax error, `InvalidMarkerError`, the
model's own `unmodelled` / `fuel`, or the named residue. -/
theorem parse_marker_top_err_classified (s : String) (e : PyErr) (h : parseMarkerTop s = .error e) :
    e = .syntax ∨ e = .value ∨ e = .unmodelled ∨ e = .fuel ∨ simplifier_residue e := by
  rcases parseMarkerTop_err s e h with ⟨hp, hne⟩ | ⟨_, hv⟩
  · rcases parse_marker_err_classified_unconditional s e hp with h | h | h | h | h | h
    · exact .inl h
    · exact .inr (.inl h)
    · exact .inr (.inr (.inl h))
    · exact .inr (.inr (.inr (.inl h)))
    · exact absurd h hne
    · exact .inr (.inr (.inr (.inr h)))
  · exact .inr (.inl hv)

/-- **`Requirement(text)`, public constructor, for every string** -/
theorem req_parse_top_err_classified (s : String) (e : PyErr) (h : Req.parseTop s = .error e) :
    e = .value ∨ e = .unmodelled ∨ e = .fuel ∨ e = .syntax ∨ simplifier_residue e := by
  rcases Req.guardRecursion_err _ e h with ⟨hp, hne⟩ | ⟨_, hv⟩
  · rcases req_parse_err_classified_unconditional s e hp with h | h | h | h | h | h
    · exact .inl h
    · exact .inr (.inl h)
    · exact .inr (.inr (.inl h))
    · exact absurd h hne
    · exact .inr (.inr (.inr (.inl h)))
    · exact .inr (.inr (.inr (.inr h)))
  · exact .inl hv

/-- an error of the guarded dependency parser is an error of the guarded requirement parser or of `fromReq` on a
parsed requirement -/
theorem createFromPep508Top_err (s : String) (e : PyErr) (h : createFromPep508Top s = .error e) :
    Req.parseLTop (stripComment s.toList) = .error e ∨
    ∃ req, Req.parseL (stripComment s.toList) = .ok req ∧ fromReq req = .error e := by
  unfold createFromPep508Top createFromPep508LTop at h
  cases hp : Req.parseLTop (stripComment s.toList) with
  | error e' => simp [hp, bind, Except.bind] at h; subst h; exact .inl rfl
  | ok req =>
    simp [hp, bind, Except.bind] at h
    exact .inr ⟨req, (Req.guardRecursion_ok_iff _ req).1 hp, h⟩

/-- **`Dependency.create_from_pep_508(text)`, public function, for every string**: `recursion` can only come from the
un-guarded tail (`convert_markers` in the `marker` setter), not from the requirement parser. -/
theorem dep_parse_top_err_classified (s : String) (e : PyErr) (h : createFromPep508Top s = .error e) :
    e = .value ∨ e = .unmodelled ∨ e = .fuel ∨ e = .syntax ∨ simplifier_residue e ∨
    (∃ req, Req.parseL (stripComment s.toList) = .ok req ∧ fromReq req = .error e) := by
  rcases createFromPep508Top_err s e h with h | h
  · have h' : Req.parseTop (String.ofList (stripComment s.toList)) = .error e := by
      simpa [Req.parseTop] using h
    rcases req_parse_top_err_classified _ e h' with h | h | h | h | h
    · exact .inl h
    · exact .inr (.inl h)
    · exact .inr (.inr (.inl h))
    · exact .inr (.inr (.inr (.inl h)))
    · exact .inr (.inr (.inr (.inr (.inl h))))
  · exact .inr (.inr (.inr (.inr (.inr h))))

example : parseMarkerTop "" = .ok .any := rfl
example : Req.parseTop "foo @" = .error .value := rfl

end Poetry.C19

/-! # Part X — the simplifier residue discharged: leaf invariant through the whole block -/
/-!
C19, Part X — the residue of Part VII discharged: the LEAF INVARIANT of the marker simplifier.
Property theorems only (helper lemmas: Proofs/ParserTotalSimp2.lean; the version-constraint package
`VCOpsTotal GoodVC` is Proofs/ParserTotalVC4.lean).  Fragment to be appended to Props/C19.lean (the `import`
of Props/C19 below only serves the stand-alone build).

`LeafOK P l`: a marker named `python_version` / `python_full_version` is a `SingleMarker` holding a version
constraint, and every version constraint held by a leaf lies in `P` (here `P = GoodVC`, the class on which
`intersect`, `union`, `is_simple()`, `str()` are total and which contains every parse result).
* every leaf `_compact_markers` builds satisfies it (`compact_sub_markers_invariant`);
* all sixteen functions of the simplifier preserve it (`simplifier_invariant`);
* on such operands `_merge_single_markers` raises neither its `assert isinstance(…, SingleMarker)` nor any error
  of the version-constraint algebra, so both parts of `simplifier_residue` are gone.
What is left in the lists below and why: `.fuel` (model budget), `.unmodelled` (model coverage:
`platform_release` values), `.recursion` (before the entry-point guard), and `.syntax`, which is the
grammar's error on the INPUT or — not separated here — lark's error on a marker text the python-version merge
re-parses after printing it (`parseItemMarker`); excluding the latter needs a lexability invariant on leaf
values (`MarkerPrintChars.print_parse_chars`, `MarkerProjReparse.reparse_rewrite`), not attempted.
-/
set_option linter.unusedSimpArgs false
set_option linter.unusedVariables false

namespace Poetry.C19
open Poetry Marker ParserTotal

/-! # Part X — the leaf invariant of the simplifier; the residue discharged -/

/-- the invariant, spelled out for one leaf -/
theorem leaf_invariant_iff (l : Leaf) :
    LeafOK GoodVC l ↔
      ((Gen.pythonVersionMarkers.contains l.name = true → ∃ s c, l = .single s ∧ s.c = .ver c) ∧
       (∀ c, l.c = .ver c → GoodVC c)) := Iff.rfl

/-- **X1. What `_compact_markers` builds satisfies the invariant** (every syntax tree). -/
theorem compact_sub_markers_invariant (syn : Syn) (subs : List M) (h : compactSubMarkers syn = .ok subs) :
    ∀ m ∈ subs, M.Good (LeafOK GoodVC) m :=
  compactSubMarkers_good vc_err_documented vcOpsTotal_good.toMin syn subs h

/-- a `SingleMarker` built from a name and a constraint string satisfies it -/
theorem mk_single_invariant (name cstr : String) (sw : Bool) (s : Single) (h : mkSingle name cstr sw = .ok s) :
    LeafOK GoodVC (.single s) := by
  have := (mkSingle_res (sb := true) vc_err_documented vcOpsTotal_good.toMin name cstr sw).of_ok h
  simpa using this

/-- **X2. The whole mutual block preserves the invariant and, on invariant operands, fails only with fuel,
`RecursionError`, lark's error, `ValueError` or `.unmodelled`** — every fuel, every recursion stack, all of
`intersect`, `union`, `intersection`, `union`, `cnf`, `dnf`, `MultiMarker.of`, `MarkerUnion.of` and their
loops, `intersect_simplify`, `union_simplify` (`InvAt`: one `Res` statement per function). -/
theorem simplifier_invariant (n : Nat) : InvAt (LeafOK GoodVC) MErr n :=
  simplifier_invAt vc_err_documented vcOpsTotal_good.toMin n

/-- **X2 (the leaf merge).** On two leaves satisfying the invariant `_merge_single_markers` returns a marker
satisfying it, or fails with fuel / lark's error / `ValueError` / `.unmodelled`: no `AssertionError`, no error
of the version-constraint algebra or printer, no `AttributeError`.  (`.recursion` is listed only because the
error class is shared with the block; the merge has no `detect_recursion`.) -/
theorem merge_invariant (l1 l2 : Leaf) (isMulti : Bool) (h1 : LeafOK GoodVC l1) (h2 : LeafOK GoodVC l2) :
    (∀ r, mergeLeaves l1 l2 isMulti = .ok (some r) → M.Good (LeafOK GoodVC) r) ∧
    (∀ e, mergeLeaves l1 l2 isMulti = .error e →
      e = .fuel ∨ e = .recursion ∨ e = .syntax ∨ e = .value ∨ e = .unmodelled) := by
  have R := mergeLeaves_res vc_err_documented vcOpsTotal_good.toMin l1 l2 isMulti h1 h2
  exact ⟨fun r h => R.of_ok h r rfl, fun e h => FinalErr.ofBlock (R.of_err h)⟩

/-- **X3. `union(*markers)` on invariant operands — no residue.** -/
theorem simplifier_err_classified_final (fuel : Nat) (stk : Stack) (ms : List M)
    (hg : ∀ m ∈ ms, M.Good (LeafOK GoodVC) m) (e : PyErr) (h : unionF fuel stk ms = .error e) :
    e = .fuel ∨ e = .recursion ∨ e = .syntax ∨ e = .value ∨ e = .unmodelled :=
  (unionF_final vc_err_documented vcOpsTotal_good.toMin fuel stk ms hg).1 e h

theorem simplifier_result_invariant (fuel : Nat) (stk : Stack) (ms : List M)
    (hg : ∀ m ∈ ms, M.Good (LeafOK GoodVC) m) (r : M) (h : unionF fuel stk ms = .ok r) :
    M.Good (LeafOK GoodVC) r :=
  (unionF_final vc_err_documented vcOpsTotal_good.toMin fuel stk ms hg).2 r h

/-- the hypothesis is met by what the grammar and `_compact_markers` produce: -/
example : ∃ subs, compactSubMarkers (.more (.item "python_version" ">=" "3.8" false) false
      (.one (.item "python_full_version" "<" "3.9.1" false))) = .ok subs ∧
    ∀ m ∈ subs, M.Good (LeafOK GoodVC) m := by
  have h : ∃ subs, compactSubMarkers (.more (.item "python_version" ">=" "3.8" false) false
      (.one (.item "python_full_version" "<" "3.9.1" false))) = .ok subs := ⟨_, rfl⟩
  obtain ⟨subs, hs⟩ := h
  exact ⟨subs, hs, compact_sub_markers_invariant _ _ hs⟩

/-! ## the entry points -/

/-- **`parse_marker` (before the `RecursionError` guard), every string — no residue**; a returned marker
satisfies the invariant. -/
theorem parse_marker_err_classified_final (s : String) (e : PyErr) (h : parseMarker s = .error e) :
    e = .syntax ∨ e = .value ∨ e = .unmodelled ∨ e = .fuel ∨ e = .recursion := by
  rcases (parseMarker_final vc_err_documented vcOpsTotal_good.toMin s).1 e h with h | h | h | h | h
  · exact .inr (.inr (.inr (.inl h)))
  · exact .inr (.inr (.inr (.inr h)))
  · exact .inl h
  · exact .inr (.inl h)
  · exact .inr (.inr (.inl h))

theorem parse_marker_result_invariant (s : String) (m : M) (h : parseMarker s = .ok m) :
    M.Good (LeafOK GoodVC) m := (parseMarker_final vc_err_documented vcOpsTotal_good.toMin s).2 m h

/-- the full statement for the public function: the documented errors only.  What separates the theorem
below from it: `.unmodelled` (model coverage), `.fuel` (model budget). -/
def parse_marker_top_err_documented_full_statement : Prop :=
  ∀ s e, parseMarkerTop s = .error e → e = .syntax ∨ e = .value

/-- **`parse_marker(text)`, public function, every string**: lark's error, `InvalidMarkerError`/`ValueError`,
or the model's own `.unmodelled` / `.fuel`.  No residue. -/
theorem parse_marker_top_err_documented (s : String) (e : PyErr) (h : parseMarkerTop s = .error e) :
    e = .syntax ∨ e = .value ∨ e = .unmodelled ∨ e = .fuel := by
  rcases parseMarkerTop_err s e h with ⟨hp, hne⟩ | ⟨_, hv⟩
  · rcases parse_marker_err_classified_final s e hp with h | h | h | h | h
    · exact .inl h
    · exact .inr (.inl h)
    · exact .inr (.inr (.inl h))
    · exact .inr (.inr (.inr h))
    · exact absurd h hne
  · exact .inr (.inl hv)

/-- `Requirement(text)` before the guard -/
theorem req_parse_err_classified_final (s : String) (e : PyErr) (h : Req.parse s = .error e) :
    e = .value ∨ e = .unmodelled ∨ e = .fuel ∨ e = .recursion ∨ e = .syntax := by
  rcases req_parse_err_decomposed s e h with h | h | ⟨raw, _, h⟩ | ⟨raw, syn, _, _, h⟩
  · exact .inl h
  · exact .inr (.inl h)
  · exact .inl (vc_parse_err_documented _ false e h)
  · rcases (compactTop_final vc_err_documented vcOpsTotal_good.toMin syn).1 e h with h | h | h | h | h
    · exact .inr (.inr (.inl h))
    · exact .inr (.inr (.inr (.inl h)))
    · exact .inr (.inr (.inr (.inr h)))
    · exact .inl h
    · exact .inr (.inl h)

def req_parse_top_err_documented_full_statement : Prop :=
  ∀ s e, Req.parseTop s = .error e → e = .value

/-- **`Requirement(text)`, public constructor, every string**: `InvalidRequirementError`/`ValueError`, the
model's `.unmodelled` / `.fuel`, or lark's error on a marker text re-parsed by the python-version merge (the
requirement grammar's own errors are `.value`).  No residue. -/
theorem req_parse_top_err_documented (s : String) (e : PyErr) (h : Req.parseTop s = .error e) :
    e = .value ∨ e = .unmodelled ∨ e = .fuel ∨ e = .syntax := by
  rcases Req.guardRecursion_err _ e h with ⟨hp, hne⟩ | ⟨_, hv⟩
  · rcases req_parse_err_classified_final s e hp with h | h | h | h | h
    · exact .inl h
    · exact .inr (.inl h)
    · exact .inr (.inr (.inl h))
    · exact absurd h hne
    · exact .inr (.inr (.inr h))
  · exact .inl hv

end Poetry.C19

/-! # Part XI — `convert_markers` and the dependency parser -/
/-!
C19, Part XI — `convert_markers` (the `Dependency.marker` setter) and, with it, the final classification of
`Dependency.create_from_pep_508`.  Property theorems only (helper lemmas: Proofs/ParserTotalConv.lean).
Fragment to be appended to Props/C19.lean (the `import` of Props/C19 below only serves the stand-alone build).

`convert_markers(marker)` computes `dnf(marker)` and then walks the conjunctions, asserting that every member of
a conjunction is a single-marker-like.  `dnf` returns a disjunctive normal form for EVERY marker
(`Marker.dnf_isDnf`, C13), so that `assert` never fires: the errors of `convert_markers` are exactly the errors of
`dnf`, which Part VII classifies.  No shape hypothesis on the marker is needed.
-/
set_option linter.unusedSimpArgs false
set_option linter.unusedVariables false

namespace Poetry.C19
open Poetry Version VParser Marker Req Dep ParserTotal

/-! # Part XI — `convert_markers` and `create_from_pep_508`, final -/

/-- **the `assert` of `convert_markers` is dead**: on every conjunction of the DNF of every marker (whenever
`dnf` returns), `conjPairs` returns -/
theorem convert_markers_assert_dead (key : String) (m d : M) (h : dnf defaultFuel [] m = .ok d) :
    ∀ c ∈ membersIfUnion d, ∃ ps, conjPairs key c = .ok ps :=
  fun c hc => conjPairs_ok key c (dnf_members_cubes (dnf_isDnf h) c hc)

/-- **an error of `convert_markers(marker)[key]` is an error of `dnf(marker)`** — every marker, every key -/
theorem convert_markers_err_is_dnf_err (key : String) (m : M) (e : PyErr)
    (h : convertMarkersFor key m = .error e) : dnf defaultFuel [] m = .error e :=
  convertMarkersFor_err key m e h

/-- **`convert_markers` classified** (every marker — no shape hypothesis): the model's fuel, the
`RecursionError` of `detect_recursion`, lark's error / `ValueError` / `unmodelled` from re-building a leaf in
`_merge_single_markers`, or the residue of Part VII.  No `AssertionError` of its own. -/
theorem convert_markers_err_classified (key : String) (m : M) (e : PyErr)
    (h : convertMarkersFor key m = .error e) :
    e = .fuel ∨ e = .recursion ∨ e = .syntax ∨ e = .value ∨ e = .unmodelled ∨ simplifier_residue e :=
  (simplifier_err_classified_all vc_err_documented defaultFuel [] e).2.2.2.2.1 m
    (convertMarkersFor_err key m e h)

/-- in general the `assert` is live: a conjunction with a member that is not a single-marker-like -/
example : conjPairs "extra" (.multi [.any]) = .error .assertion := rfl

example : convertMarkersFor "sys_platform" (.leaf (.single Ex.sA)) = .ok (some [[("==", "a")]]) := by
  have hd : dnf defaultFuel [] (.leaf (.single Ex.sA)) = .ok (.leaf (.single Ex.sA)) := by
    rw [show defaultFuel = 5999 + 1 from rfl, dnf.eq_def]
  unfold convertMarkersFor
  simp only [hd, bind, Except.bind, membersIfUnion, List.mapM_cons, List.mapM_nil, conjPairs, pure, Except.pure]
  decide
example : convertMarkersFor "extra" .any = .ok none := by
  have hd : dnf defaultFuel [] .any = .ok .any := by
    rw [show defaultFuel = 5999 + 1 from rfl, dnf.eq_def]
  simp [convertMarkersFor, hd, bind, Except.bind, pure, Except.pure, membersIfUnion, conjPairs]

/-- the `hconv` hypothesis of Part V (`dep_parse_err_classified_partial`), discharged -/
theorem convert_markers_hconv :
    ∀ key m e, convertMarkersFor key m = .error e →
      e = .fuel ∨ e = .recursion ∨ e = .syntax ∨ e = .value ∨ e = .unmodelled ∨ simplifier_residue e :=
  convert_markers_err_classified

/-- **the `marker` setter classified**: `dep.marker = m` for every dependency and marker -/
theorem dep_set_marker_err_classified (d : Dep) (m : M) (e : PyErr) (h : d.setMarker m = .error e) :
    e = .value ∨ e = .fuel ∨ e = .recursion ∨ e = .syntax ∨ e = .unmodelled ∨ simplifier_residue e := by
  rcases setMarker_err d m e h with h | ⟨key, h⟩ | ⟨t, h⟩
  · exact .inl h
  · rcases convert_markers_err_classified key m e h with h | h | h | h | h | h
    · exact .inr (.inl h)
    · exact .inr (.inr (.inl h))
    · exact .inr (.inr (.inr (.inl h)))
    · exact .inl h
    · exact .inr (.inr (.inr (.inr (.inl h))))
    · exact .inr (.inr (.inr (.inr (.inr h))))
  · exact .inl (vc_parse_err_documented t false e h)

/-- **`create_from_pep_508` after `parse_requirement`, classified**: for a requirement the parser returned -/
theorem dep_from_parsed_req_err_classified (text : List Char) (req : Requirement) (e : PyErr)
    (hreq : Req.parseL text = .ok req) (h : fromReq req = .error e) :
    e = .value ∨ e = .unmodelled ∨ e = .fuel ∨ e = .recursion ∨ e = .syntax ∨ simplifier_residue e := by
  rcases fromReq_err req e h with h | h | ⟨_, t, h⟩ | ⟨_, h⟩ | ⟨d, m, _, h⟩
  · exact .inl h
  · exact .inr (.inl h)
  · exact .inl (vc_parse_err_documented t false e h)
  · exfalso
    have hc : VParser.parseConstraint req.constraintText = .ok req.constraint := by
      unfold parseL at hreq
      split at hreq
      · cases hreq
      · exact (ofRaw_ok _ _ hreq).1
    obtain ⟨txt, ht⟩ := vc_parsed_printable req.constraintText false req.constraint hc
    rw [ht] at h; cases h
  · rcases dep_set_marker_err_classified d m e h with h | h | h | h | h | h
    · exact .inl h
    · exact .inr (.inr (.inl h))
    · exact .inr (.inr (.inr (.inl h)))
    · exact .inr (.inr (.inr (.inr (.inl h))))
    · exact .inr (.inl h)
    · exact .inr (.inr (.inr (.inr (.inr h))))

/-- **`Dependency.create_from_pep_508(text)`, public function, for every string — final.**  `ValueError`,
outside the model, the model's fuel, lark's error on a re-parsed merged marker, the residue of Part VII, or a
`RecursionError` — which can only come from the un-guarded tail (`convert_markers` in the `marker` setter: the
`detect_recursion` error of `dnf`), not from the requirement parser (guarded since 9ad3a46). -/
theorem dep_parse_err_classified_final (s : String) (e : PyErr) (h : createFromPep508Top s = .error e) :
    e = .value ∨ e = .unmodelled ∨ e = .fuel ∨ e = .recursion ∨ e = .syntax ∨ simplifier_residue e := by
  rcases dep_parse_top_err_classified s e h with h | h | h | h | h | ⟨req, hreq, h⟩
  · exact .inl h
  · exact .inr (.inl h)
  · exact .inr (.inr (.inl h))
  · exact .inr (.inr (.inr (.inr (.inl h))))
  · exact .inr (.inr (.inr (.inr (.inr h))))
  · exact dep_from_parsed_req_err_classified _ req e hreq h

/-- the un-guarded model entry point (`createFromPep508`), same classes -/
theorem dep_parse_err_classified_all (s : String) (e : PyErr) (h : createFromPep508 s = .error e) :
    e = .value ∨ e = .unmodelled ∨ e = .fuel ∨ e = .recursion ∨ e = .syntax ∨ simplifier_residue e := by
  rcases dep_parse_err_classified_simplifier s e h with h | h | h | h | h | h | ⟨key, m, h⟩
  · exact .inl h
  · exact .inr (.inl h)
  · exact .inr (.inr (.inl h))
  · exact .inr (.inr (.inr (.inl h)))
  · exact .inr (.inr (.inr (.inr (.inl h))))
  · exact .inr (.inr (.inr (.inr (.inr h))))
  · rcases convert_markers_err_classified key m e h with h | h | h | h | h | h
    · exact .inr (.inr (.inl h))
    · exact .inr (.inr (.inr (.inl h)))
    · exact .inr (.inr (.inr (.inr (.inl h))))
    · exact .inl h
    · exact .inr (.inl h)
    · exact .inr (.inr (.inr (.inr (.inr h))))

/-- the full statement for dependencies, up to the named residue: what is still missing for
`dep_parse_err_classified_full_statement` (Part V) is that fuel / `RecursionError` / lark's error / the residue
cannot occur -/
def dep_parse_err_final_full_statement : Prop :=
  ∀ s e, createFromPep508Top s = .error e → e = .value ∨ e = .unmodelled

end Poetry.C19

/-! # Part XII — the dependency parser without residue -/

namespace Poetry.C19
open Poetry Version VParser Marker Req Dep ParserTotal

/-- the marker a successfully parsed requirement carries is a result of `compactTop` on some syntax tree -/
theorem parsed_req_marker (cs : List Char) (req : Requirement) (m : M)
    (h : Req.parseL cs = .ok req) (hm : req.marker = some m) : ∃ syn, Req.compactTop syn = .ok m := by
  unfold Req.parseL at h
  split at h
  · cases h
  · rename_i raw _
    rw [ofRaw_eq] at h
    obtain ⟨_, _, h⟩ := bind_ok _ _ _ h
    unfold ofRawRest at h
    obtain ⟨c, _, h⟩ := bind_ok _ _ _ h
    obtain ⟨mo, hmo, h⟩ := bind_ok _ _ _ h
    simp only [pure, Except.pure, Except.ok.injEq] at h
    subst h
    simp only at hm
    subst hm
    cases hrm : raw.marker with
    | none => simp [hrm, pure, Except.pure] at hmo
    | some syn =>
      simp only [hrm] at hmo
      cases hc : Req.compactTop syn with
      | error e => simp [hc, Except.map] at hmo
      | ok r => simp [hc, Except.map] at hmo; subst hmo; exact ⟨syn, hc⟩

/-- **`fromReq` on a parsed requirement**: the marker satisfies the leaf invariant (Part X), so `convert_markers` → `dnf`
fails only with the simplifier's own classes -/
theorem dep_from_parsed_req_err_documented (text : List Char) (req : Requirement) (e : PyErr)
    (hreq : Req.parseL text = .ok req) (h : fromReq req = .error e) :
    e = .value ∨ e = .unmodelled ∨ e = .fuel ∨ e = .recursion ∨ e = .syntax := by
  rcases fromReq_err req e h with h | h | ⟨_, t, h⟩ | ⟨_, h⟩ | ⟨d, m, hm, h⟩
  · exact .inl h
  · exact .inr (.inl h)
  · exact .inl (vc_parse_err_documented t false e h)
  · rcases dep_from_parsed_req_err_classified text req e hreq (by assumption) with h' | h' | h' | h' | h' | h'
    · exact .inl h'
    · exact .inr (.inl h')
    · exact .inr (.inr (.inl h'))
    · exact .inr (.inr (.inr (.inl h')))
    · exact .inr (.inr (.inr (.inr h')))
    · -- the residue cannot occur here: the printing branch is dead (shown inside the cited theorem); redo it directly
      exfalso
      obtain ⟨hc, _⟩ : VParser.parseConstraint req.constraintText = .ok req.constraint ∧ True := by
        refine ⟨?_, trivial⟩
        unfold Req.parseL at hreq
        split at hreq
        · cases hreq
        · exact (ofRaw_ok _ req hreq).1
      obtain ⟨txt, ht⟩ := vc_parsed_printable _ false _ hc
      rw [ht] at h; cases h
  · rcases setMarker_err d m e h with h | ⟨key, h⟩ | ⟨t, h⟩
    · exact .inl h
    · obtain ⟨syn, hsyn⟩ := parsed_req_marker text req m hreq hm
      have hgood := (compactTop_final vc_err_documented vcOpsTotal_good.toMin syn).2 m hsyn
      have hd := convertMarkersFor_err key m e h
      have hres := (simplifier_invariant defaultFuel).dnf [] m hgood
      rw [hd] at hres
      rcases hres with h | h | h | h | h
      · exact .inr (.inr (.inl h))
      · exact .inr (.inr (.inr (.inl h)))
      · exact .inr (.inr (.inr (.inr h)))
      · exact .inl h
      · exact .inr (.inl h)
    · exact .inl (vc_parse_err_documented t false e h)

/-- **`Dependency.create_from_pep_508(text)`, public function, for every string — no residue**: `ValueError`; the
model's `unmodelled` / `fuel`; lark's error on a marker text the python-version merge re-parses (`syntax`, see Part X);
or the `RecursionError` of `detect_recursion` escaping from the un-guarded `marker` setter (`convert_markers` → `dnf`). -/
theorem dep_parse_top_err_documented (s : String) (e : PyErr) (h : createFromPep508Top s = .error e) :
    e = .value ∨ e = .unmodelled ∨ e = .fuel ∨ e = .recursion ∨ e = .syntax := by
  rcases createFromPep508Top_err s e h with h | ⟨req, hreq, h⟩
  · have h' : Req.parseTop (String.ofList (stripComment s.toList)) = .error e := by simpa [Req.parseTop] using h
    rcases req_parse_top_err_documented _ e h' with h | h | h | h
    · exact .inl h
    · exact .inr (.inl h)
    · exact .inr (.inr (.inl h))
    · exact .inr (.inr (.inr (.inr h)))
  · exact dep_from_parsed_req_err_documented _ req e hreq h

def dep_parse_top_err_documented_full_statement : Prop :=
  ∀ s e, createFromPep508Top s = .error e → e = .value

end Poetry.C19

/-! # Part XIII — lark's error outside the input: printed marker texts that are parsed again -/
/-!
C19, Part XIII — lark's error (`.syntax`) outside the input text: when can `SingleMarker.__str__` be read back
by the marker grammar, and what follows for `invert` and for the re-parsing steps of the simplifier.
Property theorems only (helper lemmas: Proofs/ParserTotalLex.lean).

History: `invert()` / `parse_marker(str(m))` raised lark's `UnexpectedCharacters` for accepted markers whose value
held a double quote (fixed 3046ca3), ended in an odd run of backslashes, or held both quote characters (fixed
7b51c5a: `_quoted` writes single quotes when the value holds no `'` and holds a `"` or a backslash).
With that printing:
* `LexVal v`: the quote `_quoted` chooses reads `v` back (`SqOk` for single quotes; `EscOk` — the `ESCAPED_STRING`
  scanner returns `v` — for double quotes);
* EVERY value the grammar's string tokens hold is of the kind `TokVal` (no `'`, or re-readable by the
  `ESCAPED_STRING` scanner: `parseText_tok`), and every leaf built from an item `name op <token>` (operator not
  `~=`) stores a lexable value (`mkSingle_lexLeaf`: the stored value is the token minus a prefix of plain
  characters, cut at a newline; the `.0` padding is plain);
* on a swapped item `<token> op name` the value `STR_CMP_CONSTRAINT` stores is the whole token (only the last quote can
  be followed by the operator tail: `matchStrCmp_swapped`) and the stored operator is never `~=`;
* hence for every accepted text without an item `name ~= "value"` (`SynNoCompat`), `invert` of the un-simplified
  marker never raises lark's error (`invert_no_syntax_grammar`) — no hypothesis on the values.
STILL FALSE at the constructor level (real, replayed): `SingleMarker("os_name", "==a'\"b").invert()` and
`SingleMarker("os_name", "==a'\\").invert()` raise `UnexpectedCharacters` — a value holding `'` is written between
double quotes unchanged, which is only right for values that came out of an `ESCAPED_STRING` token;
`SingleMarker("foo", "==x").invert()` too (unknown name).  These objects cannot come out of `parse_marker`.
The simplifier part: `MergeNoSyntax` (the leaf merge returns invariant leaves and does not raise lark's error) is
PROVED for markers that do not mention BOTH `python_version` and `python_full_version` (`merge_no_syntax_no_pv`,
`merge_no_syntax_no_pfv` — the latter uses the version-text invariant of Proofs/ParserTotalVC5.lean), which removes
the hypothesis from the `*_not_both` statements for `parse_marker` and `Requirement`; it stays a named hypothesis
for markers holding both variables (the rewriting of a merged `python_full_version` marker, (a3)): the rewritten text
itself is shown to be readable (`py_rewrite_text_reparses`, all cases), the model's step is identified with it
(`merge_python_version_reparses_py_rewrite`) and one step is free of lark's error given two facts about the nested
merge (`merge_python_version_step_no_syntax_partial`); establishing those — the invariant `PyRw` on python-named leaves
(operator a grammar operator, plain `y`-free value, not swapped unless `in`/`not in`) through `_merge_single_markers`,
which for rebuilt leaves needs the shape of `str(constraint)` and "no `y` in bound texts" — is what is left.
* `~=` items: inverting them prints the bounds of the parsed constraint, whose texts are made of version characters
  (Proofs/ParserTotalVC5.lean) — so `invert` of the un-simplified marker of EVERY accepted text is free of lark's
  error (`invert_no_syntax_grammar_all`).
NOT reached (named missing lemmas): for the
simplifier (`MergeNoSyntax`): (a1) every `Version.text` inside a leaf constraint is plain, as an invariant of the
version-constraint algebra, (a2) the values of string-constraint atoms stay lexable under `intersect`/`union`
(`mkSingleOfC` prints `str(constraint)`), (a3) the rewritten `python_full_version` text of
`_merge_python_version_single_markers` parses (only proved for release literals, Proofs/PyConvPairRewrite.lean).
-/
set_option linter.unusedSimpArgs false
set_option linter.unusedVariables false

namespace Poetry.C19
open Poetry Marker ParserTotal

/-! # Part XIII — lark's error outside the input text -/

/-! ## the constructor-level statement is false; regressions of the repaired grammar-level counterexamples -/

/-- the unrestricted statement: `invert` of ANY `SingleMarker(name, constraint_string)` never raises lark's error.
FALSE (`invert_no_syntax_ctor_counterexample`): the constructor accepts values no string token can hold. -/
def invert_no_syntax_full_statement : Prop :=
  ∀ (name cstr : String) (s : Single) (e : PyErr), mkSingle name cstr false = .ok s →
    Leaf.invert (.single s) = .error e → e ≠ .syntax

/-- **Counterexample (real, constructor level).** `SingleMarker("os_name", "==a'\"b").invert()` raises
`UnexpectedCharacters`: the value `a'"b` holds a single quote, so it is written between double quotes, where its
un-escaped `"` ends the string. -/
theorem invert_syntax_ctor_counterexample :
    ∃ s, mkSingle "os_name" "==a'\"b" false = .ok s ∧ Leaf.invert (.single s) = .error .syntax :=
  ⟨_, rfl, eq_error_of_isErrB _ _ (by decide +kernel)⟩

/-- … and `SingleMarker("os_name", "==a'\\")`: a value with a single quote that ends in a backslash -/
theorem invert_syntax_ctor_counterexample_backslash :
    ∃ s, mkSingle "os_name" "==a'\\" false = .ok s ∧ Leaf.invert (.single s) = .error .syntax :=
  ⟨_, rfl, eq_error_of_isErrB _ _ (by decide +kernel)⟩

theorem invert_no_syntax_ctor_counterexample : ¬ invert_no_syntax_full_statement := by
  intro h
  obtain ⟨s, h1, h2⟩ := invert_syntax_ctor_counterexample
  exact h _ _ s _ h1 h2 rfl

/-- **Regression of repo fix 7b51c5a** (was a counterexample: `parse_marker("os_name == 'a\\'").invert()` raised
`UnexpectedCharacters` because the value `a\` was printed as `"a\"`): the value is now written in single quotes and
`invert` succeeds. -/
theorem invert_backslash_regression :
    ∃ s, mkSingle "os_name" "==a\\" false = .ok s ∧ (Leaf.invert (.single s)).toOption.isSome = true :=
  ⟨_, rfl, by decide +kernel⟩

/-- **Regression, both quote characters** (`parse_marker('os_name == "a\\"\'b"')`): a value holding a single quote is
written back in double quotes, where the grammar reads `\"` as an escaped quote. -/
theorem invert_both_quotes_regression :
    ∃ s, mkSingle "os_name" "==a\\\"'b" false = .ok s ∧ (Leaf.invert (.single s)).toOption.isSome = true :=
  ⟨_, rfl, by decide +kernel⟩

/-- the same texts are accepted by the grammar, and so is what `str()` prints for them: -/
example : parseText "os_name == 'a\\'" = .ok (.one (.item "os_name" "==" "a\\" false)) ∧
    parseText (leafText "os_name" "==" "a\\" false) = .ok (.one (.item "os_name" "==" "a\\" false)) := by
  constructor <;> decide +kernel

/-! ## what holds -/

/-- **L1. The grammar reads back what `SingleMarker.__str__` prints** for a grammar name, a grammar operator and a
lexable value — both quoting styles, both orientations. -/
theorem lexable_leaf_text_reparses (n op v : String) (sw : Bool) (hn : n ∈ names) (ho : op ∈ ops)
    (hv : LexVal v) : parseText (leafText n op v sw) = .ok (.one (.item n op v sw)) :=
  parseText_leafText n op v sw hn ho hv

/-- plain values are lexable; so is a value with a double quote or a backslash and no single quote -/
theorem lexable_plain (v : String) (h : ∀ c ∈ v.toList, c ≠ '"' ∧ c ≠ '\\' ∧ c ≠ '\n' ∧ c ≠ '\'') : LexVal v :=
  PlainStr.lex h

example : LexVal "nt" := lexable_plain _ (by decide)
example : LexVal "a\"b" := .inl ⟨by decide, by unfold SqOk; decide⟩
example : LexVal "a\\" := .inl ⟨by decide, by unfold SqOk; decide⟩

/-- **L0. What the grammar's string tokens hold**: every item of every accepted text has a grammar name, a
grammar operator and a value without `'` (`SINGLE_QUOTED_STRING`) or one the `ESCAPED_STRING` scanner reads back. -/
theorem grammar_items_are_tokens (s : String) (syn : Syn) (h : parseText s = .ok syn) : SynTok syn :=
  parseText_tok s syn h

/-- **L2. `invert` does not raise lark's error** on a marker whose `SingleMarker` leaves have a grammar name, a
lexable value and an operator other than `~=` (atomic multi/union markers never re-parse). -/
theorem invert_no_syntax (m : M) (hm : M.Good LexLeaf m) (e : PyErr) (h : m.invert = .error e) :
    e ≠ .syntax := ParserTotal.invert_no_syntax vc_err_documented m hm e h

/-- the errors `SingleMarker.invert` does have on such a leaf -/
theorem invert_single_err_classified (s : Single) (hn : s.name ∈ names) (hv : LexVal s.value) (e : PyErr)
    (h : invertSimple s = .error e) : e = .runtime ∨ e = .value ∨ e = .unmodelled :=
  invertSimple_err vc_err_documented s hn hv e h

/-- **L3. Leaves built from a lexable input tree are lexable** (swapped items included) — no condition on the values
beyond being token values. -/
theorem compact_leaves_lexable (syn : Syn) (subs : List M) (hl : SynLexIn syn)
    (h : compactSubMarkers syn = .ok subs) : ∀ m ∈ subs, M.Good LexLeaf m :=
  compactSubMarkers_lex syn subs hl h

/-- **L2+L3.** -/
theorem invert_no_syntax_of_input (syn : Syn) (m : M) (hl : SynLexIn syn) (hc : compactRaw syn = .ok m)
    (e : PyErr) (h : m.invert = .error e) : e ≠ .syntax :=
  invert_no_syntax m (compactRaw_lex syn m hl hc) e h

/-- the grammar-level statement: for every accepted text, `invert` of the marker `_compact_markers` builds does not
raise lark's error.  PROVED: `invert_no_syntax_grammar_all`. -/
def invert_no_syntax_grammar_full_statement : Prop :=
  ∀ (s : String) (syn : Syn) (m : M) (e : PyErr), parseText s = .ok syn → compactRaw syn = .ok m →
    m.invert = .error e → e ≠ .syntax

/-- **L5. For EVERY accepted text, `invert` of the un-simplified marker does not raise lark's error** — swapped items
and `~=` included: the `~=` inversion prints the bounds of the parsed constraint, whose texts are made of version
characters (`VCOpsTotalT GoodVCT`, Proofs/ParserTotalVC5.lean). -/
theorem invert_no_syntax_grammar_all : invert_no_syntax_grammar_full_statement :=
  fun s syn m e hp hc h =>
    compactRaw_invert_no_syntax vc_err_documented vcOpsTotalT_good.toMin vcOpsTotalT_good.textOkP syn m
      (parseText_tok s syn hp) hc e h

example : ∃ syn m, parseText "python_version ~= \"3.8\" and \"a\\\" in\" in os_name" = .ok syn ∧
    compactRaw syn = .ok m :=
  ⟨.more (.item "python_version" "~=" "3.8" false) false (.one (.item "os_name" "in" "a\\\" in" true)), _,
    by decide +kernel, rfl⟩

/-- **L4. For EVERY accepted text without an item `name ~= "value"`, `invert` does not raise lark's error**
— whatever the values are (backslashes, both quote characters, white space, newlines in `'…'` tokens). -/
theorem invert_no_syntax_grammar (s : String) (syn : Syn) (m : M) (e : PyErr) (hp : parseText s = .ok syn)
    (hpl : SynNoCompat syn = true) (hc : compactRaw syn = .ok m) (h : m.invert = .error e) : e ≠ .syntax :=
  invert_no_syntax_of_input syn m (synLexIn_of syn (parseText_tok s syn hp) hpl) hc e h

/-- the hypotheses are met, e.g. by the text of the former counterexample with both quote characters: -/
example : parseText "os_name == \"a\\\"'b\" and sys_platform != 'a\\'" =
      .ok (.more (.item "os_name" "==" "a\\\"'b" false) false (.one (.item "sys_platform" "!=" "a\\" false))) ∧
    SynNoCompat (.more (.item "os_name" "==" "a\\\"'b" false) false (.one (.item "sys_platform" "!=" "a\\" false))) = true ∧
    ∃ m, compactRaw (.more (.item "os_name" "==" "a\\\"'b" false) false
      (.one (.item "sys_platform" "!=" "a\\" false))) = .ok m :=
  ⟨by decide +kernel, by decide, _, rfl⟩

/-- Regression (repo fix 3046ca3): `os_name == 'a"b'` — the leaf is built, it is lexable, and its inversion succeeds. -/
example : ∃ s, mkSingle "os_name" (itemConstraintString "==" "a\"b" false) false = .ok s ∧ LexLeaf (.single s) ∧
      ∃ r, Leaf.invert (.single s) = .ok r := by
  refine ⟨_, rfl, ?_, exists_ok_of_isOkB _ (by decide +kernel)⟩
  exact mkSingle_lexLeaf "os_name" "==" "a\"b" (by decide) (by decide) (by decide)
    (.inl (by unfold SqOk; decide)) _ rfl

/-! ## the simplifier -/

/-- the full statement for the simplifier on lexable, invariant operands.  NOT proved: see (a1)–(a3) in the header. -/
def simplifier_no_syntax_full_statement : Prop :=
  MergeNoSyntax (fun l => LeafOK GoodVC l ∧ LexLeaf l)

/-- **S (partial).** Named hypothesis `hM : MergeNoSyntax G` — on leaves satisfying `G` the leaf merge returns
`G`-markers and fails with fuel / `ValueError` / `.unmodelled` only.  Then every function of the block preserves
`G` and fails with fuel, `RecursionError`, `ValueError` or `.unmodelled` only: no lark error from the simplifier. -/
theorem simplifier_no_syntax_partial (G : Leaf → Prop) (hM : MergeNoSyntax G) (fuel : Nat) (stk : Stack)
    (ms : List M) (hg : ∀ m ∈ ms, M.Good G m) (e : PyErr) (h : unionF fuel stk ms = .error e) :
    e = .fuel ∨ e = .recursion ∨ e = .value ∨ e = .unmodelled :=
  unionF_no_syntax_of hM fuel stk ms hg e h

theorem simplifier_block_no_syntax_partial (G : Leaf → Prop) (hM : MergeNoSyntax G) (n : Nat) :
    InvAt G MErr' n := simplifier_no_syntax_of hM n

/-- with Part X, the hypothesis reduces to: the merge of two invariant leaves is not lark's error -/
theorem merge_no_syntax_of_ne
    (hne : ∀ l1 l2 b, LeafOK GoodVC l1 → LeafOK GoodVC l2 → mergeLeaves l1 l2 b ≠ .error .syntax) :
    MergeNoSyntax (LeafOK GoodVC) := mergeNoSyntax_of_ne vc_err_documented vcOpsTotal_good.toMin hne

/-- **`parse_marker(text)`, public function (partial): lark's error is the grammar's error on the INPUT** — if the
text is accepted by the grammar, the remaining errors are `ValueError`, `.unmodelled`, fuel. -/
theorem parse_marker_top_syntax_is_input_partial (hM : MergeNoSyntax (LeafOK GoodVC)) (s : String) (syn : Syn)
    (hp : parseText s = .ok syn) (e : PyErr) (h : parseMarkerTop s = .error e) :
    e = .value ∨ e = .unmodelled ∨ e = .fuel := by
  rcases parseMarkerTop_err s e h with ⟨hp', hne⟩ | ⟨_, hv⟩
  · rcases parseMarker_no_syntax_of vc_err_documented vcOpsTotal_good.toMin hM s syn hp e hp' with h | h | h | h
    · exact .inr (.inr h)
    · exact absurd h hne
    · exact .inl h
    · exact .inr (.inl h)
  · exact .inl hv

/-- the same as a statement about `.syntax`: under the hypothesis, `parse_marker` raises lark's error only when
the grammar rejects the input -/
theorem parse_marker_top_syntax_is_input (hM : MergeNoSyntax (LeafOK GoodVC)) (s : String)
    (h : parseMarkerTop s = .error .syntax) : parseText s = .error .syntax := by
  cases hp : parseText s with
  | error e => rw [marker_parse_err_documented s e hp]
  | ok syn =>
    rcases parse_marker_top_syntax_is_input_partial hM s syn hp _ h with h | h | h <;> cases h

/-- **`Requirement(text)`, public constructor (partial)**: the requirement grammar's own errors are `ValueError`, so
under the hypothesis no lark error is left at all. -/
theorem req_parse_top_no_syntax_partial (hM : MergeNoSyntax (LeafOK GoodVC)) (s : String) (e : PyErr)
    (h : Req.parseTop s = .error e) : e = .value ∨ e = .unmodelled ∨ e = .fuel := by
  rcases Req.guardRecursion_err _ e h with ⟨hp, hne⟩ | ⟨_, hv⟩
  · rcases req_parse_err_decomposed s e hp with h | h | ⟨raw, _, h⟩ | ⟨raw, syn, _, _, h⟩
    · exact .inl h
    · exact .inr (.inl h)
    · exact .inl (vc_parse_err_documented _ false e h)
    · rcases compactTop_no_syntax_of vc_err_documented vcOpsTotal_good.toMin hM syn e h with h | h | h | h
      · exact .inr (.inr h)
      · exact absurd h hne
      · exact .inl h
      · exact .inr (.inl h)
  · exact .inl hv

/-! ## the simplifier on markers that do not mention BOTH python-version variables: no hypothesis -/

/-- **S′. The named hypothesis discharged unless both python-version variables occur.**  The two re-parsing steps of
`_merge_single_markers` are: the candidate `python_version == "<lower bound>"` (reached when the first leaf is named
`python_version`) and the rewriting of a merged `python_full_version` marker (reached for a `python_version` /
`python_full_version` pair).  (1) Without a leaf named `python_version` neither is reached. -/
theorem merge_no_syntax_no_pv : MergeNoSyntax (NamedOK GoodVC namesNoPv) :=
  mergeNoSyntax_noPv vc_err_documented vcOpsTotal_good.toMin

/-- (2) Without a leaf named `python_full_version` only the candidate is re-parsed, and its text is read back because
the texts of all bounds are made of version characters (`VCOpsTotalT GoodVCT`, Proofs/ParserTotalVC5.lean). -/
theorem merge_no_syntax_no_pfv : MergeNoSyntax (NamedOK GoodVCT namesNoPfv) :=
  mergeNoSyntax_noPfv vc_err_documented vcOpsTotalT_good.toMin (siteAOk_of_text vcOpsTotalT_good.textOkP)

/-- hence the whole simplifier on such markers: no lark error (and the invariants are preserved) -/
theorem simplifier_no_syntax_no_pv (fuel : Nat) (stk : Stack) (ms : List M)
    (hg : ∀ m ∈ ms, M.Good (NamedOK GoodVC namesNoPv) m) (e : PyErr) (h : unionF fuel stk ms = .error e) :
    e = .fuel ∨ e = .recursion ∨ e = .value ∨ e = .unmodelled :=
  simplifier_no_syntax_partial _ merge_no_syntax_no_pv fuel stk ms hg e h

theorem simplifier_no_syntax_no_pfv (fuel : Nat) (stk : Stack) (ms : List M)
    (hg : ∀ m ∈ ms, M.Good (NamedOK GoodVCT namesNoPfv) m) (e : PyErr) (h : unionF fuel stk ms = .error e) :
    e = .fuel ∨ e = .recursion ∨ e = .value ∨ e = .unmodelled :=
  simplifier_no_syntax_partial _ merge_no_syntax_no_pfv fuel stk ms hg e h

/-- the tree condition: no item on `python_version`, or no item on `python_full_version` (decidable) -/
def SynNotBothPy (syn : Syn) : Bool := SynIn namesNoPv syn || SynIn namesNoPfv syn

/-- **`parse_marker(text)`, public function, for every accepted text that does not mention BOTH `python_version`
and `python_full_version`: lark's error cannot occur** — `ValueError`, `.unmodelled`, fuel only.  No hypothesis. -/
theorem parse_marker_top_no_syntax_not_both (s : String) (syn : Syn) (hp : parseText s = .ok syn)
    (hnb : SynNotBothPy syn = true) (e : PyErr) (h : parseMarkerTop s = .error e) :
    e = .value ∨ e = .unmodelled ∨ e = .fuel := by
  rcases parseMarkerTop_err s e h with ⟨hp', hne⟩ | ⟨_, hv⟩
  · have key : e = .fuel ∨ e = .recursion ∨ e = .value ∨ e = .unmodelled := by
      simp only [SynNotBothPy, Bool.or_eq_true] at hnb
      rcases hnb with hnb | hnb
      · exact parseMarker_named vc_err_documented vcOpsTotal_good.toMin namesNoPv aliasClosed_noPv
          merge_no_syntax_no_pv s syn hp hnb e hp'
      · exact parseMarker_named vc_err_documented vcOpsTotalT_good.toMin namesNoPfv aliasClosed_noPfv
          merge_no_syntax_no_pfv s syn hp hnb e hp'
    rcases key with h | h | h | h
    · exact .inr (.inr h)
    · exact absurd h hne
    · exact .inl h
    · exact .inr (.inl h)
  · exact .inl hv

/-- … so for such texts lark's error is the grammar's error on the input -/
theorem parse_marker_top_syntax_is_input_not_both (s : String) (h : parseMarkerTop s = .error .syntax)
    (hnb : ∀ syn, parseText s = .ok syn → SynNotBothPy syn = true) : parseText s = .error .syntax := by
  cases hp : parseText s with
  | error e => rw [marker_parse_err_documented s e hp]
  | ok syn =>
    rcases parse_marker_top_no_syntax_not_both s syn hp (hnb syn hp) _ h with h | h | h <;> cases h

/-- **`Requirement(text)`, public constructor, when the marker part does not mention both python-version variables:
no lark error at all.**  No hypothesis. -/
theorem req_parse_top_no_syntax_not_both (s : String) (e : PyErr) (h : Req.parseTop s = .error e)
    (hnb : ∀ raw syn, Req.parseRaw s.toList = some raw → raw.marker = some syn → SynNotBothPy syn = true) :
    e = .value ∨ e = .unmodelled ∨ e = .fuel := by
  rcases Req.guardRecursion_err _ e h with ⟨hp, hne⟩ | ⟨_, hv⟩
  · rcases req_parse_err_decomposed s e hp with h | h | ⟨raw, _, h⟩ | ⟨raw, syn, hr, hs, h⟩
    · exact .inl h
    · exact .inr (.inl h)
    · exact .inl (vc_parse_err_documented _ false e h)
    · have key : e = .fuel ∨ e = .recursion ∨ e = .value ∨ e = .unmodelled := by
        have hnb' := hnb raw syn hr hs
        simp only [SynNotBothPy, Bool.or_eq_true] at hnb'
        rcases hnb' with hnb' | hnb'
        · exact compactTop_named vc_err_documented vcOpsTotal_good.toMin namesNoPv aliasClosed_noPv
            merge_no_syntax_no_pv syn hnb' e h
        · exact compactTop_named vc_err_documented vcOpsTotalT_good.toMin namesNoPfv aliasClosed_noPfv
            merge_no_syntax_no_pfv syn hnb' e h
      rcases key with h | h | h | h
      · exact .inr (.inr h)
      · exact absurd h hne
      · exact .inl h
      · exact .inr (.inl h)
  · exact .inl hv

example : parseText "python_version >= \"3.8\" and (sys_platform != \"x\" or extra == 'y')" =
      .ok (.more (.item "python_version" ">=" "3.8" false) false (.one (.paren (.more
        (.item "sys_platform" "!=" "x" false) true (.one (.item "extra" "==" "y" false)))))) ∧
    SynNotBothPy (.more (.item "python_version" ">=" "3.8" false) false (.one (.paren (.more
        (.item "sys_platform" "!=" "x" false) true (.one (.item "extra" "==" "y" false)))))) = true :=
  ⟨by decide +kernel, by decide⟩

/-! ## (a3) the rewritten `python_full_version` text -/

/-- **The text `_merge_python_version_single_markers` rewrites is read back by the grammar** (`pyRewrite ms` is the
`str'` of the model's `mergePythonVersion`): for a non-swapped `python_full_version` marker with a grammar operator and
a plain value without the letter `y` (so that `str.replace("python_full_version", "python_version")` cannot touch the
value — a local version label such as `+python_full_version` could), in all four cases (the two `.0`-padding cases,
the `.0`-dropping case, the unchanged case); the item read back is on `python_version` / `python_full_version`, with
the same operator and a plain value. -/
theorem py_rewrite_text_reparses (ms : Single) (hname : ms.name = "python_full_version") (hsw : ms.swapped = false)
    (hop : ms.op ∈ ops) (hv : PlainStr ms.value) (hy : 'y' ∉ ms.value.toList) :
    ∃ n v, (n = "python_version" ∨ n = "python_full_version") ∧ PlainStr v ∧ 'y' ∉ v.toList ∧
      parseText (pyRewrite ms) = .ok (.one (.item n ms.op v false)) :=
  pyRewrite_parses ms hname hsw hop hv hy

/-- … so re-parsing it fails with `ValueError` / `.unmodelled` at most, never with lark's error -/
theorem py_rewrite_no_syntax (ms : Single) (hname : ms.name = "python_full_version") (hsw : ms.swapped = false)
    (hop : ms.op ∈ ops) (hv : PlainStr ms.value) (hy : 'y' ∉ ms.value.toList) (e : PyErr)
    (h : parseItemMarker (pyRewrite ms) = .error e) : e = .value ∨ e = .unmodelled :=
  parseItemMarker_pyRewrite_no_syntax vc_err_documented ms hname hsw hop hv hy e h

example : parseText (pyRewrite ⟨"python_full_version", ">=", "3.8", false, .gen .any⟩) =
    .ok (.one (.item "python_version" ">=" "3.8" false)) := by decide +kernel
example : parseText (pyRewrite ⟨"python_full_version", ">=", "3.8.0", false, .gen .any⟩) =
    .ok (.one (.item "python_version" ">=" "3.8" false)) := by decide +kernel
example : parseText (pyRewrite ⟨"python_full_version", "==", "3.8", false, .gen .any⟩) =
    .ok (.one (.item "python_full_version" "==" "3.8.0" false)) := by decide +kernel

/-- the model's `mergePythonVersion` re-parses exactly `pyRewrite ms` (definitional unfolding) -/
theorem merge_python_version_reparses_py_rewrite (d : Nat) (s1 s2 : Single) (isMulti : Bool) :
    mergePythonVersion d s1 s2 isMulti = (do
      let (vm, fm) := if s1.name == "python_version" then (s1, s2) else (s2, s1)
      let nc ← gpcLeaf (.single vm)
      let nm ← mkSingleOfC "python_full_version" (.ver nc)
      let merged ← mergeSingle d (.single nm) (.single fm) isMulti
      match merged with
      | none => pure none
      | some mm =>
        if M.beq mm (.leaf (.single nm)) then pure (some (.leaf (.single vm)))
        else
          match mm with
          | .leaf (.single ms) =>
            if ms.op == "in" || ms.op == "not in" then pure (some mm) else do
            let r ← parseItemMarker (pyRewrite ms)
            pure (some r)
          | other => pure (some other)) := mergePythonVersion_eq d s1 s2 isMulti

/-- **One step of `_merge_python_version_single_markers` (partial).**  Named hypotheses on the NESTED merge of the two
`python_full_version` markers: it does not raise lark's error, and a single marker it returns for rewriting is fit
for it (`PyRw`: named `python_full_version`, not swapped, grammar operator, plain value without the letter `y`).
Then the step does not raise lark's error. -/
theorem merge_python_version_step_no_syntax_partial (d : Nat) (s1 s2 : Single) (isMulti : Bool)
    (hnest_err : ∀ l1 l2 e, mergeSingle d l1 l2 isMulti = .error e → e ≠ .syntax)
    (hnest_ok : ∀ l1 l2 ms, mergeSingle d l1 l2 isMulti = .ok (some (.leaf (.single ms))) →
      ¬ ((ms.op == "in" || ms.op == "not in") = true) → PyRw ms)
    (e : PyErr) (h : mergePythonVersion d s1 s2 isMulti = .error e) : e ≠ .syntax :=
  mergePythonVersion_no_syntax vc_err_documented vcOpsTotal_good.toMin d s1 s2 isMulti hnest_err hnest_ok e h

end Poetry.C19

/-! # Part XIV — the comment stripping of `create_from_pep_508`: guard and extraction agree

`create_from_pep_508` removes a trailing ` # comment` and keeps a marker that follows it: `if " ;" in rest:
name += " ;" + rest.split(" ;", 1)[1]`.  The subscript `[1]` is safe only because the guard and the extraction use
the SAME separator.  `stripCommentPy guardSep extractSep` models the four statements with the two separators as
parameters (Proofs/ParserTotalComment.lean); the seeded edits C19-4 / C19-5 loosen the guard to `";"`.
`Factory.validate` on a falsy non-table `project` value (seed C19-3) is not modelled (the metadata model takes typed
tables), so there is no theorem for it: it is covered by the mapping stream of vp/c19.py only. -/

namespace Poetry.C19
open Poetry Dep ParserTotal

/-- **guard and extraction agree ⇒ no `IndexError`**, for every input and every separator -/
theorem comment_strip_guard_agrees (sep text : List Char) (e : PyErr) :
    stripCommentPy sep sep text ≠ .error e := by
  obtain ⟨r, hr⟩ := stripCommentPy_same_sep_ok sep text
  rw [hr]; intro h; cases h

/-- with the separator of the source the statement-level model is the model `create_from_pep_508` runs on -/
theorem comment_strip_is_model (text : List Char) :
    stripCommentPy [' ', ';'] [' ', ';'] text = .ok (stripComment text) :=
  stripCommentPy_eq_model text

/-- the statement with independent separators … -/
def comment_strip_any_separators_full_statement : Prop :=
  ∀ (g x text : List Char) (e : PyErr), stripCommentPy g x text ≠ .error e

/-- … **is false**: with the guard loosened to `";"` (seeded/C19-4, C19-5) the comment `# pinned; see issue 12` passes
the guard, `rest.split(" ;", 1)` has one element and `[1]` raises `IndexError` -/
theorem comment_strip_guard_mismatch_counterexample : ¬ comment_strip_any_separators_full_statement := by
  intro h
  exact h [';'] [' ', ';'] "foo # pinned; see issue 12".toList .index (by decide)

example : stripCommentPy [' ', ';'] [' ', ';'] "foo # pinned; see issue 12".toList = .ok "foo".toList := by decide
example : stripCommentPy [' ', ';'] [' ', ';'] "foo>=1 # c ; python_version < \"3.8\"".toList =
    .ok "foo>=1 ; python_version < \"3.8\"".toList := by decide

end Poetry.C19
