/-
C01 — every built wheel is a self-consistent archive.

Property theorems about the build model (Model/Build.lean).  What is proved here: the archive *bookkeeping* and the
*naming* for all operation sequences / all names.  What is trusted: the byte encoders (zipfile/zlib), sha256 (an
uninterpreted function: a content is the pair (digest, size) that the environment supplies — the check recomputes every
digest from the real archive), the csv reader, the file system; that `WheelBuilder.build` performs exactly the modelled
operation sequence is tied by the per-run correspondence (vp/c01.py: logged `_add_file`/`_write_to_zip`/`_write_record`
calls vs. `wheelOps`).  `normalizeFilePermissions` is REGENERATED from helpers.py on every run, so `perm_644_755` is
re-proved against the current source.
-/
import PoetryVerif.Proofs.Build

set_option linter.unusedSimpArgs false
set_option linter.unusedVariables false

namespace Poetry.C01
open Poetry Poetry.Build

/-- **Record invariant.**  After *any* sequence of `_add_file` / `_write_to_zip` calls the archive members are exactly
what the operations wrote, in order, and `_records` holds for each member its `(path, digest, size)` — the digest and
size of the very bytes written. -/
theorem record_invariant (ops : List Op) :
    (run {} ops).members = ops.map Op.member ∧
    (run {} ops).records = (run {} ops).members.map Member.row ∧
    (run {} ops).members.map (·.path) = ops.map Op.target := by
  refine ⟨run_members ops, run_inv {} ops inv_init, ?_⟩
  rw [run_members, List.map_map]
  exact List.map_congr_left (fun o _ => Op.member_path o)

example : (run {} [.addFile "a/b.py" 0o100775 "H1" 3, .writeToZip "x.pth" "H2" 0]).records =
    [("a/b.py", "H1", 3), ("x.pth", "H2", 0)] := by decide

/-- **RECORD lists exactly the members.**  After `_write_record` the archive is the previous members plus RECORD, and
the rows handed to the csv writer are: for every previous member, in archive order, `(path, "sha256=" ++ digest, size)`
of what was written; then RECORD itself with empty hash and size.  Hence the first column of RECORD equals the member
list of the finished archive. -/
theorem record_lists_members (H : String → String) (di : String) (ops : List Op) :
    let before := (run {} ops).members
    let final := (writeRecord H di (run {} ops)).members
    (∃ r : Member, final = before ++ [r] ∧ r.path = recordPath di ∧ r.extAttr = writeAttr) ∧
    recordRows di (run {} ops).records = before.map memberRow ++ [[recordPath di, "", ""]] ∧
    (recordRows di (run {} ops).records).map (·.headD "") = final.map (·.path) := by
  intro before final
  have hinv := run_inv {} ops inv_init
  refine ⟨⟨_, writeRecord_members H di _, rfl, rfl⟩, recordRows_of_inv di _ hinv, ?_⟩
  rw [recordRows_of_inv di _ hinv]
  show _ = (writeRecord H di (run {} ops)).members.map (·.path)
  rw [writeRecord_members]
  simp [memberRow, List.map_map, Function.comp_def]

example : recordText "d-1.dist-info" (run {} [.addFile "a,b.py" 0o100644 "H1" 3]).records =
    "\"a,b.py\",sha256=H1,3\nd-1.dist-info/RECORD,,\n" := by decide

/-- **RECORD reads back.**  Parsing the RECORD text with a csv reader (excel dialect: `,` delimiter, `"` quoting with
doubling, records ended by `\n` outside quotes) returns exactly the rows that were written — whatever characters the
paths contain (commas, quotes, line feeds). Together with `record_lists_members`: an installer reading RECORD sees
each member's path, `sha256=`digest and size. -/
theorem record_reads_back (di : String) (ops : List Op) :
    csvParse (recordText di (run {} ops).records).toList =
      (recordRows di (run {} ops).records).map (·.map String.toList) :=
  record_csv_roundtrip di _

example : csvParse "\"a,\"\"b.py\",sha256=H1,3\nd.dist-info/RECORD,,\n".toList =
    [["a,\"b.py".toList, "sha256=H1".toList, "3".toList], ["d.dist-info/RECORD".toList, [], []]] := by decide

/-- **Each member once** — under the explicit, decidable guard `DistinctTargets` (pairwise distinct target paths, none
of them RECORD).  Distinctness is NOT a theorem of the code: two file scripts with the same base name collide (see the
report); the check evaluates the guard on every generated project. -/
theorem record_each_once (H : String → String) (di : String) (ops : List Op) (h : DistinctTargets di ops) :
    ((writeRecord H di (run {} ops)).members.map (·.path)).Nodup ∧
    ((recordRows di (run {} ops).records).map (·.headD "")).Nodup := by
  have key : ((writeRecord H di (run {} ops)).members.map (·.path)) = ops.map Op.target ++ [recordPath di] := by
    rw [writeRecord_members, List.map_append, (record_invariant ops).2.2]; rfl
  have nd : (ops.map Op.target ++ [recordPath di]).Nodup := nodup_append_singleton h.1 h.2
  refine ⟨by rw [key]; exact nd, ?_⟩
  rw [(record_lists_members H di ops).2.2, key]; exact nd

example : DistinctTargets "d-1.dist-info" [.addFile "a/b.py" 0o100775 "H1" 3, .writeToZip "x.pth" "H2" 0] := by decide
/-- the guard is not vacuous the other way either: the colliding file scripts of the report violate it -/
example : ¬ DistinctTargets "d-1.dist-info"
    [.addFile "d-1.data/scripts/a.sh" 0o100755 "H1" 10, .addFile "d-1.data/scripts/a.sh" 0o100644 "H2" 11] := by decide

/-- **Permission bits are 0644 or 0755** — about the GENERATED translation of `normalize_file_permissions`, for every
mode `m : Nat`: the low nine bits become 0o644 or 0o755, all higher bits are preserved, and 0o755 is chosen exactly
when the owner-execute bit of `m` is set. -/
theorem perm_644_755 (m : Nat) :
    (Gen.normalizeFilePermissions m % 512 = 0o644 ∨ Gen.normalizeFilePermissions m % 512 = 0o755) ∧
    Gen.normalizeFilePermissions m / 512 = m / 512 ∧
    (Gen.normalizeFilePermissions m % 512 = 0o755 ↔ m &&& 0o100 ≠ 0) := by
  refine ⟨?_, norm_div m, ?_⟩
  · rw [norm_mod]; exact low9_cases _
  · rw [norm_mod, and64_mod m]; unfold low9
    by_cases h : (m % 512 &&& 64) = 0 <;> simp [h]

example : Gen.normalizeFilePermissions 0o100664 = 0o100644 ∧ Gen.normalizeFilePermissions 0o100711 = 0o100755 := by decide

/-- every member of every archive the state machine can produce (RECORD included) has mode 0644 or 0755 -/
theorem member_modes (H : String → String) (di : String) (ops : List Op) :
    ∀ m ∈ (writeRecord H di (run {} ops)).members, m.mode % 512 = 0o644 ∨ m.mode % 512 = 0o755 := by
  intro m hm
  rw [writeRecord_members, run_members, List.mem_append] at hm
  rcases hm with hm | hm
  · rw [List.mem_map] at hm; obtain ⟨o, _, rfl⟩ := hm; exact op_member_mode o
  · simp at hm; subst hm; left; show (writeAttr >>> 16) % 512 = 420; rw [writeAttr_mode]

/-- **Names agree.**  For every raw project name and every version text without `-`, splitting the wheel file name on
`-` gives back exactly (distribution name, version, python tag, abi tag, platform tag + ".whl"), the dist-info
directory is `<distribution name>-<version>.dist-info` with the same two strings, and the distribution name itself
contains no `-`.  (`ver` without `-`: true of PEP 440 normal form; false for a `local-version` label containing `-`,
the recorded finding D11.) -/
theorem names_agree (raw ver : List Char) (py2 : Bool) (hv : '-' ∉ ver) :
    let dn := distNameChars (canonicalizeChars raw)
    '-' ∉ dn ∧
    splitOnChar '-' (wheelFilenameChars dn ver (tagChars py2)) =
      [dn, ver, if py2 then "py2.py3".toList else "py3".toList, "none".toList, "any.whl".toList] ∧
    splitOnChar '-' (distInfoChars dn ver) = [dn, ver ++ ".dist".toList, "info".toList] ∧
    distInfoChars dn ver = dn ++ ('-' :: (ver ++ ".dist-info".toList)) ∧
    dataFolderChars dn ver = dn ++ ('-' :: (ver ++ ".data".toList)) := by
  intro dn
  have hd := distNameChars_no_dash (canonicalizeChars raw)
  exact ⟨hd, split_wheelFilename dn ver py2 hd hv, split_distInfo dn ver hd hv, rfl, rfl⟩

example : wheelFilename "My.Package_name" "1!1.0rc1+ab.1" false = "my_package_name-1!1.0rc1+ab.1-py3-none-any.whl" ∧
    '-' ∉ "1!1.0rc1+ab.1".toList := by decide

/-- the hypothesis of `names_agree` fails for the D11 label, and so does the conclusion -/
example : (splitOnChar '-' (wheelFilename "pkg" "1.0+some-label" false).toList).length = 6 := by decide

/-- **Paths are relative, forward-slashed, free of `..`**: a path built from a non-empty list of valid components
(`relative_to()` of resolved paths: non-empty, not `..`, no `/`, no `\`) splits on `/` into exactly these components;
so it has no empty component (no leading `/`, no `//`, no trailing `/`), no `..` component and no backslash. -/
theorem paths_relative_posix (comps : List (List Char)) (hne : comps ≠ []) (h : ∀ c ∈ comps, ValidComp c) :
    splitOnChar '/' (joinSlash comps) = comps ∧
    (∀ c ∈ splitOnChar '/' (joinSlash comps), c ≠ [] ∧ c ≠ ['.', '.'] ∧ '\\' ∉ c) ∧
    (joinSlash comps).head? ≠ some '/' := by
  have hs := split_join comps hne (fun c hc => (h c hc).2.2.1)
  refine ⟨hs, ?_, ?_⟩
  · rw [hs]; intro c hc; exact ⟨(h c hc).1, (h c hc).2.1, (h c hc).2.2.2⟩
  · cases comps with
    | nil => exact absurd rfl hne
    | cons c cs =>
      have hc := h c (by simp)
      cases c with
      | nil => exact absurd rfl hc.1
      | cons x xs =>
        have hx : x ≠ '/' := fun e => hc.2.2.1 (by simp [e])
        cases cs <;> simp [joinSlash, hx]

example : ValidComp "my_pkg".toList ∧ ValidComp "__init__.py".toList ∧
    joinSlash ["my_pkg".toList, "__init__.py".toList] = "my_pkg/__init__.py".toList := by
  refine ⟨?_, ?_, by decide⟩ <;> (unfold ValidComp; decide)

/-- **Prepared metadata = built metadata.**  Every regular file of the prepared dist-info directory is a member of
the built wheel under `<dist-info>/<relative path>` with the same digest and size (and nothing is recomputed:
`build` copies the directory `prepare_metadata` wrote). -/
theorem metadata_prepared_eq_built (H : String → String) (p : WheelPlan) (f : DiFile) (hf : f ∈ p.diFiles) :
    (⟨p.distInfo ++ "/" ++ posix f.rel, addFileAttr f.stMode, f.digest, f.size⟩ : Member) ∈ (buildWheel H p).members :=
  distInfo_member H p f hf

/-- **The builder's own call sequence writes each archive name once** — under `ConfigDistinct`, a decidable condition
on the configuration (no two sources map to one archive name): the selected files have pairwise distinct targets
outside `<dist>.data/` and `<dist>.dist-info/`, file scripts have distinct base names (enforced by the code since repo
fix accd3ea), the prepared dist-info files are distinct and none is `RECORD`, and the two directory names are not
nested.  Then the operation sequence of `build` (module files or .pth, file scripts, dist-info) satisfies
`DistinctTargets`, hence (`record_each_once`) every member and every RECORD row occurs once.  The condition is no
property of every configuration: `packages = [{include="pkg", from="a"}, {include="pkg", from="b"}]` or an include of
`<dist>.dist-info/METADATA` violate it; the builder then refuses the second file (repo fix a8f41e9; before it wrote
the member twice) — see `written_wheel_each_once`, `two_sources_refused`. -/
theorem builder_distinct_targets (p : WheelPlan) (h : ConfigDistinct p) : DistinctTargets p.distInfo (wheelOps p) :=
  Poetry.Build.builder_distinct_targets p h

theorem builder_each_once (H : String → String) (p : WheelPlan) (h : ConfigDistinct p) :
    ((buildWheel H p).members.map (·.path)).Nodup :=
  (record_each_once H p.distInfo (wheelOps p) (Poetry.Build.builder_distinct_targets p h)).1

example : ConfigDistinct (⟨false, ["r"], [⟨["pkg", "a.py"], "pkg/a.py", 33188, "H", 1⟩], "pkg", "", 0,
    [⟨"run.sh", 33261, "S", 2⟩], ["d"], [⟨["METADATA"], 33188, "M", 3⟩, ⟨["WHEEL"], 33188, "W", 4⟩],
    "pkg-1.0.dist-info", "pkg-1.0.data"⟩ : WheelPlan) := by decide

/-- two sources mapped to one archive name violate the condition -/
example : ¬ ConfigDistinct (⟨false, ["r"],
    [⟨["a", "pkg", "__init__.py"], "pkg/__init__.py", 33188, "H", 1⟩, ⟨["b", "pkg", "__init__.py"], "pkg/__init__.py", 33188, "G", 1⟩],
    "pkg", "", 0, [], ["d"], [⟨["METADATA"], 33188, "M", 3⟩], "x-1.0.dist-info", "x-1.0.data"⟩ : WheelPlan) := by decide

/-- **Every wheel that is written lists each member once** — no condition on the configuration.  Since repo fix
a8f41e9 `_add_file` and `_write_to_zip` refuse (RuntimeError) a name that is already in the archive; the guarded
build `buildWheelC` therefore either fails or returns an archive whose member paths, and the first column of whose
RECORD, are duplicate-free — and that archive is exactly what the bookkeeping (`buildWheel`) describes, so all the
record theorems above apply to it. -/
theorem written_wheel_each_once (H : String → String) (p : WheelPlan) (s : St) (h : buildWheelC H p = .ok s) :
    (s.members.map (·.path)).Nodup ∧
    ((recordRows p.distInfo (run {} (wheelOps p)).records).map (·.headD "")).Nodup ∧
    s = buildWheel H p := by
  obtain ⟨hd, rfl⟩ := (buildWheelC_ok_iff H p s).1 h
  have := record_each_once H p.distInfo (wheelOps p) hd
  exact ⟨this.1, this.2, rfl⟩

/-- the same for *any* sequence of guarded writer calls, not only the builder's own -/
theorem written_sequence_each_once (ops : List Op) (s : St) (h : runC {} ops = .ok s) :
    (s.members.map (·.path)).Nodup ∧ s = run {} ops := by
  obtain ⟨hn, rfl⟩ := (runC_ok_iff ops s).1 h
  exact ⟨by rw [(record_invariant ops).2.2]; exact hn, rfl⟩

/-- **When does the build succeed?**  Exactly when the targets of its own call sequence are pairwise distinct and none
is RECORD (`DistinctTargets`); otherwise the first repeated name aborts it with RuntimeError. -/
theorem build_succeeds_iff_distinct (H : String → String) (p : WheelPlan) :
    (∃ s, buildWheelC H p = .ok s) ↔ DistinctTargets p.distInfo (wheelOps p) := by
  constructor
  · rintro ⟨s, h⟩; exact ((buildWheelC_ok_iff H p s).1 h).1
  · intro h; exact ⟨_, (buildWheelC_ok_iff H p _).2 ⟨h, rfl⟩⟩

theorem build_fails_with_runtime_error (H : String → String) (p : WheelPlan)
    (h : ¬ DistinctTargets p.distInfo (wheelOps p)) : buildWheelC H p = .error .runtime := by
  cases hb : buildWheelC H p with
  | ok s => exact absurd ((buildWheelC_ok_iff H p s).1 hb).1 h
  | error e =>
    have : e = .runtime := by
      unfold buildWheelC at hb
      rw [runC_eq] at hb
      by_cases hf : fresh (({} : St).members.map (·.path)) (wheelOps p) = true
      · simp only [hf, if_true, writeRecordC, stepC] at hb
        split at hb
        · cases hb; rfl
        · cases hb
      · simp only [hf, Bool.false_eq_true, if_false] at hb
        cases hb; rfl
    rw [this]

/-- the decidable condition on the configuration is sufficient for success (`builder_distinct_targets`) -/
theorem config_distinct_builds (H : String → String) (p : WheelPlan) (h : ConfigDistinct p) :
    ∃ s, buildWheelC H p = .ok s :=
  (build_succeeds_iff_distinct H p).2 (Poetry.Build.builder_distinct_targets p h)

/-- two selected files with one archive name (e.g. `packages = [{include="pkg", from="a"}, {include="pkg", from="b"}]`):
the build is refused -/
theorem two_sources_refused (H : String → String) (p : WheelPlan) (he : p.editable = false)
    (hdup : ¬ (p.toAdd.map (·.target)).Nodup) : buildWheelC H p = .error .runtime := by
  apply build_fails_with_runtime_error
  rintro ⟨hn, _⟩
  have hperm := wheelOps_targets_perm p
  have hall := hperm.nodup_iff.1 hn
  rw [List.nodup_append] at hall
  have hb := (List.nodup_append.1 hall.1).1
  unfold bodyTargets at hb
  rw [he] at hb
  exact hdup hb

end Poetry.C01
