/-
C12 — Containment, overlap and emptiness answers about constraints are never wrong.
Property theorems only (helper lemmas in Proofs/VRangePred.lean).  Staging: everything is proved for
non-union operands (`Version`, `VersionRange`, empty), for range-vs-union containment and for the
union merge walks of `allows_all` (yes sound) and `allows_any` (no sound), the latter two with membership
as the disjunction over members (`allowsPlain`); `allows_any ↔ intersect` for unions is stated only.
Vocabulary as in C05; `RC.NE` = the range is inhabited as far as its own ends tell.
-/
import PoetryVerif.Proofs.VRangePred
import PoetryVerif.Proofs.VRangeWalk
import PoetryVerif.Proofs.VRangeInv
import PoetryVerif.Proofs.VRangeSelf
import PoetryVerif.Proofs.VRangePredU
import PoetryVerif.Proofs.VRangeSharp
import PoetryVerif.Proofs.VRangeWalkAt
import PoetryVerif.Proofs.VRangeInterU

set_option linter.unusedSimpArgs false
set_option linter.unusedVariables false

namespace Poetry.C12
open Poetry Version

/-- **`allows_all` yes is sound** (members): if `a.allows_all(b)` then no regular probe admitted by `b`
is rejected by `a`. -/
theorem allows_all_sound_member (a b : RC) (ha : a.WF) (hb : b.WF)
    (h : VC.allowsAll (.single a) (.single b) = .ok true)
    (p : Version) (hp : p.wf = true) (hreg : Regular (a.bounds ++ b.bounds) p)
    (hbp : VC.allows (.single b) p = .ok true) : VC.allows (.single a) p = .ok true := by
  have h' : RC.allowsAll a b = true := by
    cases a with
    | ver x => simpa [VC.allowsAll] using h
    | rng r => simpa [VC.allowsAll] using h
  simp only [VC.allows, Except.ok.injEq] at hbp ⊢
  exact RC.allowsAll_sound a b ha hb h' p hp hreg hbp

def exR : VRange := ⟨some (Version.mk' 0 [1, 2] none none none none), some (Version.mk' 0 [2] none none none none), true, false⟩
def exS : VRange := ⟨some (Version.mk' 0 [1, 5] none none none none), some (Version.mk' 0 [1, 9] none none none none), false, true⟩

example : (RC.rng exR).WF ∧ (RC.rng exS).WF ∧ (RC.rng exR).NE ∧ (RC.rng exS).NE ∧
    VC.allowsAll (.single (.rng exR)) (.single (.rng exS)) = .ok true := by
  refine ⟨⟨?_, ?_⟩, ⟨?_, ?_⟩, by show exR.isStrictlyLower exR = false; decide,
    by show exS.isStrictlyLower exS = false; decide, by decide⟩
  · intro e he; simp [VRange.bounds, exR] at he; rcases he with rfl | rfl <;> decide
  · intro m M hm hM; simp [exR] at hm hM; subst hm; subst hM; rw [vk_lt_iff]; decide
  · intro e he; simp [VRange.bounds, exS] at he; rcases he with rfl | rfl <;> decide
  · intro m M hm hM; simp [exS] at hm hM; subst hm; subst hM; rw [vk_lt_iff]; decide

/-- **range `allows_all` union**: `VersionRange.allows_all(VersionUnion)` is `all(...)` over the members, and
a yes is sound for every member. -/
theorem allows_all_sound_range_union (r : VRange) (rs : List RC) (hr : r.WF) (hrs : ∀ c ∈ rs, c.WF)
    (h : VC.allowsAll (.single (.rng r)) (.union rs) = .ok true)
    (p : Version) (hp : p.wf = true) (hreg : Regular (r.bounds ++ (VC.union rs).bounds) p)
    (hbp : (VC.union rs).allowsPlain p = true) : r.allows p = true := by
  simp only [VC.allowsAll, Except.ok.injEq, List.all_eq_true] at h
  simp only [VC.allowsPlain, VC.flatten, List.any_eq_true] at hbp
  obtain ⟨c, hc, hcp⟩ := hbp
  have hreg' : Regular ((RC.rng r).bounds ++ c.bounds) p := by
    intro e he
    apply hreg e
    simp only [List.mem_append, VC.bounds, List.mem_flatMap] at he ⊢
    rcases he with he | he
    · exact Or.inl he
    · exact Or.inr ⟨c, hc, he⟩
  exact RC.allowsAll_sound (.rng r) c hr (hrs c hc) (h c hc) p hp hreg' hcp

/-- **`allows_any` never raises, and a no is sound** (members): if `a.allows_any(b)` is False, no regular
probe is admitted by both. -/
theorem allows_any_no_sound_member (a b : RC) (ha : a.WF) (hb : b.WF) :
    (∃ r, VC.allowsAny (.single a) (.single b) = .ok r) ∧
    (VC.allowsAny (.single a) (.single b) = .ok false →
      ∀ p, p.wf = true → Regular (a.bounds ++ b.bounds) p →
        ¬ (VC.allows (.single a) p = .ok true ∧ VC.allows (.single b) p = .ok true)) := by
  have e : VC.allowsAny (.single a) (.single b) = RC.allowsAny a b := by
    cases a <;> rfl
  rw [e]
  refine ⟨RC.allowsAny_ok a b, fun h p hp hreg => ?_⟩
  simp only [VC.allows, Except.ok.injEq]
  exact RC.allowsAny_false_sound a b ha hb h p hp hreg

/-- **`allows_any` is yes exactly when the intersection is not the empty constraint** (members). -/
theorem allows_any_iff_intersect_member (a b : RC) (ha : a.WF) (hb : b.WF) (ha' : a.NE) (hb' : b.NE) :
    VC.allowsAny (.single a) (.single b) =
      (do let i ← VC.intersect (.single a) (.single b); pure (!i.isEmpty)) := by
  have e : VC.allowsAny (.single a) (.single b) = RC.allowsAny a b := by
    cases a <;> rfl
  rw [e]
  exact RC.allowsAny_eq_intersect a b ha hb ha' hb'

/-- the hypothesis `NE` is needed: the (unparseable, but constructible) range `>=1.0a1,<1.0` is not
`is_empty()` although its effective upper end `1.0.dev0` is below its lower end; `>=1.0.dev5,<2` does
not allow any of it, yet their intersection is not the empty constraint. -/
theorem counterexample_uninhabited_range :
    let a : VRange := ⟨some (Version.mk' 0 [1, 0] none none (some ⟨.dev, 5⟩) none), some (Version.mk' 0 [2] none none none none), true, false⟩
    let b : VRange := ⟨some (Version.mk' 0 [1, 0] (some ⟨.a, 1⟩) none none none), some (Version.mk' 0 [1, 0] none none none none), true, false⟩
    VC.allowsAny (.single (.rng a)) (.single (.rng b)) = .ok false ∧
    VC.intersect (.single (.rng a)) (.single (.rng b)) = .ok (.single (.rng b)) := by
  decide

/-- **a constraint reporting itself empty admits nothing; one reporting itself universal admits everything** -/
theorem is_empty_sound (c : VC) (h : c.isEmpty = true) (p : Version) : c.allows p = .ok false := by
  cases c <;> simp [VC.isEmpty] at h; rfl

theorem is_any_sound (c : VC) (h : c.isAny = true) (p : Version) : c.allows p = .ok true := by
  cases c with
  | empty => simp [VC.isAny] at h
  | union rs => simp [VC.isAny] at h
  | single c =>
    cases c with
    | ver x => simp [VC.isAny, RC.isAny] at h
    | rng r =>
      simp only [VC.isAny, RC.isAny, VRange.isAny, Bool.and_eq_true, Option.isNone_iff_eq_none] at h
      simp [VC.allows, RC.allows, VRange.allows, VRange.allowsLo, VRange.allowsHi, h.1, h.2]

/-- **each constraint allows all of itself** (members; the empty constraint too) -/
theorem self_allows_all_member (c : RC) (hc : c.WF) :
    VC.allowsAll (.single c) (.single c) = .ok true ∧ VC.allowsAll .empty .empty = .ok true := by
  refine ⟨?_, rfl⟩
  have := RC.allowsAll_self c hc
  cases c with
  | ver x => simpa [VC.allowsAll] using this
  | rng r => simpa [VC.allowsAll] using this

/-- **each non-empty constraint allows any of itself** (members) -/
theorem self_allows_any_member (c : RC) (hc : c.WF) (hne : c.NE) :
    VC.allowsAny (.single c) (.single c) = .ok true := by
  have e : VC.allowsAny (.single c) (.single c) = RC.allowsAny c c := by
    cases c <;> rfl
  rw [e]; exact RC.allowsAny_self c hc hne

/-! ## union level: the merge walks -/

/-- **`VersionUnion.allows_all` never raises and a yes is sound**: every regular probe admitted by a member of
the second constraint is admitted by a member of the union. -/
theorem allows_all_sound_union (rs : List RC) (b : VC) (ho : ∀ c ∈ rs, c.WF) (ht : ∀ c ∈ b.flatten, c.WF) :
    ∃ x, VC.allowsAll (.union rs) b = .ok x ∧
      (x = true → ∀ p, p.wf = true → Regular (boundsOf rs ++ boundsOf b.flatten) p →
        b.allowsPlain p = true → (VC.union rs).allowsPlain p = true) :=
  unionAllowsAllLoop_sound (rs.length + b.flatten.length + 1) rs b.flatten (by omega) ho ht

/-- **`VersionUnion.allows_any` never raises and a no is sound** (members of each side sorted: each strictly
below the later ones). -/
theorem allows_any_no_sound_union (rs : List RC) (b : VC) (ho : ∀ c ∈ rs, c.WF) (ht : ∀ c ∈ b.flatten, c.WF)
    (hso : SortedRC rs) (hst : SortedRC b.flatten) :
    ∃ x, VC.allowsAny (.union rs) b = .ok x ∧
      (x = false → ∀ p, p.wf = true → Regular (boundsOf rs ++ boundsOf b.flatten) p →
        ¬ ((VC.union rs).allowsPlain p = true ∧ b.allowsPlain p = true)) :=
  unionAllowsAnyLoop_sound (rs.length + b.flatten.length + 1) rs b.flatten (by omega) ho ht hso hst

/-- the same two answers against the real `VersionUnion.allows` (not only the disjunction over members): whenever
`allows` returns on a regular probe it agrees with the answers.  `UnionOK`: members well-formed, tidy, inhabited,
sorted, bounds mutually regular (then `allows` is the disjunction, C05 `union_allows_eq_plain_partial`). -/
theorem union_answers_sound_allows (rs : List RC) (b : VC) (hokA : UnionOK rs)
    (ht : ∀ c ∈ b.flatten, c.WF) (hst : SortedRC b.flatten) (hokB : ∀ ts, b = .union ts → UnionOK ts) :
    ∃ x y, VC.allowsAll (.union rs) b = .ok x ∧ VC.allowsAny (.union rs) b = .ok y ∧
      ∀ p, p.wf = true → Regular (boundsOf rs ++ boundsOf b.flatten) p →
        ∀ u v, (VC.union rs).allows p = .ok u → b.allows p = .ok v →
          (x = true → v = true → u = true) ∧ (y = false → ¬ (u = true ∧ v = true)) := by
  have ho : ∀ c ∈ rs, c.WF := fun c hc => (hokA.1 c hc).1
  obtain ⟨x, hx, hxs⟩ := allows_all_sound_union rs b ho ht
  obtain ⟨y, hy, hys⟩ := allows_any_no_sound_union rs b ho ht hokA.2.1 hst
  refine ⟨x, y, hx, hy, fun p hp hreg u v hu hv => ?_⟩
  have eu := union_allows_eq_plain rs hokA p hp hreg.append_left u hu
  have ev := VC.allows_eq_plain b hokB p hp (by
    rw [VC.bounds_eq_flatMap]; exact hreg.append_right) v hv
  refine ⟨fun hxt hvt => ?_, fun hyf h => ?_⟩
  · rw [eu]; exact hxs hxt p hp hreg (by rw [← ev]; exact hvt)
  · exact hys hyf p hp hreg ⟨by rw [← eu]; exact h.1, by rw [← ev]; exact h.2⟩

/-- **a union allows all of itself, and (non-empty) any of itself** -/
theorem self_allows_union (rs : List RC) (hne : rs ≠ []) (hw : ∀ c ∈ rs, c.WF ∧ c.NE) :
    VC.allowsAll (.union rs) (.union rs) = .ok true ∧ VC.allowsAny (.union rs) (.union rs) = .ok true :=
  ⟨union_allowsAll_self rs (fun c hc => (hw c hc).1), union_allowsAny_self rs hne hw⟩

/-- **`union.allows_any(b)` is yes exactly when `union.intersect(b)` is not the empty constraint**: the answer
never raises, and equals `not intersect.is_empty()` whenever the intersection returns (the two merge walks advance
in lockstep). -/
theorem allows_any_iff_intersect_union (rs : List RC) (b : VC)
    (ho : ∀ c ∈ rs, c.WF ∧ c.NE) (ht : ∀ c ∈ b.flatten, c.WF ∧ c.NE) :
    ∃ y, VC.allowsAny (.union rs) b = .ok y ∧
      ∀ res, VC.intersect (.union rs) b = .ok res → y = !res.isEmpty :=
  union_allowsAny_iff_intersect rs b ho ht

/-- **every well-formed constraint allows all of itself and, unless it is the empty constraint, any of itself**
(unions included; no hypothesis on the bounds) -/
theorem self_laws (a : VC) (hwf : a.WF) :
    VC.allowsAll a a = .ok true ∧ (a.isEmpty = false → VC.allowsAny a a = .ok true) :=
  VC.self_laws a hwf

/-- **`allows_all` never raises and a yes is sound, for any two constraints** with well-formed members (unions
included; membership as the disjunction over members, which is the real `allows` in the regular setting). -/
theorem allows_all_sound (a b : VC) (hma : ∀ c ∈ a.flatten, c.WF) (hmb : ∀ c ∈ b.flatten, c.WF) :
    ∃ x, VC.allowsAll a b = .ok x ∧
      (x = true → ∀ p, p.wf = true → Regular (boundsOf a.flatten ++ boundsOf b.flatten) p →
        b.allowsPlain p = true → a.allowsPlain p = true) :=
  VC.allowsAll_sound_gen a b hma hmb

/-- **C12 for arbitrary constraints in the regular setting.**  Extra hypothesis (named): `RegB B` — the bounds
are mutually regular and none is a local build.  Then for any two well-formed constraints: `allows_all` and
`allows_any` never raise; with the real `allows`: a yes of `allows_all` and a no of `allows_any` are sound on
regular probes; `allows_any` is yes exactly when `intersect` (which is defined) is not the empty constraint; and
the self laws hold. -/
theorem C12_regular_partial {B : List Version} (hB : RegB B) (a b : VC) (ha : a.WF) (hb : b.WF)
    (hma : ∀ c ∈ a.flatten, RegMember B c) (hmb : ∀ c ∈ b.flatten, RegMember B c) :
    ∃ x y i, VC.allowsAll a b = .ok x ∧ VC.allowsAny a b = .ok y ∧ VC.intersect a b = .ok i ∧
      y = !i.isEmpty ∧
      (∀ p, p.wf = true → Regular (boundsOf a.flatten ++ boundsOf b.flatten) p →
        ∃ pa pb, a.allows p = .ok pa ∧ b.allows p = .ok pb ∧
          (x = true → pb = true → pa = true) ∧ (y = false → ¬ (pa = true ∧ pb = true))) ∧
      VC.allowsAll a a = .ok true ∧ (a.isEmpty = false → VC.allowsAny a a = .ok true) := by
  obtain ⟨x, hx, hxs⟩ := VC.allowsAll_sound_gen a b (fun c hc => (hma c hc).1) (fun c hc => (hmb c hc).1)
  obtain ⟨y, i, hy, hi, hyi⟩ := VC.allowsAny_eq_intersect_reg hB a b ha hb hma hmb
  obtain ⟨i', hi', _, _, hex⟩ := VC.intersect_reg hB a b ha hb hma hmb
  rw [hi] at hi'; cases hi'
  refine ⟨x, y, i, hx, hy, hi, hyi, fun p hp hreg => ?_, VC.self_laws a ha⟩
  refine ⟨_, _, VC.allows_of_reg hB a ha hma p, VC.allows_of_reg hB b hb hmb p, fun hxt hpb => hxs hxt p hp hreg hpb,
    fun hyf h => ?_⟩
  have hemp : i.isEmpty = true := by rw [hyi] at hyf; simpa using hyf
  have := hex p hp hreg
  rw [h.1, h.2] at this
  cases i <;> simp [VC.isEmpty] at hemp
  simp [VC.allowsPlain, VC.flatten] at this

/-! ## the predicates between two ranges on EVERY probe: where the boundary runs

`allows_all` / `allows_any` between two ranges are the bound comparisons.  They are right at every probe that is fine
for both ranges (`VRange.OKat`: regular for an exclusive lower end and for an inclusive upper end; an inclusive lower
end and an exclusive upper end are plain comparisons on every version) — in particular on ALL versions for half-open
ranges. -/

/-- a "yes" of `allows_all` between two ranges is right at every probe fine for both -/
theorem range_allows_all_sound_at (r s : VRange) (hr : r.WF) (hs : s.WF)
    (h : RC.allowsAll (.rng r) (.rng s) = true) (p : Version) (hp : p.wf = true) (or' : r.OKat p) (os : s.OKat p)
    (hsp : s.allows p = true) : r.allows p = true := by
  simp only [RC.allowsAll, Bool.and_eq_true, Bool.not_eq_true'] at h
  have hd := (VRange.allows_iff_den_at s p hs.1 hp os).1 hsp
  exact (VRange.allows_iff_den_at r p hr.1 hp or').2
    ⟨VRange.allowsLower_false h.1 p hd.1, VRange.allowsHigher_false h.2 p hd.2⟩

/-- a "no" of `allows_any` between two ranges is right at every probe fine for both -/
theorem range_allows_any_false_sound_at (r s : VRange) (hr : r.WF) (hs : s.WF)
    (h : RC.allowsAny (.rng r) (.rng s) = .ok false) (p : Version) (hp : p.wf = true) (or' : r.OKat p)
    (os : s.OKat p) : ¬ (r.allows p = true ∧ s.allows p = true) := by
  rintro ⟨hap, hbp⟩
  simp only [RC.allowsAny, VRange.isStrictlyHigher, Except.ok.injEq, Bool.not_eq_false', Bool.or_eq_true] at h
  have hd1 := (VRange.allows_iff_den_at r p hr.1 hp or').1 hap
  have hd2 := (VRange.allows_iff_den_at s p hs.1 hp os).1 hbp
  rcases h with h | h
  · exact VRange.strictlyLower_true h p ⟨hd2.2, hd1.1⟩
  · exact VRange.strictlyLower_true h p ⟨hd1.2, hd2.1⟩

/-- **between half-open ranges (`>=V`, `<V`, `>=V,<W`, `^V`, `~V`, `~=V`, `==V.*`) both predicates are right on ALL
versions** -/
theorem halfopen_predicates_sound (r s : VRange) (hr : r.WF) (hs : s.WF) (or' : r.HalfOpen) (os : s.HalfOpen)
    (p : Version) (hp : p.wf = true) :
    (RC.allowsAll (.rng r) (.rng s) = true → s.allows p = true → r.allows p = true) ∧
    (RC.allowsAny (.rng r) (.rng s) = .ok false → ¬ (r.allows p = true ∧ s.allows p = true)) := by
  have fine : ∀ (t : VRange), t.HalfOpen → t.OKat p := fun t ht =>
    ⟨fun m hm => Or.inl (ht.1 m hm), fun M hM => Or.inl (ht.2 M hM)⟩
  exact ⟨fun h => range_allows_all_sound_at r s hr hs h p hp (fine r or') (fine s os),
    fun h => range_allows_any_false_sound_at r s hr hs h p hp (fine r or') (fine s os)⟩

/-- **`union.allows_all(b)` / `union.allows_any(b)` over range members, at a probe fine for every member**
(`RC.RngAt`: a range member whose exclusive lower / inclusive upper end the probe is regular for), without any
regularity of the bounds among themselves: both merge walks return, a "yes" of `allows_all` and a "no" of
`allows_any` are right at the probe -/
theorem union_predicates_sound_at (rs : List RC) (b : VC) (hs : SortedRC rs) (hb : b.WF) (p : Version)
    (hp : p.wf = true) (hrs : ∀ c ∈ rs, c.RngAt p) (hbm : ∀ c ∈ b.flatten, c.RngAt p) :
    (∃ x, VC.allowsAll (.union rs) b = .ok x ∧ (x = true → b.allowsPlain p = true → anyAllows rs p = true)) ∧
    (∃ y, VC.allowsAny (.union rs) b = .ok y ∧
      (y = false → ¬ (anyAllows rs p = true ∧ b.allowsPlain p = true))) := by
  constructor
  · obtain ⟨x, h1, h2⟩ := unionAllowsAllLoop_at p hp (rs.length + b.flatten.length + 1) rs b.flatten (by omega) hrs hbm
    exact ⟨x, h1, h2⟩
  · obtain ⟨y, h1, h2⟩ := unionAllowsAnyLoop_at p hp (rs.length + b.flatten.length + 1) rs b.flatten (by omega) hrs hbm
      hs (SortedRC_flatten_of_WF b hb)
    exact ⟨y, h1, h2⟩

/-- **between unions of half-open ranges** (every disjunction of `^V`, `~V`, `~=V`, `==V.*`, `>=V,<W` clauses)
**both predicates are right on ALL versions** -/
theorem halfopen_union_predicates_sound (rs : List RC) (b : VC) (hs : SortedRC rs) (hb : b.WF)
    (hrs : ∀ c ∈ rs, ∃ r, c = .rng r ∧ r.WF ∧ r.HalfOpen) (hbm : ∀ c ∈ b.flatten, ∃ r, c = .rng r ∧ r.WF ∧ r.HalfOpen)
    (p : Version) (hp : p.wf = true) :
    (∃ x, VC.allowsAll (.union rs) b = .ok x ∧ (x = true → b.allowsPlain p = true → anyAllows rs p = true)) ∧
    (∃ y, VC.allowsAny (.union rs) b = .ok y ∧
      (y = false → ¬ (anyAllows rs p = true ∧ b.allowsPlain p = true))) := by
  have fine : ∀ c : RC, (∃ r : VRange, c = .rng r ∧ r.WF ∧ r.HalfOpen) → c.RngAt p := by
    rintro c ⟨r, rfl, hw, ho⟩
    exact ⟨r, rfl, hw, ⟨fun m hm => Or.inl (ho.1 m hm), fun M hM => Or.inl (ho.2 M hM)⟩⟩
  exact union_predicates_sound_at rs b hs hb p hp (fun c hc => fine c (hrs c hc)) (fun c hc => fine c (hbm c hc))

/-- the complement: an exclusive lower end.  `(>1.0).allows_all(>=1.0.post1)` answers yes — the comparison sees
`1.0 < 1.0.post1` — although `>=1.0.post1` admits `1.0.post1`, which `>1.0` rejects (PEP 440: `>V` excludes the
post-releases of `V`).  The probe is a sibling of the exclusive end. -/
theorem counterexample_allows_all_sibling_gap :
    let V := Version.mk' 0 [1, 0] none none none none
    let W := Version.mk' 0 [1, 0] none (some ⟨.post, 1⟩) none none
    RC.allowsAll (.rng ⟨some V, none, false, false⟩) (.rng ⟨some W, none, true, false⟩) = true ∧
    (⟨some W, none, true, false⟩ : VRange).allows W = true ∧ (⟨some V, none, false, false⟩ : VRange).allows W = false := by
  intro V W
  exact ⟨by decide, by decide, by decide⟩

/-! ## a single dev-release against a union split at that dev-release

`<X || >=X.dev0` (e.g. `^1.0 || ==2.*` = `>=1.0,<2.0 || >=2.0.dev0,<3.0.dev0`) is a legitimate union: `<X` ends,
effectively, at `X.dev0` (exclusive), and the next range starts there (inclusive).  `==X.dev0` lies in the second
range.  In the merge walks the `Version` `X.dev0` and the range `<X` have the SAME effective upper end; the
inclusive/exclusive tie-break of `allows_higher` says the version reaches higher, so the walk moves on to the second
range and finds the overlap.  (Seeded change C12-3 drops that tie-break in `Version.allows_higher`; the walk then
drops the version instead and answers "no overlap" at the irregular probe `X.dev0`.) -/

/-- the tie-break: a `Version` equal to the effective (exclusive) upper end of a range reaches higher than it -/
theorem version_allows_higher_tiebreak (X : Version) (hst : X.isUnstable = false) :
    (RC.ver X.firstDevrelease).view.allowsHigher (RC.rng ⟨none, some X, false, false⟩).view = true := by
  have a1 : (RC.ver X.firstDevrelease).view.allowedMax = some X.firstDevrelease := by
    simp [RC.view, RC.max, RC.imax, VRange.allowedMax]
  have a2 := VRange.allowedMax_eq_of_lt (r := ⟨none, some X, false, false⟩) (M := X) rfl (by intro m hm; cases hm)
  simp only [Bool.false_or, hst, Bool.false_eq_true, if_false] at a2
  have l : Version.lt X.firstDevrelease X.firstDevrelease = false := (lt_false_iff _ _).2 (le_refl _)
  have g : Version.gt X.firstDevrelease X.firstDevrelease = false := (gt_false_iff _ _).2 (le_refl _)
  unfold VRange.allowsHigher
  rw [a1]
  simp only [RC.view, RC.min, RC.max, RC.imin, RC.imax, a2, l, g, Bool.false_eq_true, if_false]
  rfl

/-- **`==X.dev0` and `<X || >=X.dev0` DO overlap** (instance `X = 1.0`): `allows_any` answers yes both ways,
`intersect` is `==X.dev0` both ways, the union admits `X.dev0`, and `allows_all` of the union over the version is yes -/
theorem dev0_overlaps_split_union :
    let X := Version.mk' 0 [1, 0] none none none none
    let D := Version.mk' 0 [1, 0] none none (some ⟨.dev, 0⟩) none
    let U := VC.union [.rng ⟨none, some X, false, false⟩, .rng ⟨some D, none, true, false⟩]
    VC.allowsAny (.single (.ver D)) U = .ok true ∧ VC.allowsAny U (.single (.ver D)) = .ok true ∧
    VC.intersect (.single (.ver D)) U = .ok (.single (.ver D)) ∧
    VC.intersect U (.single (.ver D)) = .ok (.single (.ver D)) ∧
    U.allows D = .ok true ∧ VC.allowsAll U (.single (.ver D)) = .ok true := by
  intro X D U
  exact ⟨by decide, by decide, by decide, by decide, by decide, by decide⟩

/-- The property at full strength, for arbitrary constraints (unions included).  Proved above for
non-union operands (`*_member`), range-vs-union containment and the soundness of the union merge walks
(`allows_all_sound_union`, `allows_any_no_sound_union`, over `allowsPlain`); also proved: the self laws and `allows_any` ↔ intersection for unions (`self_allows_union`,
`allows_any_iff_intersect_union`), and the answers against the real `allows` (`union_answers_sound_allows`).
Not proved: totality of `union.intersect` in general, and the cases `Version`/range `allows_any` union. -/
def C12_full_statement : Prop :=
  ∀ a b : VC, a.WF → b.WF →
    (∃ x y, VC.allowsAll a b = .ok x ∧ VC.allowsAny a b = .ok y) ∧
    (∀ p, p.wf = true → Regular (a.bounds ++ b.bounds) p →
      (VC.allowsAll a b = .ok true → b.allows p = .ok true → a.allows p = .ok true) ∧
      (VC.allowsAny a b = .ok false → ¬ (a.allows p = .ok true ∧ b.allows p = .ok true))) ∧
    (VC.allowsAny a b = (do let i ← VC.intersect a b; pure (!i.isEmpty))) ∧
    VC.allowsAll a a = .ok true ∧ (a.isEmpty = false → VC.allowsAny a a = .ok true)

end Poetry.C12
