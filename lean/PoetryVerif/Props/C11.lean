/-
C11 — Python ranges and python_version markers convert into each other exactly.
Property theorems only (helper lemmas in Proofs/PyConvText.lean, PyConvMarker.lean, PyConvSem.lean,
PyConvRange.lean, PyConvNorm.lean, PyConvGpc.lean, PyConvPoetry.lean, PyConvLeaf.lean,
PyConvSplit.lean, PyConvShape.lean, PyConvSplitSem.lean, PyConvSplitSound.lean, PyConvIn.lean,
PyConvAlts.lean, PyConvGpcAlts.lean, PyConvLeafAlts.lean, PyConvComma.lean, PyConvSplitE.lean,
PyConvSplitSoundE.lean, PyConvNotIn.lean, PyConvDev*.lean, PyConvWild*.lean, PyConvPair*.lean, PyConvFull*.lean,
PyConvOne*.lean).

Vocabulary.  `EnvPy E X Y Z`: the environment `E` has `python_version = "X.Y"` and
`python_full_version = "X.Y.Z"` (all of `X Y Z : Nat`, unbounded); `pyV X Y Z` is the version `X.Y.Z`.
`PyBound v`: a final release of precision 1–3 without epoch, spelt canonically (what `>=,>,<,<=,^,~,~=,
X.*,==` produce from canonical input).  `PyDom rc`: a range with such bounds (not the universal range) or a
single such version of precision 3.  `refEval E txt` is the PEP 508 reference value (`Spec.Pep508.evalSyn`
after the grammar recogniser `parseText`) of a marker text, the empty text being "no marker".
-/
import PoetryVerif.Proofs.PyConvNorm
import PoetryVerif.Proofs.PyConvGpc
import PoetryVerif.Proofs.PyConvPoetry
import PoetryVerif.Proofs.PyConvLeaf
import PoetryVerif.Proofs.PyConvIn
import PoetryVerif.Proofs.PyConvLeafAlts
import PoetryVerif.Proofs.PyConvNotIn
import PoetryVerif.Proofs.VRangeOps
import PoetryVerif.Proofs.MarkerProj
import PoetryVerif.Proofs.PyConvFullLL
import PoetryVerif.Proofs.PyConvNestedBoundary
import PoetryVerif.Proofs.PyConvNamed
import PoetryVerif.Proofs.PyConvWildNe
import PoetryVerif.Proofs.PyConvOneObstruction

set_option linter.unusedSimpArgs false
set_option linter.unusedVariables false

namespace Poetry.C11
open Poetry Poetry.Marker Poetry.Spec.Pep508 Poetry.Version Poetry.VParser

/-- CPython 3.8.1 -/
def env381 : Env := ⟨[("python_version", "3.8"), ("python_full_version", "3.8.1")], some []⟩
example : EnvPy env381 3 8 1 := ⟨rfl, rfl⟩

def v (rel : List Nat) : Version := finalV rel

/-! ## range → marker -/

/-- **one range constraint**: the text `create_nested_marker("python_version", rc)` prints parses, and
its reference value on the environment of interpreter `X.Y.Z` is exactly `rc.allows(X.Y.Z)` — the
precision-aware choice between `python_version` and `python_full_version`, the `.0` padding for exclusive
lower / inclusive upper bounds of precision < 3, and `and` for two-sided ranges, case by case (inclusive or
exclusive × precision 1, 2, 3 × lower or upper bound). -/
theorem nestedRC_exact (E : Env) (rc : RC) (hd : PyDom rc = true) (X Y Z : Nat) (hE : EnvPy E X Y Z) :
    ∃ syn, parseText (nestedRC "python_version" rc) = .ok syn ∧
      evalSyn E syn = some (rc.allows (pyV X Y Z)) := by
  obtain ⟨syn, _, hp, he, _⟩ := nestedRC_conj (Q := QTrue) E rc hd (rcBoundQ_true rc) X Y Z hE
  exact ⟨syn, hp, he⟩

/-- `>3.8,<=3.10` is in the domain: printed `python_full_version > "3.8.0" and python_full_version <= "3.10.0"` -/
example : PyDom (.rng ⟨some (v [3, 8]), some (v [3, 10]), false, true⟩) = true ∧
    nestedRC "python_version" (.rng ⟨some (v [3, 8]), some (v [3, 10]), false, true⟩) =
      "python_full_version > \"3.8.0\" and python_full_version <= \"3.10.0\"" := by
  constructor <;> decide

/-- **the excluded shape is a genuine failure** (known finding `single-version-precision-lt-3`): the single
version `3.9` (what `<=3.9.0,~3.9` collapses to) is printed `python_version == "3.9"`, which is true on
interpreter 3.9.1, while the range rejects 3.9.1. -/
theorem counterexample_single_version_precision_lt_3 :
    let rc : RC := .ver (v [3, 9])
    let E : Env := ⟨[("python_version", "3.9"), ("python_full_version", "3.9.1")], some []⟩
    PyBound (v [3, 9]) = true ∧ (v [3, 9]).precision < 3 ∧ EnvPy E 3 9 1 ∧
    nestedRC "python_version" rc = "python_version == \"3.9\"" ∧
    (∃ syn, parseText (nestedRC "python_version" rc) = .ok syn ∧ evalSyn E syn = some true) ∧
    rc.allows (pyV 3 9 1) = false := by
  have ht : nestedRC "python_version" (.ver (v [3, 9])) = "python_version == \"3.9\"" := by decide
  refine ⟨by decide, by decide, ⟨rfl, rfl⟩, ht, ⟨.one (.item "python_version" "==" "3.9" false), ?_, ?_⟩, by decide⟩
  · rw [ht]; rfl
  · simp only [evalSyn, evalSynAcc, evalAtom]; decide

/-- **`create_nested_marker` is exact**: for the universal range (empty text), one range constraint, and
unions (`(…) or (…)`) — `PyDomVC` — the reference value of the printed text on interpreter `X.Y.Z` is membership of
`X.Y.Z` (for a union: in one of its members, `VC.allowsPlain`). -/
theorem createNested_exact (E : Env) (c : VC) (hd : PyDomVC c = true) (X Y Z : Nat) (hE : EnvPy E X Y Z) :
    ∃ txt, createNestedMarker "python_version" c = .ok txt ∧
      refEval E txt = some (c.allowsPlain (pyV X Y Z)) := by
  obtain ⟨txt, ht, hcase⟩ := createNested_syn E c hd X Y Z hE
  refine ⟨txt, ht, ?_⟩
  rcases hcase with ⟨rfl, hall⟩ | ⟨hne, syn, hp, he, _⟩
  · simp [refEval, hall]
  · simp [refEval, hne, hp, he]

/-- `~2.7 || >=3.4`: a union in the domain -/
example : PyDomVC (.union [.rng ⟨some (v [2, 7]), some (v [2, 8]), true, false⟩, .rng ⟨some (v [3, 4]), none, true, false⟩]) = true := by
  decide

/-- **`create_nested_marker` raises only for the empty constraint** (its `assert isinstance`). -/
theorem createNested_defined (name : String) (c : VC) :
    (c = .empty ∧ createNestedMarker name c = .error .assertion) ∨ ∃ txt, createNestedMarker name c = .ok txt := by
  cases c with
  | empty => left; exact ⟨rfl, rfl⟩
  | single rc =>
    right
    by_cases ha : rc.isAny = true
    · exact ⟨"", by simp [createNestedMarker, VC.isAny, ha]⟩
    · exact ⟨nestedRC name rc, by simp [createNestedMarker, VC.isAny, ha]⟩
  | union rs =>
    right
    exact ⟨joinWith " or " (rs.map (fun rc => "(" ++ (if rc.isAny then "" else nestedRC name rc) ++ ")")),
      by simp [createNestedMarker, VC.isAny]⟩

example : createNestedMarker "python_version" .empty = .error .assertion := rfl

/-- **the listed range operators land in the domain**: for a canonically spelt version `V` of 1–3 components
the parser's result for `>=V`, `>V`, `<=V`, `<V`, `^V`, `~V`, `~=V` (and `==V` for three components) is one
range constraint in `PyDom` — in both parser modes (`m`).  The wildcard forms `V.*`, `!=V.*` are outside: in
`parse_constraint` their bounds are dev-releases (`>=3.8.dev0,<3.9.dev0`), literals the formalised reference
(`Spec.Pep508`, final-release literals) does not cover; `V.*` is proved against poetry's own evaluation below
(`createNested_wildcard_partial`, `createNested_excluded_wildcard_partial`). -/
theorem listed_operators_in_domain (a : Nat) (r : List Nat) (m : Bool) (h3 : (a :: r).length ≤ 3) :
    (∃ rc, parseSingle ('>' :: '=' :: relChars (a :: r)) m = .ok (.single rc) ∧ PyDom rc = true) ∧
    (∃ rc, parseSingle ('>' :: relChars (a :: r)) m = .ok (.single rc) ∧ PyDom rc = true) ∧
    (∃ rc, parseSingle ('<' :: '=' :: relChars (a :: r)) m = .ok (.single rc) ∧ PyDom rc = true) ∧
    (∃ rc, parseSingle ('<' :: relChars (a :: r)) m = .ok (.single rc) ∧ PyDom rc = true) ∧
    (∃ rc, parseSingle ('^' :: relChars (a :: r)) m = .ok (.single rc) ∧ PyDom rc = true) ∧
    (∃ rc, parseSingle ('~' :: relChars (a :: r)) m = .ok (.single rc) ∧ PyDom rc = true) ∧
    (∃ rc, parseSingle ('~' :: '=' :: relChars (a :: r)) m = .ok (.single rc) ∧ PyDom rc = true) :=
  ⟨dom_ge a r m h3, dom_gt a r m h3, dom_le a r m h3, dom_lt a r m h3, dom_caret a r m h3, dom_tilde a r m h3,
    dom_compat a r m h3⟩

theorem eq3_in_domain (a b c : Nat) (m : Bool) :
    ∃ rc, parseSingle ('=' :: '=' :: relChars [a, b, c]) m = .ok (.single rc) ∧ PyDom rc = true :=
  dom_eq3 a b c m

/-- `relChars` is the text `str()` prints: `relChars [3, 10] = "3.10"` -/
example : String.ofList (relChars [3, 10]) = "3.10" ∧ (relText [3, 8, 1]).toList = relChars [3, 8, 1] :=
  ⟨by decide, relText_toList _⟩

/-! ## marker → range -/

/-- **one `(op, value)` pair of `normalize_python_version_markers`**: for every comparison operator
(`==, !=, <, <=, >, >=, ~=`) and a literal that `python_version` (two components) or `python_full_version`
(three components) is compared with, the clause printed for the pair (`==a.b ↦ ~a.b`, `!=a.b ↦ !=a.b.*`,
`<=a.b ↦ <a.(b+1)`, `>a.b ↦ >=a.(b+1)`, the others unchanged) is read by the constraint parser as a constraint
admitting `X.Y.Z` exactly when the item holds on the environment of `X.Y.Z` (reference value). -/
theorem normalize_pair_exact (E : Env) (X Y Z : Nat) (hE : EnvPy E X Y Z) (n op : String) (lit : List Nat)
    (hop : RelOp op) (hi : PyItem n lit) :
    ∃ item bb, normalizePyPair op (relText lit) = .ok item ∧ ClauseMeans item X Y Z bb ∧
      evalItem n op (relText lit) false E = some bb :=
  normPair_exact E X Y Z hE n op lit hop hi

example : RelOp "<=" ∧ PyItem "python_version" [3, 8] ∧ normalizePyPair "<=" (relText [3, 8]) = .ok "<3.9" ∧
    normalizePyPair "==" "3.8" = .ok "~3.8" ∧ normalizePyPair "!=" "3.8" = .ok "!=3.8.*" :=
  ⟨by simp [RelOp], .short 3 8, by decide, by decide, by decide⟩

/-- **a one-component literal is outside the domain, and the conversion is then not even an upper bound**:
`python_version <= "3"` holds on interpreter 3.0.5, the clause printed for it is `<3`, which rejects 3.0.5 (the
source comments call the single-digit case "less clear"; the C06/C11 marker domain has no such literals). -/
theorem counterexample_one_component_literal :
    let E : Env := ⟨[("python_version", "3.0"), ("python_full_version", "3.0.5")], some []⟩
    EnvPy E 3 0 5 ∧ evalItem "python_version" "<=" "3" false E = some true ∧
    normalizePyPair "<=" "3" = .ok "<3" ∧
    parseMarkerVersionConstraint "<3" = .ok (.single (.rng ⟨none, some (finalV [3]), false, false⟩)) ∧
    (VC.single (.rng ⟨none, some (finalV [3]), false, false⟩)).allowsPlain (pyV 3 0 5) = false := by
  refine ⟨⟨rfl, rfl⟩, by decide, by decide, ?_, by decide⟩
  exact clause_of_parse "<3" ('<' :: relChars [3]) (by decide) (noSep_cons (sp (by simp)) (noSep_rel _)) (by simp) _
    (parseSingle_lt 3 [] true)

/-- **a conjunction without list operators** is printed clause by clause, in order (the expansion of `in` lists
into alternatives does not interfere). -/
theorem normalize_conj_items (pairs : List (String × String)) (items : List String) (alts : List (List String))
    (hops : ∀ p ∈ pairs, RelOp p.1)
    (hit : pairs.mapM (fun p => normalizePyPair p.1 p.2) = .ok items) :
    normalizePyConj pairs alts = .ok (alts.map (· ++ items)) :=
  normConj_items pairs items alts hops hit

example : normalizePyConj [(">=", "3.8"), ("<", "3.10")] [[]] = .ok [[">=3.8", "<3.10"]] := by decide

/-- **`get_python_constraint_from_marker` of one python item is exact**: the range admits exactly the
interpreters on which the item holds. -/
theorem pyConstraint_exact_leaf (E : Env) (X Y Z : Nat) (hE : EnvPy E X Y Z) (s : Single) (lit : List Nat)
    (hv : s.value = relText lit) (hi : PyItem s.name lit) (hop : RelOp s.op) :
    ∃ vc b, gpcLeaf (.single s) = .ok vc ∧ vc.allowsPlain (pyV X Y Z) = b ∧
      evalItem s.name s.op s.value false E = some b :=
  gpcLeaf_exact E X Y Z hE s lit hv hi hop

/-- **`python_version in "X0.Y0 X1.Y1 …"`** (any number of two-component versions, any separator runs of blanks,
commas, bars): the normaliser prints one alternative `Xi.Yi.*` per listed version (repo fix bb3e413),
`parse_marker_version_constraint` reads their `||`-join as the union of the half-open ranges, `allows` of the
result never raises, and it admits `X.Y.Z` exactly when `(X, Y)` is listed — the reference value of the item. -/
theorem pyConstraint_exact_leaf_in (E : Env) (X Y Z : Nat) (hE : EnvPy E X Y Z) (s : Single) (p0 : Nat × Nat)
    (rest : List (String × (Nat × Nat))) (hs : ∀ q ∈ rest, SepRun q.1)
    (hn : s.name = "python_version") (hop : s.op = "in") (hv : s.value = verList2 p0 rest) :
    ∃ vc b, gpcLeaf (.single s) = .ok vc ∧ vc.allowsPlain (pyV X Y Z) = b ∧
      vc.allows (pyV X Y Z) = .ok b ∧ evalItem s.name s.op s.value false E = some b :=
  gpcLeaf_in2 E X Y Z hE s p0 rest hs hn hop hv

/-- **`python_version not in "X0.Y0 X1.Y1 …"`**: the normaliser prints the one entry `!=X0.Y0.*, !=X1.Y1.*, …`, the
constraint parser splits it at `, ` and intersects the excluded wildcards, and the result admits `X.Y.Z` exactly
when `(X, Y)` is not listed — the reference value of the item. -/
theorem pyConstraint_exact_leaf_notin (E : Env) (X Y Z : Nat) (hE : EnvPy E X Y Z) (s : Single) (p0 : Nat × Nat)
    (rest : List (String × (Nat × Nat))) (hs : ∀ q ∈ rest, SepRun q.1)
    (hn : s.name = "python_version") (hop : s.op = "not in") (hv : s.value = verList2 p0 rest) :
    ∃ vc b, gpcLeaf (.single s) = .ok vc ∧ vc.allowsPlain (pyV X Y Z) = b ∧
      evalItem s.name s.op s.value false E = some b :=
  gpcLeaf_notin2 E X Y Z hE s p0 rest hs hn hop hv

example : verList2 (3, 8) [(" ", (3, 9)), (", ", (3, 10))] = "3.8 3.9, 3.10" ∧
    normalizePyConj [("in", "3.8 3.9")] [[]] = .ok [["3.8.*"], ["3.9.*"]] :=
  ⟨by decide +kernel, by decide⟩

/-- **…and of a single-marker-like on another variable it is the universal range** (the one-sided part for
leaves: every interpreter is admitted). -/
theorem pyConstraint_upper_foreign_leaf (l : Leaf) (h : isPyName l.name = false) (p : Version) :
    gpcLeaf l = .ok VC.any ∧ VC.any.allowsPlain p = true :=
  ⟨gpcLeaf_foreign l h, any_allowsPlain p⟩

/-- **the one-sided part for whole markers**: wherever the marker holds, the range
`get_python_constraint_from_marker` returns admits the interpreter — through the `only` shortcut (any / empty),
the DNF (C07's `dnf_sound`, proved), the grouping of `convert_markers` (assertion included), de-duplication,
the `[] in groups` shortcut and the printed text.  Hypotheses: C07's leaf specification `S`; `hL`: every python
single-marker-like satisfying the invariant is a comparison item whose normalised clause means its truth
(`normalize_pair_exact` composed with C06's leaf agreement; discharged for poetry's own leaf truth in `leaf_clause`).
The constraint parser on the printed text of several clauses is proved (`split_sound`). -/
theorem pyConstraint_upper_partial {ev : Leaf → Bool} {G : Leaf → Prop} (S : LeafSpec ev G) (X Y Z : Nat)
    (m : M) (g : VC) (hg : M.Good G m)
    (hL : ∀ l, G l → convKey l.name = pyKey → LeafClause ev X Y Z l)
    (h : gpc m = .ok g) (hs : M.sem ev m = true) : g.allowsPlain (pyV X Y Z) = true :=
  gpc_upper S X Y Z m g hg hL (splitSound_holds X Y Z) h hs

/-- **exactness for python-only markers**: for a marker over `python_version` / `python_full_version` only, the
range admits exactly the interpreters on which the marker holds.  The shape of the DNF is C07's unconditional
`dnf_isDnf`; what is assumed about it: it mentions python variables only (`hpy`).  (An empty DNF is answered with
the empty constraint since the repair recorded under C11; see `unsatisfiable_marker_found_by_dnf_gives_empty`.)  Other hypotheses as in the one-sided part (both directions of `split_sound` are used). -/
theorem pyConstraint_exact_partial {ev : Leaf → Bool} {G : Leaf → Prop} (S : LeafSpec ev G) (X Y Z : Nat)
    (m : M) (g : VC) (hg : M.Good G m) (hv : ∀ n ∈ M.vars m, pyNames.contains n = true)
    (hL : ∀ l, G l → convKey l.name = pyKey → LeafClause ev X Y Z l)
    (hpy : ∀ d, dnf defaultFuel [] m = .ok d → ∀ l ∈ M.leaves d, convKey l.name = pyKey)
    (h : gpc m = .ok g) : M.sem ev m = g.allowsPlain (pyV X Y Z) :=
  gpc_exact S X Y Z m g hg hv hL (splitSound_holds X Y Z) hpy h

/-- **regression statement for a repaired defect**: when `marker.only("python_version", "python_full_version")`
is neither universal nor empty but `dnf(marker)` is the empty marker, `get_python_constraint_from_marker` answers
the empty constraint, as the marker holds on no environment.  Before the repair it answered the *universal* range
(`convert_markers` has no `python_version` entry at all for an empty DNF, which was read as "python_version is
arbitrary"); exactness then needed the hypothesis that the DNF is not empty.  Witness of the former behaviour,
replayed on the implementation and on the model:
`MultiMarker.of(parse_marker('python_version < "3.7" or python_version >= "3.9"'),
parse_marker('python_version == "3.7" or python_version == "3.8"'))` — `only(…)` is the marker itself, `dnf` is
`<empty>`, the result was `*`.  (Markers that `parse_marker` / `intersect` / `union` return are normalised through
`dnf`, so the case needs `MultiMarker.of` or `only` applied to unions.) -/
theorem unsatisfiable_marker_found_by_dnf_gives_empty {ev : Leaf → Bool} {G : Leaf → Prop}
    (S : LeafSpec ev G) (m pm : M) (hg : M.Good G m)
    (ho : m.only Gen.pythonVersionMarkers.reverse = .ok pm) (h1 : pm.isAny = false) (h2 : pm.isEmpty = false)
    (hd : dnf defaultFuel [] m = .ok .empty) (p : Version) :
    gpc m = .ok .empty ∧ M.sem ev m = false ∧ VC.empty.allowsPlain p = false :=
  ⟨gpc_empty_of_dnf_empty m pm ho h1 h2 hd, by rw [← (dnf_sound S hg hd).2]; rfl, empty_allowsPlain p⟩

/-- the hypotheses are satisfiable on a concrete object: a python item is a `LeafClause` as soon as its truth is
the reference value of the item (here `python_version >= "3.8"` on CPython 3.8.1), and a one-leaf marker is a
DNF of python items -/
example : let s : Single := ⟨"python_version", ">=", "3.8", false, .ver (.single (.rng ⟨some (v [3, 8]), none, true, false⟩))⟩
    (∀ ev : Leaf → Bool, ev (.single s) = true → LeafClause ev 3 8 1 (.single s)) ∧
    DnfPy (.leaf (.single s)) ∧ M.vars (.leaf (.single s)) = ["python_version"] := by
  intro s
  refine ⟨fun ev hev => ?_, ⟨by simp [membersIfUnion], fun c hc => ?_⟩, rfl⟩
  · obtain ⟨item, bb, hitem, hmean, hevi⟩ := normalize_pair_exact env381 3 8 1 ⟨rfl, rfl⟩ "python_version" ">="
      [3, 8] (by simp [RelOp]) (.short 3 8)
    have hb : bb = true := by
      have : evalItem "python_version" ">=" (relText [3, 8]) false env381 = some true := by decide
      rw [this] at hevi; injection hevi with hevi; exact hevi.symm
    subst hb
    obtain ⟨item', hitem', hshape⟩ := normPair_shape "python_version" ">=" [3, 8] (by simp [RelOp]) (.short 3 8)
    rw [hitem] at hitem'; injection hitem' with hitem'; subst hitem'
    exact ⟨s, item, rfl, by simp [RelOp, s], hitem, by rw [hev]; exact hmean, hshape⟩
  · simp [membersIfUnion] at hc; subst hc
    exact Or.inl ⟨_, rfl, by decide⟩

/-- **the constraint parser on a text of several normalised clauses** (the former hypothesis `SplitSound`): for
groups of clause texts of the shape the normaliser prints (`ItemShape`: no blank/comma/bar inside, parsing alone to a
constraint of C05's regular setting — `normPair_shape` shows every normalised clause is one), joined by blanks inside a
group and by ` || ` between groups, `parse_marker_version_constraint` returns a constraint that admits `X.Y.Z` when all
clauses of one group do and rejects it when every group has a rejecting clause.  From the regex-level splitting
lemmas (`splitOr_groups`, `splitAnd_items`) and C05's `VC.intersect_reg` / `unionOfFlat_reg`. -/
theorem split_sound (X Y Z : Nat) : SplitSound X Y Z := splitSound_holds X Y Z

/-- **… with `not in` entries**: the same for groups of *entries* — an entry is one clause or the `, `-joined clauses
a `not in` list contributes (`EntryShape`); the constraint parser splits a group at blanks and at `, ` alike
(`splitAnd_cJoin`). -/
theorem split_sound_entries (X Y Z : Nat) : SplitSoundE X Y Z := splitSoundE_holds X Y Z

example : ItemShape "~3.8" ∧ ItemShape "!=3.8.*" := by
  obtain ⟨i1, h1, s1⟩ := normPair_shape "python_version" "==" [3, 8] (by simp [RelOp]) (.short 3 8)
  obtain ⟨i2, h2, s2⟩ := normPair_shape "python_version" "!=" [3, 8] (by simp [RelOp]) (.short 3 8)
  have e1 : normalizePyPair "==" (relText [3, 8]) = .ok "~3.8" := by decide
  have e2 : normalizePyPair "!=" (relText [3, 8]) = .ok "!=3.8.*" := by decide
  rw [e1] at h1; rw [e2] at h2
  injection h1 with h1; injection h2 with h2
  subst h1; subst h2
  exact ⟨s1, s2⟩

/-- **`LeafClause` discharged**: C11's `normalize_pair_exact` composed with C06's leaf agreement (text level, all
numbers): a coherent, evaluable python single marker of the exact shape is a `LeafClause` for poetry's own leaf
truth `leafEval E`. -/
theorem leaf_clause (E : Env) (X Y Z : Nat) (hE : EnvPy E X Y Z) (l : Leaf) (hc : CompLeaf E l)
    (hs : PyShaped l) (hk : convKey l.name = pyKey) : LeafClause (leafEval E) X Y Z l :=
  leafClause_of_comp E X Y Z hE l hc hs hk

/-- **the one-sided part against poetry's own `validate`** (leaf invariant `PyG E` = coherent, evaluable single
markers with canonical variable names, python ones of the exact shape): if the marker validates to true on the environment of `X.Y.Z`, the
range admits `X.Y.Z`.  Remaining hypothesis: the leaf specification `S`. -/
theorem pyConstraint_upper_validate_partial (E : Env) (X Y Z : Nat) (hE : EnvPy E X Y Z)
    (S : LeafSpec (leafEval E) (PyG E)) (m : M) (g : VC) (hg : M.Good (PyG E) m)
    (h : gpc m = .ok g) (hv : M.validate E m = .ok true) : g.allowsPlain (pyV X Y Z) = true :=
  gpc_upper_validate E X Y Z hE S m g hg h hv

/-- **exactness against poetry's own `validate`** for python-only markers: `validate` returns exactly
`allows(X.Y.Z)` of the range.  That the DNF mentions python variables only is now proved (`dnf_vars`: the
simplifier mentions no new variable, relative to `S`). -/
theorem pyConstraint_exact_validate_partial (E : Env) (X Y Z : Nat) (hE : EnvPy E X Y Z)
    (S : LeafSpec (leafEval E) (PyG E)) (m : M) (g : VC) (hg : M.Good (PyG E) m)
    (hvars : ∀ n ∈ M.vars m, pyNames.contains n = true)
    (h : gpc m = .ok g) : M.validate E m = .ok (g.allowsPlain (pyV X Y Z)) :=
  gpc_exact_validate E X Y Z hE S m g hg hvars h

/-- **conjunctions with `in` / `not in` lists**: every pair contributes its alternatives (one clause for a comparison,
one `X.Y.*` per listed version for `in`, the single entry `!=X0.Y0.*, !=X1.Y1.*, …` for `not in`), and the
conjunction is printed as all choices of one alternative per pair, in order (the expansion of repo fix bb3e413). -/
theorem normalize_conj_alternatives (pas : List ((String × String) × List String))
    (h : ∀ x ∈ pas, PairAlts x.1.1 x.1.2 x.2) (alts : List (List String)) :
    normalizePyConj (pas.map (·.1)) alts =
      .ok (alts.flatMap (fun ands => (prodAlts (pas.map (·.2))).map (ands ++ ·))) :=
  normConj_alts pas h alts

example : normalizePyConj [(">=", "3.8"), ("in", "3.8 3.9")] [[]] = .ok [[">=3.8", "3.8.*"], [">=3.8", "3.9.*"]] := by
  decide

example : normalizePyConj [(">=", "3.8"), ("not in", "3.8 3.9")] [[]] = .ok [[">=3.8", "!=3.8.*, !=3.9.*"]] := by
  decide

/-- **each clause's alternatives are its own**: what a pair contributes is determined by that pair alone — with
`normalize_conj_alternatives`, a conjunction holding any number of `in` / `not in` list clauses is printed as the
product of the clauses' own alternatives, whatever the other clauses are (the `versions` list of
`normalize_python_version_markers` does not leak from one list clause to the next). -/
theorem pair_alternatives_own {op v : String} {a b : List String} (ha : PairAlts op v a) (hb : PairAlts op v b) :
    a = b :=
  pairAlts_unique ha hb

example : normalizePyConj [("in", "3.8 3.9"), ("in", "3.9 3.10")] [[]] =
    .ok [["3.8.*", "3.9.*"], ["3.8.*", "3.10.*"], ["3.9.*", "3.9.*"], ["3.9.*", "3.10.*"]] := by decide

example : normalizePyConj [("in", "3.9 3.10"), ("in", "3.8 3.9")] [[]] =
    .ok [["3.9.*", "3.8.*"], ["3.9.*", "3.9.*"], ["3.10.*", "3.8.*"], ["3.10.*", "3.9.*"]] := by decide

example : normalizePyConj [("not in", "3.8 3.9"), ("in", "3.10")] [[]] = .ok [["!=3.8.*, !=3.9.*", "3.10.*"]] ∧
    normalizePyConj [("in", "3.10"), ("not in", "3.8 3.9")] [[]] = .ok [["3.10.*", "!=3.8.*, !=3.9.*"]] ∧
    normalizePyConj [("not in", "3.8"), ("not in", "3.9 3.10")] [[]] = .ok [["!=3.8.*", "!=3.9.*, !=3.10.*"]] := by
  decide

/-- **the one-sided part against `validate`, `in` and `not in` lists included** (leaf invariant `PyGL E`: coherent, evaluable
single markers; python ones comparison items of the exact shape, `python_version in "X0.Y0 …"` or
`python_version not in "X0.Y0 …"`). -/
theorem pyConstraint_upper_validate_lists_partial (E : Env) (X Y Z : Nat) (hE : EnvPy E X Y Z)
    (S : LeafSpec (leafEval E) (PyGL E)) (m : M) (g : VC) (hg : M.Good (PyGL E) m)
    (h : gpc m = .ok g) (hv : M.validate E m = .ok true) : g.allowsPlain (pyV X Y Z) = true :=
  gpc_upper_validate_lists E X Y Z hE S m g hg h hv

/-- **exactness against `validate` for python-only markers, `in` and `not in` lists included** -/
theorem pyConstraint_exact_validate_lists_partial (E : Env) (X Y Z : Nat) (hE : EnvPy E X Y Z)
    (S : LeafSpec (leafEval E) (PyGL E)) (m : M) (g : VC) (hg : M.Good (PyGL E) m)
    (hvars : ∀ n ∈ M.vars m, pyNames.contains n = true)
    (h : gpc m = .ok g) : M.validate E m = .ok (g.allowsPlain (pyV X Y Z)) :=
  gpc_exact_validate_lists E X Y Z hE S m g hg hvars h

/-- the invariant `PyG` on a concrete leaf: `python_version >= "3.8"` on CPython 3.8.1 -/
example : PyG env381 (.single ⟨"python_version", ">=", "3.8", false, .ver (.single (.rng ⟨some (v [3, 8]), none, true, false⟩))⟩) :=
  ⟨⟨_, rfl, by rfl, ⟨true, by rfl⟩, by show aliasName "python_version" = "python_version"; decide⟩, fun _ => ⟨_, [3, 8], rfl, rfl, by simp [RelOp], .short 3 8, by decide⟩, by show aliasName "python_version" = "python_version"; decide⟩

/-- a marker on another variable only: `only` answers `AnyMarker`, the range is universal -/
example : gpc (.leaf (.single ⟨"sys_platform", "==", "linux", false, .gen (.s (.atom ⟨"linux", .eq, false⟩))⟩)) = .ok VC.any := by
  rfl

def C11_normalize_exact_full_statement : Prop :=
  ∀ (E : Env) (X Y Z : Nat) (disj : List (List (String × String × List Nat))), EnvPy E X Y Z →
    (∀ g ∈ disj, ∀ p ∈ g, RelOp p.2.1 ∧ PyItem p.1 p.2.2) →
    ∃ txt, normalizePyMarkers (disj.map (fun g => g.map (fun p => (p.2.1, relText p.2.2)))) = .ok txt ∧
      ClauseMeans txt X Y Z
        (disj.any (fun g => g.all (fun p => evalItem p.1 p.2.1 (relText p.2.2) false E == some true)))

def C11_pyConstraint_exact_full_statement : Prop :=
  ∀ (E : Env) (X Y Z : Nat) (text : String) (m : M) (g : VC), EnvPy E X Y Z → parseMarker text = .ok m →
    (∀ n ∈ M.vars m, n ∈ pyNames) → gpc m = .ok g → (∀ l ∈ M.leaves m, ∃ b, l.validate E = .ok b) →
    M.validate E m = .ok (g.allowsPlain (pyV X Y Z))

def C11_pyConstraint_upper_full_statement : Prop :=
  ∀ (E : Env) (X Y Z : Nat) (text : String) (m : M) (g : VC), EnvPy E X Y Z → parseMarker text = .ok m →
    gpc m = .ok g → M.validate E m = .ok true → g.allowsPlain (pyV X Y Z) = true

/-! ## the same through poetry's own `parse_marker` and evaluation -/

/-- **`create_nested_marker` then poetry's own `parse_marker` and `validate`**: the marker object validates, on
the environment of interpreter `X.Y.Z`, to exactly `allows(X.Y.Z)`.  Used as proved: C06's leaf agreement for
python items and compaction agreement (restated for `compactSubMarkers` / `M.sem (leafEval E)` in
`compactSub_agree`), C07's `union` soundness and `M.validate_eq_sem`.  The one hypothesis: the leaf specification
`LeafSpec (leafEval E) (CompLeaf E)` — marker equality and `_merge_single_markers` respect truth on coherent,
evaluable single markers (C07's `MergeSound` obligation for python leaves). -/
theorem createNested_poetry_partial (E : Env) (S : LeafSpec (leafEval E) (CompLeaf E)) (c : VC)
    (hd : PyDomVC c = true) (X Y Z : Nat) (hE : EnvPy E X Y Z) (txt : String) (m : M)
    (ht : createNestedMarker "python_version" c = .ok txt) (hm : parseMarker txt = .ok m) :
    M.Good (CompLeaf E) m ∧ M.sem (leafEval E) m = c.allowsPlain (pyV X Y Z) ∧
      M.validate E m = .ok (c.allowsPlain (pyV X Y Z)) :=
  createNested_poetry E S c hd X Y Z hE txt m ht hm

/-- the invariant is inhabited by what the parser builds: `python_version >= "3.8"` on CPython 3.8.1 -/
example : CompLeaf env381 (.single ⟨"python_version", ">=", "3.8", false, .ver (.single (.rng ⟨some (v [3, 8]), none, true, false⟩))⟩) :=
  ⟨_, rfl, by rfl, ⟨true, by rfl⟩, by show aliasName "python_version" = "python_version"; decide⟩

def C11_createNested_poetry_full_statement : Prop :=
  ∀ (E : Env) (c : VC) (X Y Z : Nat) (txt : String) (m : M), PyDomVC c = true → EnvPy E X Y Z →
    createNestedMarker "python_version" c = .ok txt → parseMarker txt = .ok m →
    M.validate E m = .ok (c.allowsPlain (pyV X Y Z))

/-! ## wildcard ranges

`python = "3.8.*"` is the range `>=3.8.dev0,<3.9.dev0`: its bounds are dev-releases, literals outside the formalised
PEP 508 reference (`Spec.Pep508` compares final releases), so the conversion is stated against poetry's own
`parse_marker` + `validate`, relative to the leaf specification for what `_compact_markers` builds. -/

/-- **`X.Y.*` converts exactly**: `parse_constraint("a.b.*")` is `[a.b.dev0, a.(b+1).dev0)`, `create_nested_marker`
prints `python_version >= "a.b.dev0" and python_version < "a.(b+1).dev0"`, and the marker read back validates, on
the environment of interpreter `X.Y.Z`, to membership of `X.Y.Z` in the range. -/
theorem createNested_wildcard_partial (E : Env) (S : LeafSpec (leafEval E) (CompLeaf E)) (X Y Z : Nat)
    (hE : EnvPy E X Y Z) (a b : Nat) :
    ∃ c, parseConstraint (Version.relText [a, b] ++ ".*") = .ok c ∧
      ∀ txt m, createNestedMarker "python_version" c = .ok txt → parseMarker txt = .ok m →
        M.validate E m = .ok (c.allowsPlain (pyV X Y Z)) := by
  refine ⟨_, parseConstraint_star2 a b, fun txt m ht hm => ?_⟩
  rw [(createNested_wild E S X Y Z hE a [b] a [b + 1] (by simp) (by simp) txt m ht hm).2]
  simp [VC.allowsPlain, VC.flatten, RC.allows]

/-- **`X.*` converts exactly** (same statement for a one-component wildcard) -/
theorem createNested_wildcard1_partial (E : Env) (S : LeafSpec (leafEval E) (CompLeaf E)) (X Y Z : Nat)
    (hE : EnvPy E X Y Z) (a : Nat) :
    ∃ c, parseConstraint (Version.relText [a] ++ ".*") = .ok c ∧
      ∀ txt m, createNestedMarker "python_version" c = .ok txt → parseMarker txt = .ok m →
        M.validate E m = .ok (c.allowsPlain (pyV X Y Z)) := by
  refine ⟨_, parseConstraint_star1 a, fun txt m ht hm => ?_⟩
  rw [(createNested_wild E S X Y Z hE a [] (a + 1) [] (by simp) (by simp) txt m ht hm).2]
  simp [VC.allowsPlain, VC.flatten, RC.allows]

/-- **`!=X.Y.*` converts exactly**: `parse_constraint("!=a.b.*")` is `<a.b.dev0 || >=a.(b+1).dev0`,
`create_nested_marker` prints `(python_version < "a.b.dev0") or (python_version >= "a.(b+1).dev0")`, and the marker
read back validates to membership of `X.Y.Z` in the union. -/
theorem createNested_excluded_wildcard_partial (E : Env) (S : LeafSpec (leafEval E) (CompLeaf E)) (X Y Z : Nat)
    (hE : EnvPy E X Y Z) (a b : Nat) :
    ∃ c, parseConstraint ("!=" ++ Version.relText [a, b] ++ ".*") = .ok c ∧
      ∀ txt m, createNestedMarker "python_version" c = .ok txt → parseMarker txt = .ok m →
        M.validate E m = .ok (c.allowsPlain (pyV X Y Z)) :=
  ⟨_, parseConstraint_neStar2 a b, fun txt m ht hm => (createNested_neWild E S X Y Z hE a b txt m ht hm).2⟩

/-! ## against poetry's own `validate`, no leaf-level hypothesis

On the domain where C07's leaf specification is proved outright — `FullLeafLLs E`: single markers on plain string
variables and `extra` (C07's fragments), `python_version op "a.b"` and `python_full_version op "a.b.c"` with a
comparison operator or `~=`, `python_version in / not in "X0.Y0 X1.Y1 …"`,
`python_full_version in / not in` lists of two- or three-component versions — under an environment of interpreter `X.Y.Z` with a set of active extras.  The python_version /
python_full_version pairing of `_merge_single_markers` is proved sound (`pairSound_py`, `pairSound_pyC`, C07's `pairSound_pyLists`, `pairSound_pyLL`),
so nothing about the simplifier is assumed; conjunctions and disjunctions with any number of list clauses are
covered (the `list-clauses` universe of the harness). -/

/-- **`get_python_constraint_from_marker` is an upper bound**: if the marker validates to true on the environment
of `X.Y.Z`, its Python constraint admits `X.Y.Z`. -/
theorem pyConstraint_upper_validate {E : Env} {ex : List String} (hX : E.extras = some ex) {X Y Z : Nat}
    (hE : EnvPy E X Y Z) (m : M) (g : VC) (hg : M.Good (FullLeafLLs E) m) (h : gpc m = .ok g)
    (hv : M.validate E m = .ok true) : g.allowsPlain (pyV X Y Z) = true :=
  gpc_upper_validate_fullLLs hX hE m g hg h hv

/-- **`get_python_constraint_from_marker` is exact on python-only markers**: `validate` on the environment of
`X.Y.Z` returns exactly whether the constraint admits `X.Y.Z`. -/
theorem pyConstraint_exact_validate {E : Env} {ex : List String} (hX : E.extras = some ex) {X Y Z : Nat}
    (hE : EnvPy E X Y Z) (m : M) (g : VC) (hg : M.Good (FullLeafLLs E) m)
    (hvars : ∀ n ∈ M.vars m, pyNames.contains n = true) (h : gpc m = .ok g) :
    M.validate E m = .ok (g.allowsPlain (pyV X Y Z)) :=
  gpc_exact_validate_fullLLs hX hE m g hg hvars h

/-- **`create_nested_marker` then `parse_marker` and `validate`, on its decidable domain** `nestedDomain c`
(`PyDomVC c` and no bound with a single component): on every environment of interpreter `X.Y.Z` — nothing else is
assumed of the environment — the marker read back has python leaves only and validates to exactly `allows(X.Y.Z)`.

This is the boundary of `C11_createNested_poetry_full_statement` as proved.  Outside it:
* a single version of precision below 3 (outside `PyDomVC`): the statement is false,
  `counterexample_single_version_precision_lt_3`;
* a range with a one-component bound (`>=3`, `^3`, `^3.8`; inside `PyDomVC`): proved on the second decidable
  domain `nestedDomain1`, `createNested_poetry_one_component`; what remains open are the constraints that mix a
  one-component bound with an exclusive lower / inclusive upper bound, a three-component bound, or a lower bound
  `a.b` meeting an upper bound `a.(b+1)`.  No leaf specification covers them: on one-component literals the
  merge is unsound as soon as `==` appears (`counterexample_one_component_union`); the reference value of the
  printed text is exact there (`createNested_exact`), the statement through `parse_marker` is
  `createNested_poetry_partial`, and the correspondence finds no disagreement;
* dev-release bounds (wildcards `X.*`, `X.Y.*`, `!=X.Y.*`; outside `PyDomVC`): `createNested_wildcard_partial`,
  `createNested_wildcard1_partial`, `createNested_excluded_wildcard_partial`, relative to the leaf specification. -/
theorem createNested_poetry {E : Env} {X Y Z : Nat} (hE : EnvPy E X Y Z) (c : VC) (hdom : nestedDomain c = true)
    (txt : String) (m : M) (ht : createNestedMarker "python_version" c = .ok txt) (hm : parseMarker txt = .ok m) :
    M.Good PyLeaf m ∧ M.validate E m = .ok (c.allowsPlain (pyV X Y Z)) :=
  createNested_domain hE c hdom txt m ht hm

/-- the domain is decidable: `>=3.8,<3.11` and `>=3.8.1 || <3.0` are inside, `>=3` is not -/
example : nestedDomain (.single (.rng ⟨some (finalV [3, 8]), some (finalV [3, 11]), true, false⟩)) = true ∧
    nestedDomain (.union [.rng ⟨none, some (finalV [3, 0]), false, false⟩,
      .rng ⟨some (finalV [3, 8, 1]), none, true, false⟩]) = true ∧
    nestedDomain (.single (.rng ⟨some (finalV [3]), none, true, false⟩)) = false ∧
    PyDomVC (.single (.rng ⟨some (finalV [3]), none, true, false⟩)) = true := by
  refine ⟨by decide, by decide, by decide, by decide⟩

/-- **`create_nested_marker` then `parse_marker` and `validate`, on the second decidable domain** `nestedDomain1 c`:
`PyDomVC c`, every lower bound inclusive and every upper bound exclusive, all of one or two components (`>=3`, `^3`,
`^3.8`, `>=2.7,<3 || >=3.5,<4`), and no lower bound `a.b` together with an upper bound `a.(b+1)` anywhere in the
constraint (so `~3.8` belongs to the first domain only).  On every environment of interpreter `X.Y.Z` the marker
read back consists of leaves `python_version >= "L"` / `python_version < "H"` (L, H of one or two components) and
validates to exactly `allows(X.Y.Z)`.

The leaf specification behind it (`leafSpec_oneG`) is proved outright: `_merge_single_markers` on two such leaves
returns Empty, Any or one of its operands -- the re-built leaf, the candidate `python_version == "a.b"` and the
union of the conversions are shown not to be reached -- using that `get_python_constraint_from_marker` of
`python_version >= "3"` / `< "4"` is literally the stored range. -/
theorem createNested_poetry_one_component {E : Env} {X Y Z : Nat} (hE : EnvPy E X Y Z) (c : VC)
    (hdom : nestedDomain1 c = true) (txt : String) (m : M)
    (ht : createNestedMarker "python_version" c = .ok txt) (hm : parseMarker txt = .ok m) :
    M.Good OneCompLeaf m ∧ M.validate E m = .ok (c.allowsPlain (pyV X Y Z)) :=
  createNested_domain1 hE c hdom txt m ht hm

/-- the second domain is decidable: `>=3`, `^3.8` = `>=3.8,<4` and `>=2.7,<3 || >=3.5,<4` are inside;
`~3.8` = `>=3.8,<3.9` (first domain) and `>3` are not -/
example : nestedDomain1 (.single (.rng ⟨some (finalV [3]), none, true, false⟩)) = true ∧
    nestedDomain1 (.single (.rng ⟨some (finalV [3, 8]), some (finalV [4]), true, false⟩)) = true ∧
    nestedDomain1 (.union [.rng ⟨some (finalV [2, 7]), some (finalV [3]), true, false⟩,
      .rng ⟨some (finalV [3, 5]), some (finalV [4]), true, false⟩]) = true ∧
    nestedDomain1 (.single (.rng ⟨some (finalV [3, 8]), some (finalV [3, 9]), true, false⟩)) = false ∧
    nestedDomain (.single (.rng ⟨some (finalV [3, 8]), some (finalV [3, 9]), true, false⟩)) = true ∧
    nestedDomain1 (.single (.rng ⟨some (finalV [3]), none, false, false⟩)) = false := by
  refine ⟨by decide, by decide, by decide, by decide, by decide, by decide⟩

/-- **the leaf specification on `python_version >= "L"` / `python_version < "H"` leaves**, L in `Lo`, H in `Hi`,
of one or two components, when no `a.b` of `Lo` meets an `a.(b+1)` of `Hi`: equal leaves have equal truth, and a
successful `_merge_single_markers` stays in the fragment and means the conjunction / disjunction -- on every
environment whose `python_version` is `X.Y`. -/
theorem leaf_specification_one_component {Lo Hi : List Nat → Prop} (hN : NoAdj Lo Hi) {E : Env} {X Y : Nat}
    (hE : E.get? "python_version" = some (relText [X, Y])) : LeafSpec (leafEval E) (OneG Lo Hi) :=
  leafSpec_oneG hN hE

/-- **a one-component `python_version ==` leaf makes the union unsound** (why the leaf specification stops at the
operators `>=` and `<` on one-component literals): the leaves are the ones the constructor builds for
`python_version == "3"`, `>= "3.2"`, `>= "3"`; `_merge_single_markers` unites the first two into the third (the
union of the ranges is not simple, so the conversions are united, and `== "3"` is converted to `>=3,<4`); on
CPython 3.1.0 both operands are false and the result is true.  Such an `==` leaf is itself the result of a merge:
`python_version >= "3" and python_version <= "3.0"` gives `python_version == "3"`.  The real code agrees on every
step (`parse_marker('python_version == "3"').union(parse_marker('python_version >= "3.2"'))`). -/
theorem counterexample_one_component_union :
    mkSingle "python_version" "==3" false = .ok oneEq3 ∧ mkSingle "python_version" ">=3.2" false = .ok oneGe32 ∧
    mkSingle "python_version" ">=3" false = .ok oneGe3 ∧ mkSingle "python_version" "<=3.0" false = .ok oneLe30 ∧
    mergeLeaves (.single oneEq3) (.single oneGe32) false = .ok (some (.leaf (.single oneGe3))) ∧
    (Leaf.single oneEq3).validate env31 = .ok false ∧ (Leaf.single oneGe32).validate env31 = .ok false ∧
    (Leaf.single oneGe3).validate env31 = .ok true ∧
    mergeLeaves (.single oneGe3) (.single oneLe30) true = .ok (some (.leaf (.single oneEq3))) :=
  ⟨one_mk.1, one_mk.2.2.2, one_mk.2.1, one_mk.2.2.1, one_merge_or, one_validate.1, one_validate.2.1,
    one_validate.2.2, one_merge_and⟩

/-- **hence no leaf specification** (C07's `LeafSpec`: a successful merge means the conjunction / disjunction and
stays in the domain) **exists on any set of leaves containing `python_version >= "3"`, `<= "3.0"` and `>= "3.2"`**,
already for the single environment CPython 3.1.0. -/
theorem no_leaf_specification_one_component (G : Leaf → Prop) (h1 : G (.single oneGe3))
    (h2 : G (.single oneLe30)) (h3 : G (.single oneGe32)) : ¬ LeafSpec (leafEval env31) G :=
  no_leafSpec_one G h1 h2 h3

/-- **`<X.Y || >X.Y` is not `python_version != "X.Y"`** (what a shortcut for meeting ranges must not emit): the text
printed is `(python_version < "X.Y") or (python_full_version > "X.Y.0")`, and the marker read back excludes `X.Y.0`
only — false on `X.Y.0`, true on `X.Y.1` — whereas `python_version != "X.Y"` is false on `X.Y.1` as well. -/
theorem createNested_ne_two_component (X Y : Nat) :
    createNestedMarker "python_version" (meetingVC X Y) = .ok (meetingText X Y) ∧
    meetingText X Y ≠ "python_version != \"" ++ relText [X, Y] ++ "\"" ∧
    (∀ (E : Env) (m : M), parseMarker (meetingText X Y) = .ok m →
      (EnvPy E X Y 0 → M.validate E m = .ok false) ∧ (EnvPy E X Y 1 → M.validate E m = .ok true)) ∧
    (∀ E : Env, EnvPy E X Y 1 → evalItem "python_version" "!=" (relText [X, Y]) false E = some false) := by
  refine ⟨createNested_meetingText X Y, meetingText_ne X Y _ (by simp [String.toList_append]), ?_, ?_⟩
  · intro E m hm
    exact ⟨fun hE => by rw [meeting_validate hE m hm]; rfl, fun hE => by rw [meeting_validate hE m hm]; rfl⟩
  · intro E hE
    rw [evalItem_py_ne E _ [X, Y] [X, Y] (Or.inl rfl) (by simp) (by simp) hE.1]
    simp [compare_self_eq]

example : meetingText 3 11 = "(python_version < \"3.11\") or (python_full_version > \"3.11.0\")" := by decide

end Poetry.C11
