/-
C11 — Python ranges and python_version markers convert into each other exactly.
Property theorems only (helper lemmas in Proofs/PyConvText.lean, PyConvMarker.lean, PyConvSem.lean).

Vocabulary.  `EnvPy E X Y Z`: the environment `E` has `python_version = "X.Y"` and
`python_full_version = "X.Y.Z"` (all of `X Y Z : Nat`, unbounded); `pyV X Y Z` is the version `X.Y.Z`.
`PyBound v`: a final release of precision 1–3 without epoch, spelt canonically (what `>=,>,<,<=,^,~,~=,
X.*,==` produce from canonical input).  `PyDom rc`: a range with such bounds (not the universal range) or a
single such version of precision 3.  `refEval E txt` is the PEP 508 reference value (`Spec.Pep508.evalSyn`
after the grammar recogniser `parseText`) of a marker text, the empty text being "no marker".
-/
import PoetryVerif.Proofs.PyConvSem
import PoetryVerif.Proofs.VRangeOps

set_option linter.unusedSimpArgs false
set_option linter.unusedVariables false

namespace Poetry.C11
open Poetry Poetry.Marker Poetry.Spec.Pep508 Poetry.Version

/-- reference value of a marker text (the empty text is the absent marker) -/
def refEval (E : Env) (txt : String) : Option Bool :=
  if txt.isEmpty then some true
  else match parseText txt with
    | .ok syn => evalSyn E syn
    | .error _ => none

theorem parseText_empty : parseText "" = .error .syntax := rfl

/-- CPython 3.8.1 -/
def env381 : Env := ⟨[("python_version", "3.8"), ("python_full_version", "3.8.1")], some []⟩
example : EnvPy env381 3 8 1 := ⟨rfl, rfl⟩

def v (rel : List Nat) : Version := finalV rel

/-! ## range → marker -/

/-- **one range constraint**: the text `create_nested_marker("python_version", rc)` prints parses, and
its reference value on the environment of interpreter `X.Y.Z` is exactly `rc.allows(X.Y.Z)` — the
precision-aware choice between `python_version` and `python_full_version`, the `.0` padding for exclusive
lower / inclusive upper bounds of precision < 3, and `and` for two-sided ranges, case by case (inclusive or
exclusive × precision 1, 2, 3 × lower or upper bound). -/
theorem nestedRC_exact (E : Env) (rc : RC) (hd : PyDom rc = true) (X Y Z : Nat) (hE : EnvPy E X Y Z) :
    ∃ syn, parseText (nestedRC "python_version" rc) = .ok syn ∧
      evalSyn E syn = some (rc.allows (pyV X Y Z)) := by
  obtain ⟨syn, _, hp, he⟩ := nestedRC_conj E rc hd X Y Z hE
  exact ⟨syn, hp, he⟩

/-- `>3.8,<=3.10` is in the domain: printed `python_full_version > "3.8.0" and python_full_version <= "3.10.0"` -/
example : PyDom (.rng ⟨some (v [3, 8]), some (v [3, 10]), false, true⟩) = true ∧
    nestedRC "python_version" (.rng ⟨some (v [3, 8]), some (v [3, 10]), false, true⟩) =
      "python_full_version > \"3.8.0\" and python_full_version <= \"3.10.0\"" := by
  constructor <;> decide

/-- **the excluded shape is a genuine failure** (known finding `single-version-precision-lt-3`): the single
version `3.9` (what `<=3.9.0,~3.9` collapses to) is printed `python_version == "3.9"`, which is true on
interpreter 3.9.1, while the range rejects 3.9.1. -/
theorem counterexample_single_version_precision_lt_3 :
    let rc : RC := .ver (v [3, 9])
    let E : Env := ⟨[("python_version", "3.9"), ("python_full_version", "3.9.1")], some []⟩
    PyBound (v [3, 9]) = true ∧ (v [3, 9]).precision < 3 ∧ EnvPy E 3 9 1 ∧
    nestedRC "python_version" rc = "python_version == \"3.9\"" ∧
    (∃ syn, parseText (nestedRC "python_version" rc) = .ok syn ∧ evalSyn E syn = some true) ∧
    rc.allows (pyV 3 9 1) = false := by
  have ht : nestedRC "python_version" (.ver (v [3, 9])) = "python_version == \"3.9\"" := by decide
  refine ⟨by decide, by decide, ⟨rfl, rfl⟩, ht, ⟨.one (.item "python_version" "==" "3.9" false), ?_, ?_⟩, by decide⟩
  · rw [ht]; rfl
  · simp only [evalSyn, evalSynAcc, evalAtom]; decide

/-- the domain of a whole constraint: the universal range, one range constraint, or a union of them -/
def PyDomVC : VC → Bool
  | .empty => false
  | .single rc => rc.isAny || PyDom rc
  | .union rs => !rs.isEmpty && rs.all PyDom

/-- **`create_nested_marker` is exact**: for the universal range (empty text), one range constraint, and
unions (`(…) or (…)`), the reference value of the printed text on interpreter `X.Y.Z` is membership of
`X.Y.Z` (for a union: in one of its members, `VC.allowsPlain`). -/
theorem createNested_exact (E : Env) (c : VC) (hd : PyDomVC c = true) (X Y Z : Nat) (hE : EnvPy E X Y Z) :
    ∃ txt, createNestedMarker "python_version" c = .ok txt ∧
      refEval E txt = some (c.allowsPlain (pyV X Y Z)) := by
  cases c with
  | empty => simp [PyDomVC] at hd
  | single rc =>
    by_cases ha : rc.isAny = true
    · refine ⟨"", by simp [createNestedMarker, VC.isAny, ha], ?_⟩
      cases rc with
      | ver x => simp [RC.isAny] at ha
      | rng r =>
        simp only [RC.isAny, VRange.isAny, Bool.and_eq_true, Option.isNone_iff_eq_none] at ha
        simp [refEval, VC.allowsPlain, VC.flatten, RC.allows, VRange.allows, VRange.allowsLo, VRange.allowsHi, ha.1, ha.2]
    · have hd' : PyDom rc = true := by simpa [PyDomVC, ha] using hd
      obtain ⟨syn, hc, hp, he⟩ := nestedRC_conj E rc hd' X Y Z hE
      refine ⟨nestedRC "python_version" rc, by simp [createNestedMarker, VC.isAny, ha], ?_⟩
      have hne : (nestedRC "python_version" rc).isEmpty = false := by
        cases h : (nestedRC "python_version" rc).isEmpty with
        | false => rfl
        | true =>
          have : nestedRC "python_version" rc = "" := by simpa [String.isEmpty_iff] using h
          rw [this] at hp; exact absurd hp (by simp [parseText_empty])
      simp [refEval, hne, hp, he, VC.allowsPlain, VC.flatten]
  | union rs =>
    simp only [PyDomVC, Bool.and_eq_true, Bool.not_eq_true', List.isEmpty_eq_false_iff, List.all_eq_true] at hd
    obtain ⟨syn, hp, he⟩ := nestedUnion_exact E rs hd.1 hd.2 X Y Z hE
    refine ⟨joinWith " or " (rs.map (fun rc => "(" ++ (if rc.isAny then "" else nestedRC "python_version" rc) ++ ")")),
      by simp [createNestedMarker, VC.isAny], ?_⟩
    have hne : (joinWith " or " (rs.map (fun rc => "(" ++ (if rc.isAny then "" else nestedRC "python_version" rc) ++ ")"))).isEmpty = false := by
      cases h : (joinWith " or " (rs.map (fun rc => "(" ++ (if rc.isAny then "" else nestedRC "python_version" rc) ++ ")"))).isEmpty with
      | false => rfl
      | true =>
        have : joinWith " or " (rs.map (fun rc => "(" ++ (if rc.isAny then "" else nestedRC "python_version" rc) ++ ")")) = "" := by
          simpa [String.isEmpty_iff] using h
        rw [this] at hp; exact absurd hp (by simp [parseText_empty])
    simp [refEval, hne, hp, he, VC.allowsPlain, VC.flatten]

/-- `~2.7 || >=3.4`: a union in the domain -/
example : PyDomVC (.union [.rng ⟨some (v [2, 7]), some (v [2, 8]), true, false⟩, .rng ⟨some (v [3, 4]), none, true, false⟩]) = true := by
  decide

/-- **`create_nested_marker` raises only for the empty constraint** (its `assert isinstance`). -/
theorem createNested_defined (name : String) (c : VC) :
    (c = .empty ∧ createNestedMarker name c = .error .assertion) ∨ ∃ txt, createNestedMarker name c = .ok txt := by
  cases c with
  | empty => left; exact ⟨rfl, rfl⟩
  | single rc =>
    right
    by_cases ha : rc.isAny = true
    · exact ⟨"", by simp [createNestedMarker, VC.isAny, ha]⟩
    · exact ⟨nestedRC name rc, by simp [createNestedMarker, VC.isAny, ha]⟩
  | union rs =>
    right
    exact ⟨joinWith " or " (rs.map (fun rc => "(" ++ (if rc.isAny then "" else nestedRC name rc) ++ ")")),
      by simp [createNestedMarker, VC.isAny]⟩

example : createNestedMarker "python_version" .empty = .error .assertion := rfl

end Poetry.C11
