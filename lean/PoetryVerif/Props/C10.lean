/-
C10 — A dependency survives the round trip through its PEP 508 text.
Property theorems only (helper lemmas in Proofs/Dep.lean; models in Model/Requirement.lean, Model/Dep.lean).

Proved here for all inputs: the string-level facts the round trip rests on (name normalisation idempotent, extras
list stable, spelling of names/extras irrelevant, quote style irrelevant, leading blanks irrelevant, path and
`[@rev][#subdirectory=dir]` suffix of the restricted git-URL grammar read back exactly); that the requirement
recogniser reads printed text back (`recogniser_reads_printed_registry`, `recogniser_reads_printed_url`); and the round
trip `create_from_pep_508 ∘ to_pep_508` on REGISTRY dependencies with no hypothesis left about recogniser, constraint
parser/printer (C15's string-level theorems are used as proved) or marker parser/printer (C13's `print_ok` and C07's
`union` soundness are used as proved): `dep_roundtrip_registry_identical` (`*`, plain ranges, single versions: the very
same constraint comes back), `dep_roundtrip_registry_ne` (`!=V`: an equivalent constraint), and
`dep_roundtrip_registry_marker` (markers of C13's full comparison-operator domain: the marker read back validates
exactly as the original on every environment of the domain).
`dep_roundtrip_url` does the same for URL dependencies without sub-directory (http/https URL in `urlsplit` normal form),
`dep_roundtrip_vcs` for git dependencies whose location is in the normal form of the restricted git grammar (any scheme
of the grammar, with and without user, port, reference and sub-directory), through the whole-URL inverse
`giturl_inverse_full`.
The full statement is `dep_roundtrip_full_statement`.  `dep_roundtrip_url_subdirectory` and `dep_roundtrip_url_wheel` cover `#subdirectory=` and wheel URLs (the wheel's file
name must carry the dependency's name: `wheel_url_name_counterexample`).
NOT proved of it: (1) git locations outside the restricted grammar; URLs read through `urlsplit` are characterised by
the model's own computation on the concrete text (`UrlNF`, `UrlRead`, `VcsUrlOK`), not by a grammar;
(2) constraints printed as a disjunction (they do not round-trip at all: `disjunction_not_reparsable`; outside the
property's domain) — wildcard spellings `==X.*` / `!=X.*` are covered by `dep_roundtrip_registry_wildcard`; (3) dependencies that are
members of SEVERAL extras or of one extra and carry a marker of their own (`dep_roundtrip_in_extras_full_statement`;
proved: one extra, no own marker, `dep_roundtrip_registry_in_extra`, and the setter half for any marker,
`setMarker_records_membership`); (4) markers outside C13's domain
(`in` / `not in`, `~=`, `platform_release`); (5) one side condition on the printed text kept as a hypothesis: no ` #` in it
(`NoComment`; FALSE without it: the known finding `marker-literal-with-blank-hash-cut-as-comment`); that the marker
text neither starts nor ends with a blank is derived from the printer (`markerEnds_domain`).
The statement is FALSE of the code without the side conditions named there: see the counterexample theorem (same
witness as the check's corpus); three former counterexamples, repaired in poetry-core since, are kept as regression
theorems.
-/
import PoetryVerif.Proofs.DepConstraint
import PoetryVerif.Proofs.DepMarker
import PoetryVerif.Proofs.DepUrl
import PoetryVerif.Proofs.DepVcs
import PoetryVerif.Proofs.DepWildcard
import PoetryVerif.Proofs.DepExtras
import PoetryVerif.Proofs.VRangeTextP

set_option linter.unusedSimpArgs false
set_option linter.unusedVariables false

namespace Poetry.C10
open Poetry Poetry.Marker Poetry.Req Poetry.Dep

/-! ## normalisation -/

/-- **the normalised name is a fixed point of normalisation** (so printing the pretty name and parsing it back
gives the same `name`) -/
theorem name_normalisation_idempotent (s : String) : canonName (canonName s) = canonName s := canonName_idem s

/-- **the extras of a dependency (normalised, sorted, duplicate-free) are stable** under printing and re-reading -/
theorem extras_stable (fs : List String) : normFeatures (normFeatures fs) = normFeatures fs := normFeatures_idem fs

example : normFeatures ["Foo_Bar", "a.b", "foo-bar", "A--B"] = ["a-b", "foo-bar"] := by decide

/-- **name and extra case and separators are insignificant**: requirements whose names and extras have the same
PEP 503 normal form give dependencies with the same name and extras -/
theorem spelling_insensitive (n1 n2 : String) (e1 e2 : List String) (c : VC) (d1 d2 : Dep)
    (hn : canonName n1 = canonName n2) (he : e1.map canonName = e2.map canonName)
    (h1 : mkRegistry n1 c e1 = .ok d1) (h2 : mkRegistry n2 c e2 = .ok d2) :
    d1.name = d2.name ∧ d1.extras = d2.extras ∧ d1.kind = d2.kind ∧ d1.constraint = d2.constraint := by
  simp only [mkRegistry, Spec.make, normalizeSourceUrl, truthy, mkDep, bind, Except.bind, pure, Except.pure,
    Bool.false_and, Bool.false_eq_true, if_false] at h1 h2
  cases hs : c.toStr with
  | error e => simp [hs] at h1
  | ok s =>
    simp only [hs] at h1 h2
    cases h1; cases h2
    exact ⟨hn, normFeatures_congr _ _ he, rfl, rfl⟩

example : ∃ d1 d2, mkRegistry "Foo_Bar" VC.any ["A.b"] = .ok d1 ∧ mkRegistry "foo--bar" VC.any ["a_B", "a-b"] = .ok d2 ∧
    d1.name = "foo-bar" ∧ d2.name = "foo-bar" ∧ d1.extras = ["a-b"] ∧ d2.extras = ["a-b"] :=
  ⟨_, _, rfl, rfl, by decide, by decide, by decide, by decide⟩

/-- **quote style is insignificant**: a marker string without quotes, backslashes and newlines is the same token
in single and in double quotes -/
theorem quote_insensitive (v r : List Char) (h : ∀ c ∈ v, c ≠ '\'' ∧ c ≠ '"' ∧ c ≠ '\\' ∧ c ≠ '\n') :
    markerValue ('\'' :: v ++ '\'' :: r) = markerValue ('"' :: v ++ '"' :: r) := by
  rw [(markerValue_quote v r h).1, (markerValue_quote v r h).2]

/-- **blanks and tabs in front of a requirement are insignificant** -/
theorem leading_blanks_insensitive (ws cs : List Char) (h : Blanks ws) : parseRaw (ws ++ cs) = parseRaw cs := by
  unfold parseRaw
  rw [skipWs_blanks ws cs h]

/-! ## the restricted git-URL grammar -/

/-- **path and suffix of a git URL of the grammar are read back exactly**: after `scheme://[user@]host[:port]/`,
the text `seg/…/seg[@rev][#subdirectory=dir]` is split into the path and the pair (rev, sub-directory) -/
theorem giturl_path_suffix_inverse (g : GitParts) (h : g.WF) :
    takeSegs (g.segs.length + 1) (pathOf g.segs ++ suffixText g.rev g.subdir) = some (pathOf g.segs, suffixText g.rev g.subdir) ∧
    parseSuffix (suffixText g.rev g.subdir) = some (g.rev.map String.ofList, g.subdir.map String.ofList) := by
  refine ⟨takeSegs_path g.segs _ _ h.segs ?_ (by omega), parseSuffix_suffixText _ _ h.rev h.subdir⟩
  unfold stopper suffixText
  cases g.rev with
  | some r => exact Or.inr ⟨r ++ _, Or.inl rfl⟩
  | none =>
    cases g.subdir with
    | none => exact Or.inl rfl
    | some d => right; rw [subdirKey_eq]; exact ⟨_, Or.inr rfl⟩

/-- **whole-URL print / parse inverse of the git grammar**: the normal form
`scheme://[user@]host[:port]/seg/…/seg[@rev][#subdirectory=dir]`, with or without the `git+` prefix, is parsed into
exactly its components, and `ParsedUrl.url` of the result is the normal form without suffix (so the normal form is a
fixed point of `_normalize_source_url`) — for every scheme of the grammar (git, ssh, rsync, file, http, https), with
and without user, port, revision and sub-directory -/
theorem giturl_inverse_full (g : GitParts) (h : g.WF) :
    parseGitUrlL ("git+".toList ++ g.text) = .ok g.parsed ∧ parseGitUrlL g.text = .ok g.parsed ∧
    g.parsed.url = String.ofList g.normal :=
  giturl_inverse g h

/-- non-vacuity: `ssh://git@github.com:2222/org/repo.git@v1.0#subdirectory=pkg/core` -/
example : (⟨"ssh", some "git".toList, "github.com".toList, some "2222".toList, ["org".toList, "repo.git".toList],
    some "v1.0".toList, some "pkg/core".toList⟩ : GitParts).WF :=
  { proto := by decide, user := ⟨by decide, by decide⟩, host := ⟨by decide, by decide⟩, port := ⟨by decide, by decide⟩,
    segs := ⟨by decide, by decide⟩, rev := ⟨by decide, by decide⟩, subdir := ⟨by decide, by decide +kernel⟩ }

example : parseGitUrl "git+ssh://git@github.com:2222/org/repo.git@v1.0#subdirectory=pkg/core" =
    .ok { protocol := some "ssh", resource := some "github.com", pathname := some "/org/repo.git", user := some "git",
          port := some "2222", rev := some "v1.0", subdirectory := some "pkg/core" } := by rfl

example : (parseGitUrl "git@github.com:org/repo.git").map GitUrl.url = .ok "ssh://git@github.com/org/repo.git" := by rfl

/-- printing a parsed URL and parsing it again gives the same URL (concrete instance of the normal form) -/
example : ((parseGitUrl "git+ssh://git@github.com:org/repo.git@main").map GitUrl.url).bind
    (fun u => (parseGitUrl u).map GitUrl.url) = .ok "ssh://git@github.com/org/repo.git" := by rfl

/-! ## the round trip -/

/-- side conditions under which the code can round-trip a dependency at all -/
structure WFDep (d : Dep) : Prop where
  name : d.spec.name = canonName d.spec.prettyName
  extras : normFeatures d.spec.features = d.spec.features
  notUrl : isUrlName d.spec.prettyName = false

/-- `is_same_source_as` both ways -/
def sameSource (a b : Dep) : Prop := a.spec.isSameSourceAs b.spec = true ∧ b.spec.isSameSourceAs a.spec = true

/-- the kind with branch / tag / rev collapsed into the one reference a PEP 508 text can carry -/
def Kind.textual : Kind → Kind
  | .vcs v s b t r d => .vcs v s none none (pyOr (pyOr b t) r) d
  | k => k

/-- **C10, full statement**: printing and re-parsing a well-formed registry / URL / VCS dependency gives a dependency
with the same name, extras, kind and source, a constraint admitting the same regular versions and a marker true in the
same environments -/
def dep_roundtrip_full_statement : Prop :=
  ∀ d : Dep, WFDep d → (d.kind.tag = "registry" ∨ d.kind.tag = "url" ∨ d.kind.tag = "vcs") →
    ∀ t, d.toPep508 = .ok t →
      ∃ d', createFromPep508 t = .ok d' ∧ d'.name = d.name ∧ d'.extras = d.extras ∧ d'.kind = Kind.textual d.kind ∧
        sameSource d' d ∧
        (d.kind = .registry → ∀ v, d'.constraint.allows v = d.constraint.allows v) ∧
        (∀ E, d'.marker.validate E = d.marker.validate E)

/-- **proved part, dispatch level** (kept: it is the step the theorems below compose with the recogniser): once the
recogniser has read the printed text of a registry dependency back into its tokens
(hypothesis `hreq…`: name = the pretty name, extras = the printed extras, no URL; the parse stream of the check ties the
recogniser to lark on every run) the dispatch of `create_from_pep_508` rebuilds a registry dependency with the same
normalised name, the same extras, the same kind and source, carrying the constraint and marker the requirement parser
produced — whose equivalence with the original ones is C15's (`parseConstraint (toStr c) ≃ c` on regular versions) and
C13's (`parseMarker (toStr m) ≃ m`) round trip. -/
theorem dep_roundtrip_partial (d : Dep) (req : Requirement) (h : WFDep d) (hk : d.kind = .registry)
    (hsrc : d.spec.sourceType = none)
    (hname : req.name = d.spec.prettyName) (hext : req.extras = d.spec.features) (hurl : req.url = none)
    (hm : req.marker = none) (s : String) (hs : req.constraint.toStr = .ok s) :
    ∃ d', fromReq req = .ok d' ∧ d'.name = d.name ∧ d'.extras = d.extras ∧ d'.kind = Kind.textual d.kind ∧
      sameSource d' d ∧ d'.constraint = req.constraint ∧ d'.marker = .any := by
  have hu : isUrlName req.name = false := by rw [hname]; exact h.notUrl
  refine ⟨{ spec := { prettyName := req.name, name := canonName req.name, sourceType := none, sourceUrl := none,
                      sourceReference := none, sourceResolvedReference := none, sourceSubdirectory := none,
                      features := normFeatures req.extras },
            constraint := req.constraint, prettyConstraint := s, marker := .any, pythonVersions := "*",
            pythonConstraint := VC.any, inExtras := [], optional := false, activated := true, kind := .registry }, ?_, ?_⟩
  · simp only [fromReq, hu, hurl, hm, mkRegistry, Spec.make, normalizeSourceUrl, truthy, mkDep, hs, bind, Except.bind,
      pure, Except.pure, Bool.false_and, Bool.false_eq_true, if_false]
  · refine ⟨?_, ?_, ?_, ?_, rfl, rfl⟩
    · show canonName req.name = d.spec.name
      rw [hname, h.name]
    · show normFeatures req.extras = d.spec.features
      rw [hext, h.extras]
    · rw [hk]; rfl
    · constructor <;> simp [Spec.isSameSourceAs, hsrc, truthy]

example : ∃ d, mkRegistry "Foo_Bar" VC.any ["a-b"] = .ok d ∧ WFDep d ∧ d.kind = .registry ∧ d.spec.sourceType = none :=
  ⟨_, rfl, ⟨by decide, by decide, by decide⟩, rfl, rfl⟩

/-! ## the round trip on registry dependencies, recogniser and C15 / C13 hypotheses discharged -/

/-- **the requirement recogniser reads printed text back** — `name[e1,e2] (tok,tok) ; marker` laid out as
`to_pep_508` does, with identifier name/extras, printed spec tokens and an accepted marker text, gives exactly these
pieces (what `dep_roundtrip_partial` had to assume as `hname`/`hext`/`hurl`/`hm`) -/
theorem recogniser_reads_printed_registry (name : List Char) (es ts : List (List Char)) (mo : Option (List Char))
    (so : Option Syn) (hn : Ident name) (he : ∀ e ∈ es, Ident e) (ht : ∀ t ∈ ts, SpecTok t) (hm : TailOK mo so) :
    parseRaw (name ++ extrasText es ++ specsText ts ++ markerText mo) =
      some (mkRaw name es (match ts with | [] => none | _ => some ts) none so) :=
  parseRaw_registry name es ts mo so hn he ht hm

/-- … and the direct-reference layout `name[e1,e2] @ url ; marker` (URL and VCS kinds) -/
theorem recogniser_reads_printed_url (name : List Char) (es : List (List Char)) (u : List Char) (mo : Option (List Char))
    (so : Option Syn) (hn : Ident name) (he : ∀ e ∈ es, Ident e) (hu : UriOK u) (hm : TailOK mo so) :
    parseRaw (name ++ extrasText es ++ urlText (some u) ++ markerText mo) = some (mkRaw name es none (some u) so) :=
  parseRaw_url name es u mo so hn he hu hm

example : Ident "Foo_Bar".toList ∧ SpecTok ">=1.0".toList ∧ UriOK "https://example.com/a.zip".toList ∧ TailOK none none :=
  ⟨⟨'F', "oo_Bar".toList, rfl, by decide, by decide⟩,
   ⟨'>', '=', "1.0".toList, rfl, ['>', '='], "1.0".toList, rfl, rfl, by decide, by decide⟩,
   ⟨⟨'h', _, rfl, by decide⟩, by decide⟩, trivial⟩

/-- what is common to every class of constraint: the re-parsed dependency has the same name, extras, kind and source,
and carries the constraint `parse_constraint` reads from the printed tokens -/
theorem dep_roundtrip_registry_core (d : Dep) (ts : List (List Char)) (so : Option Syn) (t : String) (d' : Dep)
    (h : RegWF d) (hr : createFromPep508 t = rebuildRegistry d.spec.prettyName.toList (d.spec.features.map String.toList) ts so)
    (hd : createFromPep508 t = .ok d') :
    d'.name = d.name ∧ d'.extras = d.extras ∧ d'.kind = Kind.textual d.kind ∧ sameSource d' d ∧
      VParser.parseConstraint (ctextOf ts) = .ok d'.constraint ∧ RebuiltMarker so d'.marker := by
  rw [hr] at hd
  obtain ⟨a1, a2, a3, a4, a5, a6⟩ := rebuildRegistry_ok _ _ _ _ _ hd
  refine ⟨?_, ?_, ?_, ?_, a5, a6⟩
  · show d'.spec.name = d.spec.name
    rw [a1, String.ofList_toList, h.name]
  · show d'.spec.features = d.spec.features
    rw [a2, map_ofList_toList, h.feats]
  · rw [a3, h.kind]; rfl
  · constructor <;> simp [Spec.isSameSourceAs, a4, h.src, truthy]

/-- **round trip of a registry dependency without marker** (`*`, a plain range, a single version): `to_pep_508`
succeeds, `create_from_pep_508` of its text succeeds, and the result has the same normalised name, the same extras,
kind and source, THE SAME constraint (C15: identical re-parse) and no marker.  No hypothesis about the recogniser,
the constraint parser or the printer remains; side conditions: `RegWF` (identifier name/extras, normalised, not a member
of an extra), the bounds carry re-parsable texts (`TextOK`), the printed text has no ` #` (known finding). -/
theorem dep_roundtrip_registry_identical (d : Dep) (ts : List (List Char)) (h : RegWF d)
    (hcb : CBody d ts ∧ VParser.parseConstraint (ctextOf ts) = .ok d.constraint) (hstr : ∃ s, d.constraint.toStr = .ok s)
    (hany : d.marker.isAny = true) (hpy : d.pythonVersions = "*")
    (hnc : ∀ t, d.toPep508 = .ok t → NoComment t.toList) :
    ∃ t d', d.toPep508 = .ok t ∧ createFromPep508 t = .ok d' ∧ d'.name = d.name ∧ d'.extras = d.extras ∧
      d'.kind = Kind.textual d.kind ∧ sameSource d' d ∧ d'.constraint = d.constraint ∧ d'.marker = .any := by
  obtain ⟨t, ht, hr⟩ := registry_print_reparse_nomarker d ts h hcb.1 hany hpy hnc
  obtain ⟨s, hs⟩ := hstr
  have hok : ∃ d', createFromPep508 t = .ok d' := by
    rw [hr]
    simp only [rebuildRegistry, hcb.2, mkRegistry, Spec.make, normalizeSourceUrl, truthy, mkDep, hs, bind, Except.bind,
      pure, Except.pure, Bool.false_and, Bool.false_eq_true, if_false]
    exact ⟨_, rfl⟩
  obtain ⟨d', hd'⟩ := hok
  obtain ⟨b1, b2, b3, b4, b5, b6⟩ := dep_roundtrip_registry_core d ts none t d' h hr hd'
  rw [hcb.2] at b5
  injection b5 with b5
  exact ⟨t, d', ht, hd', b1, b2, b3, b4, b5.symm, b6⟩

/-- the three classes with an identical re-parse -/
theorem registry_class_any (d : Dep) (hc : d.constraint = VC.any) :
    CBody d [] ∧ VParser.parseConstraint (ctextOf []) = .ok d.constraint := by
  refine ⟨cbody_any d (by rw [hc]; rfl) (by intro v; rw [hc]; simp [VC.any]) (by intro rs; rw [hc]; simp [VC.any]), ?_⟩
  rw [hc]; rfl

theorem registry_class_range (d : Dep) (r : VRange) (hc : d.constraint = .single (.rng r)) (hwf : r.WF) (hne : r.NE)
    (htidy : r.Tidy) (ht : (RC.rng r).TextOK) (hp : r.isSingleWildcardRange = false) (hany : r.isAny = false) :
    CBody d (rangeToks r) ∧ VParser.parseConstraint (ctextOf (rangeToks r)) = .ok d.constraint := by
  rw [hc]; exact cbody_range d r hc hwf hne htidy ht hp hany

theorem registry_class_version (d : Dep) (v : Version) (hc : d.constraint = .single (.ver v)) (ht : TextOK v) :
    CBody d ['=' :: '=' :: v.text.toList] ∧
      VParser.parseConstraint (ctextOf ['=' :: '=' :: v.text.toList]) = .ok d.constraint := by
  rw [hc]; exact cbody_version d v hc ht

/-! non-vacuity: `Foo_Bar[a-b] (>=1.0,<2.0)` meets every hypothesis of `dep_roundtrip_registry_identical` through
`registry_class_range` -/
private def v10 : Version := ⟨0, [1, 0], none, none, none, none, "1.0"⟩
private def v20 : Version := ⟨0, [2, 0], none, none, none, none, "2.0"⟩
private def r12 : VRange := ⟨some v10, some v20, true, false⟩
private def exDep : Dep :=
  { spec := { prettyName := "Foo_Bar", name := "foo-bar", sourceType := none, sourceUrl := none, sourceReference := none,
              sourceResolvedReference := none, sourceSubdirectory := none, features := ["a-b"] },
    constraint := .single (.rng r12), prettyConstraint := ">=1.0,<2.0", marker := .any, pythonVersions := "*",
    pythonConstraint := VC.any, inExtras := [], optional := false, activated := true, kind := .registry }

private theorem exDep_wf : RegWF exDep :=
  { kind := rfl, src := rfl, name := by decide, ident := ⟨'F', "oo_Bar".toList, rfl, by decide, by decide⟩,
    feats := by decide, featIdent := by intro f hf; simp [exDep] at hf; subst hf; exact ⟨'a', "-b".toList, rfl, by decide, by decide⟩,
    inExtras := rfl }

private theorem v10_text : TextOK v10 :=
  textOK_of_parse "1.0" v10 (by decide +kernel) (by decide) ⟨'1', _, rfl, by decide⟩ ⟨['1', '.'], '0', rfl, by decide⟩
private theorem v20_text : TextOK v20 :=
  textOK_of_parse "2.0" v20 (by decide +kernel) (by decide) ⟨'2', _, rfl, by decide⟩ ⟨['2', '.'], '0', rfl, by decide⟩

example : ((mkRegistryStr "Foo_Bar" ">=1.0,<2.0" ["A_b"]).bind (fun d => d.toPep508)).toOption =
    some "Foo_Bar[a-b] (>=1.0,<2.0)" := by decide +kernel

example : RegWF exDep ∧ exDep.constraint = .single (.rng r12) ∧ r12.WF ∧ r12.NE ∧ r12.Tidy ∧ (RC.rng r12).TextOK ∧
    r12.isSingleWildcardRange = false ∧ r12.isAny = false ∧ (∃ s, exDep.constraint.toStr = .ok s) ∧
    exDep.marker.isAny = true ∧ exDep.pythonVersions = "*" ∧ (exDep.toPep508).toOption = some "Foo_Bar[a-b] (>=1.0,<2.0)" ∧
    NoComment "Foo_Bar[a-b] (>=1.0,<2.0)".toList := by
  refine ⟨exDep_wf, rfl, ⟨by unfold VRange.wfB; decide +kernel, ?_⟩, by unfold VRange.NE; decide +kernel,
    by unfold VRange.Tidy; decide, ?_, by decide +kernel, by decide, ⟨_, memberChars_toStr (.rng r12) (by show r12.isSingleWildcardRange = false; decide +kernel)⟩,
    rfl, rfl, by decide +kernel, noComment_of_noHash _ (by decide)⟩
  · intro m M hm hM
    simp [r12] at hm hM; subst hm; subst hM
    decide +kernel
  · intro e he
    simp [RC.bounds, RC.view, VRange.bounds, RC.min, RC.max, r12] at he
    rcases he with rfl | rfl
    · exact v10_text
    · exact v20_text

/-- **round trip of a registry dependency whose constraint excludes one version** (`!=V`, possibly inside a
conjunction that the algebra reduced to it): the re-parsed constraint is `<V || >V`, which admits exactly the versions
the original admits — for every well-formed version regular for the original's bounds (C15 `union_ne_text_roundtrip`) -/
theorem dep_roundtrip_registry_ne (d : Dep) (rs : List RC) (v : Version) (h : RegWF d) (hc : d.constraint = .union rs)
    (hu : UnionText rs) (hx : VC.excludedSingleVersion rs = .ok (some v)) (ht : TextOK v)
    (hany : d.marker.isAny = true) (hpy : d.pythonVersions = "*")
    (hnc : ∀ t, d.toPep508 = .ok t → NoComment t.toList) :
    ∃ t, d.toPep508 = .ok t ∧ ∀ d', createFromPep508 t = .ok d' →
      d'.name = d.name ∧ d'.extras = d.extras ∧ d'.kind = Kind.textual d.kind ∧ sameSource d' d ∧ d'.marker = .any ∧
      ∀ p, p.wf = true → Regular (boundsOf rs) p → d'.constraint.allows p = d.constraint.allows p := by
  obtain ⟨hcb, hparse, heqv⟩ := cbody_ne d rs v hc hu hx ht
  obtain ⟨t, htp, hr⟩ := registry_print_reparse_nomarker d _ h hcb hany hpy hnc
  refine ⟨t, htp, ?_⟩
  intro d' hd'
  obtain ⟨b1, b2, b3, b4, b5, b6⟩ := dep_roundtrip_registry_core d _ none t d' h hr hd'
  rw [hparse] at b5
  injection b5 with b5
  refine ⟨b1, b2, b3, b4, b6, ?_⟩
  intro p hp hreg
  rw [← b5, hc]
  exact heqv p hp hreg

/-- **round trip of a registry dependency whose constraint the printer spells with a wildcard** — `==X.*` for any range
`[mn, mx)` that `_is_wildcard_candidate` accepts (algebra-produced ones included, lower end not a post-release), `!=X.*`
for the two-member union `<A || >=B` it accepts: the text is `name[extras] (==X.*)` resp. `(!=X.*)`, and the re-parsed
dependency has the same name, extras, kind and source and a constraint that admits EXACTLY the same versions, on every
well-formed version (C15 `wildcard_spelt_roundtrip` / `wildcard_spelt_union_roundtrip`) -/
theorem dep_roundtrip_registry_wildcard (d : Dep) (h : RegWF d)
    (hcls : (∃ mn mx, d.constraint = .single (.rng ⟨some mn, some mx, true, false⟩) ∧
              (⟨some mn, some mx, true, false⟩ : VRange).WF ∧ isWildcardCandidate mn mx false = true ∧
              mn.isPostrelease = false) ∨
            (∃ omax tmin, d.constraint = .union [.rng ⟨none, some omax, false, false⟩, .rng ⟨some tmin, none, true, false⟩] ∧
              omax.wf = true ∧ tmin.wf = true ∧ vk omax < vk tmin ∧
              isWildcardCandidate tmin omax true = true ∧ omax.isPostrelease = false))
    (hany : d.marker.isAny = true) (hpy : d.pythonVersions = "*")
    (hnc : ∀ t, d.toPep508 = .ok t → NoComment t.toList) :
    ∃ t, d.toPep508 = .ok t ∧ ∀ d', createFromPep508 t = .ok d' →
      d'.name = d.name ∧ d'.extras = d.extras ∧ d'.kind = Kind.textual d.kind ∧ sameSource d' d ∧ d'.marker = .any ∧
      ∀ p, p.wf = true → d'.constraint.allows p = d.constraint.allows p := by
  have key : ∃ ts c', CBody d ts ∧ VParser.parseConstraint (ctextOf ts) = .ok c' ∧
      ∀ p, p.wf = true → c'.allows p = d.constraint.allows p := by
    rcases hcls with ⟨mn, mx, hc, hwf, hw, hnp⟩ | ⟨omax, tmin, hc, ho, ht, hlt, hw, hnp⟩
    · exact cbody_wild_eq d mn mx hc hwf hw hnp
    · exact cbody_wild_ne d omax tmin hc ho ht hlt hw hnp
  obtain ⟨ts, c', hcb, hparse, heqv⟩ := key
  obtain ⟨t, htp, hr⟩ := registry_print_reparse_nomarker d ts h hcb hany hpy hnc
  refine ⟨t, htp, ?_⟩
  intro d' hd'
  obtain ⟨b1, b2, b3, b4, b5, b6⟩ := dep_roundtrip_registry_core d ts none t d' h hr hd'
  rw [hparse] at b5
  injection b5 with b5
  exact ⟨b1, b2, b3, b4, b6, fun p hp => by rw [← b5]; exact heqv p hp⟩

/-- non-vacuity: `>=1.dev0,<2` (printed `==1.*`) meets the first class -/
example : let mn := Version.mk' 0 [1] none none (some ⟨.dev, 0⟩) none
    let mx := Version.mk' 0 [2] none none none none
    (⟨some mn, some mx, true, false⟩ : VRange).WF ∧ isWildcardCandidate mn mx false = true ∧ mn.isPostrelease = false := by
  intro mn mx
  refine ⟨⟨by unfold VRange.wfB; decide +kernel, ?_⟩, by decide, by decide⟩
  intro m M hm hM
  simp at hm hM; subst hm; subst hM
  decide +kernel

/-- **a constraint printed as a disjunction does NOT round-trip** (outside the property's domain of conjunction
constraints; PEP 508 has no `||`): `to_pep_508` writes `foo (<1 || >2)`, which neither the reference nor poetry-core's
own requirement grammar accepts — replayed on the real code: `InvalidRequirementError` -/
theorem disjunction_not_reparsable :
    ((mkRegistryStr "foo" "<1 || >2" []).bind (fun d => d.toPep508)).toOption = some "foo (<1 || >2)" ∧
    (createFromPep508 "foo (<1 || >2)").toOption = none ∧ parseRaw "foo (<1 || >2)".toList = none := by
  refine ⟨by decide +kernel, by decide +kernel, by decide +kernel⟩

/-- the marker text as printed neither starts with a blank nor ends with white space -/
def MarkerEnds (m : M) : Prop :=
  ∀ s, m.toStr = .ok s → skipWs s.toList = s.toList ∧ ∃ p z, s.toList = p ++ [z] ∧ isSpace z = false

/-- **`MarkerEnds` holds of every marker of the domain that has a text** (derived from `__str__`: the text starts with a
variable name, a quote or `(` and ends with a quote, a variable name or `)`) -/
theorem markerEnds_domain {E : Env} {ex : List String} (hX : E.extras = some ex) {X Y Z : Nat} (hE : EnvPy E X Y Z)
    {m : M} {syn : Syn} (hg : M.Good (FullInvLeaf E) m) (hsyn : M.toSyn m = some syn) : MarkerEnds m :=
  fun s hs => toStr_ends (leafSpec_fullInv hX hE (pairSound_py hE)) (printOK_fullInv hX)
    (fun l hl => lexable_fullInv l hl) hg hsyn s hs

/-- **round trip of a registry dependency WITH a marker, on the full comparison-operator domain of C13**
(`FullInvLeaf E`: quotable string / `extra` leaves, `python_version <op> "X.Y"`, `python_full_version <op> "X.Y.Z"`,
any nesting): for every environment `E` of an interpreter `X.Y.Z` that defines the extras, the re-parsed dependency
has the same name, extras, kind, source, the constraint read from the printed tokens, and a marker that VALIDATES ON
`E` EXACTLY AS THE ORIGINAL MARKER.  C13's print/parse theorem (`M.print_ok`, `parseText_toStr`) and C07's `union`
soundness are used as proved; no leaf-level hypothesis. -/
theorem dep_roundtrip_registry_marker (d : Dep) (ts : List (List Char)) (h : RegWF d) (hb : CBody d ts)
    {E : Env} {ex : List String} (hX : E.extras = some ex) {X Y Z : Nat} (hE : EnvPy E X Y Z)
    (hg : M.Good (FullInvLeaf E) d.marker) (syn : Syn) (hsyn : M.toSyn d.marker = some syn)
    (hany : d.marker.isAny = false) (hne : d.marker.isEmpty = false)
    (xs : Option (List (List (String × String)))) (hx : convertMarkersFor "extra" d.marker = .ok xs)
    (hnc : ∀ t, d.toPep508 = .ok t → NoComment t.toList) :
    ∃ t, d.toPep508 = .ok t ∧ ∀ d', createFromPep508 t = .ok d' →
      d'.name = d.name ∧ d'.extras = d.extras ∧ d'.kind = Kind.textual d.kind ∧ sameSource d' d ∧
      VParser.parseConstraint (ctextOf ts) = .ok d'.constraint ∧
      d'.marker.validate E = d.marker.validate E := by
  have S := leafSpec_fullInv hX hE (pairSound_py hE)
  obtain ⟨s, hs1, hs2, _⟩ := M.parseText_toStr S (printOK_fullInv hX) (fun l hl => lexable_fullInv l hl) hg hsyn
  obtain ⟨he1, he2⟩ := markerEnds_domain hX hE hg hsyn s hs1
  have hmt : MText d.marker s syn := ⟨hs1, ⟨he1, by rw [String.ofList_toList]; exact hs2⟩, he2⟩
  obtain ⟨t, htp, hr⟩ := registry_print_reparse_marker d ts h hb hany hne s syn hmt xs hx hnc
  refine ⟨t, htp, ?_⟩
  intro d' hd'
  obtain ⟨b1, b2, b3, b4, b5, b6⟩ := dep_roundtrip_registry_core d ts (some syn) t d' h hr hd'
  refine ⟨b1, b2, b3, b4, b5, ?_⟩
  have hcm : compactTop syn = .ok d'.marker := b6
  obtain ⟨g', e'⟩ := compactTop_printed S (printOK_fullInv hX) hg hsyn d'.marker hcm
  rw [M.validate_eq_sem E d'.marker (M.good_mono (fun l hl => fullInvLeaf_evaluable hX hE hl) d'.marker g'),
    M.validate_eq_sem E d.marker (M.good_mono (fun l hl => fullInvLeaf_evaluable hX hE hl) d.marker hg), e']

/-! non-vacuity of `dep_roundtrip_registry_marker`: `Foo_Bar[a-b] (>=1.0,<2.0) ; python_version >= "3.8"` on CPython 3.8.1 -/
private def envPy : Env := ⟨[("python_version", "3.8"), ("python_full_version", "3.8.1")], some []⟩
private def mPy : M := .leaf (.single (pvLeafOf .ge ">=" 3 8))
private def exDepM : Dep := { exDep with marker := mPy }

private theorem mPy_str : M.toStr mPy = .ok "python_version >= \"3.8\"" := by
  have : (M.toStr mPy).toOption = some "python_version >= \"3.8\"" := by decide +kernel
  cases hh : M.toStr mPy with
  | error e => rw [hh] at this; cases this
  | ok b => rw [hh] at this; simp [Except.toOption] at this; rw [this]

example : RegWF exDepM ∧ envPy.extras = some [] ∧ EnvPy envPy 3 8 1 ∧ M.Good (FullInvLeaf envPy) exDepM.marker ∧
    (∃ syn, M.toSyn exDepM.marker = some syn) ∧ exDepM.marker.isAny = false ∧
    exDepM.marker.isEmpty = false ∧ convertMarkersFor "extra" exDepM.marker = .ok none := by
  refine ⟨{ exDep_wf with }, rfl, ⟨by decide +kernel, by decide +kernel⟩, ?_, ⟨_, rfl⟩, rfl, rfl, ?_⟩
  · show FullInvLeaf envPy _
    exact Or.inr (Or.inl ⟨.ge, ">=", 3, 8, by decide, rfl⟩)
  · have h : dnf defaultFuel [] mPy = .ok mPy := by
      unfold defaultFuel mPy
      rw [dnf]
      all_goals (intro ms h; cases h)
    show convertMarkersFor "extra" mPy = .ok none
    unfold convertMarkersFor
    rw [h]
    simp [bind, Except.bind, pure, Except.pure, membersIfUnion, mPy, conjPairs, convKey, pvLeafOf, Leaf.name]

/-! ## a registry dependency that is a member of an extra -/

/-- **round trip of a registry dependency that is a member of ONE extra** (`in_extras = [x]`, as `factory.py` records it
for `[tool.poetry.extras]` / `[project.optional-dependencies]`; no marker of its own): `to_pep_508` appends
`extra == "x"`; `create_from_pep_508` reads the clause back and the `marker` setter RESTORES THE MEMBERSHIP: the re-parsed
dependency has the same name, extras, kind, source, the constraint read from the printed tokens, `in_extras = [x]`, is
optional, and its marker is `extra == "x"` -/
theorem dep_roundtrip_registry_in_extra (d : Dep) (x : String) (ts : List (List Char)) (hx : ExtraName x)
    (hkind : d.kind = .registry) (hsrc : d.spec.sourceType = none) (hname : d.spec.name = canonName d.spec.prettyName)
    (hident : Ident d.spec.prettyName.toList) (hfeats : normFeatures d.spec.features = d.spec.features)
    (hfi : ∀ f ∈ d.spec.features, Ident f.toList) (hin : d.inExtras = [x]) (hb : CBody d ts)
    (hany : d.marker.isAny = true) (hpy : d.pythonVersions = "*")
    (hnc : ∀ t, d.toPep508 = .ok t → NoComment t.toList) :
    ∃ t, d.toPep508 = .ok t ∧ ∀ d', createFromPep508 t = .ok d' →
      d'.name = d.name ∧ d'.extras = d.extras ∧ d'.kind = Kind.textual d.kind ∧ sameSource d' d ∧
      VParser.parseConstraint (ctextOf ts) = .ok d'.constraint ∧
      d'.inExtras = d.inExtras ∧ d'.optional = true ∧ d'.marker = extraLeaf x := by
  obtain ⟨sfx, hs, hsl, htok⟩ := hb
  obtain ⟨gc, hgc, hnest⟩ := extraClause x hx
  have hxne : (x != "") = true := by
    have := hx.tok.1
    simp only [bne_iff_ne, ne_eq]
    intro e; rw [e] at this; exact this rfl
  have hbase : d.basePep508Name = .ok (d.spec.completePrettyName ++ sfx) := by
    simp [Dep.basePep508Name, hkind, hs, bind, Except.bind, pure, Except.pure]
  have htp : d.toPep508 = .ok (d.spec.completePrettyName ++ sfx ++ " ; " ++ (extraSyn x).text) := by
    simp [Dep.toPep508, hbase, hany, hpy, hin, joinWith, hxne, hgc, hnest, bind, Except.bind, pure, Except.pure]
  refine ⟨_, htp, ?_⟩
  have hlex := extraSyn_lexable x hx
  have hends := Syn.chars_ends (extraSyn x) hlex
  have htc : (extraSyn x).text.toList = (extraSyn x).chars := Syn.text_chars _ hlex
  have hmok : MarkerOK (extraSyn x).text.toList (extraSyn x) := by
    refine ⟨?_, by rw [String.ofList_toList]; exact parseText_text _ hlex⟩
    rw [htc]
    obtain ⟨⟨c, r, hcr, h1, h2⟩, _⟩ := hends
    rw [hcr]; exact skipWs_nonblank c r h1 h2
  have hchars : (d.spec.completePrettyName ++ sfx ++ " ; " ++ (extraSyn x).text).toList =
      d.spec.prettyName.toList ++ extrasText (d.spec.features.map String.toList) ++ specsText ts ++
        markerText (some (extraSyn x).text.toList) := by
    simp [Spec.completePrettyName, String.toList_append, featureSuffix_chars, hsl, markerText]
  have hr := createFromPep508_registry _ _ _ ts (some (extraSyn x).text.toList) (some (extraSyn x)) hchars hident
    (by intro e he; obtain ⟨f, hf, rfl⟩ := List.mem_map.mp he; exact hfi f hf) htok hmok (hnc _ htp)
    (by rw [hchars]; exact printed_trimmed _ _ _ _ hident (by intro m hm; cases hm; rw [htc]; exact hends.2))
  intro d' hd'
  rw [hr] at hd'
  -- unfold the rebuild: constraint, marker, registry dependency, marker setter
  simp only [rebuildRegistry, compactTop_extra x hx, Except.map, String.ofList_toList, map_ofList_toList, bind,
    Except.bind, pure, Except.pure] at hd'
  cases hc : VParser.parseConstraint (ctextOf ts) with
  | error e => simp [hc] at hd'
  | ok c =>
    simp only [hc] at hd'
    cases hm : mkRegistry d.spec.prettyName c d.spec.features with
    | error e => simp [hm] at hd'
    | ok d0 =>
      simp only [hm] at hd'
      obtain ⟨a1, a2, a3, a4, a5, _⟩ := mkRegistry_fields _ _ _ _ hm
      have a6 : d0.inExtras = [] := by
        simp only [mkRegistry, Spec.make, normalizeSourceUrl, truthy, mkDep, bind, Except.bind, pure, Except.pure,
          Bool.false_and, Bool.false_eq_true, if_false] at hm
        cases hs' : c.toStr with
        | error e => simp [hs'] at hm
        | ok s' => simp only [hs'] at hm; cases hm; rfl
      obtain ⟨d'', hset, b1, b2, b3, b4, b5, b6⟩ := setMarker_extra d0 x hx
      rw [hset] at hd'
      injection hd' with hd'
      subst hd'
      refine ⟨?_, ?_, ?_, ?_, by rw [b3, a5], by rw [b5, a6, hin]; rfl, b6, b4⟩
      · show d''.spec.name = d.spec.name
        rw [b1, a1, hname]
      · show d''.spec.features = d.spec.features
        rw [b1, a2, hfeats]
      · rw [b2, a3, hkind]; rfl
      · unfold sameSource; rw [b1]
        constructor <;> simp [Spec.isSameSourceAs, a4, hsrc, truthy]

/-- **what the `marker` setter restores, for any marker**: the names of the `==` clauses on `extra` that
`convert_markers` reports (`inExtrasOf`) are appended to `in_extras`, and — when there is at least one — the dependency
becomes optional (poetry-core ad4e259).  This is the re-parse half for SEVERAL extras (`extra == "a" or extra == "b"`)
and for one extra plus an own marker (`(marker) and (extra == "x")`): it reduces them to computing
`convert_markers` of the marker `_compact_markers` builds from the printed clause. -/
theorem setMarker_records_membership (d d' : Dep) (m : M) (groups : List (List (String × String)))
    (h : d.setMarker m = .ok d') (hx : convertMarkersFor "extra" m = .ok (some groups))
    (hne : (inExtrasOf groups).isEmpty = false) :
    d'.inExtras = d.inExtras ++ inExtrasOf groups ∧ d'.optional = true ∧ d'.marker = m := by
  unfold Dep.setMarker at h
  simp only [bind, Except.bind, pure, Except.pure, hx, hne, Bool.false_eq_true, if_false] at h
  cases h2 : convertMarkersFor "python_version" m with
  | error e => simp [h2] at h
  | ok py =>
    simp only [h2] at h
    cases py <;> simp only [] at h <;> (repeat' split at h) <;> first | (cases h; exact ⟨rfl, rfl, rfl⟩) | (cases h)

example : inExtrasOf [[("==", "a")], [("==", "b")]] = ["a", "b"] ∧
    inExtrasOf [[("==", "x"), ("!=", "y")]] = ["x"] := by decide

/-- the round trip for a member of several extras, or of extras and with an own marker, at full strength: the
membership list and the marker's truth survive.  PROVED of it: one extra without own marker
(`dep_roundtrip_registry_in_extra`); the printing half with an own marker (C02 `toPep508_membership_not_by_text`); the
setter half for any marker (`setMarker_records_membership`).  NOT proved: that `_compact_markers` ∘ `union` of the
printed clause `extra == "a" or extra == "b"` (an `AtomicMarkerUnion` after merging) resp. of `(marker) and (extra ==
"x")` reports exactly these `==` clauses to `convert_markers` (`dnf` of the simplified marker).  As written it is FALSE for an
own marker that itself mentions `extra` (the membership clause is then not printed: C02
`toPep508_no_second_extra_clause`, known class `optional-dependency-with-own-extra-clause-loses-membership`); the
provable form restricts `d.marker` to markers without the variable `extra`. -/
def dep_roundtrip_in_extras_full_statement : Prop :=
  ∀ (d : Dep) (t : String), d.kind = .registry → d.inExtras ≠ [] → (∀ x ∈ d.inExtras, ExtraName x) →
    d.toPep508 = .ok t → ∀ d', createFromPep508 t = .ok d' →
      d'.inExtras = d.inExtras ∧ d'.optional = true ∧
      ∀ E b, d.marker.validate E = .ok b →
        d'.marker.validate E = .ok (b && d.inExtras.any (fun x => (E.extras.getD []).contains x))

/-- non-vacuity: the extra `test-x` -/
example : ExtraName "test-x" :=
  { tok := ⟨by decide, by intro c hc; simp at hc; rcases hc with rfl | rfl | rfl | rfl | rfl | rfl <;> (unfold tokChar; decide)⟩,
    head := ⟨'t', "est-x".toList, rfl, by decide, by decide, by decide⟩,
    plain := by intro c hc; simp at hc; rcases hc with rfl | rfl | rfl | rfl | rfl | rfl <;> (unfold gPlain; decide),
    val := by intro c hc; simp at hc; rcases hc with rfl | rfl | rfl | rfl | rfl | rfl <;> decide,
    canon := by decide }

/-! ## the round trip on URL dependencies (no sub-directory, no marker) -/

/-- well-formedness of a URL dependency as `URLDependency(name, url, extras=…)` builds it -/
structure UrlWF (d : Dep) (url : String) : Prop where
  kind : d.kind = .url url none
  name : d.spec.name = canonName d.spec.prettyName
  ident : Ident d.spec.prettyName.toList
  feats : normFeatures d.spec.features = d.spec.features
  featIdent : ∀ f ∈ d.spec.features, Ident f.toList
  inExtras : d.inExtras = []
  stype : d.spec.sourceType = some "url"
  surl : d.spec.sourceUrl = some url
  ssub : d.spec.sourceSubdirectory = none
  sref : d.spec.sourceReference = none
  sres : d.spec.sourceResolvedReference = none

/-- **round trip of a URL dependency** (http/https archive URL in `urlsplit`/`urlunsplit` normal form, not a wheel, no
sub-directory, no marker): `to_pep_508` prints `name[extras] @ url`, `create_from_pep_508` reads it back (recogniser
proved) and dispatches to `URLDependency(name, url)`: same normalised name, extras, kind and source -/
theorem dep_roundtrip_url (d : Dep) (url : String) (u : SplitUrl) (h : UrlWF d url) (hu : UrlNF url u)
    (hany : d.marker.isAny = true) (hpy : d.pythonVersions = "*")
    (hnc : ∀ t, d.toPep508 = .ok t → NoComment t.toList) :
    ∃ t d', d.toPep508 = .ok t ∧ createFromPep508 t = .ok d' ∧ d'.name = d.name ∧ d'.extras = d.extras ∧
      d'.kind = Kind.textual d.kind ∧ sameSource d' d ∧ d'.marker = .any := by
  have hbase : d.basePep508Name = .ok (d.spec.completePrettyName ++ " @ " ++ url ++ "") := by
    simp [Dep.basePep508Name, h.kind, truthy, pure, Except.pure]
  have htp : d.toPep508 = .ok (d.spec.completePrettyName ++ " @ " ++ url ++ "") := by
    simp [Dep.toPep508, hbase, hany, hpy, h.inExtras, joinWith, bind, Except.bind, pure, Except.pure]
  have hchars : (d.spec.completePrettyName ++ " @ " ++ url ++ "").toList =
      d.spec.prettyName.toList ++ extrasText (d.spec.features.map String.toList) ++ urlText (some url.toList) ++ markerText none := by
    simp [Spec.completePrettyName, String.toList_append, featureSuffix_chars, urlText, markerText]
  have hr := createFromPep508_url _ _ _ url u hchars h.ident
    (by intro e he; obtain ⟨f, hf, rfl⟩ := List.mem_map.mp he; exact h.featIdent f hf) hu (hnc _ htp)
  rw [String.ofList_toList, map_ofList_toList] at hr
  have hok : ∃ d', mkUrlDep d.spec.prettyName url none d.spec.features = .ok d' := by
    have h1 : (u.scheme == "" || u.netloc == "") = false := by
      have a1 : (u.scheme == "") = false := by rcases hu.http with e | e <;> rw [e] <;> decide
      have a2 : (u.netloc == "") = false := by simpa using hu.netloc
      simp [a1, a2]
    have hng : (some "url" == some "git") = false := by decide
    simp only [mkUrlDep, hu.split, h1, Spec.make, normalizeSourceUrl, mkDepStr, parseConstraint_star, hng, bind, Except.bind,
      pure, Except.pure, Bool.and_false, Bool.false_eq_true, if_false]
    exact ⟨_, rfl⟩
  obtain ⟨d', hd'⟩ := hok
  obtain ⟨a1, a2, a3, a4, a5, a6, a7, a8, a9⟩ := mkUrlDep_fields _ _ _ _ hd'
  refine ⟨_, d', htp, by rw [hr]; exact hd', ?_, ?_, ?_, ?_, a9⟩
  · show d'.spec.name = d.spec.name
    rw [a1, h.name]
  · show d'.spec.features = d.spec.features
    rw [a2, h.feats]
  · rw [a3, h.kind]; rfl
  · constructor <;>
      simp [Spec.isSameSourceAs, a4, a5, a6, a7, a8, h.stype, h.surl, h.ssub, h.sref, h.sres, truthy]

/-- the printed URL of a URL dependency: the URL, then `#subdirectory=dir` when a directory is set -/
def urlPrinted (url : String) (dir : Option String) : String :=
  url ++ (if truthy dir then "#subdirectory=" ++ dir.getD "" else "")

/-- well-formedness of a URL dependency with an optional sub-directory -/
structure UrlWFd (d : Dep) (url : String) (dir : Option String) : Prop where
  kind : d.kind = .url url dir
  name : d.spec.name = canonName d.spec.prettyName
  ident : Ident d.spec.prettyName.toList
  feats : normFeatures d.spec.features = d.spec.features
  featIdent : ∀ f ∈ d.spec.features, Ident f.toList
  inExtras : d.inExtras = []
  stype : d.spec.sourceType = some "url"
  surl : d.spec.sourceUrl = some url
  ssub : d.spec.sourceSubdirectory = dir
  sref : d.spec.sourceReference = none
  sres : d.spec.sourceResolvedReference = none
  /-- the constructor accepted the URL -/
  valid : ∃ u0, urlsplit url = .ok u0 ∧ u0.scheme ≠ "" ∧ u0.netloc ≠ ""

theorem urlPrinted_text (d : Dep) (url : String) (dir : Option String) (h : UrlWFd d url dir)
    (hany : d.marker.isAny = true) (hpy : d.pythonVersions = "*") :
    d.toPep508 = .ok (d.spec.completePrettyName ++ " @ " ++ urlPrinted url dir) ∧
    (d.spec.completePrettyName ++ " @ " ++ urlPrinted url dir).toList =
      d.spec.prettyName.toList ++ extrasText (d.spec.features.map String.toList) ++
        urlText (some (urlPrinted url dir).toList) ++ markerText none := by
  have hbase : d.basePep508Name = .ok (d.spec.completePrettyName ++ " @ " ++ urlPrinted url dir) := by
    simp only [Dep.basePep508Name, h.kind, urlPrinted, pure, Except.pure]
    congr 1
    apply String.toList_inj.mp
    simp [String.toList_append, List.append_assoc]
  refine ⟨by simp [Dep.toPep508, hbase, hany, hpy, h.inExtras, joinWith, bind, Except.bind, pure, Except.pure], ?_⟩
  simp [Spec.completePrettyName, String.toList_append, featureSuffix_chars, urlText, markerText]

theorem mkUrlDep_ok (n url : String) (dir : Option String) (es : List String) (u0 : SplitUrl)
    (h : urlsplit url = .ok u0) (h1 : u0.scheme ≠ "") (h2 : u0.netloc ≠ "") : ∃ d, mkUrlDep n url dir es = .ok d := by
  have hc : (u0.scheme == "" || u0.netloc == "") = false := by simp [h1, h2]
  have hng : (some "url" == some "git") = false := by decide
  simp only [mkUrlDep, h, hc, Spec.make, normalizeSourceUrl, mkDepStr, parseConstraint_star, hng, bind, Except.bind,
    pure, Except.pure, Bool.and_false, Bool.false_eq_true, if_false]
  exact ⟨_, rfl⟩

/-- **round trip of a URL dependency with or without `#subdirectory=`** (not a wheel): same normalised name, extras,
kind (URL and directory) and source -/
theorem dep_roundtrip_url_subdirectory (d : Dep) (url : String) (dir : Option String) (u : SplitUrl)
    (h : UrlWFd d url dir) (hu : UrlRead (urlPrinted url dir) u url dir)
    (hnw : (extOf (basenameOf u.path.toList) == ".whl".toList) = false)
    (hany : d.marker.isAny = true) (hpy : d.pythonVersions = "*")
    (hnc : ∀ t, d.toPep508 = .ok t → NoComment t.toList) :
    ∃ t d', d.toPep508 = .ok t ∧ createFromPep508 t = .ok d' ∧ d'.name = d.name ∧ d'.extras = d.extras ∧
      d'.kind = Kind.textual d.kind ∧ sameSource d' d ∧ d'.marker = .any := by
  obtain ⟨htp, hchars⟩ := urlPrinted_text d url dir h hany hpy
  have hr := createFromPep508_url_read _ _ _ (urlPrinted url dir) url dir u hchars h.ident
    (by intro e he; obtain ⟨f, hf, rfl⟩ := List.mem_map.mp he; exact h.featIdent f hf) hu (hnc _ htp)
  simp only [hnw, Bool.false_eq_true, if_false, String.ofList_toList, map_ofList_toList] at hr
  obtain ⟨u0, hv, hv1, hv2⟩ := h.valid
  obtain ⟨d', hd'⟩ := mkUrlDep_ok d.spec.prettyName url dir d.spec.features u0 hv hv1 hv2
  obtain ⟨a1, a2, a3, a4, a5, a6, a7, a8, a9, _⟩ := mkUrlDep_fields_dir _ _ _ _ _ hd'
  refine ⟨_, d', htp, by rw [hr]; exact hd', ?_, ?_, ?_, ?_, a9⟩
  · show d'.spec.name = d.spec.name
    rw [a1, h.name]
  · show d'.spec.features = d.spec.features
    rw [a2, h.feats]
  · rw [a3, h.kind]; rfl
  · exact ⟨isSameSourceAs_of_fields _ _ (by rw [a4, h.stype]) (by rw [a5, h.surl]) (by rw [a6, h.ssub]) (by rw [a7, h.sref])
      (by rw [a8, h.sres]),
      isSameSourceAs_of_fields _ _ (by rw [a4, h.stype]) (by rw [a5, h.surl]) (by rw [a6, h.ssub]) (by rw [a7, h.sref])
      (by rw [a8, h.sres])⟩

/-- **round trip of a wheel-URL dependency**: `create_from_pep_508` takes name and version from the wheel's file name
(`wheel_file_re`: groups `name`, `ver`); the round trip keeps the dependency's name EXACTLY WHEN that file name carries
it (hypothesis `hname`; without it: `wheel_url_name_counterexample`).  The re-parsed dependency then has the same name,
extras, kind and source, and the wheel's version as its constraint. -/
theorem dep_roundtrip_url_wheel (d : Dep) (url : String) (dir : Option String) (u : SplitUrl)
    (h : UrlWFd d url dir) (hu : UrlRead (urlPrinted url dir) u url dir)
    (hw : (extOf (basenameOf u.path.toList) == ".whl".toList) = true) (n : List Char) (v : Option (List Char))
    (hwn : wheelNameVer (if (basenameOf u.path.toList).isEmpty then u.netloc.toList else basenameOf u.path.toList) = some (n, v))
    (hname : canonName (String.ofList n) = d.name)
    (hver : ∀ x, v = some x → ∃ c, VParser.parseConstraint (String.ofList x) = .ok c)
    (hany : d.marker.isAny = true) (hpy : d.pythonVersions = "*")
    (hnc : ∀ t, d.toPep508 = .ok t → NoComment t.toList) :
    ∃ t d', d.toPep508 = .ok t ∧ createFromPep508 t = .ok d' ∧ d'.name = d.name ∧ d'.extras = d.extras ∧
      d'.kind = Kind.textual d.kind ∧ sameSource d' d ∧ d'.marker = .any := by
  obtain ⟨htp, hchars⟩ := urlPrinted_text d url dir h hany hpy
  have hr := createFromPep508_url_read _ _ _ (urlPrinted url dir) url dir u hchars h.ident
    (by intro e he; obtain ⟨f, hf, rfl⟩ := List.mem_map.mp he; exact h.featIdent f hf) hu (hnc _ htp)
  simp only [hw, if_true, hwn, map_ofList_toList] at hr
  obtain ⟨u0, hv, hv1, hv2⟩ := h.valid
  obtain ⟨d0, hd0⟩ := mkUrlDep_ok (String.ofList n) url dir d.spec.features u0 hv hv1 hv2
  obtain ⟨a1, a2, a3, a4, a5, a6, a7, a8, a9, _⟩ := mkUrlDep_fields_dir _ _ _ _ _ hd0
  -- `dep._constraint = parse_constraint(version)` touches the constraint only
  have hwv : ∃ d', withVersion d0 v = .ok d' ∧ d'.spec = d0.spec ∧ d'.kind = d0.kind ∧ d'.marker = d0.marker := by
    cases v with
    | none => exact ⟨d0, rfl, rfl, rfl, rfl⟩
    | some x =>
      obtain ⟨c, hc⟩ := hver x rfl
      exact ⟨{ d0 with constraint := c }, by simp [withVersion, hc, bind, Except.bind, pure, Except.pure], rfl, rfl, rfl⟩
  obtain ⟨d', hd', e1, e2, e3⟩ := hwv
  refine ⟨_, d', htp, ?_, ?_, ?_, ?_, ?_, by rw [e3, a9]⟩
  · rw [hr]; simp only [hd0, bind, Except.bind]; exact hd'
  · show d'.spec.name = d.spec.name
    rw [e1, a1]; exact hname
  · show d'.spec.features = d.spec.features
    rw [e1, a2, h.feats]
  · rw [e2, a3, h.kind]; rfl
  · unfold sameSource
    rw [e1]
    exact ⟨isSameSourceAs_of_fields _ _ (by rw [a4, h.stype]) (by rw [a5, h.surl]) (by rw [a6, h.ssub]) (by rw [a7, h.sref])
      (by rw [a8, h.sres]),
      isSameSourceAs_of_fields _ _ (by rw [a4, h.stype]) (by rw [a5, h.surl]) (by rw [a6, h.ssub]) (by rw [a7, h.sref])
      (by rw [a8, h.sres])⟩

/-- non-vacuity: `https://example.com/a/foo-1.0.zip#subdirectory=pkg/core` and the wheel
`https://example.com/foo_bar-1.0-py3-none-any.whl` are read as the hypotheses say -/
example : ∃ u, UrlRead (urlPrinted "https://example.com/a/foo-1.0.zip" (some "pkg/core")) u
    "https://example.com/a/foo-1.0.zip" (some "pkg/core") ∧
    (extOf (basenameOf u.path.toList) == ".whl".toList) = false :=
  ⟨_, { split := rfl, http := Or.inr (by decide), netloc := by decide, unsplit := by decide +kernel,
        sub := by decide +kernel, nopct := by decide +kernel,
        uri := ⟨⟨'h', "ttps://example.com/a/foo-1.0.zip#subdirectory=pkg/core".toList, by decide +kernel, by decide⟩, by decide +kernel⟩,
        noUnc := by decide +kernel,
        last := ⟨"https://example.com/a/foo-1.0.zip#subdirectory=pkg/cor".toList, 'e', by decide +kernel, by decide⟩ },
    by decide +kernel⟩

example : ∃ u, UrlRead (urlPrinted "https://example.com/foo_bar-1.0-py3-none-any.whl" none) u
    "https://example.com/foo_bar-1.0-py3-none-any.whl" none ∧
    (extOf (basenameOf u.path.toList) == ".whl".toList) = true ∧
    wheelNameVer (if (basenameOf u.path.toList).isEmpty then u.netloc.toList else basenameOf u.path.toList) =
      some ("foo_bar".toList, some "1.0".toList) ∧ canonName (String.ofList "foo_bar".toList) = "foo-bar" :=
  ⟨_, { split := rfl, http := Or.inr (by decide), netloc := by decide, unsplit := by decide +kernel,
        sub := by decide +kernel, nopct := by decide +kernel,
        uri := ⟨⟨'h', "ttps://example.com/foo_bar-1.0-py3-none-any.whl".toList, by decide +kernel, by decide⟩, by decide +kernel⟩,
        noUnc := by decide +kernel,
        last := ⟨"https://example.com/foo_bar-1.0-py3-none-any.wh".toList, 'l', by decide +kernel, by decide⟩ },
    by decide +kernel, by decide +kernel, by decide +kernel⟩

/-- non-vacuity: `https://example.com/a/foo-1.0.tar.gz` is in normal form -/
example : ∃ u, UrlNF "https://example.com/a/foo-1.0.tar.gz" u :=
  ⟨_, { split := rfl, http := Or.inr (by decide), netloc := by decide, nofrag := by decide, unsplit := by decide +kernel,
        nopct := by decide +kernel, notWheel := by decide +kernel, nosub := by decide +kernel,
        uri := ⟨⟨'h', _, rfl, by decide⟩, by decide⟩, noUnc := by decide,
        last := ⟨"https://example.com/a/foo-1.0.tar.g".toList, 'z', by decide, by decide⟩ }⟩

/-! ## the round trip on VCS (git) dependencies -/

/-- well-formedness of a git dependency as `VCSDependency(name, "git", source, branch, tag, rev, directory)` builds it
from a source in the grammar's normal form: `g` are the parts of the location, its `rev` the one reference the text
can carry (`branch or tag or rev`), its `subdir` the directory -/
structure VcsWF (d : Dep) (g : GitParts) (b t r dir : Option String) : Prop where
  kind : d.kind = .vcs "git" (String.ofList g.normal) b t r dir
  name : d.spec.name = canonName d.spec.prettyName
  ident : Ident d.spec.prettyName.toList
  feats : normFeatures d.spec.features = d.spec.features
  featIdent : ∀ f ∈ d.spec.features, Ident f.toList
  inExtras : d.inExtras = []
  href : pyOr (pyOr b t) r = g.rev.map String.ofList
  hdir : dir = g.subdir.map String.ofList
  stype : d.spec.sourceType = some "git"
  surl : d.spec.sourceUrl = some (String.ofList g.normal)
  ssub : d.spec.sourceSubdirectory = dir
  sref : d.spec.sourceReference = pyOr (pyOr (pyOr b t) r) (some "HEAD")
  sres : d.spec.sourceResolvedReference = none

/-- **round trip of a git dependency** (location in the grammar's normal form, any of branch / tag / rev, optional
sub-directory, no marker): `to_pep_508` prints `name[extras] @ git+<location>[@ref][#subdirectory=dir]`;
`create_from_pep_508` reads it back (recogniser and git grammar proved) and dispatches to
`VCSDependency(name, "git", location, rev=ref, directory=dir)`: same normalised name and extras, the kind with
branch/tag/rev collapsed into the one reference (`Kind.textual`), the same source URL, reference and sub-directory -/
theorem dep_roundtrip_vcs (d : Dep) (g : GitParts) (b t r dir : Option String) (u : SplitUrl) (h : VcsWF d g b t r dir)
    (hg : g.WF) (hu : VcsUrlOK (String.ofList (vcsUrlText g)) u)
    (hany : d.marker.isAny = true) (hpy : d.pythonVersions = "*")
    (hnc : ∀ t, d.toPep508 = .ok t → NoComment t.toList) :
    ∃ t d', d.toPep508 = .ok t ∧ createFromPep508 t = .ok d' ∧ d'.name = d.name ∧ d'.extras = d.extras ∧
      d'.kind = Kind.textual d.kind ∧ sameSource d' d ∧ d'.marker = .any := by
  -- the printed base
  have hbare := (giturl_inverse g.bare (GitParts.bare_wf hg)).2.1
  rw [GitParts.bare_text] at hbare
  have hparse : parseGitUrl (String.ofList g.normal) = .ok g.bare.parsed := by
    unfold parseGitUrl; rw [String.toList_ofList]; exact hbare
  have hproto : g.bare.parsed.protocol.isSome = true := rfl
  have hbase : ∃ s, d.basePep508Name = .ok s ∧
      s.toList = d.spec.prettyName.toList ++ extrasText (d.spec.features.map String.toList) ++ urlText (some (vcsUrlText g)) := by
    have href := h.href
    have hdir := h.hdir
    have hb0 : d.basePep508Name = .ok
        ((d.spec.completePrettyName ++ (" @ " ++ "git" ++ "+" ++ String.ofList g.normal) ++
            if (vcsReference b t r != "") = true then "@" ++ vcsReference b t r else "") ++
          if truthy dir = true then "#subdirectory=" ++ dir.getD "" else "") := by
      simp only [Dep.basePep508Name, h.kind, hparse, hproto, if_true, bind, Except.bind, pure, Except.pure]
    refine ⟨_, hb0, ?_⟩
    have hrv : ∀ x : List Char, x ≠ [] → ((String.ofList x != "") = true) := fun x hx => ofList_ne_empty x hx
    have hk : ("#subdirectory=" : String).toList = subdirKey := rfl
    cases hrev : g.rev with
    | none =>
      have hR : pyOr (pyOr b t) r = none := by rw [href, hrev]; rfl
      have hvr : vcsReference b t r = "" := by unfold vcsReference; rw [hR]; rfl
      cases hsd : g.subdir with
      | none =>
        have hD : dir = none := by rw [hdir, hsd]; rfl
        simp [hvr, truthy, hD, Spec.completePrettyName, String.toList_append, featureSuffix_chars,
          urlText, vcsUrlText, GitParts.text, suffixText, hrev, hsd]
      | some sd =>
        have hsdne : sd ≠ [] := by have := hg.subdir; rw [hsd] at this; exact this.1
        have hD : dir = some (String.ofList sd) := by rw [hdir, hsd]; rfl
        simp [hvr, truthy, hD, hrv sd hsdne, Spec.completePrettyName, String.toList_append,
          featureSuffix_chars, urlText, vcsUrlText, GitParts.text, suffixText, hrev, hsd, hk,
          String.toList_ofList]
    | some rv =>
      have hrvne : rv ≠ [] := by have := hg.rev; rw [hrev] at this; exact this.1
      have hR : pyOr (pyOr b t) r = some (String.ofList rv) := by rw [href, hrev]; rfl
      have hvr : vcsReference b t r = String.ofList rv := by
        unfold vcsReference; rw [hR]; simp [pyOr, truthy, hrv rv hrvne]
      cases hsd : g.subdir with
      | none =>
        have hD : dir = none := by rw [hdir, hsd]; rfl
        simp [hvr, truthy, hD, hrv rv hrvne, Spec.completePrettyName, String.toList_append,
          featureSuffix_chars, urlText, vcsUrlText, GitParts.text, suffixText, hrev, hsd, String.toList_ofList]
      | some sd =>
        have hsdne : sd ≠ [] := by have := hg.subdir; rw [hsd] at this; exact this.1
        have hD : dir = some (String.ofList sd) := by rw [hdir, hsd]; rfl
        simp [hvr, truthy, hD, hrv rv hrvne, hrv sd hsdne, Spec.completePrettyName,
          String.toList_append, featureSuffix_chars, urlText, vcsUrlText, GitParts.text, suffixText, hrev, hsd, hk,
          String.toList_ofList]
  obtain ⟨s, hb, hchars⟩ := hbase
  have htp : d.toPep508 = .ok s := by
    simp [Dep.toPep508, hb, hany, hpy, h.inExtras, joinWith, bind, Except.bind, pure, Except.pure]
  have hchars' : s.toList = d.spec.prettyName.toList ++ extrasText (d.spec.features.map String.toList) ++
      urlText (some (vcsUrlText g)) ++ markerText none := by rw [hchars]; simp [markerText]
  have hr := createFromPep508_vcs s _ _ g u hchars' h.ident
    (by intro e he; obtain ⟨f, hf, rfl⟩ := List.mem_map.mp he; exact h.featIdent f hf) hg hu (hnc _ htp)
  rw [String.ofList_toList, map_ofList_toList] at hr
  obtain ⟨d', hd', a1, a2, a3, a4, a5, a6, a7, a8, a9⟩ :=
    mkVcsDep_fields d.spec.prettyName g hg none none (g.rev.map String.ofList) (g.subdir.map String.ofList) d.spec.features
  have hpo : ∀ X : Option String, pyOr (pyOr none none) X = X := by intro X; simp [pyOr, truthy]
  refine ⟨s, d', htp, by rw [hr]; exact hd', ?_, ?_, ?_, ?_, a9⟩
  · show d'.spec.name = d.spec.name
    rw [a1, h.name]
  · show d'.spec.features = d.spec.features
    rw [a2, h.feats]
  · rw [a3, h.kind]; simp only [Kind.textual]; rw [h.href, h.hdir]
  · have e4 : d'.spec.sourceReference = d.spec.sourceReference := by rw [a7, h.sref, hpo, h.href]
    have e3 : d'.spec.sourceSubdirectory = d.spec.sourceSubdirectory := by rw [a6, h.ssub, h.hdir]
    exact ⟨isSameSourceAs_of_fields _ _ (by rw [a4, h.stype]) (by rw [a5, h.surl]) e3 e4 (by rw [a8, h.sres]),
      isSameSourceAs_of_fields _ _ (by rw [a4, h.stype]) (by rw [a5, h.surl]) e3.symm e4.symm (by rw [a8, h.sres])⟩

/-- non-vacuity: `git+ssh://git@github.com:2222/org/repo.git@v1.0#subdirectory=pkg/core` meets `VcsUrlOK` -/
private def gEx : GitParts :=
  ⟨"ssh", some "git".toList, "github.com".toList, some "2222".toList, ["org".toList, "repo.git".toList],
    some "v1.0".toList, some "pkg/core".toList⟩

example : String.ofList (vcsUrlText gEx) = "git+ssh://git@github.com:2222/org/repo.git@v1.0#subdirectory=pkg/core" := by
  decide +kernel

example : ∃ u, VcsUrlOK (String.ofList (vcsUrlText gEx)) u :=
  ⟨_, { split := rfl, gitp := by decide +kernel, notFile := by decide +kernel, nopct := by decide +kernel,
        notWheel := by decide +kernel, check := by decide +kernel,
        uri := ⟨⟨'g', "it+ssh://git@github.com:2222/org/repo.git@v1.0#subdirectory=pkg/core".toList, by decide +kernel, by decide⟩, by decide +kernel⟩, noUnc := by decide +kernel,
        last := ⟨"git+ssh://git@github.com:2222/org/repo.git@v1.0#subdirectory=pkg/cor".toList, 'e', by decide +kernel, by decide⟩ }⟩

/-! ## where the code itself breaks the round trip -/

/-- **a wheel URL overrides the requirement's name**: `X1 @ https://…/foo-1.0-py3-none-any.whl` is a dependency on
`foo` (DESIGN §6 D15) -/
theorem wheel_url_name_counterexample :
    (createFromPep508 "X1 @ https://example.com/foo-1.0-py3-none-any.whl").map (fun d => (d.name, d.kind.tag)) =
      .ok ("foo", "url") := by rfl

/-- **regression (poetry-core f169cc2): a registry name ending like an archive stays a registry dependency** — the
text `to_pep_508` prints for `Dependency("foo.zip", ">=1.0")` parses back to the same name and kind (it used to raise
`AttributeError`: the name was taken for a local file) -/
theorem archive_suffix_name_roundtrip :
    (mkRegistryStr "foo.zip" ">=1.0" []).bind (fun d => d.toPep508) = .ok "foo.zip (>=1.0)" ∧
    (createFromPep508 "foo.zip (>=1.0)").map (fun d => (d.name, d.kind.tag)) = .ok ("foo-zip", "registry") := by
  constructor <;> rfl

/-- **regression (poetry-core ee3a18f): a git `file:///` URL keeps its empty host** (it used to be printed as the text
`None`), and the normal form is a fixed point of parse ∘ print -/
theorem git_file_url_roundtrip :
    (parseGitUrl "git+file:///srv/repo.git@v1").map GitUrl.url = .ok "file:///srv/repo.git" ∧
    (parseGitUrl "file:///srv/repo.git").map GitUrl.url = .ok "file:///srv/repo.git" := by
  constructor <;> rfl

/-- **regression (poetry-core 99e1c95): a sub-directory containing a dot is read back as the sub-directory**, not as
a revision -/
theorem vcs_subdirectory_dot_roundtrip :
    (parseGitUrl "git+https://github.com/org/repo.git#subdirectory=src/my.pkg").map (fun u => (u.rev, u.subdirectory)) =
      .ok (none, some "src/my.pkg") := by rfl

end Poetry.C10
