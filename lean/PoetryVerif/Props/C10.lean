/-
C10 — A dependency survives the round trip through its PEP 508 text.
Property theorems only (helper lemmas in Proofs/Dep.lean; models in Model/Requirement.lean, Model/Dep.lean).

Proved here for all inputs: the string-level facts the round trip rests on (name normalisation idempotent, extras
list stable, spelling of names/extras irrelevant, quote style irrelevant, leading blanks irrelevant, path and
`[@rev][#subdirectory=dir]` suffix of the restricted git-URL grammar read back exactly) and the dispatch step of
`create_from_pep_508` for registry requirements.  The full statement is `dep_roundtrip_full_statement`; what is
proved of it is `dep_roundtrip_partial` (the recogniser's result on the printed text is a hypothesis, as are the
constraint and marker round trips owned by C15 and C13).  The statement is FALSE of the code without the side
conditions named there: see the counterexample theorem (same witness as the check's corpus); three former
counterexamples, repaired in poetry-core since, are kept as regression theorems.
-/
import PoetryVerif.Proofs.Dep

set_option linter.unusedSimpArgs false
set_option linter.unusedVariables false

namespace Poetry.C10
open Poetry Poetry.Marker Poetry.Req Poetry.Dep

/-! ## normalisation -/

/-- **the normalised name is a fixed point of normalisation** (so printing the pretty name and parsing it back
gives the same `name`) -/
theorem name_normalisation_idempotent (s : String) : canonName (canonName s) = canonName s := canonName_idem s

/-- **the extras of a dependency (normalised, sorted, duplicate-free) are stable** under printing and re-reading -/
theorem extras_stable (fs : List String) : normFeatures (normFeatures fs) = normFeatures fs := normFeatures_idem fs

example : normFeatures ["Foo_Bar", "a.b", "foo-bar", "A--B"] = ["a-b", "foo-bar"] := by decide

/-- **name and extra case and separators are insignificant**: requirements whose names and extras have the same
PEP 503 normal form give dependencies with the same name and extras -/
theorem spelling_insensitive (n1 n2 : String) (e1 e2 : List String) (c : VC) (d1 d2 : Dep)
    (hn : canonName n1 = canonName n2) (he : e1.map canonName = e2.map canonName)
    (h1 : mkRegistry n1 c e1 = .ok d1) (h2 : mkRegistry n2 c e2 = .ok d2) :
    d1.name = d2.name ∧ d1.extras = d2.extras ∧ d1.kind = d2.kind ∧ d1.constraint = d2.constraint := by
  simp only [mkRegistry, Spec.make, normalizeSourceUrl, truthy, mkDep, bind, Except.bind, pure, Except.pure,
    Bool.false_and, Bool.false_eq_true, if_false] at h1 h2
  cases hs : c.toStr with
  | error e => simp [hs] at h1
  | ok s =>
    simp only [hs] at h1 h2
    cases h1; cases h2
    exact ⟨hn, normFeatures_congr _ _ he, rfl, rfl⟩

example : ∃ d1 d2, mkRegistry "Foo_Bar" VC.any ["A.b"] = .ok d1 ∧ mkRegistry "foo--bar" VC.any ["a_B", "a-b"] = .ok d2 ∧
    d1.name = "foo-bar" ∧ d2.name = "foo-bar" ∧ d1.extras = ["a-b"] ∧ d2.extras = ["a-b"] :=
  ⟨_, _, rfl, rfl, by decide, by decide, by decide, by decide⟩

/-- **quote style is insignificant**: a marker string without quotes, backslashes and newlines is the same token
in single and in double quotes -/
theorem quote_insensitive (v r : List Char) (h : ∀ c ∈ v, c ≠ '\'' ∧ c ≠ '"' ∧ c ≠ '\\' ∧ c ≠ '\n') :
    markerValue ('\'' :: v ++ '\'' :: r) = markerValue ('"' :: v ++ '"' :: r) := by
  rw [(markerValue_quote v r h).1, (markerValue_quote v r h).2]

/-- **blanks and tabs in front of a requirement are insignificant** -/
theorem leading_blanks_insensitive (ws cs : List Char) (h : Blanks ws) : parseRaw (ws ++ cs) = parseRaw cs := by
  unfold parseRaw
  rw [skipWs_blanks ws cs h]

/-! ## the restricted git-URL grammar -/

/-- **path and suffix of a git URL of the grammar are read back exactly**: after `scheme://[user@]host[:port]/`,
the text `seg/…/seg[@rev][#subdirectory=dir]` is split into the path and the pair (rev, sub-directory) -/
theorem giturl_path_suffix_inverse (g : GitParts) (h : g.WF) :
    takeSegs (g.segs.length + 1) (pathOf g.segs ++ suffixText g.rev g.subdir) = some (pathOf g.segs, suffixText g.rev g.subdir) ∧
    parseSuffix (suffixText g.rev g.subdir) = some (g.rev.map String.ofList, g.subdir.map String.ofList) := by
  refine ⟨takeSegs_path g.segs _ _ h.segs ?_ (by omega), parseSuffix_suffixText _ _ h.rev h.subdir⟩
  unfold stopper suffixText
  cases g.rev with
  | some r => exact Or.inr ⟨r ++ _, Or.inl rfl⟩
  | none =>
    cases g.subdir with
    | none => exact Or.inl rfl
    | some d => right; rw [subdirKey_eq]; exact ⟨_, Or.inr rfl⟩

/-- the whole-URL statement, checked on concrete URLs here and by the `giturl` correspondence stream in general -/
def giturl_inverse_full_statement : Prop :=
  ∀ g : GitParts, g.WF →
    parseGitUrlL ("git+".toList ++ g.text) = .ok g.parsed ∧ parseGitUrlL g.text = .ok g.parsed ∧
    g.parsed.url = String.ofList g.normal

example : parseGitUrl "git+ssh://git@github.com:2222/org/repo.git@v1.0#subdirectory=pkg/core" =
    .ok { protocol := some "ssh", resource := some "github.com", pathname := some "/org/repo.git", user := some "git",
          port := some "2222", rev := some "v1.0", subdirectory := some "pkg/core" } := by rfl

example : (parseGitUrl "git@github.com:org/repo.git").map GitUrl.url = .ok "ssh://git@github.com/org/repo.git" := by rfl

/-- printing a parsed URL and parsing it again gives the same URL (concrete instance of the normal form) -/
example : ((parseGitUrl "git+ssh://git@github.com:org/repo.git@main").map GitUrl.url).bind
    (fun u => (parseGitUrl u).map GitUrl.url) = .ok "ssh://git@github.com/org/repo.git" := by rfl

/-! ## the round trip -/

/-- side conditions under which the code can round-trip a dependency at all -/
structure WFDep (d : Dep) : Prop where
  name : d.spec.name = canonName d.spec.prettyName
  extras : normFeatures d.spec.features = d.spec.features
  notUrl : isUrlName d.spec.prettyName = false

/-- `is_same_source_as` both ways -/
def sameSource (a b : Dep) : Prop := a.spec.isSameSourceAs b.spec = true ∧ b.spec.isSameSourceAs a.spec = true

/-- the kind with branch / tag / rev collapsed into the one reference a PEP 508 text can carry -/
def Kind.textual : Kind → Kind
  | .vcs v s b t r d => .vcs v s none none (pyOr (pyOr b t) r) d
  | k => k

/-- **C10, full statement**: printing and re-parsing a well-formed registry / URL / VCS dependency gives a dependency
with the same name, extras, kind and source, a constraint admitting the same regular versions and a marker true in the
same environments -/
def dep_roundtrip_full_statement : Prop :=
  ∀ d : Dep, WFDep d → (d.kind.tag = "registry" ∨ d.kind.tag = "url" ∨ d.kind.tag = "vcs") →
    ∀ t, d.toPep508 = .ok t →
      ∃ d', createFromPep508 t = .ok d' ∧ d'.name = d.name ∧ d'.extras = d.extras ∧ d'.kind = Kind.textual d.kind ∧
        sameSource d' d ∧
        (d.kind = .registry → ∀ v, d'.constraint.allows v = d.constraint.allows v) ∧
        (∀ E, d'.marker.validate E = d.marker.validate E)

/-- **proved part**: once the recogniser has read the printed text of a registry dependency back into its tokens
(hypothesis `hreq…`: name = the pretty name, extras = the printed extras, no URL; the parse stream of the check ties the
recogniser to lark on every run) the dispatch of `create_from_pep_508` rebuilds a registry dependency with the same
normalised name, the same extras, the same kind and source, carrying the constraint and marker the requirement parser
produced — whose equivalence with the original ones is C15's (`parseConstraint (toStr c) ≃ c` on regular versions) and
C13's (`parseMarker (toStr m) ≃ m`) round trip. -/
theorem dep_roundtrip_partial (d : Dep) (req : Requirement) (h : WFDep d) (hk : d.kind = .registry)
    (hsrc : d.spec.sourceType = none)
    (hname : req.name = d.spec.prettyName) (hext : req.extras = d.spec.features) (hurl : req.url = none)
    (hm : req.marker = none) (s : String) (hs : req.constraint.toStr = .ok s) :
    ∃ d', fromReq req = .ok d' ∧ d'.name = d.name ∧ d'.extras = d.extras ∧ d'.kind = Kind.textual d.kind ∧
      sameSource d' d ∧ d'.constraint = req.constraint ∧ d'.marker = .any := by
  have hu : isUrlName req.name = false := by rw [hname]; exact h.notUrl
  refine ⟨{ spec := { prettyName := req.name, name := canonName req.name, sourceType := none, sourceUrl := none,
                      sourceReference := none, sourceResolvedReference := none, sourceSubdirectory := none,
                      features := normFeatures req.extras },
            constraint := req.constraint, prettyConstraint := s, marker := .any, pythonVersions := "*",
            pythonConstraint := VC.any, inExtras := [], optional := false, activated := true, kind := .registry }, ?_, ?_⟩
  · simp only [fromReq, hu, hurl, hm, mkRegistry, Spec.make, normalizeSourceUrl, truthy, mkDep, hs, bind, Except.bind,
      pure, Except.pure, Bool.false_and, Bool.false_eq_true, if_false]
  · refine ⟨?_, ?_, ?_, ?_, rfl, rfl⟩
    · show canonName req.name = d.spec.name
      rw [hname, h.name]
    · show normFeatures req.extras = d.spec.features
      rw [hext, h.extras]
    · rw [hk]; rfl
    · constructor <;> simp [Spec.isSameSourceAs, hsrc, truthy]

example : ∃ d, mkRegistry "Foo_Bar" VC.any ["a-b"] = .ok d ∧ WFDep d ∧ d.kind = .registry ∧ d.spec.sourceType = none :=
  ⟨_, rfl, ⟨by decide, by decide, by decide⟩, rfl, rfl⟩

/-! ## where the code itself breaks the round trip -/

/-- **a wheel URL overrides the requirement's name**: `X1 @ https://…/foo-1.0-py3-none-any.whl` is a dependency on
`foo` (DESIGN §6 D15) -/
theorem wheel_url_name_counterexample :
    (createFromPep508 "X1 @ https://example.com/foo-1.0-py3-none-any.whl").map (fun d => (d.name, d.kind.tag)) =
      .ok ("foo", "url") := by rfl

/-- **regression (poetry-core f169cc2): a registry name ending like an archive stays a registry dependency** — the
text `to_pep_508` prints for `Dependency("foo.zip", ">=1.0")` parses back to the same name and kind (it used to raise
`AttributeError`: the name was taken for a local file) -/
theorem archive_suffix_name_roundtrip :
    (mkRegistryStr "foo.zip" ">=1.0" []).bind (fun d => d.toPep508) = .ok "foo.zip (>=1.0)" ∧
    (createFromPep508 "foo.zip (>=1.0)").map (fun d => (d.name, d.kind.tag)) = .ok ("foo-zip", "registry") := by
  constructor <;> rfl

/-- **regression (poetry-core ee3a18f): a git `file:///` URL keeps its empty host** (it used to be printed as the text
`None`), and the normal form is a fixed point of parse ∘ print -/
theorem git_file_url_roundtrip :
    (parseGitUrl "git+file:///srv/repo.git@v1").map GitUrl.url = .ok "file:///srv/repo.git" ∧
    (parseGitUrl "file:///srv/repo.git").map GitUrl.url = .ok "file:///srv/repo.git" := by
  constructor <;> rfl

/-- **regression (poetry-core 99e1c95): a sub-directory containing a dot is read back as the sub-directory**, not as
a revision -/
theorem vcs_subdirectory_dot_roundtrip :
    (parseGitUrl "git+https://github.com/org/repo.git#subdirectory=src/my.pkg").map (fun u => (u.rev, u.subdirectory)) =
      .ok (none, some "src/my.pkg") := by rfl

end Poetry.C10
