/-
C13 — Marker normal forms and marker text preserve meaning.
Property theorems only (helper lemmas: Proofs/MarkerSem.lean, Proofs/MarkerAlgSound*.lean,
Proofs/MarkerShape.lean, Proofs/MarkerPrint.lean).
-/
import PoetryVerif.Proofs.MarkerAlgSoundOps
import PoetryVerif.Proofs.MarkerShape

set_option linter.unusedSimpArgs false
set_option linter.unusedVariables false

namespace Poetry.C13
open Poetry Poetry.Marker

variable {E : Env} {G : Leaf → Prop} {fuel : Nat} {stk : Stack}

/-- **`cnf` preserves meaning** — every fuel, every recursion stack, every marker over good leaves
(relative to the leaf facts `LeafSpec`, see Props/C07.lean): the conjunctive normal form is true in
exactly the environments the marker is, and `validate` reports that value. -/
theorem cnf_sound_partial (S : LeafSpec (leafEval E) G) (hE : ∀ l, G l → ∃ b, l.validate E = .ok b)
    {m r : M} (hg : M.Good G m) (h : cnf fuel stk m = .ok r) :
    M.Good G r ∧ M.sem (leafEval E) r = M.sem (leafEval E) m ∧
      M.validate E r = .ok (M.sem (leafEval E) m) := by
  have := cnf_sound S hg h
  refine ⟨this.1, this.2, ?_⟩
  rw [M.validate_eq_sem E r (M.good_mono hE r this.1)]
  exact congrArg _ this.2

/-- `(sys_platform == "a" and os_name != "b") or sys_platform != "a"` has the conjunctive normal form
`os_name != "b" or sys_platform != "a"` -/
example : ∃ r, LeafSpec (leafEval Ex.envAB) Ex.G0 ∧
    cnf 60 [] (.union [.multi [.leaf (.single Ex.sA), .leaf (.single Ex.sB)], .leaf (.single Ex.sNA)]) = .ok r ∧
    r = .union [.leaf (.single Ex.sB), .leaf (.single Ex.sNA)] := by
  refine ⟨_, Ex.leafSpec0, ?_, rfl⟩
  marker_eval [Ex.sA, Ex.sNA, Ex.sB, Ex.i1, Ex.i2, Ex.i3, Ex.i4, Ex.i5, Ex.u1, Ex.u2, Ex.u3, Ex.u4, Ex.u5]

/-- **`dnf` preserves meaning.** -/
theorem dnf_sound_partial (S : LeafSpec (leafEval E) G) (hE : ∀ l, G l → ∃ b, l.validate E = .ok b)
    {m r : M} (hg : M.Good G m) (h : dnf fuel stk m = .ok r) :
    M.Good G r ∧ M.sem (leafEval E) r = M.sem (leafEval E) m ∧
      M.validate E r = .ok (M.sem (leafEval E) m) := by
  have := dnf_sound S hg h
  refine ⟨this.1, this.2, ?_⟩
  rw [M.validate_eq_sem E r (M.good_mono hE r this.1)]
  exact congrArg _ this.2

example : ∃ r, LeafSpec (leafEval Ex.envAB) Ex.G0 ∧
    dnf 60 [] (.multi [.union [.leaf (.single Ex.sA), .leaf (.single Ex.sB)], .leaf (.single Ex.sNA)]) = .ok r ∧
    r = .multi [.leaf (.single Ex.sB), .leaf (.single Ex.sNA)] := by
  refine ⟨_, Ex.leafSpec0, ?_, rfl⟩
  marker_eval [Ex.sA, Ex.sNA, Ex.sB, Ex.i1, Ex.i2, Ex.i3, Ex.i4, Ex.i5, Ex.u1, Ex.u2, Ex.u3, Ex.u4, Ex.u5]

/-- **The conjunctive normal form has the promised shape** — every fuel, every recursion stack, EVERY
marker (no hypothesis on the leaves): the result of `cnf` is Any, Empty, a leaf, a disjunction of leaves,
or a conjunction whose members are leaves or disjunctions of leaves (`M.isCnf`). -/
theorem cnf_shape {m r : M} (h : cnf fuel stk m = .ok r) : r.isCnf = true := cnf_isCnf h

example : ∃ r, cnf 60 [] (.union [.multi [.leaf (.single Ex.sA), .leaf (.single Ex.sB)], .leaf (.single Ex.sNA)]) = .ok r ∧
    r = .union [.leaf (.single Ex.sB), .leaf (.single Ex.sNA)] ∧ r.isCnf = true := by
  refine ⟨_, ?_, rfl, rfl⟩
  marker_eval [Ex.sA, Ex.sNA, Ex.sB, Ex.i1, Ex.i2, Ex.i3, Ex.i4, Ex.i5, Ex.u1, Ex.u2, Ex.u3, Ex.u4, Ex.u5]

/-- **The disjunctive normal form has the promised shape**: Any, Empty, a leaf, a conjunction of leaves,
or a disjunction whose members are leaves or conjunctions of leaves (`M.isDnf`). -/
theorem dnf_shape {m r : M} (h : dnf fuel stk m = .ok r) : r.isDnf = true := dnf_isDnf h

example : ∃ r, dnf 60 [] (.multi [.union [.leaf (.single Ex.sA), .leaf (.single Ex.sB)], .leaf (.single Ex.sNA)]) = .ok r ∧
    r = .multi [.leaf (.single Ex.sB), .leaf (.single Ex.sNA)] ∧ r.isDnf = true := by
  refine ⟨_, ?_, rfl, rfl⟩
  marker_eval [Ex.sA, Ex.sNA, Ex.sB, Ex.i1, Ex.i2, Ex.i3, Ex.i4, Ex.i5, Ex.u1, Ex.u2, Ex.u3, Ex.u4, Ex.u5]

/-- a successful `_merge_single_markers` never returns a compound: Any, Empty or a single-marker-like -/
theorem merge_result_shape {l1 l2 : Leaf} {isMulti : Bool} {r : M}
    (h : mergeLeaves l1 l2 isMulti = .ok (some r)) : r.isLitE = true := mergeLeaves_shape l1 l2 isMulti r h

/-- the pieces: `MarkerUnion.of` of clauses is a clause, `MultiMarker.of` of CNFs is a CNF (and dually) -/
theorem unionOf_clause_shape {ms : List M} {r : M} (hm : ∀ x ∈ ms, x.isCIn = true)
    (h : unionOf fuel stk ms = .ok r) : r.isCOut = true := unionOf_clause hm h

theorem multiOf_cnf_shape {ms : List M} {r : M} (hm : ∀ x ∈ ms, x.isCnf = true)
    (h : multiOf fuel stk ms = .ok r) : r.isCnf = true := multiOf_cnf mergeLeaves_shape hm h

theorem multiOf_cube_shape {ms : List M} {r : M} (hm : ∀ x ∈ ms, x.isQIn = true)
    (h : multiOf fuel stk ms = .ok r) : r.isQOut = true := multiOf_cube hm h

theorem unionOf_dnf_shape {ms : List M} {r : M} (hm : ∀ x ∈ ms, x.isDnf = true)
    (h : unionOf fuel stk ms = .ok r) : r.isDnf = true := unionOf_dnf mergeLeaves_shape hm h

end Poetry.C13
