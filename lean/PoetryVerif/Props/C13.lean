/-
C13 — Marker normal forms and marker text preserve meaning.
Property theorems only (helper lemmas: Proofs/MarkerSem.lean, Proofs/MarkerAlgSound*.lean,
Proofs/MarkerShape.lean, Proofs/MarkerPrint.lean).
-/
import PoetryVerif.Proofs.MarkerAlgSoundOps
import PoetryVerif.Proofs.MarkerShape
import PoetryVerif.Proofs.MarkerPrint
import PoetryVerif.Proofs.MarkerPrintChars
import PoetryVerif.Proofs.MarkerPrintDom
import PoetryVerif.Proofs.MarkerEval
import PoetryVerif.Proofs.MarkerPrintPy
import PoetryVerif.Proofs.MarkerAlgSoundFullC
import PoetryVerif.Proofs.MarkerPrint4
import PoetryVerif.Proofs.MarkerPrintCharsQ
import PoetryVerif.Proofs.MarkerPrint4L
import PoetryVerif.Proofs.MarkerPrint4LL
import PoetryVerif.Proofs.MarkerPrintQuote
import PoetryVerif.Proofs.PyConvPairFinal
import PoetryVerif.Proofs.PyConvPairCompat

set_option linter.unusedSimpArgs false
set_option linter.unusedVariables false

namespace Poetry.C13
open Poetry Poetry.Marker

variable {E : Env} {G : Leaf → Prop} {fuel : Nat} {stk : Stack}

/-- **`cnf` preserves meaning** — every fuel, every recursion stack, every marker over good leaves
(relative to the leaf facts `LeafSpec`, see Props/C07.lean): the conjunctive normal form is true in
exactly the environments the marker is, and `validate` reports that value. -/
theorem cnf_sound_partial (S : LeafSpec (leafEval E) G) (hE : ∀ l, G l → ∃ b, l.validate E = .ok b)
    {m r : M} (hg : M.Good G m) (h : cnf fuel stk m = .ok r) :
    M.Good G r ∧ M.sem (leafEval E) r = M.sem (leafEval E) m ∧
      M.validate E r = .ok (M.sem (leafEval E) m) := by
  have := cnf_sound S hg h
  refine ⟨this.1, this.2, ?_⟩
  rw [M.validate_eq_sem E r (M.good_mono hE r this.1)]
  exact congrArg _ this.2

/-- `(sys_platform == "a" and os_name != "b") or sys_platform != "a"` has the conjunctive normal form
`os_name != "b" or sys_platform != "a"` -/
example : ∃ r, LeafSpec (leafEval Ex.envAB) Ex.G0 ∧
    cnf 60 [] (.union [.multi [.leaf (.single Ex.sA), .leaf (.single Ex.sB)], .leaf (.single Ex.sNA)]) = .ok r ∧
    r = .union [.leaf (.single Ex.sB), .leaf (.single Ex.sNA)] := by
  refine ⟨_, Ex.leafSpec0, ?_, rfl⟩
  marker_eval [Ex.sA, Ex.sNA, Ex.sB, Ex.i1, Ex.i2, Ex.i3, Ex.i4, Ex.i5, Ex.u1, Ex.u2, Ex.u3, Ex.u4, Ex.u5]

/-- **`dnf` preserves meaning.** -/
theorem dnf_sound_partial (S : LeafSpec (leafEval E) G) (hE : ∀ l, G l → ∃ b, l.validate E = .ok b)
    {m r : M} (hg : M.Good G m) (h : dnf fuel stk m = .ok r) :
    M.Good G r ∧ M.sem (leafEval E) r = M.sem (leafEval E) m ∧
      M.validate E r = .ok (M.sem (leafEval E) m) := by
  have := dnf_sound S hg h
  refine ⟨this.1, this.2, ?_⟩
  rw [M.validate_eq_sem E r (M.good_mono hE r this.1)]
  exact congrArg _ this.2

example : ∃ r, LeafSpec (leafEval Ex.envAB) Ex.G0 ∧
    dnf 60 [] (.multi [.union [.leaf (.single Ex.sA), .leaf (.single Ex.sB)], .leaf (.single Ex.sNA)]) = .ok r ∧
    r = .multi [.leaf (.single Ex.sB), .leaf (.single Ex.sNA)] := by
  refine ⟨_, Ex.leafSpec0, ?_, rfl⟩
  marker_eval [Ex.sA, Ex.sNA, Ex.sB, Ex.i1, Ex.i2, Ex.i3, Ex.i4, Ex.i5, Ex.u1, Ex.u2, Ex.u3, Ex.u4, Ex.u5]

/-- **The conjunctive normal form has the promised shape** — every fuel, every recursion stack, EVERY
marker (no hypothesis on the leaves): the result of `cnf` is Any, Empty, a leaf, a non-empty disjunction of
leaves, or a non-empty conjunction whose members are leaves or non-empty disjunctions of leaves (`M.isCnf`). -/
theorem cnf_shape {m r : M} (h : cnf fuel stk m = .ok r) : r.isCnf = true := cnf_isCnf h

example : ∃ r, cnf 60 [] (.union [.multi [.leaf (.single Ex.sA), .leaf (.single Ex.sB)], .leaf (.single Ex.sNA)]) = .ok r ∧
    r = .union [.leaf (.single Ex.sB), .leaf (.single Ex.sNA)] ∧ r.isCnf = true := by
  refine ⟨_, ?_, rfl, rfl⟩
  marker_eval [Ex.sA, Ex.sNA, Ex.sB, Ex.i1, Ex.i2, Ex.i3, Ex.i4, Ex.i5, Ex.u1, Ex.u2, Ex.u3, Ex.u4, Ex.u5]

/-- **The disjunctive normal form has the promised shape**: Any, Empty, a leaf, a conjunction of leaves,
or a disjunction whose members are leaves or conjunctions of leaves (`M.isDnf`). -/
theorem dnf_shape {m r : M} (h : dnf fuel stk m = .ok r) : r.isDnf = true := dnf_isDnf h

example : ∃ r, dnf 60 [] (.multi [.union [.leaf (.single Ex.sA), .leaf (.single Ex.sB)], .leaf (.single Ex.sNA)]) = .ok r ∧
    r = .multi [.leaf (.single Ex.sB), .leaf (.single Ex.sNA)] ∧ r.isDnf = true := by
  refine ⟨_, ?_, rfl, rfl⟩
  marker_eval [Ex.sA, Ex.sNA, Ex.sB, Ex.i1, Ex.i2, Ex.i3, Ex.i4, Ex.i5, Ex.u1, Ex.u2, Ex.u3, Ex.u4, Ex.u5]

/-- a successful `_merge_single_markers` never returns a compound: Any, Empty or a single-marker-like -/
theorem merge_result_shape {l1 l2 : Leaf} {isMulti : Bool} {r : M}
    (h : mergeLeaves l1 l2 isMulti = .ok (some r)) : r.isLitE = true := mergeLeaves_shape l1 l2 isMulti r h

/-- the pieces: `MarkerUnion.of` of clauses is a clause, `MultiMarker.of` of CNFs is a CNF (and dually) -/
theorem unionOf_clause_shape {ms : List M} {r : M} (hm : ∀ x ∈ ms, x.isCIn = true)
    (h : unionOf fuel stk ms = .ok r) : r.isCOut = true := unionOf_clause hm h

theorem multiOf_cnf_shape {ms : List M} {r : M} (hm : ∀ x ∈ ms, x.isCnf = true)
    (h : multiOf fuel stk ms = .ok r) : r.isCnf = true := multiOf_cnf mergeLeaves_shape hm h

theorem multiOf_cube_shape {ms : List M} {r : M} (hm : ∀ x ∈ ms, x.isQIn = true)
    (h : multiOf fuel stk ms = .ok r) : r.isQOut = true := multiOf_cube hm h

theorem unionOf_dnf_shape {ms : List M} {r : M} (hm : ∀ x ∈ ms, x.isDnf = true)
    (h : unionOf fuel stk ms = .ok r) : r.isDnf = true := unionOf_dnf mergeLeaves_shape hm h

/-! ### marker text -/

/-- **Printing then re-reading preserves meaning (tree level)** — for every marker over good leaves whose
`__str__` is a marker text (`M.toSyn m = some t`: no Any/Empty/empty compound inside): `str(m)` is exactly the
text of the grammar tree `t` (parentheses only around union-like members of a `MultiMarker`), `_compact_markers`
accepts `t`, and the marker it rebuilds is true in exactly the environments `m` is.  This is where the
parenthesisation of `MultiMarker.__str__` is justified against the precedence `_compact_markers` implements.
Hypotheses: the leaf facts `LeafSpec` and, per leaf, `LeafPrintOK` (re-reading the leaf's own text gives its
truth value back; for a `SingleMarker` that is constructor idempotence, `leafPrintOK_single`). -/
theorem print_reparse_partial {ev : Leaf → Bool} (S : LeafSpec ev G) (hL : ∀ l, G l → LeafPrintOK ev G l)
    {m : M} {t : Syn} (hg : M.Good G m) (h : M.toSyn m = some t) :
    M.toStr m = .ok t.text ∧ ∃ m', compactRaw t = .ok m' ∧ M.Good G m' ∧ M.sem ev m' = M.sem ev m :=
  M.print_reparse S hL hg h

/-- the three example leaves re-read to themselves -/
theorem ex_leafPrintOK : ∀ l, Ex.G0 l → LeafPrintOK (leafEval Ex.envAB) Ex.G0 l := by
  intro l hl
  rcases hl with rfl | rfl | rfl
  · exact leafPrintOK_single (Or.inl rfl) rfl
  · exact leafPrintOK_single (Or.inr (Or.inl rfl)) rfl
  · exact leafPrintOK_single (Or.inr (Or.inr rfl)) rfl

/-- `sys_platform == "a" and (os_name != "b" or sys_platform != "a")`: the tree, its text, and poetry-core's
own grammar reading the text back to the same tree (compared through the structural dump) -/
example : ∃ t, M.toSyn (.multi [.leaf (.single Ex.sA), .union [.leaf (.single Ex.sB), .leaf (.single Ex.sNA)]]) = some t ∧
    t.text = "sys_platform == \"a\" and (os_name != \"b\" or sys_platform != \"a\")" ∧
    (parseText t.text).toOption.map Syn.dump = some t.dump := ⟨_, rfl, by decide +kernel, by decide +kernel⟩

/-- **The token stream of a marker text parses back to its tree**: recursive descent for
`marker: _atom (BOOL_OP _atom)*`, `_atom: item | "(" marker ")"` on the tokens of any grammar tree returns
that tree and consumes the whole input (all trees, unbounded depth). -/
theorem print_tokens_parse (t : Syn) : parseSynT (t.size + 1) t.toks = some (t, []) :=
  parseToks_roundtrip t

example : (Syn.more (.item "os_name" "==" "nt" false) false
    (.one (.paren (.more (.item "extra" "==" "a" false) true (.one (.item "os_name" "!=" "x" true)))))).toks =
    [.item "os_name" "==" "nt" false, .and, .lpar, .item "extra" "==" "a" false, .or,
     .item "os_name" "!=" "x" true, .rpar] := rfl

/-- **The printed text means the same to the PEP 508 reference** (`Spec.Pep508.evalSyn`, C06's formalisation):
for a printable marker whose tree is coherent and whose items the reference evaluates like the model
(C06's `Syn.coh` / `Syn.agree`), the reference's value of the printed text is the truth of the marker. -/
theorem print_accepted_by_ref_partial (S : LeafSpec (leafEval E) G)
    (hL : ∀ l, G l → LeafPrintOK (leafEval E) G l) (hE : ∀ l, G l → ∃ b, l.validate E = .ok b)
    {m : M} {t : Syn} (hg : M.Good G m) (h : M.toSyn m = some t) (hc : t.coh = true) (ha : t.agree E) :
    Spec.Pep508.evalSyn E t = some (M.sem (leafEval E) m) := by
  obtain ⟨_, m', h1, h2, h3⟩ := M.print_reparse S hL hg h
  obtain ⟨b, hb1, hb2⟩ := synV_spec E t ha true
  have hv := (compactRaw_sem E t m' h1 hc).2
  rw [M.validate_eq_sem E m' (M.good_mono hE m' h2), hb1] at hv
  have : b = M.sem (leafEval E) m := by rw [← h3]; exact (Except.ok.inj hv).symm
  subst this
  simpa [Spec.Pep508.evalSyn] using hb2

/-- **Normal forms are printable**: the result of `cnf` (resp. `dnf`) over leaves that have a text is Any,
Empty, or has a marker text — every fuel, every stack, every input marker. -/
theorem cnf_printable {m r : M} (h : cnf fuel stk m = .ok r) (hl : M.Good Leaf.Printable r)
    (ha : r.isAny = false) (he : r.isEmpty = false) : (M.toSyn r).isSome = true :=
  cnf_form_printable (cnf_isCnf h) hl ha he

theorem dnf_printable {m r : M} (h : dnf fuel stk m = .ok r) (hl : M.Good Leaf.Printable r)
    (ha : r.isAny = false) (he : r.isEmpty = false) : (M.toSyn r).isSome = true :=
  dnf_form_printable (dnf_isDnf h) hl ha he

example : ∃ r, cnf 60 [] (.union [.multi [.leaf (.single Ex.sA), .leaf (.single Ex.sB)], .leaf (.single Ex.sNA)]) = .ok r ∧
    M.Good Leaf.Printable r ∧ r.isAny = false ∧ r.isEmpty = false ∧
    (M.toStr r).toOption = some "os_name != \"b\" or sys_platform != \"a\"" := by
  refine ⟨.union [.leaf (.single Ex.sB), .leaf (.single Ex.sNA)], ?_, ?_, rfl, rfl, by decide +kernel⟩
  · marker_eval [Ex.sA, Ex.sNA, Ex.sB, Ex.i1, Ex.i2, Ex.i3, Ex.i4, Ex.i5, Ex.u1, Ex.u2, Ex.u3, Ex.u4, Ex.u5]
  · simp [Leaf.Printable, Leaf.toSyn]

/-- **Results of `intersect` / `union` are printable**: for printable operands over leaves satisfying the
leaf facts and having a text, the result is Any, Empty, or has a marker text (whichever of the DNF, the CNF
and the unnormalised candidate wins on complexity) — every fuel, every stack. -/
theorem algebra_printable_partial {ev : Leaf → Bool} (S : LeafSpec ev G) (hP : ∀ l, G l → Leaf.Printable l)
    {a b r : M} (ha : M.Good G a) (hb : M.Good G b) (pa : (M.toSyn a).isSome = true)
    (pb : (M.toSyn b).isSome = true) :
    (mIntersect fuel stk a b = .ok r → r.PrintableE) ∧ (mUnion fuel stk a b = .ok r → r.PrintableE) :=
  ⟨mIntersect_printable S hP fuel stk a b r ha hb pa pb, mUnion_printable S hP fuel stk a b r ha hb pa pb⟩

example : LeafSpec (leafEval Ex.envAB) Ex.G0 ∧ (∀ l, Ex.G0 l → Leaf.Printable l) ∧
    (M.toSyn (.multi [.leaf (.single Ex.sA), .leaf (.single Ex.sB)])).isSome = true := by
  refine ⟨Ex.leafSpec0, ?_, rfl⟩
  intro l hl; rcases hl with rfl | rfl | rfl <;> rfl

/-- **Character level: the text of a tree is parsed back to the tree** by the model of poetry-core's own
grammar (`parseText`, the recogniser of `markers.lark`), for every tree whose items use names and operators of
the grammar's vocabularies and values free of `"`, `\\` and newlines — all trees, unbounded depth and width,
both item orientations. -/
theorem print_parse_chars (t : Syn) (hl : t.Lexable) : parseText t.text = .ok t := parseText_text t hl

example : (Syn.more (.item "os_name" "==" "nt" false) false
    (.one (.paren (.more (.item "extra" "!=" "a b" false) true (.one (.item "sys_platform" "in" "x" true)))))).Lexable := by
  simp only [Syn.Lexable, Atom.Lexable, ValOk]
  refine ⟨⟨by decide, by decide, ?_⟩, ⟨by decide, by decide, ?_⟩, by decide, by decide, ?_⟩ <;>
    (intro c hc; simp at hc; rcases hc with rfl | rfl | rfl <;> decide)

/-- **`parse_marker`'s grammar reads `str(m)` back**: for a printable marker over good leaves whose own texts
are lexable, `__str__` succeeds, `parseText (str m)` is exactly the tree of `m`, and `_compact_markers` turns
it into a marker with the same truth value — the statement about `parseText ∘ toStr`. -/
theorem print_parse_partial {ev : Leaf → Bool} (S : LeafSpec ev G) (hL : ∀ l, G l → LeafPrintOK ev G l)
    (hX : ∀ l, G l → Leaf.Lexable l) {m : M} {t : Syn} (hg : M.Good G m) (h : M.toSyn m = some t) :
    ∃ s, M.toStr m = .ok s ∧ parseText s = .ok t ∧
      ∃ m', compactRaw t = .ok m' ∧ M.Good G m' ∧ M.sem ev m' = M.sem ev m :=
  M.parseText_toStr S hL hX hg h

example : ∀ l, Ex.G0 l → Leaf.Lexable l := by
  intro l hl
  have hv : ∀ v : String, (v = "a" ∨ v = "b") → ValOk v := by
    intro v hv c hc; rcases hv with rfl | rfl <;> (simp at hc; subst hc; decide)
  rcases hl with rfl | rfl | rfl
  · exact leafLexable_single (by decide) (by decide) (hv _ (Or.inl rfl))
  · exact leafLexable_single (by decide) (by decide) (hv _ (Or.inl rfl))
  · exact leafLexable_single (by decide) (by decide) (hv _ (Or.inr rfl))

/-- **Marker text on the string/`extra` fragment, no hypothesis**: for every marker over `==`/`!=` leaves on the
canonical string variables and `extra` (plain quotable values; atomic multi/union leaves included) whose
`__str__` is a marker text, in every environment defining the extras: `str(m)` is parsed by the grammar model
back to the tree of `m`, `_compact_markers` rebuilds from it a marker of the fragment, and that marker validates
to the truth value of `m`. -/
theorem print_parse_quotable {ex : List String} (hE : E.extras = some ex) {m : M} {t : Syn}
    (hg : M.Good (InvLeaf E) m) (h : M.toSyn m = some t) :
    ∃ s, M.toStr m = .ok s ∧ parseText s = .ok t ∧
      ∃ m', compactRaw t = .ok m' ∧ M.Good (InvLeaf E) m' ∧
        M.validate E m' = .ok (M.sem (leafEval E) m) := by
  obtain ⟨s, h1, h2, m', h3, h4, h5⟩ :=
    M.parseText_toStr (leafSpec_inv hE) (printOK_inv hE) (fun l hl => lexable_inv l hl) hg h
  refine ⟨s, h1, h2, m', h3, h4, ?_⟩
  rw [M.validate_eq_sem E m' (M.good_mono (fun l hl => invLeaf_evaluable hE hl) m' h4)]
  exact congrArg _ h5

/-- **Marker text on the full comparison-operator domain, no hypothesis**: markers over quotable string/`extra`
leaves, `python_version <op> "X.Y"` and `python_full_version <op> "X.Y.Z"` leaves (`== != < <= > >=`) whose
`__str__` is a marker text, in an environment of interpreter `X.Y.Z` defining the extras: `str(m)` is parsed by
the grammar model back to the tree of `m`, `_compact_markers` rebuilds from it a marker of the domain, and that
marker validates to the truth value of `m`. -/
theorem print_parse_full {ex : List String} (hX : E.extras = some ex) {X Y Z : Nat} (hE : EnvPy E X Y Z)
    {m : M} {t : Syn} (hg : M.Good (FullInvLeaf E) m) (h : M.toSyn m = some t) :
    ∃ s, M.toStr m = .ok s ∧ parseText s = .ok t ∧
      ∃ m', compactRaw t = .ok m' ∧ M.Good (FullInvLeaf E) m' ∧
        M.validate E m' = .ok (M.sem (leafEval E) m) := by
  obtain ⟨s, h1, h2, m', h3, h4, h5⟩ :=
    M.parseText_toStr (leafSpec_fullInv hX hE (pairSound_py hE)) (printOK_fullInv hX)
      (fun l hl => lexable_fullInv l hl) hg h
  refine ⟨s, h1, h2, m', h3, h4, ?_⟩
  rw [M.validate_eq_sem E m' (M.good_mono (fun l hl => fullInvLeaf_evaluable hX hE hl) m' h4)]
  exact congrArg _ h5

/-- **Results of `intersect` / `union` on the full comparison-operator domain print and parse back with their
meaning**: for operands of the domain with a text, the result is Any, Empty, or a marker whose `str()` the grammar
reads back and `_compact_markers` rebuilds to a marker validating to the conjunction (disjunction) of the
operands — every fuel, every stack, no unproved hypothesis. -/
theorem algebra_print_parse_full {ex : List String} (hX : E.extras = some ex) {X Y Z : Nat} (hE : EnvPy E X Y Z)
    {a b r : M} {isUnion : Bool} (ha : M.Good (FullInvLeaf E) a) (hb : M.Good (FullInvLeaf E) b)
    (hr : (if isUnion then mUnion fuel stk a b else mIntersect fuel stk a b) = .ok r)
    {t : Syn} (h : M.toSyn r = some t) :
    ∃ s, M.toStr r = .ok s ∧ parseText s = .ok t ∧
      ∃ m', compactRaw t = .ok m' ∧ M.Good (FullInvLeaf E) m' ∧
        M.validate E m' = .ok (if isUnion then (M.sem (leafEval E) a || M.sem (leafEval E) b)
          else (M.sem (leafEval E) a && M.sem (leafEval E) b)) := by
  have S := leafSpec_fullInv hX hE (pairSound_py hE)
  cases isUnion
  · simp only [Bool.false_eq_true, if_false] at hr ⊢
    obtain ⟨g, e⟩ := mIntersect_sound S ha hb hr
    rw [← e]; exact print_parse_full hX hE g h
  · simp only [if_true] at hr ⊢
    obtain ⟨g, e⟩ := mUnion_sound S ha hb hr
    rw [← e]; exact print_parse_full hX hE g h

/-- `python_version >= "3.8" and sys_platform == "a"` is a marker of the domain with a text -/
example : M.Good (FullInvLeaf Ex.envAB) (.multi [.leaf (.single (pvLeafOf .ge ">=" 3 8)), .leaf (.single Ex.sA)]) ∧
    (M.toStr (.multi [.leaf (.single (pvLeafOf .ge ">=" 3 8)), .leaf (.single Ex.sA)])).toOption =
      some "python_version >= \"3.8\" and sys_platform == \"a\"" := by
  refine ⟨?_, by decide +kernel⟩
  simp only [M.good_multi, List.mem_cons, List.mem_nil_iff, or_false, forall_eq_or_imp, forall_eq, M.good_leaf]
  refine ⟨Or.inr (Or.inl ⟨.ge, ">=", 3, 8, by decide, rfl⟩), Or.inl (Or.inl ⟨?_, by decide, ?_⟩)⟩
  · exact ⟨rfl, rfl, ⟨"a", rfl⟩, rfl, ⟨"a", .eq, false⟩, rfl, rfl, rfl, rfl, rfl⟩
  · intro x hx
    simp [leafAtoms, Leaf.c, Ex.sA, Ex.cA, Generic.GC.atoms, Generic.GS.atoms] at hx; subst hx
    refine ⟨⟨⟨by decide, ?_⟩, by decide⟩, ?_⟩
    · intro c hc; simp at hc; subst hc; unfold tokChar; decide
    · intro c hc; simp at hc; subst hc; decide

/-- **Marker text with `~=` leaves, no hypothesis**: as `print_parse_full`, for markers that may also contain
`python_version ~= "X.Y"` / `python_full_version ~= "X.Y.Z"` leaves. -/
theorem print_parse_fullC {ex : List String} (hX : E.extras = some ex) {X Y Z : Nat} (hE : EnvPy E X Y Z)
    {m : M} {t : Syn} (hg : M.Good (FullInvLeafC E) m) (h : M.toSyn m = some t) :
    ∃ s, M.toStr m = .ok s ∧ parseText s = .ok t ∧
      ∃ m', compactRaw t = .ok m' ∧ M.Good (FullInvLeafC E) m' ∧
        M.validate E m' = .ok (M.sem (leafEval E) m) := by
  obtain ⟨s, h1, h2, m', h3, h4, h5⟩ :=
    M.parseText_toStr (leafSpec_fullInvC hX hE (pairSound_pyC hE)) (printOK_fullInvC hX)
      (fun l hl => lexable_fullInvC l hl) hg h
  refine ⟨s, h1, h2, m', h3, h4, ?_⟩
  rw [M.validate_eq_sem E m' (M.good_mono (fun l hl => fullInvLeafC_evaluable hX hE hl) m' h4)]
  exact congrArg _ h5

/-- **Results of `intersect` / `union` with `~=` leaves print and parse back with their meaning** -/
theorem algebra_print_parse_fullC {ex : List String} (hX : E.extras = some ex) {X Y Z : Nat} (hE : EnvPy E X Y Z)
    {a b r : M} {isUnion : Bool} (ha : M.Good (FullInvLeafC E) a) (hb : M.Good (FullInvLeafC E) b)
    (hr : (if isUnion then mUnion fuel stk a b else mIntersect fuel stk a b) = .ok r)
    {t : Syn} (h : M.toSyn r = some t) :
    ∃ s, M.toStr r = .ok s ∧ parseText s = .ok t ∧
      ∃ m', compactRaw t = .ok m' ∧ M.Good (FullInvLeafC E) m' ∧
        M.validate E m' = .ok (if isUnion then (M.sem (leafEval E) a || M.sem (leafEval E) b)
          else (M.sem (leafEval E) a && M.sem (leafEval E) b)) := by
  have S := leafSpec_fullInvC hX hE (pairSound_pyC hE)
  cases isUnion
  · simp only [Bool.false_eq_true, if_false] at hr ⊢
    obtain ⟨g, e⟩ := mIntersect_sound S ha hb hr
    rw [← e]; exact print_parse_fullC hX hE g h
  · simp only [if_true] at hr ⊢
    obtain ⟨g, e⟩ := mUnion_sound S ha hb hr
    rw [← e]; exact print_parse_fullC hX hE g h

/-- `python_version ~= "3.8"` prints as itself -/
example : (M.toStr (.leaf (.single (pvCompatOf 3 8)))).toOption = some "python_version ~= \"3.8\"" := by
  decide +kernel

/-! ### the four-operator string fragment and version lists -/

/-- **Marker text with all four string operators, no hypothesis**: markers over `==` / `!=` / `"v" in name` /
`"v" not in name` leaves on the string variables (quotable values; the `not in` values pairwise comparable by
containment), `extra`, and the python leaves with the seven operators: `str(m)` is parsed back to the tree of `m`,
`_compact_markers` rebuilds a marker of the domain that validates to the truth value of `m`; and the same for the
results of `intersect` / `union` (`isUnion`). -/
theorem print_parse_four_operators {C : String → Prop}
    (hC : ∀ u v, C u → C v → Generic.strIn u v = true ∨ Generic.strIn v u = true)
    {ex : List String} (hX : E.extras = some ex) {X Y Z : Nat} (hE : EnvPy E X Y Z) :
    (∀ {m : M} {t : Syn}, M.Good (FullQ4 C E) m → M.toSyn m = some t →
      ∃ s, M.toStr m = .ok s ∧ parseText s = .ok t ∧
        ∃ m', compactRaw t = .ok m' ∧ M.Good (FullQ4 C E) m' ∧ M.validate E m' = .ok (M.sem (leafEval E) m)) ∧
    (∀ {a b r : M} {isUnion : Bool}, M.Good (FullQ4 C E) a → M.Good (FullQ4 C E) b →
      (if isUnion then mUnion fuel stk a b else mIntersect fuel stk a b) = .ok r →
      M.Good (FullQ4 C E) r ∧ M.sem (leafEval E) r =
        (if isUnion then (M.sem (leafEval E) a || M.sem (leafEval E) b)
          else (M.sem (leafEval E) a && M.sem (leafEval E) b))) := by
  have S := leafSpec_fullQ4 hC hX hE (pairSound_pyC hE)
  refine ⟨fun {m t} hg h => ?_, fun {a b r isUnion} ha hb hr => ?_⟩
  · obtain ⟨s, h1, h2, m', h3, h4, h5⟩ :=
      M.parseText_toStr S (printOK_fullQ4 hX) (fun l hl => lexable_fullQ4 l hl) hg h
    refine ⟨s, h1, h2, m', h3, h4, ?_⟩
    rw [M.validate_eq_sem E m' (M.good_mono (fun l hl => fullQ4_evaluable hX hE hl) m' h4)]
    exact congrArg _ h5
  · cases isUnion
    · simp only [Bool.false_eq_true, if_false] at hr ⊢
      exact mIntersect_sound S ha hb hr
    · simp only [if_true] at hr ⊢
      exact mUnion_sound S ha hb hr

/-- **Marker text with `python_version` lists, no hypothesis** (markers without `python_full_version` leaves): as
above for four-operator strings, `extra`, and `python_version` with the seven operators and `in` / `not in` lists. -/
theorem print_parse_lists {C : String → Prop}
    (hC : ∀ u v, C u → C v → Generic.strIn u v = true ∨ Generic.strIn v u = true)
    {ex : List String} (hX : E.extras = some ex) {X Y : Nat}
    (hE : E.get? "python_version" = some (Version.relText [X, Y])) :
    (∀ {m : M} {t : Syn}, M.Good (FullQL C E) m → M.toSyn m = some t →
      ∃ s, M.toStr m = .ok s ∧ parseText s = .ok t ∧
        ∃ m', compactRaw t = .ok m' ∧ M.Good (FullQL C E) m' ∧ M.validate E m' = .ok (M.sem (leafEval E) m)) ∧
    (∀ {a b r : M} {isUnion : Bool}, M.Good (FullQL C E) a → M.Good (FullQL C E) b →
      (if isUnion then mUnion fuel stk a b else mIntersect fuel stk a b) = .ok r →
      M.Good (FullQL C E) r ∧ M.sem (leafEval E) r =
        (if isUnion then (M.sem (leafEval E) a || M.sem (leafEval E) b)
          else (M.sem (leafEval E) a && M.sem (leafEval E) b))) := by
  have S := leafSpec_fullQL hC hX hE
  refine ⟨fun {m t} hg h => ?_, fun {a b r isUnion} ha hb hr => ?_⟩
  · obtain ⟨s, h1, h2, m', h3, h4, h5⟩ :=
      M.parseText_toStr S (printOK_fullQL hX) (fun l hl => lexable_fullQL l hl) hg h
    refine ⟨s, h1, h2, m', h3, h4, ?_⟩
    rw [M.validate_eq_sem E m' (M.good_mono (fun l hl => fullQL_evaluable hX hE hl) m' h4)]
    exact congrArg _ h5
  · cases isUnion
    · simp only [Bool.false_eq_true, if_false] at hr ⊢
      exact mIntersect_sound S ha hb hr
    · simp only [if_true] at hr ⊢
      exact mUnion_sound S ha hb hr

/-- `"a" in sys_platform` prints as itself and is a leaf of the printable four-operator domain -/
example : (M.toStr (.leaf (.single ⟨"sys_platform", "in", "a", true, .gen (.s (.atom ⟨"a", .in_, false⟩))⟩))).toOption =
    some "\"a\" in sys_platform" := by decide +kernel

/-- **Character level with both quote characters** (repo fixes 3046ca3, 7b51c5a: a value holding a double quote or
a backslash and no single quote is written between single quotes): the text of every tree whose items use names and
operators of the grammar and WRITABLE values parses back to the tree.  Writable (`ValOkQ`): no `"`, `\`, newline —
or holding a `"` or a `\` and no `'` (then newlines are harmless: SINGLE_QUOTED_STRING is `/'([^'])*'/`).  Not
writable, and why: a value with a single quote together with a `"` or a `\` (neither string form of the grammar can
carry both quote characters, `_quoted` does not escape; with `'` and `\` it is written in double quotes, where
ESCAPED_STRING treats `\"` as an escaped quote); a value without `"` and `\` that holds a newline (written in double
quotes, where `.` stops at a newline). -/
theorem print_parse_chars_quotes (t : Syn) (hl : t.LexableQ) : parseText t.text = .ok t := parseText_textQ t hl

/-- `sys_platform == 'a"b\c'` is written in single quotes and read back -/
example : (Syn.one (.item "sys_platform" "==" "a\"b\\c" false)).LexableQ ∧
    (Syn.one (.item "sys_platform" "==" "a\"b\\c" false)).text = "sys_platform == 'a\"b\\c'" := by
  refine ⟨⟨by decide, by decide, Or.inr ⟨Or.inl (by decide), by decide⟩⟩, by decide⟩

/-- **Marker text with `python_version` lists AND `python_full_version` leaves, no hypothesis**: as
`print_parse_lists`, on markers that may also hold `python_full_version` leaves with the seven operators (the
pairing of list leaves is `pairSound_pyLists`). -/
theorem print_parse_lists_pfv {C : String → Prop}
    (hC : ∀ u v, C u → C v → Generic.strIn u v = true ∨ Generic.strIn v u = true)
    {ex : List String} (hX : E.extras = some ex) {X Y Z : Nat} (hE : EnvPy E X Y Z) :
    (∀ {m : M} {t : Syn}, M.Good (FullQLP C E) m → M.toSyn m = some t →
      ∃ s, M.toStr m = .ok s ∧ parseText s = .ok t ∧
        ∃ m', compactRaw t = .ok m' ∧ M.Good (FullQLP C E) m' ∧ M.validate E m' = .ok (M.sem (leafEval E) m)) ∧
    (∀ {a b r : M} {isUnion : Bool}, M.Good (FullQLP C E) a → M.Good (FullQLP C E) b →
      (if isUnion then mUnion fuel stk a b else mIntersect fuel stk a b) = .ok r →
      M.Good (FullQLP C E) r ∧ M.sem (leafEval E) r =
        (if isUnion then (M.sem (leafEval E) a || M.sem (leafEval E) b)
          else (M.sem (leafEval E) a && M.sem (leafEval E) b))) := by
  have S := leafSpec_fullQLP hC hX hE
  refine ⟨fun {m t} hg h => ?_, fun {a b r isUnion} ha hb hr => ?_⟩
  · obtain ⟨s, h1, h2, m', h3, h4, h5⟩ :=
      M.parseText_toStr S (printOK_fullQLP hX) (fun l hl => lexable_fullQLP l hl) hg h
    refine ⟨s, h1, h2, m', h3, h4, ?_⟩
    rw [M.validate_eq_sem E m' (M.good_mono (fun l hl => fullQLP_evaluable hX hE hl) m' h4)]
    exact congrArg _ h5
  · cases isUnion
    · simp only [Bool.false_eq_true, if_false] at hr ⊢
      exact mIntersect_sound S ha hb hr
    · simp only [if_true] at hr ⊢
      exact mUnion_sound S ha hb hr

/-- **Marker text with lists on BOTH python variables, no hypothesis**: as `print_parse_lists_pfv`, on markers that
may also hold `python_full_version in "…"` / `not in "…"` leaves on lists of two- and three-component versions
(the pairing is `pairSound_pyLL`). -/
theorem print_parse_lists_both {C : String → Prop}
    (hC : ∀ u v, C u → C v → Generic.strIn u v = true ∨ Generic.strIn v u = true)
    {ex : List String} (hX : E.extras = some ex) {X Y Z : Nat} (hE : EnvPy E X Y Z) :
    (∀ {m : M} {t : Syn}, M.Good (FullQLL C E) m → M.toSyn m = some t →
      ∃ s, M.toStr m = .ok s ∧ parseText s = .ok t ∧
        ∃ m', compactRaw t = .ok m' ∧ M.Good (FullQLL C E) m' ∧ M.validate E m' = .ok (M.sem (leafEval E) m)) ∧
    (∀ {a b r : M} {isUnion : Bool}, M.Good (FullQLL C E) a → M.Good (FullQLL C E) b →
      (if isUnion then mUnion fuel stk a b else mIntersect fuel stk a b) = .ok r →
      M.Good (FullQLL C E) r ∧ M.sem (leafEval E) r =
        (if isUnion then (M.sem (leafEval E) a || M.sem (leafEval E) b)
          else (M.sem (leafEval E) a && M.sem (leafEval E) b))) := by
  have S := leafSpec_fullQLL hC hX hE
  refine ⟨fun {m t} hg h => ?_, fun {a b r isUnion} ha hb hr => ?_⟩
  · obtain ⟨s, h1, h2, m', h3, h4, h5⟩ :=
      M.parseText_toStr S (printOK_fullQLL hX) (fun l hl => lexable_fullQLL l hl) hg h
    refine ⟨s, h1, h2, m', h3, h4, ?_⟩
    rw [M.validate_eq_sem E m' (M.good_mono (fun l hl => fullQLL_evaluable hX hE hl) m' h4)]
    exact congrArg _ h5
  · cases isUnion
    · simp only [Bool.false_eq_true, if_false] at hr ⊢
      exact mIntersect_sound S ha hb hr
    · simp only [if_true] at hr ⊢
      exact mUnion_sound S ha hb hr

/-- **Marker text with values holding a double quote, at marker level, no hypothesis**: on markers over string
leaves with the four operators and `extra` leaves whose `==` / `!=` values may hold a double quote or a backslash (no
single quote, no white space, `|`, `,`; written in single quotes by `_quoted`, repo fixes 3046ca3, 7b51c5a),
`python_version` and
`python_full_version` with the seven operators and lists — `str(m)` is read back by `parse_marker`'s grammar to the
tree of `m` (`parseText_textQ`), compacting it gives a marker of the domain that validates to the truth of `m`, and
intersection / union stay in the domain and are exact.  The constructor facts for such values are C06's proofs redone
over `GTok` (the constraint pattern and the generic constraint parser never look at quotes for `==` / `!=`).  The
reversed-operand leaves (`"v" in name`) keep quote-free values: the constructor writes them between double quotes
(`f'"{value}" {op}'`) and reads them with the backtracking pattern `STR_CMP_CONSTRAINT`, whose model lemmas
(`matchStrCmp_rev`, `gparseWith_rev`) are stated for values without quotes. -/
theorem print_parse_quotes {C : String → Prop}
    (hC : ∀ u v, C u → C v → Generic.strIn u v = true ∨ Generic.strIn v u = true)
    {ex : List String} (hX : E.extras = some ex) {X Y Z : Nat} (hE : EnvPy E X Y Z) :
    (∀ {m : M} {t : Syn}, M.Good (FullQQ C E) m → M.toSyn m = some t →
      ∃ s, M.toStr m = .ok s ∧ parseText s = .ok t ∧
        ∃ m', compactRaw t = .ok m' ∧ M.Good (FullQQ C E) m' ∧ M.validate E m' = .ok (M.sem (leafEval E) m)) ∧
    (∀ {a b r : M} {isUnion : Bool}, M.Good (FullQQ C E) a → M.Good (FullQQ C E) b →
      (if isUnion then mUnion fuel stk a b else mIntersect fuel stk a b) = .ok r →
      M.Good (FullQQ C E) r ∧ M.sem (leafEval E) r =
        (if isUnion then (M.sem (leafEval E) a || M.sem (leafEval E) b)
          else (M.sem (leafEval E) a && M.sem (leafEval E) b))) ∧
    (∀ l, FullQLL C E l → FullQQ C E l) := by
  have S := leafSpec_fullQQ hC hX hE
  refine ⟨fun {m t} hg h => ?_, fun {a b r isUnion} ha hb hr => ?_, fun l hl => fullQLL_fullQQ hl⟩
  · obtain ⟨s, h1, h2, m', h3, h4, h5⟩ :=
      M.parseText_toStrQ S (printOK_fullQQ hX) (fun l hl => lexableQ_fullQQ l hl) hg h
    refine ⟨s, h1, h2, m', h3, h4, ?_⟩
    rw [M.validate_eq_sem E m' (M.good_mono (fun l hl => fullQQ_evaluable hX hE hl) m' h4)]
    exact congrArg _ h5
  · cases isUnion
    · simp only [Bool.false_eq_true, if_false] at hr ⊢
      exact mIntersect_sound S ha hb hr
    · simp only [if_true] at hr ⊢
      exact mUnion_sound S ha hb hr

/-- `sys_platform == 'a"b'` is a leaf of that domain (in any environment defining `sys_platform`), built by the
constructor from `==a"b`, and printed in single quotes -/
example (C : String → Prop) (v : String) (hv : E.get? "sys_platform" = some v) :
    FullQQ C E (.single ⟨"sys_platform", "==", "a\"b", false, .gen (.s (.atom ⟨"a\"b", .eq, false⟩))⟩) ∧
    mkSingle "sys_platform" "==a\"b" false =
      .ok ⟨"sys_platform", "==", "a\"b", false, .gen (.s (.atom ⟨"a\"b", .eq, false⟩))⟩ ∧
    leafText "sys_platform" "==" "a\"b" false = "sys_platform == 'a\"b'" := by
  have hq : QuoteValue "a\"b" := by
    refine ⟨⟨⟨by decide, ?_⟩, by decide⟩, Or.inr ⟨Or.inl (by decide), by decide⟩⟩
    intro c hc
    simp at hc
    rcases hc with rfl | rfl | rfl <;> (unfold gPlain; decide)
  refine ⟨Or.inl (Or.inl (Or.inl ⟨?_, by decide, ?_⟩)), ?_, by decide⟩
  · exact ⟨by decide, by decide, ⟨v, hv⟩, rfl, _, rfl, rfl, rfl, rfl, rfl⟩
  · intro x hx
    simp only [leafAtoms, Leaf.c, Generic.GC.atoms, Generic.GS.atoms, List.mem_singleton] at hx
    subst hx
    exact hq
  · exact mkSingle_string_eqG "sys_platform" "a\"b" (by decide) hq.1.1 hq.1.2

/-- **Marker text with quote values on reversed-operand leaves too, no hypothesis**: as `print_parse_quotes`, with
`"v" in name` / `"v" not in name` leaves whose literal may hold a double quote (no white space, `|`, `,`, writable).
The constructor writes the constraint string between double quotes whatever the literal (`f'"{value}" {op}'`) and
reads it with the backtracking pattern `STR_CMP_CONSTRAINT`; an inner `"` is tried as the closing quote first, but the
rest of the text after it still holds the real closing quote, so for a literal without blanks it is not
`\\s*(not\\sin|in)$` (`strCmpTail_inner`, marker side; `matchOpTail_inner`, generic-constraint side) and the scan
goes on to the real one (`matchStrCmp_revQ`, `gparseWith_revQ`, `mkSingle_revQ`). -/
theorem print_parse_quotes_reversed {C : String → Prop}
    (hC : ∀ u v, C u → C v → Generic.strIn u v = true ∨ Generic.strIn v u = true)
    {ex : List String} (hX : E.extras = some ex) {X Y Z : Nat} (hE : EnvPy E X Y Z) :
    (∀ {m : M} {t : Syn}, M.Good (FullQR C E) m → M.toSyn m = some t →
      ∃ s, M.toStr m = .ok s ∧ parseText s = .ok t ∧
        ∃ m', compactRaw t = .ok m' ∧ M.Good (FullQR C E) m' ∧ M.validate E m' = .ok (M.sem (leafEval E) m)) ∧
    (∀ {a b r : M} {isUnion : Bool}, M.Good (FullQR C E) a → M.Good (FullQR C E) b →
      (if isUnion then mUnion fuel stk a b else mIntersect fuel stk a b) = .ok r →
      M.Good (FullQR C E) r ∧ M.sem (leafEval E) r =
        (if isUnion then (M.sem (leafEval E) a || M.sem (leafEval E) b)
          else (M.sem (leafEval E) a && M.sem (leafEval E) b))) ∧
    (∀ l, FullQQ C E l → FullQR C E l) := by
  have S := leafSpec_fullQR hC hX hE
  refine ⟨fun {m t} hg h => ?_, fun {a b r isUnion} ha hb hr => ?_, fun l hl => fullQQ_fullQR hl⟩
  · obtain ⟨s, h1, h2, m', h3, h4, h5⟩ :=
      M.parseText_toStrQ S (printOK_fullQR hX) (fun l hl => lexableQ_fullQR l hl) hg h
    refine ⟨s, h1, h2, m', h3, h4, ?_⟩
    rw [M.validate_eq_sem E m' (M.good_mono (fun l hl => fullQR_evaluable hX hE hl) m' h4)]
    exact congrArg _ h5
  · cases isUnion
    · simp only [Bool.false_eq_true, if_false] at hr ⊢
      exact mIntersect_sound S ha hb hr
    · simp only [if_true] at hr ⊢
      exact mUnion_sound S ha hb hr

/-- `'a"b' in sys_platform`: the constructor reads `"a"b" in` back to the literal `a"b` -/
example : mkSingle "sys_platform" (itemConstraintString "in" "a\"b" true) true =
      .ok ⟨"sys_platform", "in", "a\"b", true, .gen (.s (.atom ⟨"a\"b", .in_, false⟩))⟩ ∧
    itemConstraintString "in" "a\"b" true = "\"a\"b\" in" ∧
    leafText "sys_platform" "in" "a\"b" true = "'a\"b' in sys_platform" := by
  refine ⟨?_, by decide, by decide⟩
  have hg : GTok "a\"b" := by
    refine ⟨by decide, ?_⟩
    intro c hc
    simp at hc
    rcases hc with rfl | rfl | rfl <;> (unfold gPlain; decide)
  exact mkSingle_revQ "sys_platform" "a\"b" (by decide) hg "in" .in_ (by decide)

end Poetry.C13
