/-
C16 — String constraints (platform, extras) form a sound set algebra.
Property theorems only (helper lemmas live in Proofs/Generic.lean).  Values are arbitrary `String`s.
`wfG` / `wfX` are the shapes parser and algebra produce in the `==`/`!=` fragment (single-valued / `extra`).
-/
import PoetryVerif.Proofs.Generic

set_option linter.unusedSimpArgs false
set_option linter.unusedVariables false

namespace Poetry.C16
open Poetry Generic

/-- **Everything `parse_extra_constraint` returns is well-formed** (`wfX`), for every input string — so the
`extra` theorems below apply to all parsed constraints and, by their `wfX` conclusions, to everything
`intersect`/`union` build from them. -/
theorem x_parse_wellformed (s : String) (c : GC) (h : parseExtraConstraint s = .ok c) : c.wfX = true :=
  parseExtra_wfX s c h

/-- **Everything `parse_constraint` returns is well-formed** for the four-operator shape `wf4` (plain atoms, a
`MultiConstraint` of negative atoms, non-empty unions) and contains no `MultiConstraint` / `UnionConstraint`
of nothing — for every input string. -/
theorem g4_parse_wellformed (s : String) (c : GC) (h : parseConstraint s = .ok c) :
    c.wf4 = true ∧ c.nondeg = true := parse_wf4 s c h

/-- … hence whatever `parse_constraint` returns that mentions only `==`/`!=` is `wfG` (the invariant of the
`==`/`!=` theorems below), although a clause list may pass through `in`/`not in` atoms on the way. -/
theorem g_parse_wellformed (s : String) (c : GC) (h : parseConstraint s = .ok c) (hf : c.frag = true) :
    c.wfG = true := GC.wfG_of_wf4_frag (parse_wf4 s c h).1 hf

example : ∃ c, parseConstraint "'b' in, ==abc || !=a, !=c" = .ok c ∧ c.frag = true ∧
    c = .union [.atom ⟨"abc", .eq, false⟩, .multi false [⟨"a", .ne, false⟩, ⟨"c", .ne, false⟩]] :=
  ⟨_, rfl, by decide, rfl⟩

theorem x_parse_nondegenerate (s : String) (c : GC) (h : parseExtraConstraint s = .ok c) : c.nondeg = true :=
  parseExtra_nondeg s c h

/-- **No `MultiConstraint` / `UnionConstraint` of nothing is ever returned** (`g_result_wellformed`): on
well-formed, non-degenerate operands — in particular on everything the parsers return, and then on every result —
`intersect`, `union` and (where it returns) `invert` produce non-degenerate objects.  Single-valued variant, all
four operators (`ncCompat` only excludes the test-pinned `not in` ∪ `not in` call site, see below; it holds for
all `==`/`!=` operands, `ncCompat_of_frag`). -/
theorem g_result_wellformed (a b : GC) (ha : a.wf4 = true) (hb : b.wf4 = true) (hna : a.nondeg = true)
    (hnb : b.nondeg = true) :
    (∃ r, a.intersect b = .ok r ∧ r.nondeg = true) ∧
    (a.ncCompat b = true → ∃ r, a.unionWith b = .ok r ∧ r.nondeg = true) ∧
    (∀ r, a.invert = .ok r → r.nondeg = true ∧ r.wf4 = true) :=
  ⟨GC.intersect_nondeg4 a b ha hb hna hnb, fun hc => GC.unionWith_nondeg4 a b ha hb hc hna hnb,
   fun r h => ⟨GC.invert_nondeg a r hna h, GC.invert_wf4 a r ha hna h⟩⟩

/-- the same for the `extra` variant -/
theorem x_result_wellformed (a b : GC) (ha : a.wfX = true) (hb : b.wfX = true) (hna : a.nondeg = true)
    (hnb : b.nondeg = true) :
    (∃ r, a.intersect b = .ok r ∧ r.nondeg = true) ∧ (∃ r, a.unionWith b = .ok r ∧ r.nondeg = true) ∧
    (∀ r, a.invert = .ok r → r.nondeg = true) :=
  ⟨GC.intersect_nondegX a b ha hb hna hnb, GC.unionWith_nondegX a b ha hb hna hnb,
   fun r h => GC.invert_nondeg a r hna h⟩

/-- **Membership is never an error and is the denotation**: `c.allows(Constraint(v))` for every
constraint object and every string. -/
theorem g_allows_is_den (c : GC) (v : String) (x : Bool) :
    c.allows (.atom ⟨v, .eq, x⟩) = .ok (c.den v) := GC.allows_eqAtom c v x

/-- **Intersection is defined and exact** (single-valued variant): for all well-formed constraints over
arbitrary strings the call returns, the result is well-formed, and it admits a value exactly when both
operands do. -/
theorem g_intersect_exact (a b : GC) (ha : a.wfG = true) (hb : b.wfG = true) :
    ∃ r, a.intersect b = .ok r ∧ r.wfG = true ∧ ∀ v, r.den v = (a.den v && b.den v) :=
  GC.intersect_G a b ha hb

example : ∃ a b, parseConstraint "!=a, !=b || c" = .ok a ∧ parseConstraint "b || !=c,!=a" = .ok b ∧
    a.wfG = true ∧ b.wfG = true := ⟨_, _, rfl, rfl, by decide, by decide⟩

/-- **Union is defined and exact** (single-valued variant). -/
theorem g_union_exact (a b : GC) (ha : a.wfG = true) (hb : b.wfG = true) :
    ∃ r, a.unionWith b = .ok r ∧ r.wfG = true ∧ ∀ v, r.den v = (a.den v || b.den v) :=
  GC.unionWith_G a b ha hb

example : ∃ a b r, parseConstraint "!=a, !=b" = .ok a ∧ parseConstraint "a || b" = .ok b ∧
    a.unionWith b = .ok r ∧ r = .union [.atom ⟨"a", .eq, false⟩, .atom ⟨"b", .eq, false⟩,
      .multi false [⟨"a", .ne, false⟩, ⟨"b", .ne, false⟩]] := ⟨_, _, _, rfl, rfl, rfl, rfl⟩

/-- **Inversion, where provided, is the complement** — for every constraint object (no well-formedness
needed, all four operators): whenever `invert()` returns, the result admits exactly the values the
operand rejects. -/
theorem g_invert_exact (a r : GC) (h : a.invert = .ok r) (v : String) : r.den v = !a.den v :=
  GC.invert_G a r h v

example : ∃ a r, parseConstraint "a || b" = .ok a ∧ a.invert = .ok r ∧
    r = .multi false [⟨"a", .ne, false⟩, ⟨"b", .ne, false⟩] := ⟨_, _, rfl, rfl, rfl⟩

/-- **`extra` variant: intersection and union are defined and exact**, where a value is the *set* `E` of
active extras (an arbitrary predicate on strings). -/
theorem x_intersect_exact (a b : GC) (ha : a.wfX = true) (hb : b.wfX = true) :
    ∃ r, a.intersect b = .ok r ∧ r.wfX = true ∧ ∀ E, r.denX E = (a.denX E && b.denX E) :=
  GC.intersect_X a b ha hb

theorem x_union_exact (a b : GC) (ha : a.wfX = true) (hb : b.wfX = true) :
    ∃ r, a.unionWith b = .ok r ∧ r.wfX = true ∧ ∀ E, r.denX E = (a.denX E || b.denX E) :=
  GC.unionWith_X a b ha hb

example : ∃ a b r, parseExtraConstraint "a, !=b || c" = .ok a ∧ parseExtraConstraint "!=a || b, c" = .ok b ∧
    a.wfX = true ∧ b.wfX = true ∧ a.intersect b = .ok r ∧
    r = .union [.multi true [⟨"c", .eq, true⟩, ⟨"a", .ne, true⟩], .multi true [⟨"b", .eq, true⟩, ⟨"c", .eq, true⟩]] :=
  ⟨_, _, _, rfl, rfl, by decide, by decide, rfl, rfl⟩

/-- `extra` variant: inversion, where provided, is exact for every set `E` of active extras
(`E` is an arbitrary predicate on strings, so infinite sets are covered as well). -/
theorem x_invert_exact (a r : GC) (ha : a.wfX = true) (h : a.invert = .ok r) (E : String → Bool) :
    r.denX E = !a.denX E := GC.invert_X a r (GC.frag_of_wfX ha) h E

example : ∃ a r, parseExtraConstraint "a, !=b" = .ok a ∧ a.wfX = true ∧ a.invert = .ok r ∧
    r = .union [.atom ⟨"a", .ne, true⟩, .atom ⟨"b", .eq, true⟩] := ⟨_, _, rfl, by decide, rfl, rfl⟩

/-- **"allows all" answering yes is never wrong**: every value the second operand admits is admitted by
the first.  (Only the second operand has to be in the `==`/`!=` fragment.) -/
theorem g_allows_all_sound (a b : GC) (hb : b.wfG = true) (h : a.allowsAll b = true) (v : String)
    (hv : b.den v = true) : a.den v = true :=
  GC.allowsAll_sound a b (GC.frag_of_wfG hb) h v hv

example : ∃ a b, parseConstraint "!=a || b" = .ok a ∧ parseConstraint "!=a, !=c" = .ok b ∧
    b.wfG = true ∧ a.allowsAll b = true := ⟨_, _, rfl, rfl, by decide, by decide⟩

/-- **"allows any" answering no is never wrong**: no value is admitted by both operands. -/
theorem g_allows_any_sound (a b : GC) (ha : a.wfG = true) (hb : b.wfG = true) (h : a.allowsAny b = false)
    (v : String) : ¬ (a.den v = true ∧ b.den v = true) := by
  rintro ⟨h1, h2⟩
  rw [GC.allowsAny_sound a b (GC.frag_of_wfG ha) (GC.frag_of_wfG hb) v h1 h2] at h
  cases h

example : ∃ a b, parseConstraint "!=a, !=b" = .ok a ∧ parseConstraint "a || b" = .ok b ∧
    a.wfG = true ∧ b.wfG = true ∧ a.allowsAny b = false := ⟨_, _, rfl, rfl, by decide, by decide, by decide⟩

/-- **A constraint reporting itself universal admits every value**, and one reporting itself empty
admits none (every constraint object, both semantics). -/
theorem g_is_any_sound (c : GC) (h : c.isAny = true) (v : String) : c.den v = true := by
  match c, h with
  | .s .any, _ => rfl

theorem g_is_empty_sound (c : GC) (h : c.isEmpty = true) (v : String) : c.den v = false := by
  match c, h with
  | .s .empty, _ => rfl

theorem x_is_any_sound (c : GC) (h : c.isAny = true) (E : String → Bool) : c.denX E = true := by
  match c, h with
  | .s .any, _ => rfl

theorem x_is_empty_sound (c : GC) (h : c.isEmpty = true) (E : String → Bool) : c.denX E = false := by
  match c, h with
  | .s .empty, _ => rfl

/-! ### All four operators (`==`, `!=`, `in`, `not in`; substring semantics `den`), single-valued variant

These go beyond what C16 states; they hold since the `in`/`not in` repair of the algebra (poetry-core 3372536) and
feed the marker properties (reversed-operand leaves such as `"tegra" in platform_release`). -/

/-- **Intersection is defined and exact for all four operators.** -/
theorem g4_intersect_exact (a b : GC) (ha : a.wf4 = true) (hb : b.wf4 = true) :
    ∃ r, a.intersect b = .ok r ∧ r.wf4 = true ∧ ∀ v, r.den v = (a.den v && b.den v) :=
  GC.intersect_4 a b ha hb

example : ∃ a b r, parseConstraint "!=64, 'arm' not in" = .ok a ∧ parseConstraint "'64' in || x86" = .ok b ∧
    a.intersect b = .ok r ∧
    r = .union [.multi false [⟨"64", .in_, false⟩, ⟨"64", .ne, false⟩, ⟨"arm", .nc, false⟩],
                .atom ⟨"x86", .eq, false⟩] := ⟨_, _, _, rfl, rfl, rfl, rfl⟩

/-- **Union is defined and exact for all four operators**, provided no top-level member pair of the operands hits
the one remaining wrong shortcut (`ncCompat`: no two `not in` atoms neither of whose values contains the other). -/
theorem g4_union_exact (a b : GC) (ha : a.wf4 = true) (hb : b.wf4 = true) (hc : a.ncCompat b = true) :
    ∃ r, a.unionWith b = .ok r ∧ r.wf4 = true ∧ ∀ v, r.den v = (a.den v || b.den v) :=
  GC.unionWith_4 a b ha hb hc

example : ∃ a b, parseConstraint "!=aarch64, !=AMD64" = .ok a ∧ parseConstraint "'64' in" = .ok b ∧
    a.wf4 = true ∧ b.wf4 = true ∧ a.ncCompat b = true ∧
    a.unionWith b = .ok (.union [.multi false [⟨"aarch64", .ne, false⟩, ⟨"AMD64", .ne, false⟩],
                                  .atom ⟨"64", .in_, false⟩]) :=
  ⟨_, _, rfl, rfl, by decide, by decide, by decide, rfl⟩

/-- `ncCompat` costs nothing in the `==`/`!=` fragment. -/
theorem g4_ncCompat_of_fragment (a b : GC) (ha : a.frag = true) : a.ncCompat b = true := ncCompat_of_frag a b ha

/-- **The remaining wrong call site, exactly** (`Constraint.union`, branch `ops in ({"!="}, {"not in"})`; pinned by
`tests/constraints/generic/test_constraint.py::test_union[…'tegra' not in, 'rpi' not in → AnyConstraint()]`, known
finding `notin-union-notin-any`): for two plain atoms the union is exact if and only if they are not two `not in`
atoms neither of whose values is a substring of the other. -/
theorem g4_atom_union_exact_iff (a o : Atom) (ha : a.x = false) (ho : o.x = false) :
    (∃ r, a.unionA o = .ok r ∧ ∀ v, r.den v = (a.den v || o.den v)) ↔ ncClash a o = false :=
  Atom.unionA_exact_iff a o ha ho

/-- the witness: `'tegra' not in` ∪ `'rpi' not in` is `AnyConstraint`, yet `"tegrarpi"` is admitted by neither. -/
theorem g4_union_notin_notin_counterexample :
    ∃ a b r, parseConstraint "'tegra' not in" = .ok a ∧ parseConstraint "'rpi' not in" = .ok b ∧
      a.wf4 = true ∧ b.wf4 = true ∧ a.ncCompat b = false ∧ a.unionWith b = .ok r ∧ r = .any ∧
      a.den "tegrarpi" = false ∧ b.den "tegrarpi" = false ∧ r.den "tegrarpi" = true :=
  ⟨_, _, _, rfl, rfl, by decide, by decide, by decide, rfl, rfl, by decide, by decide, by decide⟩

/-- **"allows all" / "allows any" are never wrong for any constraint objects at all** (all four operators,
including the conservative `True` answers of `allows_any` for multi-constraints). -/
theorem g4_allows_all_sound (a b : GC) (h : a.allowsAll b = true) (v : String) (hv : b.den v = true) :
    a.den v = true := GC.allowsAll_sound4 a b h v hv

theorem g4_allows_any_sound (a b : GC) (h : a.allowsAny b = false) (v : String) :
    ¬ (a.den v = true ∧ b.den v = true) := by
  rintro ⟨h1, h2⟩
  rw [GC.allowsAny_sound4 a b v h1 h2] at h
  cases h

example : ∃ a b, parseConstraint "'ab' in" = .ok a ∧ parseConstraint "'b' not in || !=abc, 'c' in" = .ok b ∧
    a.allowsAny b = true ∧ a.allowsAll b = false := ⟨_, _, rfl, rfl, by decide, by decide⟩

/-- inversion for all four operators is `g_invert_exact` (no hypothesis); it also stays inside `wf4`, see
`g_result_wellformed`. -/
theorem g4_invert_exact (a r : GC) (h : a.invert = .ok r) (v : String) : r.den v = !a.den v :=
  GC.invert_G a r h v

/-! ### What is false of the code (the model mirrors it): concrete witnesses, replayed on poetry-core -/

/-- Regression of D5's residual (fixed in poetry-core 3372536): the union below used to be a
`MultiConstraint` of nothing (admits everything, `is_any()` false, prints ""); it is `AnyConstraint` now. -/
theorem g_union_no_empty_multi_regression :
    ∃ a b c r1 r2, parseConstraint "!=a, !=b" = .ok a ∧ parseConstraint "!=a, !=c" = .ok b ∧
      parseConstraint "a" = .ok c ∧ a.unionWith b = .ok r1 ∧ r1.unionWith c = .ok r2 ∧
      r1 = .multi false [⟨"a", .ne, false⟩] ∧ r2 = .any :=
  ⟨_, _, _, _, _, rfl, rfl, rfl, rfl, rfl, rfl, rfl⟩

/-- Non-empty unions are a genuine hypothesis of `g_union_exact`: a `UnionConstraint` of nothing (what
`MultiConstraint().invert()` builds; neither parser nor algebra produce it) makes `union` INEXACT:
`parse_constraint("a").union(UnionConstraint())` is `<UnionConstraint >`, which rejects `a`. -/
theorem g_union_empty_union_counterexample :
    ∃ c r, parseConstraint "a" = .ok c ∧ (GC.multi false []).invert = .ok (.union []) ∧
      c.unionWith (.union []) = .ok r ∧ r.den "a" = false ∧ c.den "a" = true :=
  ⟨_, _, rfl, rfl, rfl, by decide, by decide⟩

/-- `extra` variant: `invert` does not preserve `wfX` (it can build an `ExtraMultiConstraint` mentioning a
value twice).  `ExtraMultiConstraint.union` used to take its two-member shortcut there and return
`<UnionConstraint a>` for `parse_extra_constraint("a || a").invert().union(parse_extra_constraint("a"))`
(false for the empty set of extras); since poetry-core ea09f91 the shortcut counts distinct values and the
result is exact. -/
theorem x_union_after_invert_regression :
    ∃ a i c r, parseExtraConstraint "a || a" = .ok a ∧ a.wfX = true ∧ a.invert = .ok i ∧ i.wfX = false ∧
      parseExtraConstraint "a" = .ok c ∧ i.unionWith c = .ok r ∧
      r.denX (fun _ => false) = true ∧ i.denX (fun _ => false) = true :=
  ⟨_, _, _, _, rfl, by decide, rfl, by decide, rfl, rfl, by decide, by decide⟩

end Poetry.C16
