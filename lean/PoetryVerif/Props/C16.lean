/-
C16 — String constraints (platform, extras) form a sound set algebra.
Property theorems only (helper lemmas live in Proofs/Generic.lean).  Values are arbitrary `String`s.
`wfG` / `wfX` are the shapes parser and algebra produce in the `==`/`!=` fragment (single-valued / `extra`).
-/
import PoetryVerif.Proofs.Generic

set_option linter.unusedSimpArgs false
set_option linter.unusedVariables false

namespace Poetry.C16
open Poetry Generic

/-- **Membership is never an error and is the denotation**: `c.allows(Constraint(v))` for every
constraint object and every string. -/
theorem g_allows_is_den (c : GC) (v : String) (x : Bool) :
    c.allows (.atom ⟨v, .eq, x⟩) = .ok (c.den v) := GC.allows_eqAtom c v x

/-- **Intersection is defined and exact** (single-valued variant): for all well-formed constraints over
arbitrary strings the call returns, the result is well-formed, and it admits a value exactly when both
operands do. -/
theorem g_intersect_exact (a b : GC) (ha : a.wfG = true) (hb : b.wfG = true) :
    ∃ r, a.intersect b = .ok r ∧ r.wfG = true ∧ ∀ v, r.den v = (a.den v && b.den v) :=
  GC.intersect_G a b ha hb

example : ∃ a b, parseConstraint "!=a, !=b || c" = .ok a ∧ parseConstraint "b || !=c,!=a" = .ok b ∧
    a.wfG = true ∧ b.wfG = true := ⟨_, _, rfl, rfl, by decide, by decide⟩

/-- **Union is defined and exact** (single-valued variant). -/
theorem g_union_exact (a b : GC) (ha : a.wfG = true) (hb : b.wfG = true) :
    ∃ r, a.unionWith b = .ok r ∧ r.wfG = true ∧ ∀ v, r.den v = (a.den v || b.den v) :=
  GC.unionWith_G a b ha hb

end Poetry.C16
