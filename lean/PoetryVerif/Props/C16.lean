/-
C16 — String constraints (platform, extras) form a sound set algebra.
Property theorems only (helper lemmas live in Proofs/Generic.lean).  Values are arbitrary `String`s.
`wfG` / `wfX` are the shapes parser and algebra produce in the `==`/`!=` fragment (single-valued / `extra`).
-/
import PoetryVerif.Proofs.Generic

set_option linter.unusedSimpArgs false
set_option linter.unusedVariables false

namespace Poetry.C16
open Poetry Generic

/-- **Everything `parse_extra_constraint` returns is well-formed** (`wfX`), for every input string — so the
`extra` theorems below apply to all parsed constraints and, by their `wfX` conclusions, to everything
`intersect`/`union` build from them. -/
theorem x_parse_wellformed (s : String) (c : GC) (h : parseExtraConstraint s = .ok c) : c.wfX = true :=
  parseExtra_wfX s c h

/-- The single-valued counterpart: whatever `parse_constraint` returns that mentions only `==`/`!=` is `wfG`.
NOT proved (a clause list may pass through `in`/`not in` atoms that an `==` clause then absorbs, so the proof
needs a wider invariant than `wfG`); instances are checked by `decide` in the examples and on every
correspondence run (the parser's dump is compared with the real one). -/
def g_parse_wellformed_full_statement : Prop :=
  ∀ (s : String) (c : GC), parseConstraint s = .ok c → c.frag = true → c.wfG = true

/-- **Membership is never an error and is the denotation**: `c.allows(Constraint(v))` for every
constraint object and every string. -/
theorem g_allows_is_den (c : GC) (v : String) (x : Bool) :
    c.allows (.atom ⟨v, .eq, x⟩) = .ok (c.den v) := GC.allows_eqAtom c v x

/-- **Intersection is defined and exact** (single-valued variant): for all well-formed constraints over
arbitrary strings the call returns, the result is well-formed, and it admits a value exactly when both
operands do. -/
theorem g_intersect_exact (a b : GC) (ha : a.wfG = true) (hb : b.wfG = true) :
    ∃ r, a.intersect b = .ok r ∧ r.wfG = true ∧ ∀ v, r.den v = (a.den v && b.den v) :=
  GC.intersect_G a b ha hb

example : ∃ a b, parseConstraint "!=a, !=b || c" = .ok a ∧ parseConstraint "b || !=c,!=a" = .ok b ∧
    a.wfG = true ∧ b.wfG = true := ⟨_, _, rfl, rfl, by decide, by decide⟩

/-- **Union is defined and exact** (single-valued variant). -/
theorem g_union_exact (a b : GC) (ha : a.wfG = true) (hb : b.wfG = true) :
    ∃ r, a.unionWith b = .ok r ∧ r.wfG = true ∧ ∀ v, r.den v = (a.den v || b.den v) :=
  GC.unionWith_G a b ha hb

example : ∃ a b r, parseConstraint "!=a, !=b" = .ok a ∧ parseConstraint "a || b" = .ok b ∧
    a.unionWith b = .ok r ∧ r = .union [.atom ⟨"a", .eq, false⟩, .atom ⟨"b", .eq, false⟩,
      .multi false [⟨"a", .ne, false⟩, ⟨"b", .ne, false⟩]] := ⟨_, _, _, rfl, rfl, rfl, rfl⟩

/-- **Inversion, where provided, is the complement** — for every constraint object (no well-formedness
needed, all four operators): whenever `invert()` returns, the result admits exactly the values the
operand rejects. -/
theorem g_invert_exact (a r : GC) (h : a.invert = .ok r) (v : String) : r.den v = !a.den v :=
  GC.invert_G a r h v

example : ∃ a r, parseConstraint "a || b" = .ok a ∧ a.invert = .ok r ∧
    r = .multi false [⟨"a", .ne, false⟩, ⟨"b", .ne, false⟩] := ⟨_, _, rfl, rfl, rfl⟩

/-- **`extra` variant: intersection and union are defined and exact**, where a value is the *set* `E` of
active extras (an arbitrary predicate on strings). -/
theorem x_intersect_exact (a b : GC) (ha : a.wfX = true) (hb : b.wfX = true) :
    ∃ r, a.intersect b = .ok r ∧ r.wfX = true ∧ ∀ E, r.denX E = (a.denX E && b.denX E) :=
  GC.intersect_X a b ha hb

theorem x_union_exact (a b : GC) (ha : a.wfX = true) (hb : b.wfX = true) :
    ∃ r, a.unionWith b = .ok r ∧ r.wfX = true ∧ ∀ E, r.denX E = (a.denX E || b.denX E) :=
  GC.unionWith_X a b ha hb

example : ∃ a b r, parseExtraConstraint "a, !=b || c" = .ok a ∧ parseExtraConstraint "!=a || b, c" = .ok b ∧
    a.wfX = true ∧ b.wfX = true ∧ a.intersect b = .ok r ∧
    r = .union [.multi true [⟨"c", .eq, true⟩, ⟨"a", .ne, true⟩], .multi true [⟨"b", .eq, true⟩, ⟨"c", .eq, true⟩]] :=
  ⟨_, _, _, rfl, rfl, by decide, by decide, rfl, rfl⟩

/-- `extra` variant: inversion, where provided, is exact for every set `E` of active extras
(`E` is an arbitrary predicate on strings, so infinite sets are covered as well). -/
theorem x_invert_exact (a r : GC) (ha : a.wfX = true) (h : a.invert = .ok r) (E : String → Bool) :
    r.denX E = !a.denX E := GC.invert_X a r (GC.frag_of_wfX ha) h E

example : ∃ a r, parseExtraConstraint "a, !=b" = .ok a ∧ a.wfX = true ∧ a.invert = .ok r ∧
    r = .union [.atom ⟨"a", .ne, true⟩, .atom ⟨"b", .eq, true⟩] := ⟨_, _, rfl, by decide, rfl, rfl⟩

/-- **"allows all" answering yes is never wrong**: every value the second operand admits is admitted by
the first.  (Only the second operand has to be in the `==`/`!=` fragment.) -/
theorem g_allows_all_sound (a b : GC) (hb : b.wfG = true) (h : a.allowsAll b = true) (v : String)
    (hv : b.den v = true) : a.den v = true :=
  GC.allowsAll_sound a b (GC.frag_of_wfG hb) h v hv

example : ∃ a b, parseConstraint "!=a || b" = .ok a ∧ parseConstraint "!=a, !=c" = .ok b ∧
    b.wfG = true ∧ a.allowsAll b = true := ⟨_, _, rfl, rfl, by decide, by decide⟩

/-- **"allows any" answering no is never wrong**: no value is admitted by both operands. -/
theorem g_allows_any_sound (a b : GC) (ha : a.wfG = true) (hb : b.wfG = true) (h : a.allowsAny b = false)
    (v : String) : ¬ (a.den v = true ∧ b.den v = true) := by
  rintro ⟨h1, h2⟩
  rw [GC.allowsAny_sound a b (GC.frag_of_wfG ha) (GC.frag_of_wfG hb) v h1 h2] at h
  cases h

example : ∃ a b, parseConstraint "!=a, !=b" = .ok a ∧ parseConstraint "a || b" = .ok b ∧
    a.wfG = true ∧ b.wfG = true ∧ a.allowsAny b = false := ⟨_, _, rfl, rfl, by decide, by decide, by decide⟩

/-- **A constraint reporting itself universal admits every value**, and one reporting itself empty
admits none (every constraint object, both semantics). -/
theorem g_is_any_sound (c : GC) (h : c.isAny = true) (v : String) : c.den v = true := by
  match c, h with
  | .s .any, _ => rfl

theorem g_is_empty_sound (c : GC) (h : c.isEmpty = true) (v : String) : c.den v = false := by
  match c, h with
  | .s .empty, _ => rfl

theorem x_is_any_sound (c : GC) (h : c.isAny = true) (E : String → Bool) : c.denX E = true := by
  match c, h with
  | .s .any, _ => rfl

theorem x_is_empty_sound (c : GC) (h : c.isEmpty = true) (E : String → Bool) : c.denX E = false := by
  match c, h with
  | .s .empty, _ => rfl

/-! ### What is false of the code (the model mirrors it): concrete witnesses, replayed on poetry-core -/

/-- Regression of D5's residual (fixed in poetry-core 3372536): the union below used to be a
`MultiConstraint` of nothing (admits everything, `is_any()` false, prints ""); it is `AnyConstraint` now. -/
theorem g_union_no_empty_multi_regression :
    ∃ a b c r1 r2, parseConstraint "!=a, !=b" = .ok a ∧ parseConstraint "!=a, !=c" = .ok b ∧
      parseConstraint "a" = .ok c ∧ a.unionWith b = .ok r1 ∧ r1.unionWith c = .ok r2 ∧
      r1 = .multi false [⟨"a", .ne, false⟩] ∧ r2 = .any :=
  ⟨_, _, _, _, _, rfl, rfl, rfl, rfl, rfl, rfl, rfl⟩

/-- Non-empty unions are a genuine hypothesis of `g_union_exact`: a `UnionConstraint` of nothing (what
`MultiConstraint().invert()` builds; neither parser nor algebra produce it) makes `union` INEXACT:
`parse_constraint("a").union(UnionConstraint())` is `<UnionConstraint >`, which rejects `a`. -/
theorem g_union_empty_union_counterexample :
    ∃ c r, parseConstraint "a" = .ok c ∧ (GC.multi false []).invert = .ok (.union []) ∧
      c.unionWith (.union []) = .ok r ∧ r.den "a" = false ∧ c.den "a" = true :=
  ⟨_, _, rfl, rfl, rfl, by decide, by decide⟩

/-- `extra` variant: `invert` does not preserve `wfX` (it can build an `ExtraMultiConstraint` mentioning a
value twice).  `ExtraMultiConstraint.union` used to take its two-member shortcut there and return
`<UnionConstraint a>` for `parse_extra_constraint("a || a").invert().union(parse_extra_constraint("a"))`
(false for the empty set of extras); since poetry-core ea09f91 the shortcut counts distinct values and the
result is exact. -/
theorem x_union_after_invert_regression :
    ∃ a i c r, parseExtraConstraint "a || a" = .ok a ∧ a.wfX = true ∧ a.invert = .ok i ∧ i.wfX = false ∧
      parseExtraConstraint "a" = .ok c ∧ i.unionWith c = .ok r ∧
      r.denX (fun _ => false) = true ∧ i.denX (fun _ => false) = true :=
  ⟨_, _, _, _, rfl, by decide, rfl, by decide, rfl, rfl, by decide, by decide⟩

end Poetry.C16
