/-
C16 — String constraints (platform, extras) form a sound set algebra.
Property theorems only (helper lemmas live in Proofs/Generic.lean).  Values are arbitrary `String`s.
`wfG` / `wfX` are the shapes parser and algebra produce in the `==`/`!=` fragment (single-valued / `extra`).
-/
import PoetryVerif.Proofs.Generic

set_option linter.unusedSimpArgs false
set_option linter.unusedVariables false

namespace Poetry.C16
open Poetry Generic

/-- **Membership is never an error and is the denotation**: `c.allows(Constraint(v))` for every
constraint object and every string. -/
theorem g_allows_is_den (c : GC) (v : String) (x : Bool) :
    c.allows (.atom ⟨v, .eq, x⟩) = .ok (c.den v) := GC.allows_eqAtom c v x

/-- **Intersection is defined and exact** (single-valued variant): for all well-formed constraints over
arbitrary strings the call returns, the result is well-formed, and it admits a value exactly when both
operands do. -/
theorem g_intersect_exact (a b : GC) (ha : a.wfG = true) (hb : b.wfG = true) :
    ∃ r, a.intersect b = .ok r ∧ r.wfG = true ∧ ∀ v, r.den v = (a.den v && b.den v) :=
  GC.intersect_G a b ha hb

example : ∃ a b, parseConstraint "!=a, !=b || c" = .ok a ∧ parseConstraint "b || !=c,!=a" = .ok b ∧
    a.wfG = true ∧ b.wfG = true := ⟨_, _, rfl, rfl, by decide, by decide⟩

/-- **Union is defined and exact** (single-valued variant). -/
theorem g_union_exact (a b : GC) (ha : a.wfG = true) (hb : b.wfG = true) :
    ∃ r, a.unionWith b = .ok r ∧ r.wfG = true ∧ ∀ v, r.den v = (a.den v || b.den v) :=
  GC.unionWith_G a b ha hb

example : ∃ a b r, parseConstraint "!=a, !=b" = .ok a ∧ parseConstraint "a || b" = .ok b ∧
    a.unionWith b = .ok r ∧ r = .union [.atom ⟨"a", .eq, false⟩, .atom ⟨"b", .eq, false⟩,
      .multi false [⟨"a", .ne, false⟩, ⟨"b", .ne, false⟩]] := ⟨_, _, _, rfl, rfl, rfl, rfl⟩

/-- **Inversion, where provided, is the complement** — for every constraint object (no well-formedness
needed, all four operators): whenever `invert()` returns, the result admits exactly the values the
operand rejects. -/
theorem g_invert_exact (a r : GC) (h : a.invert = .ok r) (v : String) : r.den v = !a.den v :=
  GC.invert_G a r h v

example : ∃ a r, parseConstraint "a || b" = .ok a ∧ a.invert = .ok r ∧
    r = .multi false [⟨"a", .ne, false⟩, ⟨"b", .ne, false⟩] := ⟨_, _, rfl, rfl, rfl⟩

/-- **A constraint reporting itself universal admits every value**, and one reporting itself empty
admits none (every constraint object, both semantics). -/
theorem g_is_any_sound (c : GC) (h : c.isAny = true) (v : String) : c.den v = true := by
  match c, h with
  | .s .any, _ => rfl

theorem g_is_empty_sound (c : GC) (h : c.isEmpty = true) (v : String) : c.den v = false := by
  match c, h with
  | .s .empty, _ => rfl

theorem x_is_any_sound (c : GC) (h : c.isAny = true) (E : String → Bool) : c.denX E = true := by
  match c, h with
  | .s .any, _ => rfl

theorem x_is_empty_sound (c : GC) (h : c.isEmpty = true) (E : String → Bool) : c.denX E = false := by
  match c, h with
  | .s .empty, _ => rfl

/-! ### What is false of the code (the model mirrors it): concrete witnesses, replayed on poetry-core -/

/-- Regression of D5's residual (fixed in poetry-core 3372536): the union below used to be a
`MultiConstraint` of nothing (admits everything, `is_any()` false, prints ""); it is `AnyConstraint` now. -/
theorem g_union_no_empty_multi_regression :
    ∃ a b c r1 r2, parseConstraint "!=a, !=b" = .ok a ∧ parseConstraint "!=a, !=c" = .ok b ∧
      parseConstraint "a" = .ok c ∧ a.unionWith b = .ok r1 ∧ r1.unionWith c = .ok r2 ∧
      r1 = .multi false [⟨"a", .ne, false⟩] ∧ r2 = .any :=
  ⟨_, _, _, _, _, rfl, rfl, rfl, rfl, rfl, rfl, rfl⟩

/-- Non-empty unions are a genuine hypothesis of `g_union_exact`: a `UnionConstraint` of nothing (what
`MultiConstraint().invert()` builds; neither parser nor algebra produce it) makes `union` INEXACT:
`parse_constraint("a").union(UnionConstraint())` is `<UnionConstraint >`, which rejects `a`. -/
theorem g_union_empty_union_counterexample :
    ∃ c r, parseConstraint "a" = .ok c ∧ (GC.multi false []).invert = .ok (.union []) ∧
      c.unionWith (.union []) = .ok r ∧ r.den "a" = false ∧ c.den "a" = true :=
  ⟨_, _, rfl, rfl, rfl, by decide, by decide⟩

/-- `extra` variant: `invert` does not preserve `wfX` (it can build an `ExtraMultiConstraint` mentioning a
value twice).  `ExtraMultiConstraint.union` used to take its two-member shortcut there and return
`<UnionConstraint a>` for `parse_extra_constraint("a || a").invert().union(parse_extra_constraint("a"))`
(false for the empty set of extras); since poetry-core ea09f91 the shortcut counts distinct values and the
result is exact. -/
theorem x_union_after_invert_regression :
    ∃ a i c r, parseExtraConstraint "a || a" = .ok a ∧ a.wfX = true ∧ a.invert = .ok i ∧ i.wfX = false ∧
      parseExtraConstraint "a" = .ok c ∧ i.unionWith c = .ok r ∧
      r.denX (fun _ => false) = true ∧ i.denX (fun _ => false) = true :=
  ⟨_, _, _, _, rfl, by decide, rfl, by decide, rfl, rfl, by decide, by decide⟩

end Poetry.C16
