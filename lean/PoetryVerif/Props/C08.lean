/-
C08 — reproducible builds: same sources and settings give the same archive *description*.

Two descriptions of a wheel are used: `describeWheel` (what the writers' bookkeeping produces) and `describeWheelC` (the
wheel `build` really leaves behind: since repo fix a8f41e9 a writer refuses a name that is already in the archive, so
there is a description only when all targets are distinct); every invariance theorem is stated for both.
The description of a wheel is the ordered member list (path, external attributes, digest, size) with the one zip
date-time; of an sdist the gzip header mtime and the ordered cleaned tar headers (name, mode, uid, gid, uname, gname,
mtime, size, digest).  Proved here for all trees / permutations / metadata: the description does not depend on the
listing order, on mtimes, owners, permission bits other than owner-execute, or on the project root; and the
SOURCE_DATE_EPOCH semantics.  Trusted: the byte encoders (zipfile/zlib, tarfile PAX, gzip) are deterministic functions
of the description; `time.gmtime` = proleptic Gregorian calendar; `int()` as modelled on ASCII input; which files a
glob reaches (`sel` below is an arbitrary predicate — the selection logic is C09's subject); the model ↔ code tie is
the per-run correspondence (vp/c08.py: real description vs model description, bytes vs bytes).
-/
import PoetryVerif.Proofs.Build

set_option linter.unusedSimpArgs false
set_option linter.unusedVariables false

namespace Poetry.C08
open Poetry Poetry.Build

/-- **Listing order does not matter (wheel).**  For every permutation `tree'` of the directory walk and every
permutation `di'` of the dist-info listing, the wheel description is the same — for every set of include rules, every
SOURCE_DATE_EPOCH, normal and editable.  (Paths in a tree are distinct: `Nodup`.) -/
theorem build_perm_invariant (H : String → String) (sde : Option String) (p : WheelPlan) (rules : List IncludeRule)
    (tree tree' : List FileEntry) (di' : List DiFile)
    (ht : tree'.Perm tree) (hd : di'.Perm p.diFiles)
    (ndt : (tree.map (·.rel)).Nodup) (ndd : (p.diFiles.map (·.rel)).Nodup) :
    describeWheel H sde { p with toAdd := selectWheel rules tree', diFiles := di' } =
      describeWheel H sde { p with toAdd := selectWheel rules tree } ∧
    describeWheelC H sde { p with toAdd := selectWheel rules tree', diFiles := di' } =
      describeWheelC H sde { p with toAdd := selectWheel rules tree } :=
  describe_both_congr H sde _ _ rfl (by rw [perm_members_eq p rules tree tree' di' ht hd ndt ndd])

example : ([⟨["b.py"], 33188, 0, 0, "", "", 5, "Hb", 1⟩, ⟨["a", "x.py"], 33188, 0, 0, "", "", 7, "Ha", 2⟩] : List FileEntry).Perm
    [⟨["a", "x.py"], 33188, 0, 0, "", "", 7, "Ha", 2⟩, ⟨["b.py"], 33188, 0, 0, "", "", 5, "Hb", 1⟩] :=
  List.Perm.swap _ _ _

/-- component-wise path order (what `sorted(…, key=Path)` uses) differs from plain string order: `a/x` sorts before
`a-b/x` although `'-' < '/'` -/
example : pathLe ["a", "x"] ["a-b", "x"] = true ∧ ("a-b/x" < "a/x") := by decide

/-- **Listing order does not matter (sdist).** -/
theorem build_perm_invariant_sdist (sde : Option String) (tarDir pd : String) (pn : Nat) (su : Option (String × Nat)) (sel : PathKey → Bool)
    (tree tree' : List FileEntry) (ht : tree'.Perm tree) (ndt : (tree.map (·.rel)).Nodup) :
    describeSdist sde ⟨tarDir, selectSdist sel tree', pd, pn, su⟩ = describeSdist sde ⟨tarDir, selectSdist sel tree, pd, pn, su⟩ := by
  unfold describeSdist
  rw [sdistEntries_eq, sdistEntries_eq]
  simp only
  have ndt' : (tree'.map (·.rel)).Nodup := (ht.map _).nodup_iff.2 ndt
  have hp : (selectSdist sel tree').Perm (selectSdist sel tree) := (ht.filter _).map _
  rw [sortBy_perm _ _ _ hp (selectSdist_inj sel tree' ndt')]

/-- **Metadata does not matter (wheel).**  Let `g` change every file's mtime, owner, group and — inside the
executable / non-executable class (`ModeEquiv`: bits ≥ 9 and the owner-execute bit kept) — its permission bits in any
way, and let the project live under any other absolute root: the wheel description is unchanged.  In other words
mtimes, group/other bits, umask and the root path do not occur in the description. -/
theorem build_meta_invariant (H : String → String) (sde : Option String) (p : WheelPlan) (rules : List IncludeRule)
    (tree : List FileEntry) (root' : PathKey) (g : FileEntry → FileEntry)
    (hg : ∀ f, (g f).rel = f.rel ∧ (g f).digest = f.digest ∧ (g f).size = f.size ∧ ModeEquiv (g f).stMode f.stMode) :
    describeWheel H sde { p with root := root', toAdd := selectWheel rules (tree.map g) } =
      describeWheel H sde { p with toAdd := selectWheel rules tree } ∧
    describeWheelC H sde { p with root := root', toAdd := selectWheel rules (tree.map g) } =
      describeWheelC H sde { p with toAdd := selectWheel rules tree } :=
  describe_both_congr H sde _ _ rfl (meta_members_eq p rules tree root' g hg)

example : ModeEquiv 0o100600 0o100664 ∧ ModeEquiv 0o100700 0o100775 ∧ ¬ ModeEquiv 0o100644 0o100744 := by
  unfold ModeEquiv; decide

/-- **Metadata does not matter (sdist)**: besides the above, uid/gid/uname/gname never reach the description. -/
theorem build_meta_invariant_sdist (sde : Option String) (tarDir pd : String) (pn : Nat) (su : Option (String × Nat)) (sel : PathKey → Bool)
    (tree : List FileEntry) (g : FileEntry → FileEntry)
    (hg : ∀ f, (g f).rel = f.rel ∧ (g f).digest = f.digest ∧ (g f).size = f.size ∧ ModeEquiv (g f).stMode f.stMode) :
    describeSdist sde ⟨tarDir, selectSdist sel (tree.map g), pd, pn, su⟩ =
    describeSdist sde ⟨tarDir, selectSdist sel tree, pd, pn, su⟩ :=
  sdist_files_congr sde tarDir pd pn su _ _ (selectSdist_map sde tarDir sel tree g hg)

/-- every sdist header is scrubbed: owner 0/0, empty names, mode 0644/0755 -/
theorem sdist_scrubbed (sde : Option String) (p : SdistPlan) :
    ∀ e ∈ (describeSdist sde p).entries, e.uid = 0 ∧ e.gid = 0 ∧ e.uname = "" ∧ e.gname = "" ∧
      (e.mode % 512 = 0o644 ∨ e.mode % 512 = 0o755) := by
  intro e he
  unfold describeSdist at he
  simp only [sdistEntries_eq, List.mem_append, List.mem_map, List.mem_singleton] at he
  rcases he with (⟨f, _, rfl⟩ | hs) | rfl
  · refine ⟨rfl, rfl, rfl, rfl, ?_⟩
    have := low9_cases (f.mode % 512); rw [← norm_mod] at this; exact this
  · obtain ⟨d, n, rfl⟩ := mem_setupEntry _ _ _ _ hs
    refine ⟨rfl, rfl, rfl, rfl, ?_⟩
    left; simp only [cleanTarinfo, freshTarInfo]; decide
  · refine ⟨rfl, rfl, rfl, rfl, ?_⟩
    left; simp only [cleanTarinfo, freshTarInfo]; decide

/-- **Wheel timestamps.**  Every member carries the same date-time, and it is: the default when SOURCE_DATE_EPOCH is
unset or not an integer; for an integer `t` (inside `time.gmtime`'s range) the default when `t` lies before
1980-01-01T00:00:00Z = 315532800, and `gmtime t` otherwise. -/
theorem wheel_time (H : String → String) (sde : Option String) (p : WheelPlan) :
    (∀ es, (describeWheel H sde p = .ok es ∨ describeWheelC H sde p = .ok es) →
      ∃ dt, zipfileDateTime sde = .ok dt ∧ ∀ e ∈ es, e.dateTime = dt) ∧
    zipfileDateTime none = .ok wheelDefault ∧
    (∀ s, pyInt s = none → zipfileDateTime (some s) = .ok wheelDefault) ∧
    (∀ s t dt, pyInt s = some t → gmtime t = .ok dt →
      zipfileDateTime (some s) = .ok (if t < 315532800 then wheelDefault else dt)) := by
  refine ⟨?_, rfl, ?_, ?_⟩
  · intro es h0
    have h : describeWheel H sde p = .ok es := by
      rcases h0 with h | h
      · exact h
      · exact (describeWheelC_ok H sde p es h).1
    unfold describeWheel at h
    cases hz : zipfileDateTime sde with
    | error e => simp [hz] at h
    | ok dt =>
      simp [hz] at h; subst h
      exact ⟨dt, rfl, by intro e he; simp at he; obtain ⟨m, _, rfl⟩ := he; rfl⟩
  · intro s hs; simp [zipfileDateTime, hs]
  · intro s t dt hs hg
    have hy : dt.year < 1980 ↔ t < 315532800 := by
      unfold gmtime at hg
      split at hg
      · cases hg
      · simp only [Except.ok.injEq] at hg
        subst hg
        simp only
        constructor
        · intro h
          by_cases hh : 3652 ≤ t / 86400
          · have := civil_year_ge _ hh; omega
          · omega
        · intro h
          have : t / 86400 < 3652 := by omega
          exact civil_year_lt _ this
    simp only [zipfileDateTime, hs, hg]
    have hmin : ((Gen.wheelMinYear : Nat) : Int) = 1980 := by decide
    rw [hmin]
    by_cases h : t < 315532800
    · simp [h, hy.2 h]
    · have : ¬ dt.year < 1980 := fun c => h (hy.1 c)
      simp [h, this]

example : (zipfileDateTime (some "315532799")).toOption = some ⟨2016, 1, 1, 0, 0, 0⟩ ∧
    (zipfileDateTime (some "315532800")).toOption = some ⟨1980, 1, 1, 0, 0, 0⟩ ∧
    (zipfileDateTime (some "x")).toOption = some ⟨2016, 1, 1, 0, 0, 0⟩ ∧
    (zipfileDateTime (some "1727740800")).toOption = some ⟨2024, 10, 1, 0, 0, 0⟩ := by decide

/-- **Sdist timestamps.**  The gzip header and every tar header carry `_archive_mtime`: `t` for an integer
SOURCE_DATE_EPOCH, the fixed default 0 when it is unset, empty or not an integer. -/
theorem sdist_time (sde : Option String) (p : SdistPlan) :
    (describeSdist sde p).gzipMtime = archiveMtime sde ∧
    (∀ e ∈ (describeSdist sde p).entries, e.mtime = archiveMtime sde) ∧
    archiveMtime none = 0 ∧ archiveMtime (some "") = 0 ∧
    (∀ s, pyInt s = none → archiveMtime (some s) = 0) ∧
    (∀ s t, s ≠ "" → pyInt s = some t → archiveMtime (some s) = t) := by
  refine ⟨rfl, ?_, by decide, by decide, ?_, ?_⟩
  · intro e he
    unfold describeSdist at he
    simp only [sdistEntries_eq, List.mem_append, List.mem_map, List.mem_singleton] at he
    rcases he with (⟨f, _, rfl⟩ | hs) | rfl
    · rfl
    · obtain ⟨d, n, rfl⟩ := mem_setupEntry _ _ _ _ hs; rfl
    · rfl
  · intro s hs
    unfold archiveMtime
    by_cases he : s.isEmpty
    · simp [he]; decide
    · simp [he, hs]
  · intro s t hne hs
    unfold archiveMtime
    have he : s.isEmpty = false := by
      cases h : s.isEmpty
      · rfl
      · exact absurd (String.isEmpty_iff.1 h) hne
    simp [he, hs]

example : archiveMtime (some "1727740800") = 1727740800 ∧ archiveMtime (some "x") = 0 ∧ archiveMtime (some " 12 ") = 12 := by
  decide

/-- **A previous build does not leak into the next one** — the statement with abstract include rules.  It is FALSE as
it stands (`rebuild_idempotent_full_statement_false` below): an include rule may select files below `dist/`. -/
def rebuild_idempotent_full_statement : Prop :=
  ∀ (H : String → String) (sde : Option String) (p : WheelPlan) (rules : List IncludeRule) (tree extra : List FileEntry),
    (∀ f ∈ extra, f.rel.head? = some "dist" ∨ f.rel.head? = some "build") →
    describeWheel H sde { p with toAdd := selectWheel rules (tree ++ extra) } =
    describeWheel H sde { p with toAdd := selectWheel rules tree }

/-- proved for abstract rules under the hypothesis that no include rule selects a left-over file -/
theorem rebuild_idempotent_partial (H : String → String) (sde : Option String) (p : WheelPlan) (rules : List IncludeRule)
    (tree extra : List FileEntry) (hx : ∀ f ∈ extra, ∀ r ∈ rules, r.sel f.rel = false) :
    describeWheel H sde { p with toAdd := selectWheel rules (tree ++ extra) } =
      describeWheel H sde { p with toAdd := selectWheel rules tree } ∧
    describeWheelC H sde { p with toAdd := selectWheel rules (tree ++ extra) } =
      describeWheelC H sde { p with toAdd := selectWheel rules tree } := by
  have : selectWheel rules (tree ++ extra) = selectWheel rules tree := by
    unfold selectWheel
    rw [List.filterMap_append]
    have : List.filterMap (fun f : FileEntry => Option.map (fun r : IncludeRule => (⟨f.rel, r.target f.rel, f.stMode, f.digest, f.size⟩ : SelFile))
        (List.find? (fun r => r.sel f.rel) rules)) extra = [] := by
      rw [List.filterMap_eq_nil_iff]
      intro f hf
      have : List.find? (fun r => r.sel f.rel) rules = none := by
        rw [List.find?_eq_none]; intro r hr; simp [hx f hf r hr]
      simp [this]
    rw [this, List.append_nil]
  rw [this]; exact ⟨rfl, rfl⟩

/-- **Rebuild idempotence, discharged for glob rules.**  Let every include rule be a glob rule (`packages` / `include`
entries and the fixed legal-file patterns: base directory + parsed pattern).  Left-overs of an earlier build are files
with a `__pycache__` component, or files below one of the top-level names `tops` (`dist`, `build`, `<name>.egg-info`).
If every rule *avoids* every name in `tops` — decidable on the configuration: a rule based at the project root avoids
`D` iff its first pattern segment is neither `**` nor matches `D` (`fnmatch`), a rule based elsewhere iff its base does
not start with `D` — then the wheel description with the left-overs present equals the one without.  Bytecode caches
need no condition.  (Exclusion by `exclude`/VCS only removes files, so it cannot add a left-over.) -/
theorem rebuild_idempotent (H : String → String) (sde : Option String) (p : WheelPlan) (specs : List GlobSpec)
    (tops : List String) (tree extra : List FileEntry)
    (hx : ∀ f ∈ extra, isLeftover tops f.rel = true)
    (hav : ∀ g ∈ specs, ∀ D ∈ tops, g.avoids D = true) :
    describeWheel H sde { p with toAdd := selectWheel (specs.map globRule) (tree ++ extra) } =
      describeWheel H sde { p with toAdd := selectWheel (specs.map globRule) tree } ∧
    describeWheelC H sde { p with toAdd := selectWheel (specs.map globRule) (tree ++ extra) } =
      describeWheelC H sde { p with toAdd := selectWheel (specs.map globRule) tree } := by
  apply rebuild_idempotent_partial
  intro f hf r hr
  obtain ⟨g, hg, rfl⟩ := List.mem_map.1 hr
  exact sel_leftover g tops (hav g hg) f.rel (hx f hf)

/-- the same for the sdist (`sel` = some glob rule selects; the additional files of the sdist are glob rules too:
the legal-file patterns, or literal paths, at the project root) -/
theorem rebuild_idempotent_sdist (sde : Option String) (tarDir pd : String) (pn : Nat) (su : Option (String × Nat))
    (specs : List GlobSpec) (tops : List String) (tree extra : List FileEntry)
    (hx : ∀ f ∈ extra, isLeftover tops f.rel = true)
    (hav : ∀ g ∈ specs, ∀ D ∈ tops, g.avoids D = true) :
    describeSdist sde ⟨tarDir, selectSdist (fun q => specs.any (·.sel q)) (tree ++ extra), pd, pn, su⟩ =
    describeSdist sde ⟨tarDir, selectSdist (fun q => specs.any (·.sel q)) tree, pd, pn, su⟩ := by
  have : selectSdist (fun q => specs.any (·.sel q)) (tree ++ extra) = selectSdist (fun q => specs.any (·.sel q)) tree := by
    unfold selectSdist
    rw [List.filter_append]
    have : List.filter (fun f : FileEntry => specs.any (·.sel f.rel)) extra = [] := by
      rw [List.filter_eq_nil_iff]
      intro f hf
      simp only [List.any_eq_true, not_exists, not_and, Bool.not_eq_true]
      intro g hg
      exact sel_leftover g tops (hav g hg) f.rel (hx f hf)
    rw [this, List.append_nil]
  rw [this]

/-- the decidable condition is needed, and exactly where expected: `include = ["dist/*"]` does not avoid `dist` and
selects the first build's archive; the legal-file pattern `LICEN[SC]E*` reaches a `LICENSE.egg-info` directory;
the usual patterns avoid `dist` and `build` -/
example :
    let g : GlobSpec := ⟨[], ⟨[.wild "dist", .wild "*"], false⟩, false, fun _ => ""⟩
    g.avoids "dist" = false ∧ g.sel ["dist", "x-1.0.tar.gz"] = true ∧ g.avoids "build" = true := by decide

example : patternReaches ⟨[.wild "LICEN[SC]E*"], false⟩ "LICENSE.egg-info" = true ∧
    patternReaches ⟨[.wild "LICEN[SC]E*"], false⟩ "dist" = false ∧
    patternReaches ⟨[.wild "src"], false⟩ "build" = false ∧
    patternReaches ⟨[.dstar, .wild "*.py"], false⟩ "build" = true := by decide

/-- **Counterexample for the class**: with a rule that selects below `dist/` the second build differs — the abstract
full statement is false. -/
theorem rebuild_idempotent_full_statement_false : ¬ rebuild_idempotent_full_statement := by
  intro h
  let p : WheelPlan := ⟨false, [], [], "m", "", 0, [], [], [], "m-1.dist-info", "m-1.data"⟩
  let r : IncludeRule := ⟨fun q => q.head? == some "dist", fun _ => "dist/x"⟩
  let e : FileEntry := ⟨["dist", "x"], 33188, 0, 0, "", "", 0, "D", 1⟩
  have := h id none p [r] [] [e] (by intro f hf; simp at hf; subst hf; left; rfl)
  obtain ⟨es1, h1, l1⟩ := describeWheel_none_length id { p with toAdd := selectWheel [r] ([] ++ [e]) } rfl
  obtain ⟨es2, h2, l2⟩ := describeWheel_none_length id { p with toAdd := selectWheel [r] [] } rfl
  rw [h1, h2] at this
  have : es1 = es2 := by injection this
  rw [this, l2] at l1
  revert l1
  decide

/-- sdist, abstract selection predicate -/
theorem rebuild_idempotent_sdist_partial (sde : Option String) (tarDir pd : String) (pn : Nat) (su : Option (String × Nat)) (sel : PathKey → Bool)
    (tree extra : List FileEntry) (hx : ∀ f ∈ extra, sel f.rel = false) :
    describeSdist sde ⟨tarDir, selectSdist sel (tree ++ extra), pd, pn, su⟩ =
    describeSdist sde ⟨tarDir, selectSdist sel tree, pd, pn, su⟩ := by
  have : selectSdist sel (tree ++ extra) = selectSdist sel tree := by
    unfold selectSdist
    rw [List.filter_append]
    have : List.filter (fun f : FileEntry => sel f.rel) extra = [] := by
      rw [List.filter_eq_nil_iff]; intro f hf; simp [hx f hf]
    rw [this, List.append_nil]
  rw [this]

/-- **The generated setup.py does not depend on the listing order.**  `packages` and `package_data` computed by
`SdistBuilder.find_packages` are the same for every order in which `os.walk` reports the directories below the package
(any permutation `walk'` of `walk`): both are sorted before they are printed, and `find_nearest_pkg` only asks about
ancestors.  (`Gen.sdistPackagesSorted` / `Gen.sdistPackageDataSorted` are regenerated from the source: dropping either
`sorted(...)` breaks this proof.)  Model assumption: a top-down walk has seen every ancestor of the current directory,
so "sub-packages seen so far" = "sub-packages" for ancestor queries. -/
theorem setup_py_perm_invariant (pkgName : String) (walk walk' : List WalkDir) (h : walk'.Perm walk) :
    setupPackages pkgName walk' = setupPackages pkgName walk ∧
    setupPackageData pkgName walk' = setupPackageData pkgName walk :=
  ⟨setupPackages_perm pkgName walk walk' h, setupPackageData_perm pkgName walk walk' h⟩

example : ([⟨["locale"], [⟨"de.mo", false, false⟩]⟩, ⟨["assets"], [⟨"a.png", false, false⟩]⟩] : List WalkDir).Perm
    [⟨["assets"], [⟨"a.png", false, false⟩]⟩, ⟨["locale"], [⟨"de.mo", false, false⟩]⟩] := List.Perm.swap _ _ _

end Poetry.C08
