/- Driver handlers for versions and version constraints (ops vparse, vcmp, vbump, cparse, cmparse, cop, cpred). -/
import PoetryVerif.Protocol
import PoetryVerif.Model.Version
import PoetryVerif.Spec.Pep440
import PoetryVerif.Model.VPrint
import PoetryVerif.Model.VParser

namespace Poetry.Drv
open Poetry Poetry.Proto

def ordStr : Ordering → String
  | .lt => "lt" | .eq => "eq" | .gt => "gt"

def errStr (e : PyErr) : String := "err\t" ++ e.name

def handleVersion (op : String) (args : List String) : Option String :=
  match op, args with
  | "vparse", [s] =>
    some <| match Version.parse s with
    | .ok v => "ok\t" ++ encode v.dump ++ "\t" ++ encode v.toString ++ "\t" ++ encode v.text
    | .error e => errStr e
  | "vcmp", [a, b] =>
    some <| match Version.parse a, Version.parse b with
    | .ok x, .ok y => "ok\t" ++ ordStr (Version.cmp x y) ++ "\t" ++ ordStr (Spec.cmpRef x y)
    | .error e, _ => errStr e
    | _, .error e => errStr e
  | "vbump", [s] =>
    some <| match Version.parse s with
    | .ok v =>
      "ok\t" ++ joinWith "\t" ([v.nextMajor, v.nextMinor, v.nextPatch, v.nextBreaking, v.stable,
        v.firstDevrelease, v.firstPrerelease, v.nextStable, v.nextPrerelease, v.nextPostrelease,
        v.nextDevrelease, v.withoutLocal, v.withoutPostrelease, v.withoutDevrelease].map
          (fun w => encode w.text))
    | .error e => errStr e
  | _, _ => none

def pyStr {α : Type} (f : α → String) : PyM α → String
  | .ok a => f a
  | .error e => "!" ++ e.name

def pyBool : PyM Bool → String
  | .ok true => "1"
  | .ok false => "0"
  | .error e => "!" ++ e.name

def vcText (c : VC) : String := pyStr id c.toStr

def probeBits (c : VC) (probes : List String) : String :=
  String.join (probes.map fun p =>
    match Version.parse p with
    | .ok v => (match c.allows v with | .ok true => "1" | .ok false => "0" | .error _ => "E")
    | .error _ => "?")

def vcReport (c : VC) (probes : List String) : String :=
  encode (vcText c) ++ "\t" ++ encode c.dump ++ "\t" ++ boolStr c.isAny ++ boolStr c.isEmpty ++
    "\t" ++ pyBool c.isSimple ++ "\t" ++ encode (probeBits c probes)

def handleConstraint (op : String) (args : List String) : Option String :=
  match op, args with
  | "cparse", s :: probes =>
    some <| match VParser.parseConstraint s with
    | .ok c => "ok\t" ++ vcReport c probes
    | .error e => errStr e
  | "cmparse", s :: probes =>
    some <| match VParser.parseMarkerVersionConstraint s with
    | .ok c => "ok\t" ++ vcReport c probes
    | .error e => errStr e
  | "cop", o :: a :: b :: probes =>
    some <| match VParser.parseConstraint a, VParser.parseConstraint b with
    | .ok x, .ok y =>
      let r : PyM VC := match o with
        | "intersect" => x.intersect y
        | "union" => x.unionWith y
        | "difference" => x.difference y
        | _ => .error .runtime
      (match r with
       | .ok c => "ok\t" ++ vcReport c probes
       | .error e => errStr e)
    | .error e, _ => "perr\t" ++ e.name
    | _, .error e => "perr\t" ++ e.name
  | "cpred", [a, b] =>
    some <| match VParser.parseConstraint a, VParser.parseConstraint b with
    | .ok x, .ok y => "ok\t" ++ pyBool (x.allowsAll y) ++ "\t" ++ pyBool (x.allowsAny y)
    | .error e, _ => "perr\t" ++ e.name
    | _, .error e => "perr\t" ++ e.name
  | _, _ => none


/-- handler of this area: `none` = op not mine -/
def handleVC (op : String) (args : List String) : Option String :=
  match handleVersion op args with
  | some r => some r
  | none => handleConstraint op args

end Poetry.Drv
