/- Driver handlers for requirements and dependencies:
`reqparse <text>`; `giturl <text>`; `dep508 <text> <probe versions…> | <envs…>`; `deprt <text>`;
`depmk registry|url|vcs <args…> <marker> <python> <pyFirst> <in_extras> <probe versions…> | <envs…>` (constructors, the
`marker` / `python_versions` setters, `_in_extras` as factory.py records it);
`depeq <text> <text>` (`__eq__`, `is_same_source_as`, hash keys equal);
`dep02 <name> <version> <python> <platform> <markers> <extras,> <optional 0|1> <in_extras,> <envs…>` (C02: the Requires-Dist
line of one table declaration, `-` = none / `=text`), `pyfmt <python versions>` (Requires-Python), `provx <extra keys…>`. -/
import PoetryVerif.Protocol
import PoetryVerif.Model.Dep
import PoetryVerif.Model.Dep02
import PoetryVerif.Drv.Marker

namespace Poetry.Drv.DepH
open Poetry Poetry.Proto Poetry.Marker Poetry.Drv Poetry.Dep

def optField (o : Option String) : String :=
  match o with
  | none => "-"
  | some s => encode ("=" ++ s)

/-- `-` = None, `=text` = that string -/
def optArg (s : String) : Option String :=
  match s.toList with
  | '=' :: r => some (String.ofList r)
  | _ => none

def reqReport (r : Req.Requirement) : String :=
  encode r.name ++ "\t" ++ encode (joinWith "," r.extras) ++ "\t" ++ encode r.constraintText ++ "\t" ++
    encode r.constraint.dump ++ "\t" ++ optField r.url ++ "\t" ++
    (match r.marker with
     | none => "-"
     | some m => encode ("=" ++ m.dump))

def splitBar (args : List String) : List String × List String :=
  let a := args.takeWhile (· != "|")
  (a, (args.drop (a.length + 1)))

def textOf (r : PyM String) : String :=
  match r with
  | .ok s => encode ("=" ++ s)
  | .error e => "!" ++ e.name

def depReport (d : Dep) (probes envs : List String) : String :=
  encode d.spec.dump ++ "\t" ++ encode d.kind.dump ++ "\t" ++ encode d.constraint.dump ++ "\t" ++
    encode d.prettyConstraint ++ "\t" ++ encode d.marker.dump ++ "\t" ++ encode d.pythonVersions ++ "\t" ++
    encode (joinWith "," d.inExtras) ++ "\t" ++ boolStr d.optional ++ boolStr d.activated ++ "\t" ++
    textOf (d.toPep508 true) ++ "\t" ++ textOf (d.toPep508 false) ++ "\t" ++
    encode (probeBits d.constraint probes) ++ "\t" ++
    encode (String.join (envs.map fun e => truthChar (d.marker.validate (parseEnv e))))

def depResult (r : PyM Dep) (probes envs : List String) : String :=
  match r with
  | .ok d => "ok\t" ++ depReport d probes envs
  | .error e => "err\t" ++ e.name

/-- optional marker text / python versions applied through the setters (in that order: python, then marker when
`pyFirst`, else marker then python) -/
def applySetters (d : Dep) (marker py : Option String) (pyFirst : Bool) (inExtras : String := "") : PyM Dep := do
  let fin (d : Dep) : Dep := if inExtras.isEmpty then d else { d with inExtras := inExtras.splitOn "," }
  let setM (d : Dep) : PyM Dep :=
    match marker with
    | some t => do let m ← parseMarker t; d.setMarker m
    | none => pure d
  let setP (d : Dep) : PyM Dep :=
    match py with
    | some t => d.setPythonVersions t
    | none => pure d
  if pyFirst then do pure (fin (← setM (← setP d))) else do pure (fin (← setP (← setM d)))

def extrasArg (s : String) : List String := if s.isEmpty then [] else s.splitOn ","

def handleDep (op : String) (args : List String) : Option String :=
  match op, args with
  | "reqparse", [text] =>
    some <| match Req.parseTop text with
    | .ok r => "ok\t" ++ reqReport r
    | .error e => "err\t" ++ e.name
  | "giturl", [text] =>
    some <| match parseGitUrl text with
    | .ok u => "ok\t" ++ encode u.dump ++ "\t" ++ encode u.url
    | .error e => "err\t" ++ e.name
  | "dep508", text :: rest =>
    let (probes, envs) := splitBar rest
    some (depResult (createFromPep508Top text) probes envs)
  | "deprt", text :: rest =>
    let (probes, envs) := splitBar rest
    some <| match createFromPep508Top text with
    | .error e => "err1\t" ++ e.name
    | .ok d =>
      match d.toPep508 true with
      | .error e => "errp\t" ++ e.name
      | .ok t => "ok\t" ++ encode t ++ "\t" ++ depResult (createFromPep508Top t) probes envs
  | "depmk", "registry" :: name :: c :: extras :: marker :: py :: pyFirst :: inEx :: rest =>
    let (probes, envs) := splitBar rest
    some (depResult (do
      let d ← mkRegistryStr name c (extrasArg extras)
      applySetters d (optArg marker) (optArg py) (pyFirst == "1") inEx) probes envs)
  | "depmk", "url" :: name :: url :: dir :: extras :: marker :: py :: pyFirst :: inEx :: rest =>
    let (probes, envs) := splitBar rest
    some (depResult (do
      let d ← mkUrlDep name url (optArg dir) (extrasArg extras)
      applySetters d (optArg marker) (optArg py) (pyFirst == "1") inEx) probes envs)
  | "depmk", "vcs" :: name :: vcs :: source :: branch :: tag :: rev :: dir :: extras :: marker :: py :: pyFirst :: inEx :: rest =>
    let (probes, envs) := splitBar rest
    some (depResult (do
      let d ← mkVcsDep name vcs source (optArg branch) (optArg tag) (optArg rev) (optArg dir) (extrasArg extras)
      applySetters d (optArg marker) (optArg py) (pyFirst == "1") inEx) probes envs)
  | "dep02", name :: version :: python :: platform :: markers :: extras :: optional :: inEx :: envs =>
    let D : Dep02.Decl := { name, version, python := optArg python, platform := optArg platform, markers := optArg markers,
                            extras := extrasArg extras, optional := optional == "1", inExtras := extrasArg inEx }
    some <| match Dep02.packageDependency D with
    | .error e => "err\t" ++ e.name
    | .ok d =>
      "ok\t" ++ boolStr (Dep02.selected d) ++ "\t" ++ textOf (d.toPep508 true) ++ "\t" ++ encode d.marker.dump ++ "\t" ++
        encode (joinWith "," d.inExtras) ++ "\t" ++ boolStr d.optional ++ "\t" ++
        encode (String.join (envs.map fun e => truthChar (d.marker.validate (parseEnv e))))
  | "pyfmt", [pv] =>
    some <| match Dep02.requiresPython pv with
    | .ok none => "ok\t-"
    | .ok (some t) => "ok\t" ++ encode ("=" ++ t)
    | .error e => "err\t" ++ e.name
  | "provx", keys => some ("ok\t" ++ encode (joinWith "," (Dep02.providesExtra keys)))
  | "depeq", [a, b] =>
    some <| match createFromPep508Top a, createFromPep508Top b with
    | .ok x, .ok y =>
      "ok\t" ++ boolStr (x.beq y) ++ boolStr (x.spec.isSameSourceAs y.spec) ++ boolStr (decide (x.hashKey = y.hashKey))
    | .error e, _ => "perr\t" ++ e.name
    | _, .error e => "perr\t" ++ e.name
  | _, _ => none

end Poetry.Drv.DepH

def Poetry.Drv.handleDep := Poetry.Drv.DepH.handleDep
