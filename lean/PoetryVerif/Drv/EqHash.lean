/- Driver handler for C18: builds N objects of one kind from specifications
`text0 (\x01 op [\x01 text])*` (the convention of C16: folded from the left) and reports the model's `==`
matrix, the classes of equal hash inputs, a per-object reachability flag and the structural dumps.

  eqh <kind> <spec₁> … <specₙ>   kind ∈ version | constraint | generic | extra | marker
  → ok <status chars> <n rows of n bits, comma separated> <hash class per object, comma separated> <flags> <dump₁> … <dumpₙ>

status: `o` built, `e` the construction raised (dump = `!errname`), `u` outside the model.
flags: constraint — no degenerate range inside; marker — coherence invariant (`mCoherentB`); others `1`. -/
import PoetryVerif.Protocol
import PoetryVerif.Model.EqHash
import PoetryVerif.Model.MarkerOps
import PoetryVerif.Drv.Generic

namespace Poetry.Drv.EqHashH
open Poetry Poetry.Proto Poetry.Marker Poetry.Generic Poetry.EqHash

def sepChar : String := String.singleton (Char.ofNat 1)

/-- a built object of one of the kinds -/
inductive Obj where
  | v (x : Version)
  | c (x : VC)
  | g (x : GC)
  | m (x : M)

def versionOp (o : String) (v : Version) : PyM Version :=
  match o with
  | "M" => .ok v.nextMajor
  | "m" => .ok v.nextMinor
  | "p" => .ok v.nextPatch
  | "b" => .ok v.nextBreaking
  | "s" => .ok v.stable
  | "L" => .ok v.withoutLocal
  | "P" => .ok v.withoutPostrelease
  | "F" => .ok v.firstDevrelease
  | _ => .error .runtime

def evalVersion (parts : List String) : PyM Version :=
  match parts with
  | [] => Version.parse ""
  | t :: ops => do
    let v ← Version.parse t
    ops.foldlM (fun acc o => versionOp o acc) v

def evalVCChain (cur : VC) : List String → PyM VC
  | [] => .ok cur
  | o :: t :: rest => do
    let b ← VParser.parseConstraint t
    let r ← (match o with
      | "i" => cur.intersect b
      | "u" => cur.unionWith b
      | "d" => cur.difference b
      | _ => .error .runtime)
    evalVCChain r rest
  | _ => .error .runtime

def evalVC (parts : List String) : PyM VC :=
  match parts with
  | [] => VParser.parseConstraint ""
  | t :: rest => do
    let c ← VParser.parseConstraint t
    evalVCChain c rest

def evalMChain (cur : M) : List String → PyM M
  | [] => .ok cur
  | "n" :: rest => do
    let r ← cur.invert
    evalMChain r rest
  | "C" :: rest => do
    let r ← cnf defaultFuel [] cur
    evalMChain r rest
  | "D" :: rest => do
    let r ← dnf defaultFuel [] cur
    evalMChain r rest
  | "X" :: rest => do
    let r ← cur.withoutExtras
    evalMChain r rest
  | o :: t :: rest => do
    let b ← parseMarker t
    let r ← (match o with
      | "i" => cur.intersectWith b
      | "u" => cur.unionWith b
      | _ => .error .runtime)
    evalMChain r rest
  | _ => .error .runtime

def evalM (parts : List String) : PyM M :=
  match parts with
  | [] => parseMarker ""
  | t :: rest => do
    let m ← parseMarker t
    evalMChain m rest

def build (kind : String) (spec : String) : PyM Obj :=
  let parts := spec.splitOn sepChar
  match kind with
  | "version" => (evalVersion parts).map Obj.v
  | "constraint" => (evalVC parts).map Obj.c
  | "generic" => (Poetry.Drv.evalOperand false spec).map Obj.g
  | "extra" => (Poetry.Drv.evalOperand true spec).map Obj.g
  | "marker" => (evalM parts).map Obj.m
  | _ => .error .runtime

def Obj.eq : Obj → Obj → Bool
  | .v a, .v b => Version.eqv a b
  | .c a, .c b => Marker.VC.eqv a b
  | .g a, .g b => a == b
  | .m a, .m b => M.beq a b
  | _, _ => false

def Obj.hashIn : Obj → HIn
  | .v a => verHash a
  | .c a => vcHash a
  | .g a => gcHash a
  | .m a => mHash a

def Obj.flag : Obj → Bool
  | .v _ => true
  | .c a => vcNonDegenerate a
  | .g _ => true
  | .m a => mCoherentB a

def mText (m : M) : String :=
  match m.toStr with
  | .ok s => s
  | .error e => "!" ++ e.name

def Obj.dump : Obj → String
  | .v a => a.dump
  | .c a => a.dump
  | .g a => Poetry.Drv.gcDump a
  | .m a => a.dump

/-- index of the first object with the same hash input -/
def hashClass (objs : List (Option Obj)) (o : Obj) : Nat :=
  (objs.findIdx fun x => match x with
    | some y => HIn.beq y.hashIn o.hashIn
    | none => false)

def report (kind : String) (specs : List String) : String :=
  let built : List (PyM Obj) := specs.map (build kind)
  let objs : List (Option Obj) := built.map fun r => match r with | .ok o => some o | .error _ => none
  let status := String.join (built.map fun r => match r with
    | .ok _ => "o"
    | .error .unmodelled => "u"
    | .error _ => "e")
  let row (a : Option Obj) : String := String.join (objs.map fun b =>
    match a, b with
    | some x, some y => boolStr (x.eq y)
    | _, _ => "0")
  let rows := joinWith "," (objs.map row)
  let classes := joinWith "," (objs.map fun a => match a with
    | some x => natToString (hashClass objs x)
    | none => "-")
  let flags := String.join (objs.map fun a => match a with
    | some x => boolStr x.flag
    | none => "-")
  let dumps := built.map fun r => match r with
    | .ok o => encode o.dump
    | .error e => encode ("!" ++ e.name)
  joinWith "\t" (["ok", status, encode rows, encode classes, flags] ++ dumps)

def handle (op : String) (args : List String) : Option String :=
  match op, args with
  | "eqh", kind :: specs => some (report kind specs)
  | _, _ => none

end Poetry.Drv.EqHashH

def Poetry.Drv.handleEqHash := Poetry.Drv.EqHashH.handle
