/-
Driver handler for C20: replays a recorded trace of bookkeeping events of the real code through the
machines of `Model/Conc.lean` (the genuine `step` functions) and reports the model's verdict per event.

  conc_guard  ev…   one `detect_recursion`-decorated function.  Events (numbers are tokens):
        c:<tid>:<a>  entry: `markers in call_args` evaluated     → `R` model raises RecursionError | `P` model pushes
        p:<tid>:<a>  `call_args.append(markers)`                  → `+` model's top is `a` | `x`
        x:<tid>:<a>  `call_args.pop()` returned `a`               → `=` model popped `a` | `x` other value | `!` empty list
      reply: ok <verdict string> <1 if every model list is empty else 0> <non-empty lists>
  conc_memo   ev…   one `functools.cache`d function; `cid` identifies a call instance (thread × nesting depth)
        c:<cid>:<k>  wrapper entered with key token k              → `h` model hits | `m` model misses
        m:<cid>      the wrapped function started (the code missed) → `.` model missed too | `r` model had it cached
        f:<cid>:<v>  the wrapped function returned value token v   → `=` same as first computation of an equal key | `c` conflict
        r:<cid>:<v>  wrapper returned v                            → `=` model returns v | `d` model returns another value |
                                                                     `u` nobody ever computed this key
        e:<cid>      wrapper raised                                → `e`
      reply: ok <verdict string> <number of cache entries>
  conc_lazy   ev…   one `Parser` instance
        r:<tid>:<o>  `self._lark` read, saw object token o (0 = None) → `=` model slot agrees | `x`
        b:<tid>:<o>  `Lark.open` returned o                          → `.` model thread had seen None | `s` spurious
        w:<tid>:<o>  `self._lark = o`                                → `.` o fully built | `U` not built | `s` spurious
        p:<tid>:<o>  `o.parse(text)` called                          → `.` o fully built and model parses with `build grammar` | `U`
      reply: ok <verdict string> <1 if model slot filled else 0>
-/
import PoetryVerif.Protocol
import PoetryVerif.Model.Conc

namespace Poetry.Drv
open Poetry Poetry.Proto Poetry.Conc

structure CEv where
  tag : Char
  a : Nat
  b : Nat

def parseCEv (s : String) : Option CEv :=
  match s.splitOn ":" with
  | [t, a] => match t.toList, a.toNat? with
    | [c], some x => some ⟨c, x, 0⟩
    | _, _ => none
  | [t, a, b] => match t.toList, a.toNat?, b.toNat? with
    | [c], some x, some y => some ⟨c, x, y⟩
    | _, _, _ => none
  | _ => none

/-! guard -/

def guardEv (st : GState Nat × List Char) (e : CEv) : GState Nat × List Char :=
  let g := st.1
  match e.tag with
  | 'c' =>
    let g' := GState.step (· == ·) g (e.a, .enter e.b)
    let v := match g'.outs.head? with
      | some (_, .raised) => 'R'
      | some (_, .pushed) => 'P'
      | _ => '?'
    (g', v :: st.2)
  | 'p' =>
    let top := (g.stacks.get e.a []).getLast?
    (g, (if top == some e.b then '+' else 'x') :: st.2)
  | 'x' =>
    let top := (g.stacks.get e.a []).getLast?
    let g' := GState.step (· == ·) g (e.a, .exit)
    let v := match g'.outs.head? with
      | some (_, .popped) => if top == some e.b then '=' else 'x'
      | some (_, .popEmpty) => '!'
      | _ => '?'
    (g', v :: st.2)
  | _ => (g, '?' :: st.2)

def dumpStacks (m : TMap (List Nat)) : String :=
  joinWith ";" ((m.filter (fun p => !p.2.isEmpty)).map
    (fun p => toString p.1 ++ "=" ++ joinWith "," (p.2.map toString)))

def replayGuard (evs : List CEv) : String :=
  let r := evs.foldl guardEv (GState.init, [])
  let nonEmpty := dumpStacks r.1.stacks
  "ok\t" ++ encode (String.ofList r.2.reverse) ++ "\t" ++ boolStr nonEmpty.isEmpty ++ "\t" ++ encode nonEmpty

/-! memo -/

def lookupNat (m : List (Nat × Nat)) (k : Nat) : Option Nat :=
  match m.find? (fun p => p.1 == k) with
  | some p => some p.2
  | none => none

/-- first computed value per key token: the `f` of this trace -/
def memoTable (evs : List CEv) : List (Nat × Nat) :=
  let r := evs.foldl (fun (acc : List (Nat × Nat) × TMap Nat) e =>
    match e.tag with
    | 'c' => (acc.1, acc.2.set e.a e.b)
    | 'f' =>
      let k := acc.2.get e.a 0
      if (lookupNat acc.1 k).isSome then acc else ((k, e.b) :: acc.1, acc.2)
    | _ => acc) ([], [])
  r.1

structure MemoReplay where
  st : MState Nat Nat
  /-- value the model returned for the current call of a cid -/
  last : TMap (Option Nat)
  out : List Char

def memoEv (spec : MemoSpec Nat Nat) (r : MemoReplay) (e : CEv) : MemoReplay :=
  let cid := e.a
  match e.tag with
  | 'c' =>
    let st' := MState.step spec r.st (cid, .call e.b)
    match st'.pc.get cid .idle with
    | .missed _ => { st := st', last := r.last.set cid none, out := 'm' :: r.out }
    | _ => match st'.log.head? with
      | some (_, _, .ok v) => { st := st', last := r.last.set cid (some v), out := 'h' :: r.out }
      | _ => { st := st', last := r.last.set cid none, out := '?' :: r.out }
  | 'm' =>
    match r.st.pc.get cid .idle with
    | .missed _ => { r with out := '.' :: r.out }
    | _ => { r with out := 'r' :: r.out }
  | 'f' =>
    match r.st.pc.get cid .idle with
    | .missed _ =>
      let st1 := MState.step spec r.st (cid, .compute)
      let st2 := MState.step spec st1 (cid, .store)
      match st2.log.head? with
      | some (_, _, .ok v) =>
        { st := st2, last := r.last.set cid (some v), out := (if v == e.b then '=' else 'c') :: r.out }
      | _ => { st := st2, last := r.last, out := '?' :: r.out }
    | _ =>
      match r.last.get cid none with
      | some v => { r with out := (if v == e.b then '=' else 'c') :: r.out }
      | none => { r with out := '?' :: r.out }
  | 'r' =>
    match r.st.pc.get cid .idle with
    | .missed k =>
      -- the code found the key (another thread stored between the model's lookup point and the real one):
      -- let the model finish its own redundant computation; its result does not depend on the schedule
      match spec.f k with
      | .ok _ =>
        let st1 := MState.step spec r.st (cid, .compute)
        let st2 := MState.step spec st1 (cid, .store)
        match st2.log.head? with
        | some (_, _, .ok v) =>
          { st := st2, last := r.last.set cid none, out := (if v == e.b then '=' else 'd') :: r.out }
        | _ => { st := st2, last := r.last, out := '?' :: r.out }
      | .error _ =>
        { st := { r.st with pc := r.st.pc.set cid .idle }, last := r.last.set cid none, out := 'u' :: r.out }
    | _ =>
      match r.last.get cid none with
      | some v => { r with last := r.last.set cid none, out := (if v == e.b then '=' else 'd') :: r.out }
      | none => { r with out := '?' :: r.out }
  | 'e' =>
    -- the thread of this call instance stops being scheduled inside the call
    { st := { r.st with pc := r.st.pc.set cid .idle }, last := r.last.set cid none, out := 'e' :: r.out }
  | _ => { r with out := '?' :: r.out }

def replayMemo (evs : List CEv) : String :=
  let table := memoTable evs
  let spec : MemoSpec Nat Nat :=
    { f := fun k => match lookupNat table k with | some v => .ok v | none => .error .key,
      hash := fun k => k, eq := fun a b => a == b }
  let r := evs.foldl (memoEv spec) ⟨MState.init, [], []⟩
  "ok\t" ++ encode (String.ofList r.out.reverse) ++ "\t" ++ toString r.st.cache.length

/-! lazy slot -/

structure LazyReplay where
  st : LState Nat Nat Nat
  built : List Nat
  out : List Char

def lazySpec : LazySpec Nat Nat Nat Nat :=
  { grammar := 0, build := fun _ => 1, parseWith := fun p _ => if p == 1 then .ok 1 else .error .runtime }

def lazyEv (r : LazyReplay) (e : CEv) : LazyReplay :=
  let t := e.a
  match e.tag with
  | 'r' =>
    let agree := (r.st.slot.isNone == (e.b == 0))
    let st' := match r.st.pc.get t .idle with
      | .idle => LState.step lazySpec r.st (t, .test 0)
      | _ => r.st
    { r with st := st', out := (if agree then '=' else 'x') :: r.out }
  | 'b' =>
    match r.st.pc.get t .idle with
    | .sawNone _ =>
      { st := LState.step lazySpec r.st (t, .build), built := e.b :: r.built, out := '.' :: r.out }
    | _ => { r with built := e.b :: r.built, out := 's' :: r.out }
  | 'w' =>
    let isBuilt := r.built.contains e.b
    match r.st.pc.get t .idle with
    | .built _ _ =>
      { r with st := LState.step lazySpec r.st (t, .assign), out := (if isBuilt then '.' else 'U') :: r.out }
    | _ => { r with out := (if isBuilt then 's' else 'U') :: r.out }
  | 'p' =>
    let isBuilt := r.built.contains e.b
    match r.st.pc.get t .idle with
    | .ready _ =>
      let st' := LState.step lazySpec r.st (t, .use)
      let okm := match st'.log.head? with
        | some (_, _, .ok 1) => true
        | _ => false
      { r with st := st', out := (if isBuilt && okm then '.' else 'U') :: r.out }
    | _ => { r with out := (if isBuilt then 's' else 'U') :: r.out }
  | _ => { r with out := '?' :: r.out }

def replayLazy (evs : List CEv) : String :=
  let r := evs.foldl lazyEv ⟨LState.init, [], []⟩
  "ok\t" ++ encode (String.ofList r.out.reverse) ++ "\t" ++ boolStr r.st.slot.isSome

/-- handler of this area: `none` = op not mine -/
def handleConc (op : String) (args : List String) : Option String :=
  let go (f : List CEv → String) : Option String :=
    some <| match args.mapM parseCEv with
      | some evs => f evs
      | none => "err\tbad-event"
  match op with
  | "conc_guard" => go replayGuard
  | "conc_memo" => go replayMemo
  | "conc_lazy" => go replayLazy
  | _ => none

end Poetry.Drv
