/- Driver handlers for markers: raw parse / leaf construction / evaluation (ops mraw). -/
import PoetryVerif.Protocol
import PoetryVerif.Model.Marker
import PoetryVerif.Spec.Pep508

namespace Poetry.Drv
open Poetry Poetry.Proto Poetry.Marker

/-- environment encoding: lines `key=value`; the line `extra=a,b` gives the active extras
(`extra=` = no active extra; no such line = the key is absent) -/
def parseEnv (s : String) : Env :=
  let lines := s.splitOn "\n"
  let kvs := lines.filterMap fun ln =>
    match ln.splitOn "=" with
    | k :: rest => if rest.isEmpty then none else some (k, "=".intercalate rest)
    | [] => none
  let extras := (kvs.find? (fun p => p.1 == "extra")).map fun p =>
    if p.2.isEmpty then [] else p.2.splitOn ","
  { vars := kvs.filter (fun p => p.1 != "extra"), extras }

def truthChar : PyM Bool → String
  | .ok true => "1"
  | .ok false => "0"
  | .error .unmodelled => "u"
  | .error e => "!" ++ e.name ++ ";"

def specChar : Option Bool → String
  | some true => "1"
  | some false => "0"
  | none => "-"

def mStr (m : M) : String :=
  match m.toStr with
  | .ok s => s
  | .error e => "!" ++ e.name

def handleMarker (op : String) (args : List String) : Option String :=
  match op, args with
  | "mraw", text :: envs =>
    some <| match parseText text with
    | .error e => "err\t" ++ e.name
    | .ok syn =>
      let spec := String.join (envs.map fun e => specChar (Spec.Pep508.evalSyn (parseEnv e) syn))
      match compactRaw syn with
      | .error e => "lerr\t" ++ e.name ++ "\t" ++ encode syn.dump ++ "\t" ++ encode spec
      | .ok m =>
        let bits := String.join (envs.map fun e => truthChar (m.validate (parseEnv e)))
        "ok\t" ++ encode syn.dump ++ "\t" ++ encode m.dump ++ "\t" ++ encode (mStr m) ++ "\t" ++
          encode bits ++ "\t" ++ encode spec
  | _, _ => none

end Poetry.Drv
