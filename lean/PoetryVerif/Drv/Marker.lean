/- Driver handlers for markers: raw parse / leaf construction / evaluation (ops mraw). -/
import PoetryVerif.Protocol
import PoetryVerif.Model.MarkerOps
import PoetryVerif.Drv.VC
import PoetryVerif.Spec.Pep508

namespace Poetry.Drv
open Poetry Poetry.Proto Poetry.Marker

/-- environment encoding: lines `key=value`; the line `extra=a,b` gives the active extras
(`extra=` = no active extra; no such line = the key is absent) -/
def parseEnv (s : String) : Env :=
  let lines := s.splitOn "\n"
  let kvs := lines.filterMap fun ln =>
    match ln.splitOn "=" with
    | k :: rest => if rest.isEmpty then none else some (k, "=".intercalate rest)
    | [] => none
  let extras := (kvs.find? (fun p => p.1 == "extra")).map fun p =>
    if p.2.isEmpty then [] else p.2.splitOn ","
  { vars := kvs.filter (fun p => p.1 != "extra"), extras }

def truthChar : PyM Bool → String
  | .ok true => "1"
  | .ok false => "0"
  | .error .unmodelled => "u"
  | .error e => "!" ++ e.name ++ ";"

def specChar : Option Bool → String
  | some true => "1"
  | some false => "0"
  | none => "-"

def mStr (m : M) : String :=
  match m.toStr with
  | .ok s => s
  | .error e => "!" ++ e.name

def handleMarker (op : String) (args : List String) : Option String :=
  match op, args with
  | "mraw", text :: envs =>
    some <| match parseText text with
    | .error e => "err\t" ++ e.name
    | .ok syn =>
      let spec := String.join (envs.map fun e => specChar (Spec.Pep508.evalSyn (parseEnv e) syn))
      match compactRaw syn with
      | .error e => "lerr\t" ++ e.name ++ "\t" ++ encode syn.dump ++ "\t" ++ encode spec
      | .ok m =>
        let bits := String.join (envs.map fun e => truthChar (m.validate (parseEnv e)))
        "ok\t" ++ encode syn.dump ++ "\t" ++ encode m.dump ++ "\t" ++ encode (mStr m) ++ "\t" ++
          encode bits ++ "\t" ++ encode spec
  | _, _ => none

def mReport (m : M) (envs : List String) : String :=
  encode m.dump ++ "\t" ++ encode (mStr m) ++ "\t" ++ boolStr m.isAny ++ boolStr m.isEmpty ++ "\t" ++
    encode (String.join (envs.map fun e => truthChar (m.validate (parseEnv e))))

def mResult (r : PyM M) (envs : List String) : String :=
  match r with
  | .ok m => "ok\t" ++ mReport m envs
  | .error e => "err\t" ++ e.name

/-- ops on parsed markers: mparse, mop, mun, monly, mexcl, mreduce, gpc, cnm -/
def handleMarkerOps (op : String) (args : List String) : Option String :=
  match op, args with
  | "mparse", text :: envs => some (mResult (parseMarkerTop text) envs)
  | "mop", o :: a :: b :: envs =>
    some <| match parseMarker a, parseMarker b with
    | .ok x, .ok y =>
      (match o with
       | "intersect" => mResult (x.intersectWith y) envs
       | "union" => mResult (x.unionWith y) envs
       | _ => "bad-op")
    | .error e, _ => "perr\t" ++ e.name
    | _, .error e => "perr\t" ++ e.name
  | "mun", o :: a :: envs =>
    some <| match parseMarker a with
    | .ok x =>
      (match o with
       | "invert" => mResult x.invert envs
       | "cnf" => mResult (cnf defaultFuel [] x) envs
       | "dnf" => mResult (dnf defaultFuel [] x) envs
       | "noextras" => mResult x.withoutExtras envs
       | _ => "bad-op")
    | .error e => "perr\t" ++ e.name
  | "monly", a :: names :: envs =>
    some <| match parseMarker a with
    | .ok x => mResult (x.only (if names.isEmpty then [] else names.splitOn ",")) envs
    | .error e => "perr\t" ++ e.name
  | "mexcl", a :: name :: envs =>
    some <| match parseMarker a with
    | .ok x => mResult (x.exclude name) envs
    | .error e => "perr\t" ++ e.name
  | "mreduce", a :: c :: envs =>
    some <| match parseMarker a, VParser.parseConstraint c with
    | .ok x, .ok pc => mResult (x.reduce pc) envs
    | .error e, _ => "perr\t" ++ e.name
    | _, .error e => "perr\t" ++ e.name
  | "gpc", a :: probes =>
    some <| match parseMarker a with
    | .ok x =>
      (match gpc x with
       | .ok c => "ok\t" ++ vcReport c probes
       | .error e => "err\t" ++ e.name)
    | .error e => "perr\t" ++ e.name
  | "cnm", [name, c] =>
    some <| match VParser.parseConstraint c with
    | .ok pc =>
      (match createNestedMarker name pc with
       | .ok t => "ok\t" ++ encode t
       | .error e => "err\t" ++ e.name)
    | .error e => "perr\t" ++ e.name
  | _, _ => none

def handleMarkerAll (op : String) (args : List String) : Option String :=
  match handleMarker op args with
  | some r => some r
  | none => handleMarkerOps op args

end Poetry.Drv
