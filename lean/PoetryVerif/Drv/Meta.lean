/- Driver handler for the metadata model (C14): ops `rfc822`, `mrender`, `meta`, `authorsplit`, `licval`. -/
import PoetryVerif.Protocol
import PoetryVerif.Model.Meta
import PoetryVerif.Spec.Rfc822

namespace Poetry.Drv
open Poetry Poetry.Proto Poetry.Meta Poetry.Spec

def encL (cs : List Char) : String := encode (String.ofList cs)

/-- reply fields of a parsed message: unixfrom flag, unixfrom, body, defects, then name/value pairs -/
def msgFields (m : Rfc822.Msg) : List String :=
  [match m.unixFrom with | some _ => "1" | none => "0",
   encL (m.unixFrom.getD []), encL m.body, encode (joinWith "," m.defects)] ++
  m.headers.flatMap fun kv => [encL kv.1, encL kv.2]

def optItem (tag : String) : Option String → List String
  | some v => [tag ++ "=" ++ v]
  | none => []

def dumpMeta (m : Meta.Meta) : List String :=
  ["name=" ++ m.name, "version=" ++ m.version, "summary=" ++ m.summary] ++ optItem "license" m.license ++
  ["keywords=" ++ m.keywords] ++ optItem "author" m.author ++ optItem "author_email" m.authorEmail ++
  optItem "maintainer" m.maintainer ++ optItem "maintainer_email" m.maintainerEmail ++
  optItem "requires_python" m.requiresPython ++ m.classifiers.map ("classifier=" ++ ·) ++
  m.providesExtra.map ("provides_extra=" ++ ·) ++ m.requiresDist.map ("requires_dist=" ++ ·) ++
  m.projectUrls.map ("project_url=" ++ ·) ++ optItem "description_content_type" m.descriptionContentType ++
  optItem "description" m.description

def emptyMeta : Meta.Meta :=
  { name := "", version := "", summary := "", license := none, keywords := "", author := none, authorEmail := none,
    maintainer := none, maintainerEmail := none, requiresPython := none, classifiers := [], providesExtra := [],
    requiresDist := [], projectUrls := [], descriptionContentType := none, description := none }

/-- key/value argument pairs → `Meta` -/
def metaOfArgs : List String → Meta.Meta → Option Meta.Meta
  | [], m => some m
  | [_], _ => none
  | k :: v :: rest, m =>
    let m' : Option Meta.Meta :=
      if k = "name" then some { m with name := v }
      else if k = "version" then some { m with version := v }
      else if k = "summary" then some { m with summary := v }
      else if k = "license" then some { m with license := some v }
      else if k = "keywords" then some { m with keywords := v }
      else if k = "author" then some { m with author := some v }
      else if k = "author_email" then some { m with authorEmail := some v }
      else if k = "maintainer" then some { m with maintainer := some v }
      else if k = "maintainer_email" then some { m with maintainerEmail := some v }
      else if k = "requires_python" then some { m with requiresPython := some v }
      else if k = "classifier" then some { m with classifiers := m.classifiers ++ [v] }
      else if k = "provides_extra" then some { m with providesExtra := m.providesExtra ++ [v] }
      else if k = "requires_dist" then some { m with requiresDist := m.requiresDist ++ [v] }
      else if k = "project_url" then some { m with projectUrls := m.projectUrls ++ [v] }
      else if k = "description_content_type" then some { m with descriptionContentType := some v }
      else if k = "description" then some { m with description := some v }
      else none
    match m' with
    | some m' => metaOfArgs rest m'
    | none => none

structure CfgIn where
  proj : ProjectT := {}
  tool : ToolT := {}
  spdx : List (String × License) := []
  readmeStored : Option String := none
  extras : List String := []
  requiresDist : List String := []
  readmeTexts : List String := []
  formatPython : String := ""

def setLastPerson (ps : List Person) (f : Person → Person) : List Person :=
  match ps.reverse with
  | [] => []
  | p :: r => (f p :: r).reverse

def updLast {α} (xs : List α) (f : α → α) : List α :=
  match xs.reverse with
  | [] => []
  | x :: r => (f x :: r).reverse

def updLastSpec (ds : List (String × List DepSpec)) (f : DepSpec → DepSpec) : List (String × List DepSpec) :=
  updLast ds fun d => (d.1, updLast d.2 f)

def boolOf (s : String) : Bool := s = "1"

/-- key/value pairs → configuration input.  A `spdx` entry is five consecutive values after the key. -/
def cfgOfArgs : List String → CfgIn → Option CfgIn
  | [], c => some c
  | "spdx" :: raw :: id :: name :: osi :: dep :: rest, c =>
    cfgOfArgs rest { c with spdx := c.spdx ++ [(raw, ⟨id, name, boolOf osi, boolOf dep⟩)] }
  | "p.urls" :: k :: v :: rest, c => cfgOfArgs rest { c with proj := { c.proj with urls := c.proj.urls ++ [(k, v)] } }
  | "t.urls" :: k :: v :: rest, c =>
    cfgOfArgs rest { c with tool := { c.tool with urls := some ((c.tool.urls.getD []) ++ [(k, v)]) } }
  | "t.dep.kv" :: k :: v :: rest, c =>
    cfgOfArgs rest { c with tool := { c.tool with dependencies := updLastSpec c.tool.dependencies (fun sp => { sp with kvs := sp.kvs ++ [(k, v)] }) } }
  | "p.readme.file" :: p :: ct :: rest, c => cfgOfArgs rest { c with proj := { c.proj with readme := some (.file p ct) } }
  | "p.readme.text" :: t :: ct :: rest, c => cfgOfArgs rest { c with proj := { c.proj with readme := some (.text t ct) } }
  | [_], _ => none
  | k :: v :: rest, c =>
    let p := c.proj
    let t := c.tool
    let c' : Option CfgIn :=
      if k = "p.name" then some { c with proj := { p with name := some v } }
      else if k = "p.version" then some { c with proj := { p with version := some v } }
      else if k = "p.description" then some { c with proj := { p with description := some v } }
      else if k = "p.author" then some { c with proj := { p with authors := p.authors ++ [⟨none, none⟩] } }
      else if k = "p.author.name" then some { c with proj := { p with authors := setLastPerson p.authors (fun x => { x with name := some v }) } }
      else if k = "p.author.email" then some { c with proj := { p with authors := setLastPerson p.authors (fun x => { x with email := some v }) } }
      else if k = "p.maintainer" then some { c with proj := { p with maintainers := p.maintainers ++ [⟨none, none⟩] } }
      else if k = "p.maintainer.name" then some { c with proj := { p with maintainers := setLastPerson p.maintainers (fun x => { x with name := some v }) } }
      else if k = "p.maintainer.email" then some { c with proj := { p with maintainers := setLastPerson p.maintainers (fun x => { x with email := some v }) } }
      else if k = "p.license.str" then some { c with proj := { p with license := some (.str v) } }
      else if k = "p.license.text" then some { c with proj := { p with license := some (.table (some v) none) } }
      else if k = "p.license.file" then some { c with proj := { p with license := some (.table none (some v)) } }
      else if k = "p.requires-python" then some { c with proj := { p with requiresPython := some v } }
      else if k = "p.keyword" then some { c with proj := { p with keywords := p.keywords ++ [v] } }
      else if k = "p.classifier" then some { c with proj := { p with classifiers := p.classifiers ++ [v] } }
      else if k = "p.readme.path" then some { c with proj := { p with readme := some (.path v) } }
      else if k = "t.name" then some { c with tool := { t with name := some v } }
      else if k = "t.version" then some { c with tool := { t with version := some v } }
      else if k = "t.description" then some { c with tool := { t with description := some v } }
      else if k = "t.author" then some { c with tool := { t with authors := t.authors ++ [v] } }
      else if k = "t.maintainer" then some { c with tool := { t with maintainers := t.maintainers ++ [v] } }
      else if k = "t.license" then some { c with tool := { t with license := some v } }
      else if k = "t.python" then some { c with tool := { t with python := some v } }
      else if k = "t.keyword" then some { c with tool := { t with keywords := t.keywords ++ [v] } }
      else if k = "t.classifier" then some { c with tool := { t with classifiers := t.classifiers ++ [v] } }
      else if k = "t.homepage" then some { c with tool := { t with homepage := some v } }
      else if k = "t.repository" then some { c with tool := { t with repository := some v } }
      else if k = "t.documentation" then some { c with tool := { t with documentation := some v } }
      else if k = "t.urls.empty" then some { c with tool := { t with urls := some (t.urls.getD []) } }
      else if k = "t.readme" then some { c with tool := { t with readmes := t.readmes ++ [v] } }
      else if k = "p.optdep" then some { c with proj := { p with optionalDependencyNames := p.optionalDependencyNames ++ [v] } }
      else if k = "t.extraname" then some { c with tool := { t with extraNames := t.extraNames ++ [v] } }
      else if k = "t.dep" then some { c with tool := { t with dependencies := t.dependencies ++ [(v, [])] } }
      else if k = "t.dep.spec" then some { c with tool := { t with dependencies := updLast t.dependencies (fun d => (d.1, d.2 ++ [{}])) } }
      else if k = "t.dep.extra" then some { c with tool := { t with dependencies := updLastSpec t.dependencies (fun sp => { sp with extras := sp.extras ++ [v] }) } }
      else if k = "readme.stored" then some { c with readmeStored := some v }
      else if k = "extra" then some { c with extras := c.extras ++ [v] }
      else if k = "requires_dist" then some { c with requiresDist := c.requiresDist ++ [v] }
      else if k = "readme.content" then some { c with readmeTexts := c.readmeTexts ++ [v] }
      else if k = "format_python" then some { c with formatPython := v }
      else none
    match c' with
    | some c' => cfgOfArgs rest c'
    | none => none

def renderReply (m : Meta.Meta) : String :=
  let text := Meta.renderChars m
  joinWith "\t" ([encL text] ++ msgFields (Rfc822.parseChars text))

def handleMeta (op : String) (args : List String) : Option String :=
  match op, args with
  | "rfc822", [s] => some <| joinWith "\t" ("ok" :: msgFields (Rfc822.parse s))
  | "mrender", kvs =>
    some <| match metaOfArgs kvs emptyMeta with
    | some m => "ok\t" ++ renderReply m
    | none => "bad-arg"
  | "meta", kvs =>
    some <| match cfgOfArgs kvs {} with
    | none => "bad-arg"
    | some c =>
      let pkg := configure c.proj c.tool (fun raw => c.spdx.lookup raw) c.readmeStored c.extras c.requiresDist
      match pkg.toMeta c.readmeTexts c.formatPython with
      | .error e => "err\t" ++ e.name
      | .ok m =>
        let items := dumpMeta m
        "ok\t" ++ toString items.length ++ "\t" ++ joinWith "\t" (items.map encode) ++ "\t" ++ renderReply m
  | "vsl", kvs =>
    some <| match cfgOfArgs kvs {} with
    | none => "bad-arg"
    | some c => joinWith "\t" ("ok" :: (validateSingleLine c.proj c.tool).map encode)
  | "urifmt", [s] => some <| "ok\t" ++ boolStr (uriFormatMatch s.toList)
  | "spdxname", [s] => some <| "ok\t" ++ encode ((Gen.licenseFallbackNames.lookup s).getD "<none>")
  | "canon", [s] => some <| "ok\t" ++ encode (canonicalizeName s)
  | "authorsplit", [s] =>
    some <| match authorMatch s.toList with
    | none => "nomatch"
    | some (n, e) => "ok\t" ++ encL n ++ "\t" ++ (match e with | some e => "1\t" ++ encL e | none => "0\t%")
  | "licval", [s] => some <| "ok\t" ++ encL (licenseValue s.toList)
  | "pyclassifiers", [s] =>
    some <| match (do let c ← VParser.parseConstraint s; pythonClassifiers c) with
    | .ok cs => joinWith "\t" ("ok" :: cs.map encode)
    | .error e => "err\t" ++ e.name
  | _, _ => none

end Poetry.Drv
