/- Driver handlers for generic string constraints and the `extra` variant
(ops gparse/xparse, gop/xop, gpred/xpred). -/
import PoetryVerif.Protocol
import PoetryVerif.Model.Generic

namespace Poetry.Drv
open Poetry Poetry.Proto Poetry.Generic

def gErr (e : PyErr) : String := "err\t" ++ e.name

def atomDump (a : Atom) : String :=
  (if a.x then "XC(" else "C(") ++ a.op.str ++ "|" ++ encode a.value ++ ")"

def gsDump : GS → String
  | .any => "any"
  | .empty => "empty"
  | .atom a => atomDump a
  | .multi x cs => (if x then "XM[" else "M[") ++ joinWith ";" (cs.map atomDump) ++ "]"

def gcDump : GC → String
  | .s c => gsDump c
  | .union ms => "U[" ++ joinWith ";" (ms.map gsDump) ++ "]"

/-- an operand: `text0 (\x01 op \x01 text)*`, folded from the left; ops `i` intersect, `u` union,
`d` difference, `n` invert (no argument) -/
def splitU1 (s : String) : List String :=
  s.splitOn (String.singleton (Char.ofNat 1))

def evalChain (x : Bool) (cur : GC) : List String → PyM GC
  | [] => .ok cur
  | "n" :: rest =>
    match cur.invert with
    | .error e => .error e
    | .ok r => evalChain x r rest
  | o :: t :: rest =>
    match parseWith x t with
    | .error e => .error e
    | .ok b =>
      let r : PyM GC := match o with
        | "i" => cur.intersect b
        | "u" => cur.unionWith b
        | "d" => cur.difference b
        | _ => .error .runtime
      match r with
      | .error e => .error e
      | .ok c => evalChain x c rest
  | _ => .error .runtime

def evalOperand (x : Bool) (s : String) : PyM GC :=
  match splitU1 s with
  | [] => parseWith x ""
  | t :: rest =>
    match parseWith x t with
    | .error e => .error e
    | .ok c => evalChain x c rest

def gBits (x : Bool) (c : GC) (probes : List String) : String :=
  String.join (probes.map fun p =>
    if x then
      let E := (p.splitOn ",").filter (· != "")
      boolStr (c.denX (fun s => E.contains s))
    else
      match c.allows (.atom ⟨p, .eq, false⟩) with
      | .ok b => boolStr b
      | .error _ => "E")

def gReport (x : Bool) (c : GC) (probes : List String) : String :=
  encode c.toStr ++ "\t" ++ encode (gcDump c) ++ "\t" ++ boolStr c.isAny ++ boolStr c.isEmpty ++
    "\t" ++ encode (gBits x c probes)

def gPyBool : PyM Bool → String
  | .ok b => boolStr b
  | .error e => "!" ++ e.name

def handleG (x : Bool) (op : String) (args : List String) : Option String :=
  match op, args with
  | "parse", s :: probes =>
    some <| match evalOperand x s with
    | .ok c => "ok\t" ++ gReport x c probes
    | .error e => gErr e
  | "op", o :: a :: b :: probes =>
    some <| match evalOperand x a, evalOperand x b with
    | .ok p, .ok q =>
      let r : PyM GC := match o with
        | "intersect" => p.intersect q
        | "union" => p.unionWith q
        | "difference" => p.difference q
        | "invert" => p.invert
        | _ => .error .runtime
      (match r with
       | .ok c => "ok\t" ++ gReport x c probes
       | .error e => gErr e)
    | .error e, _ => "perr\t" ++ e.name
    | _, .error e => "perr\t" ++ e.name
  | "pred", [a, b] =>
    some <| match evalOperand x a, evalOperand x b with
    | .ok p, .ok q =>
      "ok\t" ++ boolStr (p.allowsAll q) ++ "\t" ++ boolStr (p.allowsAny q) ++ "\t" ++
        boolStr (p == q) ++ "\t" ++ boolStr (p.hashKey == q.hashKey) ++ "\t" ++ gPyBool (p.allows q)
    | .error e, _ => "perr\t" ++ e.name
    | _, .error e => "perr\t" ++ e.name
  | "all", a :: b :: probes =>
    -- intersect, union, invert(a) reports (5 fields each) followed by the 5 predicate fields
    some <| match evalOperand x a, evalOperand x b with
    | .ok p, .ok q =>
      let rep (r : PyM GC) : String := match r with
        | .ok c => "ok\t" ++ gReport x c probes
        | .error e => "err\t" ++ e.name ++ "\t-\t-\t-"
      "ok\t" ++ rep (p.intersect q) ++ "\t" ++ rep (p.unionWith q) ++ "\t" ++ rep p.invert ++ "\t" ++
        boolStr (p.allowsAll q) ++ "\t" ++ boolStr (p.allowsAny q) ++ "\t" ++
        boolStr (p == q) ++ "\t" ++ boolStr (p.hashKey == q.hashKey) ++ "\t" ++ gPyBool (p.allows q)
    | .error e, _ => "perr\t" ++ e.name
    | _, .error e => "perr\t" ++ e.name
  | _, _ => none

/-- handler of this area: `none` = op not mine -/
def handleGeneric (op : String) (args : List String) : Option String :=
  match op.toList with
  | 'g' :: r => handleG false (String.ofList r) args
  | 'x' :: r => handleG true (String.ofList r) args
  | _ => none

end Poetry.Drv
