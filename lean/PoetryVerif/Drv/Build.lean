/- Driver handlers for the build model (ops bperm, bnames, bver, bpy2, btime, bint, brun, bwheel, bsdist).
Composite arguments (one operation / file per argument) use U+001F as inner field separator. -/
import PoetryVerif.Protocol
import PoetryVerif.Model.Build
import PoetryVerif.Model.Version
import PoetryVerif.Model.VParser

namespace Poetry.Drv.BuildH
open Poetry Poetry.Proto Poetry.Build

def us : String := "\x1f"

def fields (s : String) : List String := s.splitOn us

def packF (fs : List String) : String := joinWith us fs

def bErr (e : PyErr) : String := "err\t" ++ e.name

def parseOp (s : String) : Option Op :=
  match fields s with
  | ["A", p, m, d, n] => do some (.addFile p (← m.toNat?) d (← n.toNat?))
  | ["W", p, d, n] => do some (.writeToZip p d (← n.toNat?))
  | _ => none

def showOp : Op → String
  | .addFile p m d n => packF ["A", p, toString m, d, toString n]
  | .writeToZip p d n => packF ["W", p, d, toString n]

def showMember (m : Member) : String := packF [m.path, toString m.extAttr, m.digest, toString m.size]

def pathKey (s : String) : PathKey := s.splitOn "/"

inductive Item where
  | f (x : SelFile) | s (x : Script) | d (x : DiFile)

def parseItem (s : String) : Option Item :=
  match fields s with
  | ["F", src, tgt, m, d, n] => do some (.f ⟨pathKey src, tgt, ← m.toNat?, d, ← n.toNat?⟩)
  | ["S", b, m, d, n] => do some (.s ⟨b, ← m.toNat?, d, ← n.toNat?⟩)
  | ["D", rel, m, d, n] => do some (.d ⟨pathKey rel, ← m.toNat?, d, ← n.toNat?⟩)
  | _ => none

def parseSdistFile (s : String) : Option SdistFile :=
  match fields s with
  | [rel, mode, uid, gid, un, gn, mt, sz, dg] => do
    some ⟨pathKey rel, ← mode.toNat?, ← uid.toNat?, ← gid.toNat?, un, gn, ← mt.toInt?, ← sz.toNat?, dg⟩
  | _ => none

def showTar (t : TarMeta) : String :=
  packF [t.name, toString t.mode, toString t.uid, toString t.gid, t.uname, t.gname, toString t.mtime,
         toString t.size, t.digest]

def sdeArg (isSet v : String) : Option String := if isSet == "1" then some v else none

def noHash : String → String := fun _ => ""

def handleBuild (op : String) (args : List String) : Option String :=
  match op, args with
  | "bperm", [m] =>
    some <| match m.toNat? with
    | some n => "ok\t" ++ toString (Gen.normalizeFilePermissions n) ++ "\t" ++ toString (addFileAttr n)
    | none => "bad-arg"
  | "bnames", [raw, ver, py2] =>
    let b := py2 == "1"
    some <| "ok\t" ++ joinWith "\t" ([canonicalizeName raw, distributionName raw, distInfo raw ver, dataFolder raw ver,
      wheelFilename raw ver b, tag b, sdistDir raw ver, sdistFile raw ver].map encode)
  | "bver", [raw, label] =>
    some <| match Version.parse raw with
    | .ok v =>
      let v' := if label.isEmpty then v else { v with loc := some [label] }
      "ok\t" ++ encode v'.toString
    | .error e => bErr e
  | "bpy2", [c] =>
    some <| match VParser.parseConstraint c, VParser.parseConstraint ">=2.0.0 <3.0.0" with
    | .ok x, .ok y => (match x.allowsAny y with | .ok b => "ok\t" ++ boolStr b | .error e => bErr e)
    | .error e, _ => bErr e
    | _, .error e => bErr e
  | "bcsv", [text] =>
    some <| "ok\t" ++ joinWith "\t" ((csvParse text.toList).map fun row => encode (packF (row.map String.ofList)))
  | "bsetup", pkgName :: dirs =>
    let rs : String := "\x1e"
    let parseFile (s : String) : Option WalkFile :=
      match s.splitOn rs with
      | [n, py, ex] => some ⟨n, py == "1", ex == "1"⟩
      | _ => none
    let parseDir (s : String) : Option WalkDir :=
      match fields s with
      | rel :: fs => (fs.mapM parseFile).map fun l => ⟨pathKey rel, l⟩
      | [] => none
    some <| match dirs.mapM parseDir with
    | none => "bad-arg"
    | some walk =>
      "ok\t" ++ encode (packF (setupPackages pkgName walk)) ++ "\t" ++
        joinWith "\t" ((setupPackageData pkgName walk).map fun kv => encode (packF (kv.1 :: kv.2)))
  | "bavoid", tops :: specs =>
    let ts := fields tops
    some <| "ok\t" ++ joinWith "\t" (specs.map fun s =>
      match fields s with
      | [base, pat, isPkg] =>
        (match Select.parsePattern pat with
         | .ok pp =>
           let g : GlobSpec := ⟨Select.parseRel base, pp, isPkg == "1", fun _ => ""⟩
           boolStr (ts.all fun D => g.avoids D)
         | .error _ => "E")
      | _ => "?")
  | "bgsel", spec :: paths =>
    some <| match fields spec with
      | [base, pat, isPkg] =>
        (match Select.parsePattern pat with
         | .ok pp =>
           let g : GlobSpec := ⟨Select.parseRel base, pp, isPkg == "1", fun _ => ""⟩
           "ok\t" ++ String.join (paths.map fun q => boolStr (g.sel (Select.parseRel q)))
         | .error e => bErr e)
      | _ => "bad-arg"
  | "bint", [s] =>
    some <| match pyInt s with | some t => "ok\t" ++ toString t | none => "err\tvalue"
  | "btime", [kind, isSet, v] =>
    let sde := sdeArg isSet v
    some <| if kind == "wheel" then
        (match zipfileDateTime sde with | .ok dt => "ok\t" ++ dt.text | .error e => bErr e)
      else "ok\t" ++ toString (archiveMtime sde)
  | "bgmtime", [t] =>
    some <| match t.toInt? with
    | some n => (match gmtime n with | .ok dt => "ok\t" ++ dt.text | .error e => bErr e)
    | none => "bad-arg"
  | "brunpartial", _di :: ops =>
    -- a writer sequence that was cut short (no RECORD yet): ok / err of the guarded writers only
    some <| match ops.mapM parseOp with
    | none => "bad-arg"
    | some os => (match runC {} os with | .ok s => "ok\t" ++ toString s.members.length | .error e => bErr e)
  | "brun", di :: ops =>
    some <| match ops.mapM parseOp with
    | none => "bad-arg"
    | some os =>
      -- the guarded writers: a name that is already in the archive aborts the sequence (`err runtime`)
      match (match runC {} os with | .ok s0 => writeRecordC noHash di s0 | .error e => .error e) with
      | .error e => bErr e
      | .ok s =>
        "ok\t" ++ boolStr (decide (DistinctTargets di os)) ++ "\t" ++ encode (recordText di (run {} os).records) ++ "\t" ++
          joinWith "\t" (s.members.map (encode ∘ showMember))
  | "bwheel", ed :: root :: modName :: pthD :: pthN :: diSrc :: di :: df :: isSet :: sde :: items =>
    some <| match items.mapM parseItem, pthN.toNat? with
    | some its, some pn =>
      let p : WheelPlan := {
        editable := ed == "1", root := pathKey root,
        toAdd := its.filterMap (fun | .f x => some x | _ => none),
        moduleName := modName, pthDigest := pthD, pthSize := pn,
        scripts := its.filterMap (fun | .s x => some x | _ => none),
        diSource := pathKey diSrc,
        diFiles := its.filterMap (fun | .d x => some x | _ => none),
        distInfo := di, dataFolder := df }
      match describeWheelC noHash (sdeArg isSet sde) p with
      | .error e => bErr e
      | .ok es =>
        let dt := match es with | e :: _ => e.dateTime.text | [] => ""
        let ops := wheelOps p
        "ok\t" ++ dt ++ "\t" ++ boolStr (decide (DistinctTargets di ops)) ++ boolStr (decide (ConfigDistinct p)) ++ "\t" ++
          encode (recordText di (run {} ops).records) ++ "\t" ++ toString ops.length ++ "\t" ++
          joinWith "\t" (ops.map (encode ∘ showOp) ++ es.map (fun e => encode (showMember e.member)))
    | _, _ => "bad-arg"
  | "bsdist", tarDir :: isSet :: sde :: pkgD :: pkgN :: hasSetup :: suD :: suN :: files =>
    some <| match files.mapM parseSdistFile, pkgN.toNat? with
    | some fs, some pn =>
      let su : Option (String × Nat) := if hasSetup == "1" then some (suD, suN.toNat?.getD 0) else none
      let d := describeSdist (sdeArg isSet sde) ⟨tarDir, fs, pkgD, pn, su⟩
      "ok\t" ++ toString d.gzipMtime ++ "\t" ++ joinWith "\t" (d.entries.map (encode ∘ showTar))
    | _, _ => "bad-arg"
  | _, _ => none

end Poetry.Drv.BuildH

/-- registered in Driver.lean -/
def Poetry.Drv.handleBuild := Poetry.Drv.BuildH.handleBuild
