/- Driver handler for the file-selection model (ops `glob`, `fnmatch`, `select`, `members`, `excluded`).

Encoding (inside one percent-encoded argument): records separated by "\n", fields by U+001F.
  tree    : `d␟<posix>` | `f␟<posix>`  (root = `d␟.`)
  config  : `name␟<module>␟<rootdir>␟<dist>␟<version>␟<hasEntryPoints 0|1>`
            `pkg␟<include>␟<0|1>␟<from>␟<0|1>␟<to>␟<fmt,fmt>`   `inc␟<path>␟<fmt,fmt>`
            `exc␟<pattern>`   `readme␟<path>`   `script␟<reference>`
  ignored : one line per entry, as printed by git
-/
import PoetryVerif.Protocol
import PoetryVerif.Model.Select
import PoetryVerif.Model.GitIgnore

namespace Poetry.Drv.SelectH
open Poetry Poetry.Proto Poetry.Select

def us : String := "\x1f"

def parsePosix (s : String) : Select.Path := if s == "." then [] else s.splitOn "/"

def parseTree (s : String) : Tree :=
  (s.splitOn "\n").filterMap fun ln =>
    match ln.splitOn us with
    | ["d", p] => some { path := parsePosix p, isDir := true }
    | ["f", p] => some { path := parsePosix p, isDir := false }
    | _ => none

/-- `-` = no `format` key: the default of factory._prepare_formats applies -/
def parseFormats (dflt : List String) (s : String) : List String :=
  if s == "-" then dflt else (s.splitOn ",").filter (· != "")

def emptyCfg : Cfg where
  moduleName := ""
  rootName := ""
  distName := ""
  version := ""
  packages := []
  includes := []
  excludes := []
  readmes := []
  scripts := []
  hasEntryPoints := false

def parseCfg (s : String) : Cfg :=
  (s.splitOn "\n").foldl (init := emptyCfg) fun c ln =>
    match ln.splitOn us with
    | ["name", m, r, d, v, ep] => { c with moduleName := m, rootName := r, distName := d, version := v, hasEntryPoints := ep == "1" }
    | ["pkg", inc, hf, f, ht, t, fm] =>
      { c with packages := c.packages ++ [{ incl := inc, source := if hf == "1" then some f else none,
                                            target := if ht == "1" then some t else none, formats := parseFormats Gen.packagesDefaultFormats fm }] }
    | ["inc", p, fm] => { c with includes := c.includes ++ [{ path := p, formats := parseFormats Gen.includeDefaultFormats fm }] }
    | ["exc", p] => { c with excludes := c.excludes ++ [p] }
    | ["readme", p] => { c with readmes := c.readmes ++ [p] }
    | ["script", p] => { c with scripts := c.scripts ++ [p] }
    | _ => c

def parseIgnored (s : String) : List String := if s.isEmpty then [] else s.splitOn "\n"

def parseFmt (s : String) : Option Fmt :=
  if s == "sdist" then some .sdist else if s == "wheel" then some .wheel else none

def selLine (s : Sel) : String := posix s.src ++ us ++ posix s.arc ++ us ++ (if s.isDir then "d" else "f")

def selErr (e : PyErr) : String := "err\t" ++ e.name

def handleSelect (op : String) (args : List String) : Option String :=
  match op, args with
  | "fnmatch", [pat, name] => some (boolStr (fnmatch pat name))
  | "glob", [pat, base, tree] =>
    -- entries of `base.glob(pat)` (posix, sorted as pathlib sorts), or the error class
    some <| match parsePattern pat with
    | .error e => selErr e
    | .ok p => "ok\t" ++ encode ("\n".intercalate ((globFrom (parseTree tree) (parsePosix base) p).map (fun e => posix e.path)))
  | "matches", [pat, rel, kind] =>
    some <| match parsePattern pat with
    | .error e => selErr e
    | .ok p => "ok\t" ++ boolStr (globMatch p (parsePosix rel) (kind == "d"))
  | "select", [fmt, tree, cfg, ign] =>
    some <| match parseFmt fmt with
    | none => "bad-arg"
    | some f =>
      match select f (parseTree tree) (parseCfg cfg) (parseIgnored ign) with
      | .error e => selErr e
      | .ok ss => "ok\t" ++ encode ("\n".intercalate ((sortSels (·.src) ss).map selLine))
  | "members", [fmt, tree, cfg, ign] =>
    some <| match parseFmt fmt with
    | none => "bad-arg"
    | some f =>
      let r := match f with
        | .sdist => sdistMembers (parseTree tree) (parseCfg cfg) (parseIgnored ign)
        | .wheel => wheelMembers (parseTree tree) (parseCfg cfg) (parseIgnored ign)
      match r with
      | .error e => selErr e
      | .ok ms => "ok\t" ++ encode ("\n".intercalate (ms.map posix))
  | "excluded", [fmt, tree, cfg, ign] =>
    -- the set returned by find_excluded_files, sorted
    some <| match parseFmt fmt with
    | none => "bad-arg"
    | some f =>
      let T := parseTree tree
      let c := parseCfg cfg
      match (do let (_, iobjs) ← mkModule f T c; excludedSet f T c (parseIgnored ign) iobjs) with
      | .error e => selErr e
      | .ok xs => "ok\t" ++ encode ("\n".intercalate ((xs.mergeSort (fun a b => a ≤ b)).eraseDups))
  | "gitignored", tree :: files =>
    -- reference listing of `git ls-files --others -i --exclude-standard`; each file argument: dir U+001F text
    let fs : List GitIgnore.IgnFile := files.filterMap fun a =>
      match a.splitOn us with
      | [d, txt] => some ⟨parsePosix d, GitIgnore.parseFile txt⟩
      | _ => none
    some <| "ok\t" ++ encode ("\n".intercalate ((GitIgnore.ignoredListing fs (parseTree tree)).map posix))
  | "boundary", [tree, cfg] =>
    -- the decidable conditions of C09.wheel_from_sdist_eq_decidable for the wheel's package list
    let T := parseTree tree
    let c := parseCfg cfg
    some <| match modulePackages .wheel T c with
    | .error e => selErr e
    | .ok pkgs =>
      "ok\t" ++ boolStr (arcSafe pkgs c) ++ "\t" ++ boolStr (pkgInfoUnreached pkgs c) ++ "\t" ++
        boolStr (!(c.packages.filter (fun p => p.formats.contains Fmt.wheel.name)).isEmpty)
  | _, _ => none

end Poetry.Drv.SelectH

/-- registered in Driver.lean -/
def Poetry.Drv.handleSelect := Poetry.Drv.SelectH.handleSelect
