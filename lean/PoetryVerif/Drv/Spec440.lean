/- Driver handler for the PEP 440 specifier reference semantics (op speccontains). -/
import PoetryVerif.Protocol
import PoetryVerif.Model.Version
import PoetryVerif.Spec.Specifier

namespace Poetry.Drv
open Poetry Poetry.Proto

/-- one character per probe: `1`/`0` = `Spec.contains`, `?` = the probe is not a version -/
def specBits (s : List Spec.Clause) (probes : List String) : String :=
  String.join (probes.map fun p =>
    match Version.parse p with
    | .ok v => if Spec.contains s v then "1" else "0"
    | .error _ => "?")

/-- `speccontains s probe…` → `ok <bits>` | `err value` (s is not a PEP 440 specifier set);
`none` = op not mine -/
def handleSpec440 (op : String) (args : List String) : Option String :=
  match op, args with
  | "speccontains", s :: probes =>
    some <| match Spec.parseSet s with
    | some cs => "ok\t" ++ encode (specBits cs probes)
    | none => "err\tvalue"
  | _, _ => none

end Poetry.Drv
