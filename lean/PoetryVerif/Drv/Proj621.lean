/- Driver handler for the PEP 621 dependency tables (C02):
`dep621 <text> <extra: - | =name> <envs…>` → `ok <selected 0|1> <line: =text | !err | -> <marker dump> <in_extras,> <truth bits>`. -/
import PoetryVerif.Protocol
import PoetryVerif.Model.Proj621
import PoetryVerif.Drv.Dep

namespace Poetry.Drv.Proj621H
open Poetry Poetry.Proto Poetry.Marker Poetry.Drv Poetry.Dep Poetry.Drv.DepH

def handle (op : String) (args : List String) : Option String :=
  match op, args with
  | "dep621", text :: extra :: envs =>
    some <| match Proj621.entryDependency ⟨text, optArg extra⟩ with
    | .error e => "err\t" ++ e.name
    | .ok d =>
      "ok\t" ++ boolStr (Dep02.selected d) ++ "\t" ++ textOf (d.toPep508 true) ++ "\t" ++ encode d.marker.dump ++ "\t" ++
        encode (joinWith "," d.inExtras) ++ "\t" ++
        encode (String.join (envs.map fun e => truthChar (d.marker.validate (parseEnv e))))
  | _, _ => none

end Poetry.Drv.Proj621H

namespace Poetry.Drv
def handleProj621 := Proj621H.handle
end Poetry.Drv
