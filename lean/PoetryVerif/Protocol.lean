/- Line protocol helpers for the driver: percent-encoding of arbitrary strings. -/
import PoetryVerif.Model.Basic

namespace Poetry.Proto

def hexVal (c : Char) : Option Nat :=
  if '0' ≤ c && c ≤ '9' then some (c.toNat - '0'.toNat)
  else if 'a' ≤ c && c ≤ 'f' then some (c.toNat - 'a'.toNat + 10)
  else if 'A' ≤ c && c ≤ 'F' then some (c.toNat - 'A'.toNat + 10)
  else none

def decodeBytes : List Char → ByteArray → Option ByteArray
  | [], acc => some acc
  | '%' :: h :: l :: rest, acc =>
    match hexVal h, hexVal l with
    | some a, some b => decodeBytes rest (acc.push (UInt8.ofNat (a * 16 + b)))
    | _, _ => none
  | c :: rest, acc => if c.toNat < 128 then decodeBytes rest (acc.push (UInt8.ofNat c.toNat)) else none

def decode (s : String) : Option String :=
  match decodeBytes s.toList ByteArray.empty with
  | some b => String.fromUTF8? b
  | none => none

def hexDigit (n : Nat) : Char :=
  if n < 10 then Char.ofNat ('0'.toNat + n) else Char.ofNat ('a'.toNat + n - 10)

def safeChar (c : Char) : Bool :=
  let n := c.toNat
  (n > 32 && n < 127 && c != '%')

def encode (s : String) : String :=
  let bytes := s.toUTF8
  let rec go (i : Nat) (fuel : Nat) (acc : String) : String :=
    match fuel with
    | 0 => acc
    | fuel + 1 =>
      if h : i < bytes.size then
        let b := bytes[i]
        let c := Char.ofNat b.toNat
        if b.toNat < 128 && safeChar c then go (i + 1) fuel (acc.push c)
        else go (i + 1) fuel (((acc.push '%').push (hexDigit (b.toNat / 16))).push (hexDigit (b.toNat % 16)))
      else acc
  if s.isEmpty then "%" else go 0 bytes.size ""

/-- empty string is transmitted as a lone "%" -/
def decodeArg (s : String) : Option String :=
  if s == "%" then some "" else decode s

end Poetry.Proto
