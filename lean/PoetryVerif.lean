/- The root module imports the executable models only. The property modules (PoetryVerif/Props/Cxx.lean) are built as separate
targets (see MANIFEST.setup_cmd and `check`): two proof files may each trigger Lean's on-demand generation of the same auxiliary
equation lemma, which cannot be imported together into one module. -/
import PoetryVerif.Model.Basic
import PoetryVerif.Model.Generated
import PoetryVerif.Model.Version
