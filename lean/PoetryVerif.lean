import PoetryVerif.Model.Basic
import PoetryVerif.Model.Generated
import PoetryVerif.Model.Version
