"""C20 — results do not depend on thread scheduling or on call history.

Theorems (lean/PoetryVerif/Props/C20.lean) are about the bookkeeping machines of Model/Conc.lean.  This plug-in
 (1) ties those machines to the code: the real `detect_recursion` storage, the real `functools.cache` objects and the
     real `Parser._lark` slot are wrapped in-process (vp/c20_worker.py), a workload is run sequentially and by threads,
     the recorded bookkeeping events are replayed through the Lean driver and the model's verdict per event
     (RecursionError or not, popped value, hit/miss, value consistency, slot contents) is compared with what the code did;
 (2) runs the property oracle on the unwrapped code: every call of a workload, in permuted orders and under 2–16 threads
     with a 1 µs switch interval, must give the text / error class of the sequential run in a fresh process.
"""
from __future__ import annotations

import concurrent.futures
import json
import os
import random
import re
import subprocess
from typing import Any

from . import core, vc_common

PROP = "C20"
LEAN_MODULE = "PoetryVerif.Props.C20"
RULE = ("workload = 300 calls (parse / intersect / union / difference / allows / invert / cnf / dnf / requirement / dependency) "
        "over pools of version-constraint strings (vp/vc_common grammar), PEP 440 versions, generic and extra constraints, and "
        "PEP 508 marker texts (python_version, python_full_version, sys_platform, os_name, platform_machine, platform_release, "
        "implementation_name, extra; operators per variable kind; depth <= 3, <= 5 leaves; respelled duplicates so that equal "
        "keys with different text occur). Each workload runs in fresh processes: sequential reference, permuted/reversed orders, "
        "and 2-16 threads (plans: every thread everything / same order / random split / common hot prefix) with "
        "sys.setswitchinterval(1e-6), a start barrier and random per-thread delays. A case = one call executed under one "
        "schedule, compared with the reference text; non-trivial when the reference result is not an error; distinct = "
        "distinct (call, schedule kind). Trace streams: every bookkeeping event replayed through the Lean machines.")
ASSUMPTIONS = [
    "(H1) stack purity — PROVED for the marker model where it holds, and proved false in general "
    "(stackPure_false_in_general): cnf/dnf/intersection/union of Model/MarkerAlg.lean return the same value with and "
    "without the caller's detect_recursion frames whenever no membership test is answered by one of the caller's frames "
    "(cnf_stack_irrelevant etc., taint-tracking run of Model/ConcTaint.lean, induction over the whole mutual block); "
    "memo_transparent_cnf_untainted / _dnf_untainted / _parse_marker_untainted need no purity hypothesis beyond that. REMAINS: (a) the marker model "
    "is the code (C07's differential correspondence, sampling); (b) calls during which a caller's frame IS hit are outside "
    "the theorem — sampled here: every traced run counts such hits (`h1:foreign-frame-hit:*` in the distribution, 0 on "
    "this tree) and the permuted-order runs compare results; (c) _merge_single_markers takes no stack (pure in the model); "
    "parse_marker, whose top-level union(...) sees the caller's frames, is covered by parse_marker_stack_irrelevant / "
    "memo_transparent_parse_marker_untainted under the same taint-freeness.",
    "(H2) congruence of cache keys — PROVED for cnf, dnf, _merge_single_markers (keys compared by M.beq / Leaf.beq, C18: "
    "equal coherent markers are the same object) and for every cache keyed by a str (parse_marker, parse_constraint, "
    "generic parse_constraint / parse_extra_constraint, PEP440Parser.parse, parse_requirement: str equality is identity of "
    "values). REMAINS: every marker object that reaches a cache satisfies the constructor invariant mCoherent (C18's "
    "marker_coherent_full_statement, checked per object by C18's correspondence). A cache keyed by Version equality would "
    "NOT be a congruence (firstDev_cache_not_congruent, firstDev_cache_history_dependent).",
    "(H3) trusted: CPython GIL atomicity of a single dict read/write and list append/pop/contains on a per-thread list; "
    "functools.cache = lookup, miss -> call -> store, exceptions not stored (C implementation not modelled; the trace "
    "correspondence observes it from outside).",
    "(H4) trusted: Lark.open on a fixed grammar file is deterministic and a built Lark object may be used by several "
    "threads at once (lark's own thread safety).",
    "PYTHONHASHSEED is fixed per workload (same value for the reference and every schedule): dependence of results on "
    "str-hash randomisation between processes is not what C20 states and is not examined here.",
    "thread schedules are those CPython produces under a 1 us switch interval on this machine: sampling, not enumeration; "
    "the Lean theorems quantify over all schedules of the modelled atomic steps.",
    "PEP440Parser.parse (classmethod cache) and the lru_cache in spdx/helpers.py are exercised by the result oracle only, "
    "not by the event trace; for the latter the model statement is memo_transparent_load_licenses (one key) and "
    "license_by_id only reads the table (license_setdefault_not_congruent shows what registering on lookup would break).",
    "Seeded classes named by theorems (why the check must catch them): shared_stack_interferes (one recursion stack for "
    "all threads), firstDev_cache_not_congruent and wildcard_text_cache_not_congruent (caches keyed by Version equality, "
    "which ignores trailing release zeros while the text does not), memo_not_transparent_without_congr (coarser key), "
    "memo_needs_stack_purity / stackPure_false_in_general (stack-dependent values), license_setdefault_not_congruent.",
]

WORKER = str(core.VERIF / "vp" / "c20_worker.py")

# ------------------------------------------------------------------------------------------
# generators
# ------------------------------------------------------------------------------------------

PYV = ["2.7", "3.6", "3.7", "3.8", "3.9", "3.10", "3.11", "3.12", "4.0"]
PYF = ["3.6", "3.7.1", "3.8.0", "3.8.5", "3.9", "3.10.2", "3.11.0", "3.9.0b1", "3.12.1"]
REL = ["5.10", "5.10.0", "4.19.0", "6.1", "21.6.0"]
STRVARS = {
    "sys_platform": ["linux", "win32", "darwin", "Linux"],
    "os_name": ["posix", "nt", "java"],
    "platform_machine": ["x86_64", "arm64", "amd64", "AMD64"],
    "implementation_name": ["cpython", "pypy", "CPython"],
}
EXTRAS = ["a", "b", "dev", "Test_x"]


def gen_leaf(rnd: random.Random) -> str:
    q = rnd.choice(['"', '"', "'"])
    sp = rnd.choice([" ", " ", ""])
    k = rnd.random()
    if k < 0.28:
        op = rnd.choice(["==", "!=", "<", "<=", ">", ">=", "in", "not in", "~=", ">=", "<"])
        if op in ("in", "not in"):
            vals = rnd.sample(PYV, rnd.randint(1, 3))
            return f"python_version {op} {q}{rnd.choice([' ', ', ']).join(vals)}{q}"
        v = rnd.choice(PYV)
        if rnd.random() < 0.04 and op not in ("~=",):
            return f"{q}{v}{q}{sp}{ {'<': '>', '<=': '>=', '>': '<', '>=': '<=', '==': '==', '!=': '!='}[op] }{sp}python_version"
        return f"python_version{sp}{op}{sp}{q}{v}{q}"
    if k < 0.45:
        op = rnd.choice(["==", "!=", "<", "<=", ">", ">=", "~="])
        v = rnd.choice(PYF)
        if op == "~=":
            v = rnd.choice(["3.7.1", "3.8.0", "3.10.2"])
        return f"python_full_version{sp}{op}{sp}{q}{v}{q}"
    if k < 0.53:
        op = rnd.choice(["==", "!=", ">=", "<", ">"])
        return f"platform_release{sp}{op}{sp}{q}{rnd.choice(REL)}{q}"
    if k < 0.68:
        op = rnd.choice(["==", "!=", "=="])
        return f"extra{sp}{op}{sp}{q}{rnd.choice(EXTRAS)}{q}"
    var = rnd.choice(list(STRVARS))
    vals = STRVARS[var] + ["zz"]
    op = rnd.choice(["==", "!=", "==", "!=", "in", "not in"])
    if op in ("in", "not in"):
        if rnd.random() < 0.4:
            return f"{q}{rnd.choice(vals)[:3]}{q} {op} {var}"
        return f"{var} {op} {q}{' '.join(rnd.sample(vals, rnd.randint(1, 2)))}{q}"
    if rnd.random() < 0.15:
        return f"{q}{rnd.choice(vals)}{q}{sp}{op}{sp}{var}"
    return f"{var}{sp}{op}{sp}{q}{rnd.choice(vals)}{q}"


def gen_marker(rnd: random.Random, depth: int, leaves: int) -> str:
    if leaves <= 1 or depth == 0:
        return gen_leaf(rnd)
    k = rnd.randint(1, leaves - 1)
    op = rnd.choice([" and ", " or "])
    left, right = gen_marker(rnd, depth - 1, k), gen_marker(rnd, depth - 1, leaves - k)
    if rnd.random() < 0.6:
        return f"({left}){op}({right})"
    return f"{left}{op}{right}"


def respell(rnd: random.Random, s: str) -> str:
    """mostly: same meaning, different text (equal cache key after parsing, different key before)"""
    k = rnd.random()
    if k < 0.25:
        # NOT the same meaning: a value in another letter case (keys that only a case-folding cache would confuse)
        for lo, up in (("amd64", "AMD64"), ("linux", "Linux"), ("cpython", "CPython"), ("dev", "DEV"), ("posix", "POSIX")):
            if lo in s or up in s:
                return s.replace(lo, "\0").replace(up, lo).replace("\0", up)
    if k < 0.4:
        return s.replace('"', "'") if '"' in s else s.replace("'", '"')
    if k < 0.6:
        return " " + s.replace(" and ", "  and ").replace(" or ", "  or ") + " "
    if k < 0.8 and not s.startswith("("):
        return "(" + s + ")"
    return s.replace(" == ", "==").replace(" >= ", ">=")


def gen_generic(rnd: random.Random, extra: bool) -> str:
    vals = EXTRAS if extra else ["linux", "win32", "darwin", "posix"]

    def one() -> str:
        op = rnd.choice(["==", "!=", "", "!=", "=="])
        if not extra and rnd.random() < 0.15:
            return f"'{rnd.choice(vals)[:3]}' {rnd.choice(['in', 'not in'])}"
        return f"{op}{rnd.choice(['', ' '])}{rnd.choice(vals)}"

    n = rnd.randint(1, 3)
    if n == 1:
        return one()
    sep = rnd.choice([" || ", ", ", ","])
    return sep.join(one() for _ in range(n))


NAMES = ["requests", "Django", "zope.interface", "my_pkg", "a"]


def gen_req(rnd: random.Random, markers: list[str], constraints: list[str]) -> str:
    name = rnd.choice(NAMES)
    if rnd.random() < 0.3:
        name += "[" + ",".join(rnd.sample(EXTRAS[:3], rnd.randint(1, 2))) + "]"
    k = rnd.random()
    if k < 0.15:
        s = name + " @ https://example.com/" + rnd.choice(["p-1.0.zip", "p-2.0-py3-none-any.whl"])
    else:
        c = rnd.choice([">=1.0", "<2", ">=1.2,<2.0", "==1.2.3", "~=1.4", "!=1.5", ">=1.0a1", "==1.*", ""])
        s = name + rnd.choice(["", " "]) + (f"({c})" if c and rnd.random() < 0.3 else c)
    if rnd.random() < 0.6:
        small = [m for m in markers if len(m) < 70] or markers
        s += rnd.choice(["; ", " ; ", ";"]) + rnd.choice(small)
    return s


def gen_workload(rnd: random.Random, n: int) -> list[dict[str, Any]]:
    markers = [gen_marker(rnd, 3, rnd.randint(1, 5)) for _ in range(40)]
    markers += [respell(rnd, rnd.choice(markers)) for _ in range(16)]
    markers += ["", "*", "<empty>", 'python_version >= "3.8" and python_version < "3.9"',
                'python_version ~= "3.8', 'os_name = "nt"']
    cons = [vc_common.gen_constraint(rnd) for _ in range(40)]
    cons += [rnd.choice(cons).replace(",", ", ").replace("||", " || ") for _ in range(8)]
    cons += ["*", ">=1.0,,<2", "=>1", "1.0.0.0.*"]
    # the same constraint written with another release precision (1.0 == 1.0.0 for Version.__eq__/__hash__, not for the text):
    # what a memo keyed by version equality confuses
    cons += [re.sub(r"(?<![\d.!])(\d+\.\d+)(?![\d.*])", r"\1.0", c, count=1) for c in rnd.sample(cons[:40], 10)]
    cons += ["==1.0.post1.*", "==1.0.0.post1.*", "!=1.post1.*", "!=1.0.post1.*", "1.0", "1.0.0", "<2.0", "<2.0.0", "^1", "^1.0.0",
             "==2.*", "==2.0.*", ">=1.0.post1.dev0,<1.0.post2.dev0", ">=1.0.0.post1.dev0,<1.0.0.post2.dev0"]
    vers = [vc_common.gen_ver(rnd) for _ in range(20)] + ["1.0RC1", "v1.2", "1..2", ""]
    gens = [gen_generic(rnd, False) for _ in range(12)]
    xgens = [gen_generic(rnd, True) for _ in range(10)]
    calls: list[dict[str, Any]] = []
    pairs = [(rnd.choice(markers[:56]), rnd.choice(markers[:56]), rnd.choice("iu")) for _ in range(4)]
    while len(calls) < n:
        k = rnd.random()
        if k < 0.05:
            a, b, g = rnd.choice(pairs)
            c = {"op": rnd.choice(["pnest", "praise", "pcall", "pcall"]), "g": g, "a": a, "b": b}
        elif k < 0.40:
            op = rnd.choice(["mint", "muni", "mint", "muni", "minv", "mcnf", "mdnf", "mparse"])
            c = {"op": op, "a": rnd.choice(markers)}
            if op in ("mint", "muni"):
                c["b"] = rnd.choice(markers)
        elif k < 0.68:
            op = rnd.choice(["cint", "cuni", "cdiff", "cparse", "call", "cany"])
            c = {"op": op, "a": rnd.choice(cons)}
            if op != "cparse":
                c["b"] = rnd.choice(cons)
        elif k < 0.76:
            c = {"op": "vparse", "a": rnd.choice(vers)}
        elif k < 0.86:
            x = rnd.random() < 0.4
            op = rnd.choice(["parse", "int", "uni"])
            pool = xgens if x else gens
            c = {"op": ("gx" if x else "g") + op, "a": rnd.choice(pool)}
            if op != "parse":
                c["b"] = rnd.choice(pool)
        elif k < 0.95:
            c = {"op": "req", "a": gen_req(rnd, markers[:40], cons)}
        else:
            c = {"op": "dep", "a": gen_req(rnd, markers[:40], cons)}
        calls.append(c)
    return calls


# ------------------------------------------------------------------------------------------
# running a schedule in a fresh process
# ------------------------------------------------------------------------------------------

class WorkerFailed(Exception):
    pass


def run_worker(job: dict[str, Any], hashseed: int, timeout: float) -> dict[str, Any] | None:
    """None = the schedule ran out of time (counted, skipped)."""
    env = dict(os.environ)
    env["PYTHONPATH"] = str(core.REPO / "src")
    env["PYTHONHASHSEED"] = str(hashseed)
    env["POETRY_CORE_VERIF"] = "1"
    try:
        p = subprocess.run([core.PY, WORKER], input=json.dumps(job), capture_output=True, text=True,
                           timeout=timeout, env=env, cwd="/tmp")
    except subprocess.TimeoutExpired:
        return None
    if p.returncode != 0:
        raise WorkerFailed(f"worker exited {p.returncode}: {p.stderr[-600:]}")
    return json.loads(p.stdout)


def make_schedules(rnd: random.Random, idxs: list[int], n_seq: int, n_thr: int,
                   probes: list[int] | None = None) -> list[dict[str, Any]]:
    out: list[dict[str, Any]] = []
    if probes and n_thr > 0:
        # every thread is inside the same guarded call with equal arguments at the same time (barrier inside the call)
        n_thr -= 1
        n = rnd.choice([2, 3, 4, 8, 16])
        o = list(probes)
        rnd.shuffle(o)
        out.append({"mode": "threads", "plans": [list(o) for _t in range(n)], "kind": "threads-probe", "threads": n,
                    "sched_seed": rnd.randrange(1 << 30), "sync_probes": True})
    for j in range(n_seq):
        order = list(idxs)
        if j == 0:
            order.reverse()
            kind = "seq-reversed"
        else:
            rnd.shuffle(order)
            kind = "seq-permuted"
        out.append({"mode": "seq", "order": order, "kind": kind, "limit": 5.0})
    for _ in range(n_thr):
        n = rnd.choice([2, 3, 4, 8, 12, 16])
        kind = rnd.choice(["all", "same", "split", "hot"])
        plans: list[list[int]] = []
        if kind == "all":
            n = min(n, 4)
            for _t in range(n):
                o = list(idxs)
                rnd.shuffle(o)
                plans.append(o)
        elif kind == "same":
            n = min(n, 4)
            o = list(idxs)
            rnd.shuffle(o)
            plans = [list(o) for _t in range(n)]
        elif kind == "split":
            plans = [[] for _t in range(n)]
            o = list(idxs)
            rnd.shuffle(o)
            for i in o:
                plans[rnd.randrange(n)].append(i)
        else:
            hot = rnd.sample(idxs, min(len(idxs), 25))
            plans = [list(hot) for _t in range(n)]
            o = [i for i in idxs if i not in set(hot)]
            rnd.shuffle(o)
            for i in o:
                plans[rnd.randrange(n)].append(i)
        out.append({"mode": "threads", "plans": plans, "kind": f"threads-{kind}", "threads": n,
                    "sched_seed": rnd.randrange(1 << 30)})
    return out


def call_sig(c: dict[str, Any]) -> str:
    return c["op"] + c.get("g", "") + "\0" + c.get("a", "") + "\0" + c.get("b", "")


KNOWN_SWAPPED_KEY = "singlemarker-eq-ignores-operand-order"
KNOWN_SWAPPED_WITNESS = {
    "calls": [{"op": "mparse", "a": '"nt" not in os_name'},
              {"op": "mval", "a": 'os_name not in "nt"', "env": {"os_name": "xntx"}},
              {"op": "mparse", "a": 'os_name not in "nt"'}],
    "hashseed": 1, "job": {"mode": "seq", "order": [2, 1, 0], "kind": "seq-reversed", "limit": 5.0}, "idx": 1,
    "expected": "bool|0", "got": "bool|1", "workload_seed": "minimal"}


def job_of(calls: list[dict[str, Any]], sched: dict[str, Any]) -> dict[str, Any]:
    return {"calls": calls, **{k: v for k, v in sched.items() if k not in ("kind", "threads")}}


def attributed_to_swapped_eq(wl: dict[str, Any], sched: dict[str, Any]) -> bool:
    """Do the differences of this (reference, schedule) pair vanish when SingleMarker equality distinguishes
    `"x" in name` from `name in "x"`?  Then they are instances of ONE defect (equal-but-different cache keys) and are
    reported under one key with a minimal witness instead of one violation per generated input."""
    calls, hs = wl["calls"], wl["hashseed"]
    try:
        ref_res = run_worker({"calls": calls, "mode": "seq", "order": list(range(len(calls))), "limit": 2.0,
                              "shim": "swapped_eq"}, hs, 300)
        if ref_res is None:
            return False
        ref = {i: txt for _t, i, txt, _s in ref_res["results"]}
        for k in range(1 if sched["mode"] == "seq" else 2):
            job = job_of(calls, sched)
            job["shim"] = "swapped_eq"
            job["sched_seed"] = int(job.get("sched_seed", 0)) + k
            res = run_worker(job, hs, 300)
            if res is None or any(i in ref and txt != ref[i] for _t, i, txt, _s in res["results"]):
                return False
        return True
    except WorkerFailed:
        return False


def compare(ctx: core.Ctx, wl: dict[str, Any], sched: dict[str, Any], res: dict[str, Any], ref: dict[int, str],
            stream: str) -> int:
    calls = wl["calls"]
    bad = []
    for th, i, txt, _secs in res["results"]:
        exp = ref.get(i)
        if exp is None:
            continue
        ctx.case(call_sig(calls[i]) + "|" + sched["kind"], nontrivial=not exp.startswith("!"))
        if txt != exp:
            bad.append((th, i, txt, exp))
    if bad and attributed_to_swapped_eq(wl, sched):
        th, i, txt, exp = bad[0]
        ctx.count("mismatch:attributed-to-" + KNOWN_SWAPPED_KEY, len(bad))
        ctx.violate(KNOWN_SWAPPED_KEY,
                    'SingleMarker.__eq__/__hash__ ignore the operand order, so `"nt" not in os_name` == `os_name not in "nt"` '
                    "although they differ in truth; through the process-wide caches (cnf, dnf, _merge_single_markers) whichever "
                    "was seen first replaces the other: parse_marker('os_name not in \"nt\"') is true for os_name=xntx after "
                    "parse_marker('\"nt\" not in os_name') was called, false in a fresh process. "
                    f"({len(bad)} differing calls of workload {wl['name']} under {sched['kind']}, e.g. #{i} {calls[i]}: "
                    f"{txt!r} vs fresh {exp!r}; all vanish when equality sees the operand order)",
                    KNOWN_SWAPPED_WITNESS)
    else:
        for th, i, txt, exp in bad[:3]:
            ctx.violate(
                f"{sched['kind']}:{call_sig(calls[i])}",
                f"call #{i} {calls[i]} under schedule {sched['kind']}"
                f"{'/' + str(sched.get('threads')) + ' threads' if sched['mode'] == 'threads' else ''} (thread {th}) gave "
                f"{txt!r}; the sequential run in a fresh process gives {exp!r}",
                {"calls": calls, "hashseed": wl["hashseed"], "job": dict(sched), "idx": i, "expected": exp, "got": txt,
                 "workload_seed": wl["name"]})
    if not res["stacks_empty"]:
        # model: quiescent_all_empty.  Not a result difference by itself → correspondence disagreement; `search` then
        # looks for a call whose result differs because of the stale entry
        ctx.disagree("quiescence", {"workload": wl["name"], "schedule": sched["kind"]}, f"call_args left: {res['stacks']}",
                     "every list empty")
    ctx.stream(stream, len(res["results"]), 0)
    ctx.count("schedule:" + sched["kind"])
    return len(bad)


# ------------------------------------------------------------------------------------------
# trace correspondence (model verdicts vs. what the code did)
# ------------------------------------------------------------------------------------------

def check_trace(ctx: core.Ctx, wl: dict[str, Any], res: dict[str, Any], threaded: bool) -> None:
    tag = "thr" if threaded else "seq"
    for msg in res.get("instrument_errors", []):
        ctx.disagree(f"trace-instrument-{tag}", wl["name"], msg, "bookkeeping of the shape the model mirrors")
    evs = res.get("trace") or []
    guards: dict[str, list[Any]] = {}
    memos: dict[str, list[Any]] = {}
    lazies: dict[int, list[Any]] = {}
    for e in evs:
        if e[0] == "G":
            guards.setdefault(e[1], []).append(e)
        elif e[0] == "M":
            memos.setdefault(e[1], []).append(e)
        elif e[0] == "L":
            lazies.setdefault(e[1], []).append(e)
        elif e[0] == "H":
            # a detect_recursion test answered by a frame older than a cached computation still running: the value
            # that computation caches may depend on the caller's stack (outside `memo_transparent_cnf_untainted`)
            ctx.count(f"h1:foreign-frame-hit:{e[1]}:{e[2]}")
            wl.setdefault("foreign_hits", []).append(e)
    lines: list[str] = []
    expect: list[tuple[str, str, list[Any], list[str]]] = []   # (kind, name, events, expected verdict sets)
    for name, es in sorted(guards.items()):
        args, exp = [], []
        foreign = 0
        for (_g, _n, kind, owner, tok, r, actor) in es:
            args.append(f"{kind}:{actor}:{tok}")
            if owner != actor:
                foreign += 1
            if owner != actor and foreign <= 3:
                ctx.disagree(f"trace-guard-{tag}", {"function": name, "event": kind, "thread": actor}, f"list of key {owner}",
                             "the acting thread's own list")
            exp.append({"c": "R" if r else "P", "p": "+", "x": "!" if r == -1 else "="}[kind])
        lines.append(core.line("conc_guard", *args))
        expect.append(("guard", name, es, exp))
    for name, es in sorted(memos.items()):
        args, exp = [], []
        missed: dict[int, int] = {}
        pos: dict[int, int] = {}
        for j, (_m, _n, kind, cid, tok, _z) in enumerate(es):
            if kind == "c":
                args.append(f"c:{cid}:{tok}")
                pos[cid] = j
                exp.append("h")
            elif kind == "m":
                args.append(f"m:{cid}")
                if cid in pos:
                    exp[pos[cid]] = "m"
                exp.append("." if not threaded else ".r")
            elif kind == "f":
                args.append(f"f:{cid}:{tok}")
                exp.append("=")
            elif kind == "r":
                args.append(f"r:{cid}:{tok}")
                exp.append("=")
                pos.pop(cid, None)
            else:
                args.append(f"e:{cid}")
                exp.append("e")
                pos.pop(cid, None)
        if threaded:
            exp = [x if x not in ("h", "m") else "hm" for x in exp]
        lines.append(core.line("conc_memo", *args))
        expect.append(("memo", name, es, exp))
    for pid, es in sorted(lazies.items()):
        args = [f"{kind}:{t}:{o}" for (_l, _p, kind, t, o, _z) in es]
        exp = [{"r": "=", "b": ".", "w": ".", "p": "."}[e[2]] for e in es]
        lines.append(core.line("conc_lazy", *args))
        expect.append(("lazy", str(pid), es, exp))
    replies = core.run_driver(lines) if lines else []
    for (kind, name, es, exp), rep in zip(expect, replies):
        stream = f"trace-{kind}-{tag}"
        dis = 0
        if rep[0] != "ok" or len(rep[1]) != len(es):
            ctx.disagree(stream, name, f"{len(es)} events", rep[:1])
            ctx.stream(stream, len(es), 1)
            continue
        verd = rep[1]
        for j, (v, x) in enumerate(zip(verd, exp)):
            ctx.count(f"{kind}:{es[j][2]}:{v}")
            if v not in x:
                dis += 1
                if dis <= 3:
                    ctx.disagree(stream, {"function": name, "event#": j, "event": es[j], "workload": wl["name"]},
                                 f"code: {x}", f"model: {v}")
        if kind == "guard":
            model_empty = rep[2] == "1"
            if model_empty != bool(res["stacks_empty"]):
                dis += 1
                ctx.disagree(stream, {"function": name, "at": "quiescence"}, f"stacks_empty={res['stacks_empty']} {res['stacks']}",
                             f"stacks_empty={model_empty} {rep[3]}")
        ctx.stream(stream, len(es), dis)


# ------------------------------------------------------------------------------------------
# one workload
# ------------------------------------------------------------------------------------------

def start_workload(ctx: core.Ctx, name: str, n_calls: int, pool: Any) -> dict[str, Any]:
    rnd = ctx.rng
    wl = {"name": name, "calls": gen_workload(rnd, n_calls), "hashseed": rnd.randrange(1, 1 << 20)}
    wl["ref_future"] = pool.submit(run_worker, {"calls": wl["calls"], "mode": "seq", "order": list(range(n_calls)),
                                                "limit": 2.0}, wl["hashseed"], 300)
    return wl


def schedule_workload(ctx: core.Ctx, wl: dict[str, Any], n_seq: int, n_thr: int, trace: bool, pool: Any) -> None:
    rnd = ctx.rng
    calls, name = wl["calls"], wl["name"]
    wl["jobs"], wl["tjobs"], wl["ref"] = [], [], None
    try:
        ref_res = wl.pop("ref_future").result()
    except WorkerFailed as e:
        ctx.disagree("worker-crash", {"workload": name, "schedule": "reference"}, str(e), "worker completes")
        return
    if ref_res is None:
        ctx.timeouts += 1
        return
    ref = {i: txt for _t, i, txt, secs in ref_res["results"] if secs <= 0.6}
    wl["ref"] = ref
    slow = len(calls) - len(ref)
    ctx.timeouts += slow
    ctx.count("calls:slow-or-timeout-skipped", slow)
    for c in calls:
        ctx.count("op:" + c["op"])
    for i, txt in ref.items():
        ctx.count("ref:" + (txt if txt.startswith("!") else "ok"))
    if len(ctx.samples) < 12:
        for i in list(ref)[:4]:
            ctx.samples.append({"call": calls[i], "reference": ref[i]})
    if not ref_res["stacks_empty"]:
        ctx.disagree("quiescence", {"workload": name, "schedule": "seq"}, f"call_args left: {ref_res['stacks']}",
                     "every list empty")
    good = sorted(ref)
    probes = [i for i in good if calls[i]["op"][0] == "p"]
    for s in make_schedules(rnd, good, n_seq, n_thr, probes):
        wl["jobs"].append((s, pool.submit(run_worker, job_of(calls, s), wl["hashseed"], 240)))
    if trace:
        sub = sorted(set(good[:: max(1, len(good) // 80)][:80]) | set(probes))
        o = list(sub)
        rnd.shuffle(o)
        wl["tjobs"].append((False, pool.submit(run_worker, {"calls": calls, "mode": "seq", "order": sub, "limit": 5.0,
                                                           "trace": True}, wl["hashseed"], 240)))
        n = rnd.choice([2, 4, 6])
        same = rnd.random() < 0.5
        plans = [list(o) for _ in range(n)] if same else [rnd.sample(o, len(o)) for _ in range(n)]
        wl["tjobs"].append((True, pool.submit(run_worker, {"calls": calls, "mode": "threads", "plans": plans, "trace": True,
                                                          "sync_probes": same, "sched_seed": rnd.randrange(1 << 30)},
                                              wl["hashseed"], 240)))


def collect_workload(ctx: core.Ctx, wl: dict[str, Any]) -> None:
    calls, name, ref = wl["calls"], wl["name"], wl["ref"]
    for s, fut in wl["jobs"]:
        try:
            res = fut.result()
        except WorkerFailed as e:
            ctx.disagree("worker-crash", {"workload": name, "schedule": s["kind"]}, str(e), "worker completes")
            continue
        if res is None:
            ctx.timeouts += 1
            ctx.count("schedule:timeout")
            continue
        ctx.timeouts += len(res["timeouts"])
        compare(ctx, wl, s, res, ref, "results-" + s["kind"].split("-")[0])
    for threaded, fut in wl["tjobs"]:
        try:
            res = fut.result()
        except WorkerFailed as e:
            ctx.disagree("worker-crash", {"workload": name, "schedule": "trace"}, str(e), "worker completes")
            continue
        if res is None:
            ctx.timeouts += 1
            continue
        # results of the instrumented run are compared too (the wrappers must be transparent), as a disagreement only
        for th, i, txt, _s in res["results"]:
            if i in ref and txt != ref[i]:
                ctx.disagree("traced-results", {"call": calls[i], "thread": th, "workload": name}, txt, ref[i])
        check_trace(ctx, wl, res, threaded)


def run_batch(ctx: core.Ctx, names: list[str], n_seq: int, n_thr: int, trace: bool, pool: Any) -> None:
    wls = [start_workload(ctx, nm, 300, pool) for nm in names]
    for wl in wls:
        schedule_workload(ctx, wl, n_seq, n_thr, trace, pool)
    for wl in wls:
        collect_workload(ctx, wl)


def correspondence(ctx: core.Ctx) -> None:
    n_wl = ctx.budget(3, 40)
    n_seq = ctx.budget(2, 9)
    n_thr = ctx.budget(3, 20)
    with concurrent.futures.ThreadPoolExecutor(max_workers=ctx.budget(10, 12)) as pool:
        for w0 in range(0, n_wl, 4):
            run_batch(ctx, [f"seed{ctx.seed}-w{w}" for w in range(w0, min(n_wl, w0 + 4))], n_seq, n_thr, True, pool)


def search(ctx: core.Ctx) -> None:
    """A proof or the trace correspondence broke: look harder for a call whose result depends on schedule/history."""
    with concurrent.futures.ThreadPoolExecutor(max_workers=12) as pool:
        for w in range(3):
            if ctx.violations:
                return
            run_batch(ctx, [f"seed{ctx.seed}-search{w}-{j}" for j in range(3)], 3, 9, False, pool)


REPLAY_TRIES = 5


def replay(ctx: core.Ctx, payload: dict[str, Any]) -> bool:
    w = payload.get("witness", payload)
    calls, hs = w["calls"], int(w["hashseed"])
    idxs = list(range(len(calls)))
    ref_res = run_worker({"calls": calls, "mode": "seq", "order": idxs, "limit": 5.0}, hs, 600)
    if ref_res is None:
        print("replay: reference run timed out")
        return False
    ref = {i: txt for _t, i, txt, _s in ref_res["results"]}
    job = {"calls": calls, **{k: v for k, v in w["job"].items() if k not in ("kind", "threads")}}
    tries = 1 if w["job"]["mode"] == "seq" else REPLAY_TRIES
    for k in range(tries):
        if k:
            job["sched_seed"] = int(job.get("sched_seed", 0)) + k
        res = run_worker(job, hs, 600)
        if res is None:
            continue
        bad = [(th, i, txt) for th, i, txt, _s in res["results"] if i in ref and txt != ref[i]]
        if bad or not res["stacks_empty"]:
            th, i, txt = bad[0] if bad else (0, -1, json.dumps(res["stacks"]))
            print(f"replay: attempt {k + 1}/{tries}: call #{i} {calls[i] if i >= 0 else ''} gave {txt!r}, "
                  f"sequential fresh-process result {ref.get(i, 'empty stacks')!r}"
                  + (f" ({len(bad)} differing calls)" if len(bad) > 1 else ""))
            ctx.violate(f"replay:{i}", "replayed", w)
            return True
    if tries > 1:
        print(f"replay: the recorded thread schedule was re-run {tries} times without a difference "
              "(thread interleavings are not reproducible exactly; the witness may be flaky)")
    return False


def extra_evidence(ctx: core.Ctx) -> dict[str, Any]:
    hits = sum(v for k, v in ctx.dist.items() if k.startswith("h1:foreign-frame-hit"))
    return {"replay_note": f"thread-schedule witnesses are re-run up to {REPLAY_TRIES} times on replay",
            "switch_interval": 1e-6,
            "h1_foreign_frame_hits_in_traces": hits,
            "h1_note": "0 = every cached cnf/dnf/_merge/parse computation of the traced runs was taint-free in the sense of "
                       "Model/ConcTaint.lean, i.e. inside the domain where memo_transparent_*_untainted applies"}
