"""C18 — equal values hash equally and equality is an equivalence."""
from __future__ import annotations

import itertools
import random
import re
from typing import Any, Callable

from . import core, gen_marker as GM, gen_version as GV, marker_common as MC
from . import vc_common as V

PROP = "C18"
LEAN_MODULE = "PoetryVerif.Props.C18"
RULE = ("pools of objects per type (versions, version constraints, string constraints and the `extra` variant, markers, "
        "dependencies, package specifications and packages); each pool is built from families that contain many spellings of "
        "one value (1.0/1.0.0/v1.0/1.0+L/1.0+l/1.0.post0; '>=1,<2'/'>=1.0 <2.0'/'^1'; reordered and re-quoted marker text; names "
        "differing in case and separators; the same git URL with and without `.git`; extras in another order) and from results "
        "of the public algebra (x.intersect(x), x.union(x), x.union(empty), intersect/union/difference/invert/cnf/dnf of pool "
        "members) plus grammar-generated members; DERIVED objects (with_features / without_features / clone / with_constraint / "
        "constraint, marker and python_versions setters on a clone / with-, without- and without_optional_dependency_groups / "
        "to_dependency; marker.without_extras) next to independently constructed spellings of the derived value, each also "
        "with a usage history (prefix \\x02: every intermediate object is hashed, put in a set, printed and probed before the "
        "next step, so that a memo taken over from an ancestor shows). Every ordered pair of a pool is one case (all triples are examined through "
        "the equality matrix); a case is non-trivial when the two objects are different objects that compare equal, or when "
        "they belong to one family but compare unequal; distinct = distinct (kind, spec a, spec b).")
ASSUMPTIONS = [
    "Python's hash of str/int/tuple/None/bool is an uninterpreted function: the model compares hash INPUTS (equal inputs "
    "give equal hashes; unequal inputs may collide, which is not a defect) — the correspondence therefore checks "
    "`model keys equal => real hashes equal` and `real == <=> model ==`",
    "dependencies, package specifications and packages are judged by the real-code oracle on every pool object; the theorems are "
    "about Model/Dep.lean (C10's model of specification.py / dependency.py), tied to the real code here for the requirement "
    "texts of the pool (driver op `depeq`) and by C10's own correspondence for the constructors; `Package` = specification + "
    "version (`EqHash.Pkg`), oracle only",
    "interchangeability is judged on probe vectors (versions around every bound; the environment grid of C06; probe packages "
    "for dependencies); for dependencies equality deliberately ignores markers, python constraint, groups and optionality",
    "marker pools stay below 5 leaves per text so that intersect/union/cnf/dnf finish within the per-call limit",
]

KNOWN_D16 = "vcs-reference-prefix-equality"
KNOWN_RESOLVED = "vcs-resolved-reference-equality"
SEP = "\x01"
HIST = "\x02"   # spec prefix: every intermediate object is USED (hashed, put in a set, printed, probed) before the next step
CALL_LIMIT = 4.0


# ----------------------------------------------------------------------------------------
# object specifications: `text0 (\x01 op \x01 text)*`, folded from the left (the convention of C16)
# ----------------------------------------------------------------------------------------

class Obj:
    __slots__ = ("kind", "spec", "family", "obj", "err", "beh", "dump")

    def __init__(self, kind: str, spec: str, family: str) -> None:
        self.kind, self.spec, self.family = kind, spec, family
        self.obj: Any = None
        self.err: str | None = None
        self.beh: str = ""
        self.dump: str = ""


def _parse_fn(kind: str) -> Callable[[str], Any]:
    if kind == "version":
        from poetry.core.constraints.version import Version
        return Version.parse
    if kind == "constraint":
        from poetry.core.constraints.version import parse_constraint
        return parse_constraint
    if kind == "generic":
        from poetry.core.constraints.generic import parse_constraint as pg
        return pg
    if kind == "extra":
        from poetry.core.constraints.generic import parse_extra_constraint
        return parse_extra_constraint
    if kind == "marker":
        from poetry.core.version.markers import parse_marker
        return parse_marker
    raise ValueError(kind)


def touch(kind: str, o: Any) -> Any:
    """ordinary use of an object that fills every memo it may carry: hash, set membership, text, probes"""
    hash(o)
    assert o in {o}
    try:
        str(o)
    except Exception:  # noqa: BLE001
        pass
    try:
        if kind == "constraint":
            from poetry.core.constraints.version import Version
            o.is_simple()
            o.allows(Version.parse("1.0"))
            o.is_any()
        elif kind == "marker":
            o.validate({"python_version": "3.9", "python_full_version": "3.9.1", "sys_platform": "linux", "extra": set()})
        elif kind in ("dep", "pkg", "spec"):
            _ = o.complete_name
            if hasattr(o, "to_pep_508"):
                o.to_pep_508()
    except Exception:  # noqa: BLE001
        pass
    return o


def eval_spec(kind: str, spec: str) -> Any:
    """build the real object a spec denotes (prefix HIST: with a usage history on every intermediate object)"""
    hist = spec.startswith(HIST)
    if hist:
        spec = spec[1:]
    use = (lambda o: touch(kind, o)) if hist else (lambda o: o)
    if kind in ("dep", "pkg", "spec"):
        return eval_dep_chain(kind, spec, use)
    parse = _parse_fn(kind)
    parts = spec.split(SEP)
    cur = use(parse(parts[0]))
    i = 1
    while i < len(parts):
        o = parts[i]
        if kind == "version":
            cur = use(VERSION_OPS[o](cur))
            i += 1
            continue
        if o == "n" and kind in ("marker", "generic", "extra"):
            cur = use(cur.invert())
            i += 1
            continue
        if o in ("C", "D") and kind == "marker":
            from poetry.core.version import markers as M
            cur = use(M.cnf(cur) if o == "C" else M.dnf(cur))
            i += 1
            continue
        if o == "X" and kind == "marker":
            cur = use(cur.without_extras())
            i += 1
            continue
        b = use(parse(parts[i + 1]))
        if o == "i":
            cur = use(cur.intersect(b))
        elif o == "u":
            cur = use(cur.union(b))
        elif o == "d":
            cur = use(cur.difference(b))
        else:
            raise RuntimeError("bad chain op " + o)
        i += 2
    return cur


def eval_dep_chain(kind: str, spec: str, use: Callable[[Any], Any]) -> Any:
    """`base (\x01 op [\x01 arg])*` — derivation methods of PackageSpecification / Dependency / Package:
    wf <a,b> with_features; nf without_features; cl clone; wc <constraint> with_constraint; sc <constraint> constraint
    setter on a clone; sm <marker> marker setter on a clone; sp <python> python_versions setter on a clone;
    wg <groups> with_dependency_groups; ng <groups> without_dependency_groups; og without_optional_dependency_groups;
    td to_dependency"""
    parts = spec.split(SEP)
    cur = use(eval_dep(parts[0]))
    lst = lambda a: [x for x in a.split(",") if x]  # noqa: E731
    i = 1
    while i < len(parts):
        o = parts[i]
        arg = parts[i + 1] if i + 1 < len(parts) else ""
        step = 2
        if o == "wf":
            cur = cur.with_features(lst(arg))
        elif o == "nf":
            cur, step = cur.without_features(), 1
        elif o == "cl":
            cur, step = cur.clone(), 1
        elif o == "wc":
            cur = cur.with_constraint(arg)
        elif o == "sc":
            cur = cur.clone()
            cur.constraint = arg
        elif o == "sm":
            cur = cur.clone()
            cur.marker = arg
        elif o == "sp":
            cur = cur.clone()
            cur.python_versions = arg
        elif o == "wg":
            cur = cur.with_dependency_groups(lst(arg))
        elif o == "ng":
            cur = cur.without_dependency_groups(lst(arg))
        elif o == "og":
            cur, step = cur.without_optional_dependency_groups(), 1
        elif o == "td":
            cur, step = cur.to_dependency(), 1
        else:
            raise RuntimeError("bad derivation op " + o)
        cur = use(cur)
        i += step
    return cur


VERSION_OPS: dict[str, Callable[[Any], Any]] = {
    "M": lambda v: v.next_major(), "m": lambda v: v.next_minor(), "p": lambda v: v.next_patch(), "b": lambda v: v.next_breaking(),
    "s": lambda v: v.stable, "L": lambda v: v.without_local(), "P": lambda v: v.without_postrelease(),
    "F": lambda v: v.first_devrelease(),
}


def eval_dep(spec: str) -> Any:
    """`508|<requirement>`; `dep|name|constraint|extras`; `vcs|name|url|kind|ref|resolved|subdir|extras`;
    `url|name|url|subdir|extras`; `pkg|name|version|source_type|url|ref|resolved|subdir|features`;
    `spec|name|source_type|url|ref|resolved|subdir|features` ('-' = None)"""
    from poetry.core.packages.dependency import Dependency
    from poetry.core.packages.package import Package
    from poetry.core.packages.specification import PackageSpecification
    from poetry.core.packages.url_dependency import URLDependency
    from poetry.core.packages.vcs_dependency import VCSDependency
    f = spec.split("|")
    n = lambda s: None if s == "-" else s  # noqa: E731
    lst = lambda s: [x for x in s.split(",") if x] if s != "-" else None  # noqa: E731
    k = f[0]
    if k == "508":
        return Dependency.create_from_pep_508("|".join(f[1:]))
    if k == "dep":
        return Dependency(f[1], f[2], extras=lst(f[3]))
    if k == "vcs":
        kw: dict[str, Any] = {f[4]: n(f[5])} if f[4] != "-" else {}
        return VCSDependency(f[1], "git", f[2], resolved_rev=n(f[6]), directory=n(f[7]), extras=lst(f[8]), **kw) \
            if f[3] == "git" else VCSDependency(f[1], f[3], f[2], resolved_rev=n(f[6]), directory=n(f[7]), extras=lst(f[8]), **kw)
    if k == "url":
        return URLDependency(f[1], f[2], directory=n(f[3]), extras=lst(f[4]))
    if k == "pkg":
        return Package(f[1], f[2], source_type=n(f[3]), source_url=n(f[4]), source_reference=n(f[5]),
                       source_resolved_reference=n(f[6]), source_subdirectory=n(f[7]), features=lst(f[8]))
    if k == "spec":
        return PackageSpecification(f[1], source_type=n(f[2]), source_url=n(f[3]), source_reference=n(f[4]),
                                    source_resolved_reference=n(f[5]), source_subdirectory=n(f[6]), features=lst(f[7]))
    raise ValueError("bad dependency spec " + spec)


# ----------------------------------------------------------------------------------------
# behaviour vectors ("interchangeable") and canonical dumps
# ----------------------------------------------------------------------------------------

VERSION_PROBES = ["0.9", "1", "1.0", "1.0.0", "1.0+l", "1.0+0", "1.0.post0", "1.0.post1", "1.0.dev0", "1.0a1", "1.0rc1", "1.0.1",
                  "1.1", "1.2", "1.2.3", "1.5", "1.9.9", "2", "2.0.0", "2.0.dev0", "2.0a1", "2.1", "3", "0", "0.0.1", "1!1.0", "1!0",
                  "1.0+local", "1.0+abc.1", "1.2.3+l", "2.0.post1", "1.2.3.post1", "1.2.3.dev1", "1.2.4", "1.3", "0.1", "0.2"]

_ENVS: list[dict[str, Any]] | None = None


def envs() -> list[dict[str, Any]]:
    global _ENVS
    if _ENVS is None:
        _ENVS = GM.env_grid(random.Random(18), 30)
    return _ENVS


def behaviour(kind: str, o: Any) -> str:
    """what an object admits / where it holds, on fixed probes; equal objects must agree here"""
    if kind == "version":
        from poetry.core.constraints.version import Version, parse_constraint
        ps = [Version.parse(p) for p in VERSION_PROBES]
        rel = "".join("<" if o < p else (">" if o > p else "=") for p in ps)
        return V.bits(o, ps) + "|" + rel + "|" + "".join("1" if c.allows(o) else "0" for c in
                                                             (parse_constraint(s) for s in (">=1,<2", ">1.0", "<=1.0", "==1.0.*", "!=1.0", "1.0")))
    if kind == "constraint":
        from poetry.core.constraints.version import Version
        return V.bits(o, [Version.parse(p) for p in VERSION_PROBES])
    if kind == "generic":
        from poetry.core.constraints.generic import Constraint
        return "".join("1" if o.allows(Constraint(p)) else "0" for p in ("a", "b", "c", "d", "ab", "linux", "win32", "z", "a b"))
    if kind == "extra":
        from . import c16
        subsets = [frozenset(s) for r in range(4) for s in itertools.combinations(["a", "b", "c"], r)] + [frozenset(["z"]), frozenset(["a", "z"])]
        return "".join("1" if c16.den_extra(o, s) else "0" for s in subsets)
    if kind == "marker":
        return MC.truth(o, envs())
    if kind in ("dep", "pkg", "spec"):
        return dep_behaviour(o)
    raise ValueError(kind)


def dep_behaviour(o: Any) -> str:
    from poetry.core.packages.dependency import Dependency
    from poetry.core.packages.package import Package
    out = [o.name, ",".join(sorted(o.features)), str(o.source_type), str(o.source_url), str(o.source_subdirectory or "")]
    if isinstance(o, Dependency):
        if not o.is_direct_origin():
            out.append("".join("1" if o.constraint.allows(p) else "0" for p in _dep_probe_versions()))
    elif isinstance(o, Package):
        out.append("".join("<" if o.version < p else (">" if o.version > p else "=") for p in _dep_probe_versions()))
    return "|".join(out)


_DPV: list[Any] | None = None


def _dep_probe_versions() -> list[Any]:
    global _DPV
    if _DPV is None:
        from poetry.core.constraints.version import Version
        _DPV = [Version.parse(p) for p in VERSION_PROBES]
    return _DPV


def dump(kind: str, o: Any) -> str:
    if kind == "version":
        from . import c03
        return c03.impl_dump(o)
    if kind == "constraint":
        return V.dump(o)
    if kind in ("generic", "extra"):
        from . import c16
        return c16.dump(o)
    if kind == "marker":
        return MC.mdump(o)
    return repr(o)


def text_of(o: Any) -> str:
    try:
        return str(o)
    except Exception:  # noqa: BLE001
        return "<unprintable>"


def reparse(kind: str, o: Any) -> Any:
    """the object obtained by parsing the object's own text (None: the type has no text form to re-read)"""
    if kind in ("version", "constraint", "generic", "extra", "marker"):
        return _parse_fn(kind)(str(o))
    if kind == "dep":
        from poetry.core.packages.dependency import Dependency
        if type(o).__name__ in ("Dependency", "VCSDependency", "URLDependency"):
            return Dependency.create_from_pep_508(o.to_pep_508())
    return None


# ----------------------------------------------------------------------------------------
# the oracle on one pool
# ----------------------------------------------------------------------------------------

def build(ctx: core.Ctx, kind: str, specs: list[tuple[str, str]]) -> list[Obj]:
    out: list[Obj] = []
    seen: set[str] = set()
    for fam, spec in specs:
        if spec in seen:
            continue
        seen.add(spec)
        ob = Obj(kind, spec, fam)
        if kind == "marker":
            # equal-and-hash-equal markers would be handed out for one another by the functools caches (C20's subject)
            MC.clear_caches()
        try:
            ob.obj = core.with_alarm(CALL_LIMIT, lambda: eval_spec(kind, spec))
            ob.beh = core.with_alarm(CALL_LIMIT * 3, lambda: behaviour(kind, ob.obj))
            ob.dump = dump(kind, ob.obj)
        except core.Timeout:
            ctx.timeouts += 1
            ctx.count(f"{kind}:timeout")
            if kind == "marker":
                MC.clear_caches()
            continue
        except Exception as e:  # noqa: BLE001
            ob.err = V.errname(e) if kind != "marker" else MC.errname(e)
            ctx.count(f"{kind}:unbuildable:{ob.err}")
        out.append(ob)
    return out


def wit(kind: str, *objs: Obj, check: str) -> dict[str, Any]:
    return {"kind": kind, "check": check, "specs": [o.spec for o in objs]}


def classify(kind: str, check: str, objs: list[Obj]) -> str | None:
    """class keys of the recorded findings; None = keyed per input"""
    if kind in ("dep", "pkg", "spec") and check == "transitive":
        if is_prefix_case(objs):
            return KNOWN_D16
        if is_resolved_case(objs):
            return KNOWN_RESOLVED
    return None


def is_degenerate(c: Any) -> bool:
    from poetry.core.constraints.version import VersionRange, VersionUnion
    if isinstance(c, VersionUnion):
        return any(is_degenerate(r) for r in c.ranges)
    return isinstance(c, VersionRange) and c.min is not None and c.min == c.max


def is_prefix_case(objs: list[Obj]) -> bool:
    refs = [o.obj.source_reference for o in objs if o.obj is not None and o.obj.source_reference]
    return any(a != b and b.startswith(a) for a in refs for b in refs)


def is_resolved_case(objs: list[Obj]) -> bool:
    """a triple whose source references differ, tied only through resolved references present on some members and absent or
    equal on others (`is_same_source_as`: equal resolved references win over the references; an absent one matches any)"""
    res = [o.obj.source_resolved_reference for o in objs if o.obj is not None]
    return any(res) and (len({r for r in res}) > 1 or len({o.obj.source_reference for o in objs}) > 1)


def violate(ctx: core.Ctx, kind: str, check: str, what: str, objs: list[Obj]) -> None:
    key = classify(kind, check, objs) or f"{kind}:{check}:" + "|".join(o.spec for o in objs)
    ctx.violate(key, what, FIXED_WITNESS.get(key, wit(kind, *objs, check=check)))


def safe_eq(a: Any, b: Any) -> Any:
    try:
        r = a == b
    except Exception as e:  # noqa: BLE001
        return e
    return r


def oracle(ctx: core.Ctx, kind: str, pool: list[Obj], stream: str) -> tuple[list[Obj], list[int], list[Any]]:
    """all pairs and (through the row sets of the equality matrix) all triples of the pool"""
    objs = [o for o in pool if o.err is None]
    n = len(objs)
    rows = [0] * n
    hs: list[Any] = []
    for o in objs:
        try:
            hs.append(hash(o.obj))
        except Exception as e:  # noqa: BLE001
            hs.append(None)
            violate(ctx, kind, "hash-raises", f"hash({o.spec!r}) raised {type(e).__name__}", [o])
    for i, a in enumerate(objs):
        for j, b in enumerate(objs):
            r = safe_eq(a.obj, b.obj)
            if isinstance(r, Exception):
                violate(ctx, kind, "eq-raises", f"{a.spec!r} == {b.spec!r} raised {type(r).__name__}", [a, b])
                r = False
            if r is NotImplemented or not isinstance(r, bool):
                violate(ctx, kind, "eq-not-bool", f"{a.spec!r} == {b.spec!r} returned {r!r}", [a, b])
                r = bool(r)
            if (a.obj != b.obj) == r:
                violate(ctx, kind, "ne-incoherent", f"{a.spec!r} != {b.spec!r} does not negate ==", [a, b])
            if r:
                rows[i] |= 1 << j
            samefam = a.family == b.family and i != j
            ctx.case(f"{kind}:{a.spec}\0{b.spec}", nontrivial=(r and i != j) or (samefam and not r),
                     sample={"kind": kind, "a": a.spec, "b": b.spec, "eq": r, "hash_eq": hs[i] == hs[j]} if r and i < j and a.spec != b.spec else None)
        ctx.count(f"{kind}:objects")
    eqpairs = 0
    for i, a in enumerate(objs):
        if not rows[i] >> i & 1:
            violate(ctx, kind, "reflexive", f"{a.spec!r} is not equal to itself", [a])
        for j, b in enumerate(objs):
            if not rows[i] >> j & 1:
                continue
            if i != j:
                eqpairs += 1
            if not rows[j] >> i & 1:
                violate(ctx, kind, "symmetric", f"{a.spec!r} == {b.spec!r} but not the other way round", [a, b])
            if hs[i] is not None and hs[j] is not None and hs[i] != hs[j]:
                violate(ctx, kind, "hash", f"{a.spec!r} == {b.spec!r} ({a.dump} / {b.dump}) but the hashes differ", [a, b])
            elif hs[i] is not None and hs[j] is not None and (hash(a.obj) != hash(b.obj) or a.obj not in {b.obj}):
                # the hash asked again (after the comparisons above) or set membership disagrees
                violate(ctx, kind, "set-membership", f"{a.spec!r} == {b.spec!r} but `a in {{b}}` is false", [a, b])
            if a.beh != b.beh:
                violate(ctx, kind, "interchangeable", f"{a.spec!r} == {b.spec!r} but they behave differently "
                        f"({a.beh[:60]} / {b.beh[:60]})", [a, b])
            miss = rows[j] & ~rows[i]
            if miss:
                k = miss.bit_length() - 1
                violate(ctx, kind, "transitive", f"{a.spec!r} == {b.spec!r} and {b.spec!r} == {objs[k].spec!r} but "
                        f"{a.spec!r} != {objs[k].spec!r}", [a, b, objs[k]])
    ctx.count(f"{kind}:equal-pairs", eqpairs)
    # re-parsing the text
    for a in objs:
        try:
            b = core.with_alarm(CALL_LIMIT, lambda: reparse(kind, a.obj))
        except core.Timeout:
            ctx.timeouts += 1
            continue
        except Exception as e:  # noqa: BLE001
            ctx.count(f"{kind}:reparse-raises:{type(e).__name__}")   # printing/re-reading is C15/C13/C10's subject
            # ... except where this property's own clause is plain: a non-empty version constraint obtained from the parser or
            # the algebra has a text the parser reads back (`<empty>` is the one printed form without a spelling; a raw
            # spelling ending in a separator is C15's listed class)
            if kind == "constraint":
                t = text_of(a.obj)
                if t != "<empty>" and not re.search(r"[-_.]\s*($|,|\|)", t):
                    violate(ctx, kind, "reparse-raises", f"str({a.spec!r}) = {t!r} is not read back by parse_constraint: {type(e).__name__}", [a])
            continue
        if b is None:
            continue
        eq = safe_eq(a.obj, b) is True and safe_eq(b, a.obj) is True
        try:
            bb = behaviour(kind, b)
        except Exception:  # noqa: BLE001
            bb = "?"
        ctx.count(f"{kind}:reparse:" + ("equal" if eq else ("equivalent" if bb == a.beh else "different")))
        if eq and hash(b) != hash(a.obj):
            tmp = Obj(kind, a.spec, a.family)
            tmp.obj = b
            violate(ctx, kind, "reparse-hash", f"re-parsing str({a.spec!r}) gives an equal object with another hash", [a, tmp])
        if not eq and bb != a.beh and reparse_in_domain(kind, a.obj):
            violate(ctx, kind, "reparse", f"re-parsing str({a.spec!r}) = {str(a.obj)!r} gives an object that is neither equal nor "
                    f"equivalent", [a])
    ctx.stream(stream, n * n, 0)
    return objs, rows, hs


def reparse_in_domain(kind: str, o: Any) -> bool:
    """text round trips that other properties record as known findings are not judged again here (none at present)"""
    return True


FIXED_WITNESS: dict[str, dict[str, Any]] = {
    KNOWN_D16: {"kind": "dep", "check": "transitive",
                "specs": ["508|foo @ git+https://github.com/a/b.git@abc", "508|foo @ git+https://github.com/a/b.git@abcdef",
                          "508|foo @ git+https://github.com/a/b.git@abcxyz"]},
    KNOWN_RESOLVED: {"kind": "dep", "check": "transitive",
                     "specs": ["vcs|foo|https://github.com/a/b.git|git|branch|main|-|-|-",
                               "vcs|foo|https://github.com/a/b.git|git|branch|main|abcdef0|-|-",
                               "vcs|foo|https://github.com/a/b.git|git|rev|abcdef0|abcdef0|-|-"]},
}


# ----------------------------------------------------------------------------------------
# pools: families of spellings of one value + algebra results + generated members
# ----------------------------------------------------------------------------------------

VERSION_FAMILIES: dict[str, list[str]] = {
    "1.0": ["1.0", "1.0.0", "v1.0", "1", "1.0.0.0", " 1.0 ", "V1.0", "0!1.0", "1.00", "1.0\n", "01.0"],
    "1.0+l": ["1.0+L", "1.0+l", "1.0.0+l", "v1.0+L", "1+l"],
    "1.0+0": ["1.0+0", "1.0+00", "1.0.0+0"],
    "1.0+a.1": ["1.0+a.1", "1.0+a-1", "1.0+A_01", "1.0.0+a.1"],
    "1.0.post0": ["1.0.post0", "1.0-0", "1.0post", "1.0.post", "1.0.r0", "1.0.rev", "1.0.0-0", "1.0.POST0"],
    "1.0.post1": ["1.0.post1", "1.0-1", "1.0post1", "1.0.r1", "1.0_rev_1"],
    "1.0a1": ["1.0a1", "1.0alpha1", "1.0.a.1", "1.0-A_1", "1.0.0a1", "1.0ALPHA1"],
    "1.0rc1": ["1.0rc1", "1.0c1", "1.0pre1", "1.0preview1", "1.0RC1", "1.0.0-rc.1"],
    "1.0.dev0": ["1.0.dev0", "1.0dev", "1.0.DEV", "1.0-dev0", "1.0.0.dev0"],
    "1.0a1.dev1": ["1.0a1.dev1", "1.0alpha1dev1", "1.0.0a1-dev1"],
    "1!1.0": ["1!1.0", "1!1", "01!1.0.0"],
    "2.0": ["2.0", "2", "2.0.0", "1.0\x01M", "1.5.post1\x01M", "1.9\x01b", "2.0a1\x01s", "2.0+x\x01L", "2.0.0.0"],
    "1.1": ["1.1", "1.1.0", "1.0\x01m", "1.0.5\x01m", "0.1\x01M\x01m", "1.1.post2\x01P", "1.1+l\x01L"],
    "1.0.1": ["1.0.1", "1.0\x01p", "1.0.1.0", "1.0.0.post3\x01p"],
    "1.0.dev0'": ["1.0\x01F", "1.0+l\x01F"],
}


def version_pool(ctx: core.Ctx, n_gen: int) -> list[tuple[str, str]]:
    rnd = ctx.rng
    out = [(fam, s) for fam, ss in VERSION_FAMILIES.items() for s in ss]
    for _ in range(n_gen):
        s = GV.version(rnd, fancy=0.6, local=0.3, maxlen=3)
        if not core.valid_utf8(s):
            continue
        out.append(("g:" + s, s))
        for _ in range(rnd.randint(1, 3)):
            r = GV.related(rnd, s)
            if core.valid_utf8(r) and "ſ" not in r and "K" not in r:
                out.append(("g:" + s, r))
        if rnd.random() < 0.3:
            out.append(("g:" + s, s + SEP + rnd.choice("MmpbsLPF")))
    return out


CONSTRAINT_FAMILIES: dict[str, list[str]] = {
    ">=1,<2": [">=1,<2", ">=1.0 <2.0", "^1", ">=1.0.0,<2.0.0", "~1", ">=1, <2", "<2,>=1", "^1.0", ">= 1 , < 2", ">=1,<2 || >=1.5,<2",
               ">=1,<2\x01i\x01>=1,<2", ">=1,<2\x01u\x01>=1,<2", ">=1,<2\x01u\x011.5", ">=1,<3\x01i\x01<2", ">=1,<1.5\x01u\x01>=1.5,<2",
               ">=1\x01d\x01>=2", "*\x01i\x01^1", "^1\x01d\x013.0", ">=1,<2\x01i\x01*", ">=1,<2\x01u\x01>=1,<2\x01i\x01^1.0"],
    "1.0": ["1.0", "==1.0", "=1.0", "== 1.0.0", "1.0.0", "v1.0", ">=1.0,<=1.0", "1.0\x01i\x011.0", "1.0\x01u\x011.0", ">=1\x01i\x01<=1",
            "1.0\x01i\x01>=0.5", "1.0\x01u\x011.0.0", "<=1.0\x01d\x01<1.0", "1.0 || 1.0.0", "1.0 || 1"],
    "1.0+local": ["1.0+local", "==1.0+LOCAL", "1.0.0+local", "1.0 || 1.0+local", "1.0\x01u\x011.0+local", "1.0+local\x01u\x011.0",
                  "1.0+local\x01i\x011.0", ">=1.0+local,<=1.0+local", "1.0+local || 1.0"],
    "!=1.5": ["!=1.5", "<1.5 || >1.5", "!= 1.5.0", "<>1.5", "*\x01d\x011.5", "<1.5\x01u\x01>1.5", ">1.5 || <1.5", "!=1.5,!=1.5", "!=1.5\x01i\x01*"],
    "1.*": ["1.*", "==1.*", ">=1.dev0,<2.dev0", "1.x", "==1.*.*"],
    "!=1.*": ["!=1.*", "<1.dev0 || >=2.dev0", "*\x01d\x011.*"],
    # a wildcard of a release with an epoch: the printer writes the epoch back (`==1!2.*`)
    "1!2.*": ["==1!2.*", "1!2.*", ">=1!2.dev0,<1!3.dev0", "==1!2.*\x01i\x01==1!2.*", "==1!2.*\x01u\x01==1!2.*"],
    "!=1!2.*": ["!=1!2.*", "<1!2.dev0 || >=1!3.dev0", "*\x01d\x01==1!2.*"],
    "~=1.2": ["~=1.2", ">=1.2,<2", ">=1.2,<2.0", "^1.2", "~=1.2.0\x01u\x01~=1.2", ">=1.2 <2"],
    "~=1.2.3": ["~=1.2.3", ">=1.2.3,<1.3", "~1.2.3", ">=1.2.3,<1.3.0", "~=1.2.3\x01i\x01>=1"],
    "union": ["<1 || >=2", ">=2 || <1", "<1.0||>=2.0", "<1 | >=2", "<1\x01u\x01>=2", "*\x01d\x01>=1,<2", "<1 || >=2 || >=3", "<0.5 || <1 || >=2",
              "<1 || >=2\x01i\x01*", "<1 || >=2\x01u\x01<1 || >=2", "<1 || >=2\x01i\x01<1 || >=2", "<1 || >=2,<5 || >=4"],
    "any": ["*", ">=0.dev0"[:0] + "*", "x", "X.x", "*\x01u\x011.0", "<1\x01u\x01>=1", "*\x01i\x01*", "*\x01d\x01<0", ">=0\x01u\x01<0"],
    "empty": [">2,<1", "1.0\x01i\x012.0", "1.0\x01d\x011.0", "<1\x01i\x01>2", "*\x01d\x01*", ">=1,<2\x01d\x01>=0", "1.0\x01d\x01*"],
    ">=1": [">=1", ">=1.0", ">= 1.0.0", ">=1\x01u\x01>=2", ">=1\x01i\x01>=0", ">=1 || >=2", ">=1,>=0.5", ">1\x01u\x011"],
    ">1": [">1", ">1.0", "> 1.0.0", ">1,>=1", ">=1\x01d\x011"],
    "<=2": ["<=2", "<=2.0", "<2\x01u\x012", "<=2.0.0,<=3", "<2 || 2.0"],
    "post": [">1.0.post1", "> 1.0-1", ">1.0.r1", ">1.0.post1,>1.0"],
    "pre": [">=1.0a1,<1.0", ">=1.0alpha1 <1.0.0", ">=1.0.a1,<1"],
}


def constraint_pool(ctx: core.Ctx, n_gen: int) -> list[tuple[str, str]]:
    rnd = ctx.rng
    out = [(fam, s) for fam, ss in CONSTRAINT_FAMILIES.items() for s in ss]
    for k in range(n_gen):
        s = V.gen_constraint(rnd, max_groups=2, max_clauses=2)
        fam = f"g{k}"
        out.append((fam, s))
        out.append((fam, s + SEP + "i" + SEP + s))
        out.append((fam, s + SEP + "u" + SEP + s))
        r = rnd.random()
        t = V.gen_constraint(rnd, max_groups=2, max_clauses=2)
        if r < 0.35:
            # (s ∪ t) ∩ s and (s ∩ t) ∪ s : equivalent to s when the algebra is exact, often structurally equal
            out.append((fam, s + SEP + "u" + SEP + t + SEP + "i" + SEP + s))
            out.append((fam, s + SEP + "i" + SEP + t + SEP + "u" + SEP + s))
        elif r < 0.6:
            out.append((f"g{k}'", s + SEP + rnd.choice("iud") + SEP + t))
            out.append((f"g{k}'", t + SEP + "iu"[rnd.randrange(2)] + SEP + s))
        elif r < 0.8:
            out.append((fam, respell_constraint(rnd, s)))
    return out


def respell_constraint(rnd: random.Random, s: str) -> str:
    import re
    def pad(m: Any) -> str:
        t = m.group(0)
        if rnd.random() < 0.5 and t.count(".") < 2:
            return t + ".0"
        return t
    s2 = re.sub(r"(?<![\w.+!])\d+(?:\.\d+)*(?![\w.*!+])", pad, s)
    if rnd.random() < 0.5:
        s2 = s2.replace(",", " , " if rnd.random() < 0.5 else ", ")
    if rnd.random() < 0.3:
        s2 = s2.replace("||", "|")
    return s2


GENERIC_FAMILIES: dict[str, list[str]] = {
    "a": ["a", "==a", "= a", " a ", "== a", "a\x01i\x01a", "a\x01u\x01a", "a\x01i\x01*", "a\x01u\x01a\x01i\x01a", "a\x01n\x01n", "!=a\x01n", "a || b\x01i\x01a"],
    "!=a": ["!=a", "!= a", "!=a\x01i\x01!=a", "!=a\x01u\x01!=a", "a\x01n", "!=a, !=a", "!=a\x01n\x01n", "*\x01d\x01a", "!=a\x01i\x01*"],
    "!=a,!=b": ["!=a, !=b", "!=a,!=b", "!=b, !=a", "!=a\x01i\x01!=b", "!=b\x01i\x01!=a", "a || b\x01n", "!=a, !=b\x01i\x01!=a", "!=a, !=b\x01u\x01!=a, !=b",
                "!=a, !=b, !=a"],
    "a||b": ["a || b", "a | b", "b || a", "a||b", "a\x01u\x01b", "b\x01u\x01a", "!=a, !=b\x01n", "a || b\x01u\x01a", "a || b\x01i\x01a || b",
             "a || b || a", "==a || ==b"],
    "any": ["*", "a\x01u\x01!=a", "!=a\x01u\x01a", "*\x01i\x01*", "*\x01u\x01a", "!=a\x01u\x01!=b"],
    "empty": ["a\x01i\x01b", "a\x01i\x01!=a", "*\x01n", "a, b", "a\x01d\x01a"],
    "in": ["'lin' in", "\"lin\" in", "'lin'  in", "'lin' in\x01i\x01'lin' in", "'lin' not in\x01n"],
    "notin": ["'lin' not in", "'lin' in\x01n", "\"lin\" not in", "'lin' not in\x01u\x01'lin' not in"],
    "linux": ["linux", "==linux", "linux\x01i\x01'lin' in", "linux\x01u\x01linux"],
}
EXTRA_FAMILIES: dict[str, list[str]] = {
    "a": ["a", "==a", "= a", " a ", "a\x01i\x01a", "a\x01u\x01a", "a\x01n\x01n", "!=a\x01n", "a\x01i\x01*"],
    "!=a": ["!=a", "!= a", "a\x01n", "!=a\x01i\x01!=a", "!=a\x01u\x01!=a", "!=a, !=a"],
    "a,b": ["a, b", "a,b", "b, a", "a\x01i\x01b", "b\x01i\x01a", "a, b\x01i\x01a", "a, b, a", "!=a || !=b\x01n"],
    "a||b": ["a || b", "b || a", "a\x01u\x01b", "a | b", "!=a, !=b\x01n", "a || b\x01u\x01b"],
    "a,!=b": ["a, !=b", "!=b, a", "a\x01i\x01!=b", "!=b\x01i\x01a"],
    "any": ["*", "a\x01u\x01!=a", "a || a\x01n\x01u\x01a"],
    "empty": ["a\x01i\x01!=a", "*\x01n", "a, !=a"],
}


def generic_pool(ctx: core.Ctx, x: bool, n_gen: int) -> list[tuple[str, str]]:
    rnd = ctx.rng
    fams = EXTRA_FAMILIES if x else GENERIC_FAMILIES
    out = [(fam, s) for fam, ss in fams.items() for s in ss]
    vals = ["a", "b", "c"]

    def clause() -> str:
        return rnd.choice(["", "==", "!=", "!=", "= "]) + rnd.choice(["", " "]) + rnd.choice(vals)

    def text() -> str:
        return rnd.choice([" || ", "||", " | "]).join(
            rnd.choice([", ", ","]).join(clause() for _ in range(rnd.randint(1, 3))) for _ in range(rnd.randint(1, 2)))
    for k in range(n_gen):
        s, t = text(), text()
        fam = f"g{k}"
        out.append((fam, s))
        out.append((fam, s + SEP + "i" + SEP + s))
        out.append((fam, s + SEP + "u" + SEP + s))
        out.append((fam, s + SEP + "n" + SEP + "n"))
        out.append((f"g{k}'", s + SEP + rnd.choice("iu") + SEP + t))
        out.append((f"g{k}'", t + SEP + rnd.choice("iu") + SEP + s))
    return out


MARKER_FAMILIES: dict[str, list[str]] = {
    "py38": ['python_version >= "3.8"', "python_version >= '3.8'", 'python_version>="3.8"', '  python_version  >=  "3.8"', '(python_version >= "3.8")',
             'python_version >= "3.8" and python_version >= "3.8"', 'python_version >= "3.8" or python_version >= "3.8"',
             'python_version >= "3.8"\x01i\x01python_version >= "3.8"', 'python_version >= "3.8"\x01u\x01python_version >= "3.8"',
             'python_version < "3.8"\x01n', 'python_version >= "3.8"\x01n\x01n', 'python_version >= "3.8"\x01C', 'python_version >= "3.8"\x01D',
             'python_version >= "3.8" and python_version >= "3.7"', 'python_version >= "3.8"\x01i\x01python_version >= "3.6"'],
    "and": ['python_version >= "3.8" and sys_platform == "linux"', 'sys_platform == "linux" and python_version >= "3.8"',
            "python_version >= '3.8' and sys_platform == 'linux'", '(python_version >= "3.8") and (sys_platform == "linux")',
            'python_version >= "3.8" and sys.platform == "linux"', 'python_version >= "3.8"\x01i\x01sys_platform == "linux"',
            'sys_platform == "linux"\x01i\x01python_version >= "3.8"', 'python_version >= "3.8" and sys_platform == "linux"\x01C',
            'python_version >= "3.8" and sys_platform == "linux"\x01D', 'python_version >= "3.8" and sys_platform == "linux"\x01n\x01n',
            'python_version < "3.8" or sys_platform != "linux"\x01n'],
    "or": ['python_version >= "3.8" or sys_platform == "linux"', 'sys_platform == "linux" or python_version >= "3.8"',
           'python_version >= "3.8"\x01u\x01sys_platform == "linux"', 'sys_platform == "linux"\x01u\x01python_version >= "3.8"',
           'python_version >= "3.8" or sys_platform == "linux"\x01C', 'python_version < "3.8" and sys_platform != "linux"\x01n'],
    "swap": ['"lin" in sys_platform', "'lin' in sys_platform", 'sys_platform in "lin"', '"lin" not in sys_platform\x01n', 'sys_platform not in "lin"\x01n',
             'sys_platform == "lin"'],
    "in": ['sys_platform in "linux darwin"', 'sys_platform in "linux, darwin"', 'sys_platform in "linux|darwin"', 'sys_platform in "darwin linux"',
           'sys_platform == "linux" or sys_platform == "darwin"', 'sys_platform == "darwin" or sys_platform == "linux"',
           'sys_platform == "linux"\x01u\x01sys_platform == "darwin"', 'sys_platform not in "linux darwin"\x01n'],
    "notin": ['sys_platform not in "linux darwin"', 'sys_platform != "linux" and sys_platform != "darwin"',
              'sys_platform != "darwin" and sys_platform != "linux"', 'sys_platform != "linux"\x01i\x01sys_platform != "darwin"',
              'sys_platform in "linux darwin"\x01n'],
    "pyin": ['python_version in "3.8 3.9"', 'python_version in "3.8, 3.9"', 'python_version == "3.8" or python_version == "3.9"',
             'python_version >= "3.8" and python_version < "3.10"', 'python_version in "3.9 3.8"', 'python_version not in "3.8 3.9"\x01n'],
    "pfv": ['python_full_version == "3.8"', 'python_full_version == "3.8.0"', 'python_full_version >= "3.8"', 'python_full_version >= "3.8.0"',
            'python_version >= "3.8"'],
    "extra": ['extra == "a"', "extra == 'a'", 'extra == "A"', 'extra == "a" and extra == "a"', 'extra != "a"\x01n', 'extra == "a"\x01i\x01extra == "a"',
              'extra == "foo-bar"', 'extra == "Foo_Bar"', 'extra == "foo.bar"'],
    "extra2": ['extra == "a" and extra == "b"', 'extra == "b" and extra == "a"', 'extra == "a"\x01i\x01extra == "b"',
               'extra == "a" or extra == "b"', 'extra == "b" or extra == "a"', 'extra == "a"\x01u\x01extra == "b"',
               'extra != "a" and extra != "b"', 'extra == "a" or extra == "b"\x01n'],
    "any": ["", "*", 'python_version >= "3.8"\x01u\x01python_version < "3.8"', 'python_version >= "3.8" or python_version < "3.8"', "\x01i\x01", '<empty>\x01n'],
    "empty": ["<empty>", 'python_version >= "3.8"\x01i\x01python_version < "3.8"', 'python_version >= "3.8" and python_version < "3.8"',
              "\x01n", 'sys_platform == "linux" and sys_platform == "darwin"', 'os_name == "nt"\x01i\x01os_name == "posix"'],
    "noextras": ['python_version >= "3.8" and extra == "a"\x01X', 'python_version >= "3.8"', 'extra == "a" or python_version >= "3.8"\x01X\x01n\x01n',
                 '(python_version >= "3.8" and extra == "a") or (python_version >= "3.8" and extra == "b")\x01X'],
    "alias": ['os_name == "nt"', 'os.name == "nt"', "os.name=='nt'", 'os_name == "nt"\x01C'],
    "eqops": ['os_name == "nt"', 'os_name === "nt"', 'os_name = "nt"'],
}


def marker_pool(ctx: core.Ctx, n_gen: int) -> list[tuple[str, str]]:
    rnd = ctx.rng
    out = [(fam, s) for fam, ss in MARKER_FAMILIES.items() for s in ss]
    for k in range(n_gen):
        s = GM.marker(rnd, max_leaves=4, max_depth=2)
        fam = f"g{k}"
        out.append((fam, s))
        out.append((fam, respell_marker(rnd, s)))
        out.append((fam, s + SEP + "i" + SEP + s))
        out.append((fam, s + SEP + "u" + SEP + s))
        r = rnd.random()
        if r < 0.3:
            out.append((fam, s + SEP + rnd.choice("CD")))
            out.append((fam, s + SEP + "n" + SEP + "n"))
        elif r < 0.7:
            t = GM.marker(rnd, max_leaves=3, max_depth=1)
            o = rnd.choice("iu")
            out.append((f"g{k}'", s + SEP + o + SEP + t))
            out.append((f"g{k}'", t + SEP + o + SEP + s))
        else:
            out.append((fam, reorder_marker(rnd, s)))
    return out


def respell_marker(rnd: random.Random, s: str) -> str:
    """other quote style / white space, same token sequence"""
    import re
    def q(m: Any) -> str:
        body = m.group(0)[1:-1]
        if rnd.random() < 0.6 and "'" not in body and '"' not in body:
            return ("'" + body + "'") if m.group(0)[0] == '"' else ('"' + body + '"')
        return m.group(0)
    s2 = re.sub(r"\"[^\"]*\"|'[^']*'", q, s)
    if rnd.random() < 0.5:
        s2 = re.sub(r"\s*(==|!=|>=|<=|~=)\s*", lambda m: rnd.choice(["", " ", "  "]) + m.group(1) + rnd.choice(["", " "]), s2)
    return s2


def reorder_marker(rnd: random.Random, s: str) -> str:
    """swap the operands of one top-level `and`/`or` when the text has no parentheses and one operator kind"""
    if "(" in s:
        return s
    for op in (" and ", " or "):
        other = " or " if op == " and " else " and "
        if op in s and other not in s:
            parts = s.split(op)
            rnd.shuffle(parts)
            return op.join(parts)
    return s


NAME_SPELLINGS = ["foo-bar", "Foo_Bar", "foo.bar", "FOO--BAR", "foo_bar", "foo-_-bar"]
GIT_URLS = ["https://github.com/a/b.git", "https://github.com/a/b", "git@github.com:a/b.git", "ssh://git@github.com/a/b.git"]


def dep_pool(ctx: core.Ctx, n_gen: int) -> list[tuple[str, str]]:
    rnd = ctx.rng
    out: list[tuple[str, str]] = []
    for nm in NAME_SPELLINGS:
        out.append(("plain", f"508|{nm}"))
        out.append(("plain", f"dep|{nm}|*|-"))
        out.append(("c1", f"508|{nm} (>=1,<2)"))
        out.append(("c1", f"508|{nm}>=1.0,<2.0"))
        out.append(("c1", f"dep|{nm}|^1|-"))
        out.append(("c1", f"dep|{nm}|>=1 <2|-"))
        out.append(("c1m", f"508|{nm}>=1,<2 ; python_version >= '3.8'"))
        out.append(("c1x", f"508|{nm}[a,b]>=1,<2"))
        out.append(("c1x", f"508|{nm}[B, A] >=1.0,<2"))
        out.append(("c1x", f"dep|{nm}|^1.0|b,a"))
        out.append(("c1x1", f"508|{nm}[a]>=1,<2"))
        out.append(("v1", f"508|{nm}==1.0"))
        out.append(("v1", f"dep|{nm}|1.0.0|-"))
        out.append(("v1", f"508|{nm} (==1.0.0)"))
    for nm in NAME_SPELLINGS[:3]:
        for u in GIT_URLS[:2]:
            out.append(("git", f"508|{nm} @ git+{u}"))
            out.append(("git", f"vcs|{nm}|{u}|git|-|-|-|-|-"))
            out.append(("git-main", f"508|{nm} @ git+{u}@main"))
            out.append(("git-main", f"vcs|{nm}|{u}|git|branch|main|-|-|-"))
            out.append(("git-main-r", f"vcs|{nm}|{u}|git|branch|main|abcdef0|-|-"))
            out.append(("git-rev-r", f"vcs|{nm}|{u}|git|rev|abcdef0|abcdef0|-|-"))
            out.append(("git-sub", f"508|{nm} @ git+{u}@main#subdirectory=pkg"))
            out.append(("git-sub", f"vcs|{nm}|{u}|git|branch|main|-|pkg|-"))
            out.append(("git-x", f"508|{nm}[a] @ git+{u}@main"))
            out.append(("git-tag", f"vcs|{nm}|{u}|git|tag|v1|-|-|-"))
        out.append(("url", f"508|{nm} @ https://example.com/foo_bar-1.0.tar.gz"))
        out.append(("url", f"url|{nm}|https://example.com/foo_bar-1.0.tar.gz|-|-"))
        out.append(("url-sub", f"url|{nm}|https://example.com/foo_bar-1.0.tar.gz|pkg|-"))
        out.append(("url2", f"url|{nm}|https://example.com/foo_bar-1.1.tar.gz|-|-"))
    for k in range(n_gen):
        nm = rnd.choice(["pkg", "Pkg", "p-k.g", "other"])
        c = V.gen_constraint(rnd, max_groups=1, max_clauses=2)
        ex = rnd.choice(["-", "a", "a,b", "b,a"])
        out.append((f"g{k}", f"dep|{nm}|{c}|{ex}"))
        out.append((f"g{k}", f"dep|{nm.upper()}|{respell_constraint(rnd, c)}|{ex}"))
    return out


def pkg_pool(ctx: core.Ctx, n_gen: int) -> list[tuple[str, str]]:
    rnd = ctx.rng
    out: list[tuple[str, str]] = []
    for nm in NAME_SPELLINGS:
        out.append(("p1", f"pkg|{nm}|1.0|-|-|-|-|-|-"))
        out.append(("p1", f"pkg|{nm}|1.0.0|-|-|-|-|-|-"))
        out.append(("p1l", f"pkg|{nm}|1.0+L|-|-|-|-|-|-"))
        out.append(("p1l", f"pkg|{nm}|1.0+l|-|-|-|-|-|-"))
        out.append(("p2", f"pkg|{nm}|2.0|-|-|-|-|-|-"))
        out.append(("p1x", f"pkg|{nm}|1.0|-|-|-|-|-|a,B"))
        out.append(("p1x", f"pkg|{nm}|1.0.0|-|-|-|-|-|b,a"))
    for nm in NAME_SPELLINGS[:2]:
        for u in GIT_URLS[:2]:
            out.append(("pg", f"pkg|{nm}|1.0|git|{u}|main|abcdef0123|-|-"))
            out.append(("pg", f"pkg|{nm}|1.0|git|{u}|abcdef0|abcdef0123|-|-"))
            out.append(("pg'", f"pkg|{nm}|1.0|git|{u}|main|-|-|-"))
            out.append(("pg2", f"pkg|{nm}|1.0|git|{u}|dev|1234567|-|-"))
            out.append(("pgs", f"pkg|{nm}|1.0|git|{u}|main|abcdef0123|sub|-"))
        out.append(("pu", f"pkg|{nm}|1.0|url|https://example.com/x.whl|-|-|-|-"))
        out.append(("pl", f"pkg|{nm}|1.0|legacy|https://example.com/simple|repo|-|-|-"))
        out.append(("pd", f"pkg|{nm}|1.0|directory|/tmp/x|-|-|-|-"))
    for k in range(n_gen):
        nm = rnd.choice(["pkg", "Pkg", "p-k.g"])
        v = GV.version(rnd, fancy=0.3, local=0.2, maxlen=3).strip()
        if "|" in v or not core.valid_utf8(v):
            continue
        out.append((f"g{k}", f"pkg|{nm}|{v}|-|-|-|-|-|-"))
        out.append((f"g{k}", f"pkg|{nm.lower()}|{GV.related(rnd, v).strip()}|-|-|-|-|-|-"))
    return out


def spec_pool(ctx: core.Ctx) -> list[tuple[str, str]]:
    """bare PackageSpecification objects (the base class of Dependency and Package) among themselves"""
    out: list[tuple[str, str]] = []
    for nm in NAME_SPELLINGS:
        out.append(("s", f"spec|{nm}|-|-|-|-|-|-"))
        out.append(("sx", f"spec|{nm}|-|-|-|-|-|a,b"))
        out.append(("sx", f"spec|{nm}|-|-|-|-|-|B,A"))
        for u in GIT_URLS[:2]:
            out.append(("sg", f"spec|{nm}|git|{u}|main|-|-|-"))
            out.append(("sgs", f"spec|{nm}|git|{u}|main|-|sub|-"))
            out.append(("sg2", f"spec|{nm}|git|{u}|dev|-|-|-"))
        out.append(("su", f"spec|{nm}|url|https://example.com/x.whl|-|-|-|-"))
    return out


# ----------------------------------------------------------------------------------------
# structural correspondence with the Lean model (driver op `eqh`)
# ----------------------------------------------------------------------------------------

MODEL_KINDS = ("version", "constraint", "generic", "extra", "marker")


def model_compare(ctx: core.Ctx, kind: str, pool: list[Obj], objs: list[Obj], rows: list[int], hs: list[Any], stream: str) -> None:
    """model `==` matrix = real `==` matrix; model hash inputs equal => real hashes equal; same objects (dumps); the
    reachability flag the theorems assume (no degenerate range / coherent marker leaves)"""
    specs = [o.spec for o in pool]
    if not specs:
        return
    if any(not core.valid_utf8(s) for s in specs):
        return
    rep = core.run_driver([core.line("eqh", kind, *[x.lstrip(HIST) for x in specs])], timeout=900)[0]
    dis = 0
    if rep[0] != "ok" or len(rep) != 5 + len(specs):
        ctx.disagree(stream + ":protocol", kind, "ok", rep[:3])
        ctx.stream(stream + ":model", len(specs), 1)
        return
    status, mrows, classes, flags, dumps = rep[1], rep[2].split(","), rep[3].split(","), rep[4], rep[5:]
    index = {id(o): k for k, o in enumerate(objs)}
    both: list[tuple[int, int]] = []   # (position in pool, position in objs)
    for p, o in enumerate(pool):
        if status[p] == "u":
            ctx.count(f"{kind}:unmodelled")
            continue
        real_ok = o.err is None
        if real_ok != (status[p] == "o"):
            dis += 1
            ctx.disagree(stream + ":accept", {"kind": kind, "spec": o.spec}, o.err or "ok", dumps[p])
            continue
        if not real_ok:
            if dumps[p] != "!" + str(o.err):
                dis += 1
                ctx.disagree(stream + ":error-class", {"kind": kind, "spec": o.spec}, o.err, dumps[p])
            continue
        if dumps[p] != o.dump:
            dis += 1
            ctx.disagree(stream + ":structure", {"kind": kind, "spec": o.spec}, o.dump, dumps[p])
            continue
        both.append((p, index[id(o)]))
        if kind == "constraint" and (flags[p] == "1") != (not is_degenerate(o.obj)):
            dis += 1
            ctx.disagree(stream + ":degenerate-flag", {"kind": kind, "spec": o.spec}, is_degenerate(o.obj), flags[p])
        if kind == "marker":
            rc = real_coherent(o.obj)
            ctx.count("marker:coherent:" + ("yes" if rc else "no"))
            if flags[p] != "1" or not rc:
                # the invariant `mCoherent` (hypothesis of marker_interchangeable) fails on a reachable object
                dis += 1
                ctx.disagree(stream + ":coherence", {"kind": kind, "spec": o.spec}, rc, flags[p])
    for p, i in both:
        for q, j in both:
            real = bool(rows[i] >> j & 1)
            model = mrows[p][q] == "1"
            if real != model:
                dis += 1
                if dis < 40:
                    ctx.disagree(stream + ":eq", {"kind": kind, "a": pool[p].spec, "b": pool[q].spec}, real, model)
            if classes[p] == classes[q] and hs[i] != hs[j]:
                dis += 1
                if dis < 40:
                    ctx.disagree(stream + ":hash-input", {"kind": kind, "a": pool[p].spec, "b": pool[q].spec},
                                 "hashes differ", "hash inputs equal")
            if model and classes[p] != classes[q]:
                ctx.count(f"{kind}:model-eq-with-different-hash-input")
    ctx.stream(stream + ":model", len(both) * len(both), dis)


def dep_model_compare(ctx: core.Ctx, objs: list[Obj], rows: list[int], hs: list[Any], stream: str) -> None:
    """requirement texts of the dependency pool against Model/Dep.lean (driver op `depeq` of C10): `==` both ways and
    `model hash keys equal => real hashes equal`"""
    idx = [i for i, o in enumerate(objs) if o.spec.startswith("508|") and SEP not in o.spec and core.valid_utf8(o.spec)]
    pairs = [(i, j) for i in idx for j in idx]
    if len(pairs) > 2500:
        pairs = ctx.rng.sample(pairs, 2500)
    if not pairs:
        return
    rep = core.run_driver([core.line("depeq", objs[i].spec[4:], objs[j].spec[4:]) for i, j in pairs])
    if rep and rep[0][0] == "bad-op":
        ctx.count("dep:model-op-not-registered")
        return
    dis = 0
    for (i, j), r in zip(pairs, rep):
        if r[0] != "ok":
            ctx.count("dep:model:" + ":".join(r[:2]))
            continue
        real = bool(rows[i] >> j & 1)
        if real != (r[1][0] == "1"):
            dis += 1
            ctx.disagree(stream + ":eq", {"kind": "dep", "a": objs[i].spec, "b": objs[j].spec}, real, r[1])
        if r[1][2] == "1" and hs[i] != hs[j]:
            dis += 1
            ctx.disagree(stream + ":hash-input", {"kind": "dep", "a": objs[i].spec, "b": objs[j].spec}, "hashes differ", r[1])
    ctx.stream(stream + ":model", len(pairs), dis)


def real_coherent(m: Any) -> bool:
    """every SingleMarker inside `m` is what the constructor builds from the marker's own key"""
    from poetry.core.version.markers import MarkerUnion, MultiMarker, SingleMarker
    if isinstance(m, (MultiMarker, MarkerUnion)):
        return all(real_coherent(x) for x in m.markers)
    if isinstance(m, SingleMarker):
        sw = m._swapped_name_value
        cstr = f'"{m.value}" {m.operator}' if sw else f"{m.operator}{m.value}"
        try:
            n = SingleMarker(m.name, cstr, swapped_name_value=sw)
        except Exception:  # noqa: BLE001
            return False
        # the invariant of the theorems (`singleCoherent`): the CONSTRAINT is the one the key denotes
        return n.constraint == m.constraint and type(n.constraint) is type(m.constraint) \
            and MC.cdump(n.constraint) == MC.cdump(m.constraint)
    return True


# ----------------------------------------------------------------------------------------
# entry points
# ----------------------------------------------------------------------------------------

def with_history(ctx: core.Ctx, specs: list[tuple[str, str]], share: float) -> list[tuple[str, str]]:
    """every derived member (a spec with at least one step) also with a usage history on all intermediate objects; a share of
    the plain ones too (parsers are cached: the object a text denotes may be shared with earlier users)"""
    out = list(specs)
    for fam, sp in specs:
        if sp.startswith(HIST):
            continue
        if SEP in sp or ctx.rng.random() < share:
            out.append((fam, HIST + sp))
    return out


DERIVED_DEPS: list[tuple[str, str]] = [
    # (family, spec): members of one family are spellings of one value
    ("d-c1", "508|Foo_Bar[Extra_A] (>=1,<2)\x01nf"), ("d-c1", "508|Foo_Bar[Extra_A] (>=1,<2)\x01wf\x01"), ("d-c1", "508|foo.bar>=1.0,<2.0"),
    ("d-c1", "dep|FOO--BAR|^1|a,b\x01nf"), ("d-c1", "508|foo-bar==3.0\x01wc\x01>=1,<2"), ("d-c1", "508|foo_bar\x01sc\x01^1.0"),
    ("d-c1", "508|foo.bar>=1.0,<2.0\x01cl"), ("d-c1", "508|Foo_Bar[x]>=1,<2 ; python_version >= '3.8'\x01nf"),
    ("d-c1", "508|foo-bar>=1,<2\x01sm\x01sys_platform == 'linux'"), ("d-c1", "508|foo-bar>=1,<2\x01sp\x01>=3.8"),
    ("d-c1x", "508|Foo_Bar[Extra_A] (>=1,<2)\x01wf\x01Other.Extra"), ("d-c1x", "508|foo-bar[other_extra]>=1,<2"),
    ("d-c1x", "508|foo.bar>=1.0,<2.0\x01wf\x01OTHER-EXTRA"), ("d-c1x", "dep|foo_bar|^1|other.extra"),
    ("d-c1x", "508|foo-bar[a,b]>=1,<2\x01wf\x01other_extra\x01cl"),
    ("d-c1ab", "508|foo-bar>=1,<2\x01wf\x01b,A"), ("d-c1ab", "508|Foo.Bar[a,b] (>=1.0,<2.0)"), ("d-c1ab", "508|foo-bar[a]>=1,<2\x01wf\x01a,b"),
    ("d-git", "508|foo-bar[x] @ git+https://github.com/a/b.git@main\x01nf"), ("d-git", "508|Foo_Bar @ git+https://github.com/a/b.git@main"),
    ("d-git", "vcs|foo.bar|https://github.com/a/b|git|branch|main|-|-|x,y\x01wf\x01"), ("d-git", "508|foo-bar @ git+https://github.com/a/b.git@main\x01cl"),
    ("d-gitx", "508|foo-bar @ git+https://github.com/a/b.git@main\x01wf\x01X"), ("d-gitx", "508|foo-bar[x] @ git+https://github.com/a/b.git@main"),
    ("d-url", "508|foo-bar[x] @ https://example.com/foo_bar-1.0.tar.gz\x01nf"), ("d-url", "url|Foo_Bar|https://example.com/foo_bar-1.0.tar.gz|-|-"),
    ("d-v1", "pkg|Foo_Bar|1.0|-|-|-|-|-|-\x01td"), ("d-v1", "dep|foo-bar|1.0|-"), ("d-v1", "508|foo.bar==1.0"),
    ("d-v1", "pkg|foo-bar|1.0.0|-|-|-|-|-|Extra_A\x01nf\x01td"),
]
DERIVED_PKGS: list[tuple[str, str]] = [
    ("k-1", "pkg|Foo_Bar|1.0|-|-|-|-|-|Extra_A\x01nf"), ("k-1", "pkg|foo-bar|1.0.0|-|-|-|-|-|-"), ("k-1", "pkg|foo.bar|1.0|-|-|-|-|-|a,b\x01wf\x01"),
    ("k-1", "pkg|foo-bar|1.0|-|-|-|-|-|-\x01cl"), ("k-1", "pkg|foo-bar|1.0|-|-|-|-|-|-\x01wg\x01dev"), ("k-1", "pkg|foo-bar|1.0|-|-|-|-|-|-\x01ng\x01main"),
    ("k-1", "pkg|foo-bar|1.0|-|-|-|-|-|-\x01og"),
    ("k-1x", "pkg|Foo_Bar|1.0|-|-|-|-|-|Extra_A\x01wf\x01Other.Extra"), ("k-1x", "pkg|foo-bar|1.0.0|-|-|-|-|-|other_extra"),
    ("k-1x", "pkg|foo-bar|1.0|-|-|-|-|-|-\x01wf\x01OTHER-EXTRA\x01cl"),
    ("k-g", "pkg|foo-bar|1.0|git|https://github.com/a/b.git|main|abcdef0123|-|x\x01nf"), ("k-g", "pkg|Foo_Bar|1.0.0|git|https://github.com/a/b|main|abcdef0123|-|-"),
]
DERIVED_SPECS: list[tuple[str, str]] = [
    ("s-1", "spec|Foo_Bar|-|-|-|-|-|Extra_A\x01nf"), ("s-1", "spec|foo-bar|-|-|-|-|-|-"), ("s-1", "spec|foo.bar|-|-|-|-|-|a\x01wf\x01"),
    ("s-1", "spec|foo-bar|-|-|-|-|-|-\x01cl"),
    ("s-1x", "spec|Foo_Bar|-|-|-|-|-|Extra_A\x01wf\x01Other.Extra"), ("s-1x", "spec|foo-bar|-|-|-|-|-|other_extra"),
    ("s-g", "spec|foo-bar|git|https://github.com/a/b.git|main|-|-|x\x01nf"), ("s-g", "spec|Foo_Bar|git|https://github.com/a/b|main|-|-|-"),
]


def pools(ctx: core.Ctx, scale: int) -> list[tuple[str, list[tuple[str, str]]]]:
    return [(k, with_history(ctx, sp, 0.15)) for k, sp in _pools(ctx, scale)]


def _pools(ctx: core.Ctx, scale: int) -> list[tuple[str, list[tuple[str, str]]]]:
    return [("version", version_pool(ctx, 60 * scale)), ("constraint", constraint_pool(ctx, 45 * scale)),
            ("generic", generic_pool(ctx, False, 20 * scale)), ("extra", generic_pool(ctx, True, 20 * scale)),
            ("marker", marker_pool(ctx, 24 * scale)), ("dep", dep_pool(ctx, 20 * scale) + DERIVED_DEPS + derived_deps(ctx, 12 * scale)),
            ("pkg", pkg_pool(ctx, 20 * scale) + DERIVED_PKGS), ("spec", spec_pool(ctx) + DERIVED_SPECS)]


def derived_deps(ctx: core.Ctx, n: int) -> list[tuple[str, str]]:
    """generated derivations: a dependency with random extras re-targeted to another extras set / constraint, next to the
    directly constructed dependency with that extras set / constraint"""
    rnd = ctx.rng
    out: list[tuple[str, str]] = []
    names = ["pkg", "Pkg", "p-k.g", "P_K-G"]
    exs = ["", "a", "a,b", "B,a", "Foo_Bar", "foo.bar"]
    for k in range(n):
        nm, nm2 = rnd.choice(names[:2]) if rnd.random() < 0.5 else rnd.choice(names[2:]), None
        nm2 = rnd.choice(names[:2]) if nm in names[:2] else rnd.choice(names[2:])
        c = V.gen_constraint(rnd, max_groups=1, max_clauses=2)
        e1, e2 = rnd.choice(exs), rnd.choice(exs)
        fam = f"dg{k}"
        out.append((fam, f"dep|{nm}|{c}|{e1 or '-'}" + SEP + "wf" + SEP + e2))
        out.append((fam, f"dep|{nm2}|{c}|{e2 or '-'}"))
        out.append((fam, f"dep|{nm2}|*|{e2 or '-'}" + SEP + "wc" + SEP + c))
        if rnd.random() < 0.5:
            out.append((fam, f"dep|{nm}|{c}|{e1 or '-'}" + SEP + "cl" + SEP + "wf" + SEP + e2 + SEP + "cl"))
    return out


def run_round(ctx: core.Ctx, scale: int, tag: str, with_model: bool = True) -> None:
    for kind, specs in pools(ctx, scale):
        pool = build(ctx, kind, specs)
        objs, rows, hs = oracle(ctx, kind, pool, f"{tag}:{kind}")
        if with_model and kind in MODEL_KINDS:
            model_compare(ctx, kind, pool, objs, rows, hs, f"{tag}:{kind}")
        if with_model and kind == "dep":
            dep_model_compare(ctx, objs, rows, hs, f"{tag}:dep")
        if kind == "marker":
            MC.clear_caches()


def corpus(ctx: core.Ctx) -> None:
    """fixed witnesses of the recorded classes and of the repaired defects (35cdee8, 3f2b755, 583640d, 34fbb11)"""
    for key, w in FIXED_WITNESS.items():
        replay(ctx, w)
    for kind, specs in (("marker", ['"lin" in sys_platform', 'sys_platform in "lin"', "'lin' in sys_platform", 'sys_platform == "lin"']),
                        ("version", ["1.0", "1.0+0", "1.0+a", "1.0.0", "1.0+0.0"]),
                        ("constraint", ["1.0", ">=1.0,<=1.0", "1.0.0", "1.0 || 1.0.0", "1.0+local || 1.0", "1.0 || 1.0+local || 3.0", "1.0+local || 3.0"]),
                        ("dep", [HIST + "508|Foo_Bar[Extra_A] (>=1,<2)\x01wf\x01", "508|foo.bar>=1.0,<2.0", "508|Foo_Bar[Extra_A] (>=1,<2)\x01wf\x01",
                                 HIST + "508|Foo_Bar[Extra_A] (>=1,<2)\x01wf\x01Other.Extra", "508|foo-bar[other_extra]>=1,<2"]),
                        ("pkg", [HIST + "pkg|Foo_Bar|1.0|-|-|-|-|-|Extra_A\x01nf", "pkg|foo-bar|1.0.0|-|-|-|-|-|-"]),
                        ("dep", ["508|foo @ https://example.com/a.zip#subdirectory=", "508|foo @ https://example.com/a.zip", "url|foo|https://example.com/a.zip|-|-"])):
        pool = build(ctx, kind, [("corpus", s) for s in specs])
        objs, rows, hs = oracle(ctx, kind, pool, "corpus:" + kind)
        if kind in MODEL_KINDS:
            model_compare(ctx, kind, pool, objs, rows, hs, "corpus:" + kind)
        if kind == "dep":
            dep_model_compare(ctx, objs, rows, hs, "corpus:dep")


def correspondence(ctx: core.Ctx) -> None:
    corpus(ctx)
    for r in range(ctx.budget(1, 10)):
        run_round(ctx, 1 if not ctx.thorough else 2, f"round{r}")


def search(ctx: core.Ctx) -> None:
    """a proof or the correspondence broke: look for a failing input of the property on the real code, first around the
    disagreeing inputs, then in fresh larger pools"""
    by_kind: dict[str, list[tuple[str, str]]] = {}
    for d in ctx.disagreements:
        inp = d.get("input")
        if isinstance(inp, dict) and "kind" in inp:
            for k in ("spec", "a", "b"):
                if k in inp:
                    by_kind.setdefault(inp["kind"], []).append(("dis", inp[k]))
    fam = {"version": VERSION_FAMILIES, "constraint": CONSTRAINT_FAMILIES, "generic": GENERIC_FAMILIES, "extra": EXTRA_FAMILIES,
           "marker": MARKER_FAMILIES}
    for kind, specs in by_kind.items():
        extra = [(f, s) for f, ss in fam.get(kind, {}).items() for s in ss]
        pool = build(ctx, kind, specs[:150] + extra)
        oracle(ctx, kind, pool, "search:" + kind)
    for r in range(6):
        if ctx.violations and any(classify_key(v.key) is None for v in ctx.violations):
            break
        run_round(ctx, 2, f"search{r}", with_model=False)


def classify_key(key: str) -> str | None:
    return key if key in FIXED_WITNESS else None


def replay(ctx: core.Ctx, payload: dict[str, Any]) -> bool:
    w = payload.get("witness", payload)
    kind, check = w["kind"], w.get("check")
    before = {v.key for v in ctx.violations}
    pool = build(ctx, kind, [("replay", s) for s in w["specs"]])
    sub = core.Ctx(ctx.prop, ctx.tier, ctx.seed)
    oracle(sub, kind, pool, "replay")
    hit = False
    for v in sub.violations:
        vw = v.witness if isinstance(v.witness, dict) else {}
        if check is None or vw.get("check") == check:
            hit = True
            if v.key not in before:
                ctx.violations.append(v)
    return hit
