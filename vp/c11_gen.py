"""Generators for Python version ranges (C11 / C17 / C02 domains)."""
from __future__ import annotations

import random

V1 = ["2", "3", "4"]
V2 = ["2.7", "3.6", "3.7", "3.8", "3.9", "3.10", "3.11", "3.12", "4.0"]
V3 = ["3.6.15", "3.7.0", "3.8.0", "3.8.10", "3.9.1", "3.10.0", "3.10.12", "3.11.4"]


def ver(rnd: random.Random) -> str:
    r = rnd.random()
    return rnd.choice(V1) if r < 0.12 else (rnd.choice(V2) if r < 0.7 else rnd.choice(V3))


def clause(rnd: random.Random) -> str:
    op = rnd.choice([">=", ">", "<", "<=", "^", "~", "~=", "!=*", "*2", "*1", "==3", ">=", "<"])
    if op == "!=*":
        return "!=" + rnd.choice(V2) + ".*"
    if op == "*2":
        return rnd.choice(V2) + ".*"
    if op == "*1":
        return rnd.choice(V1) + ".*"
    if op == "==3":
        return "==" + rnd.choice(V3)
    if op == "~=":
        return "~=" + rnd.choice(V2 + V3)
    return op + ver(rnd)


def group(rnd: random.Random) -> str:
    return ",".join(clause(rnd) for _ in range(rnd.randint(1, 3)))


def py_range(rnd: random.Random) -> str:
    return " || ".join(group(rnd) for _ in range(rnd.randint(1, 2)))
