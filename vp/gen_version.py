"""Seeded, grammar-directed generators for PEP 440 version strings."""
from __future__ import annotations

import random

PRE_SPELL = ["a", "b", "rc", "alpha", "beta", "c", "pre", "preview", "A", "RC", "Alpha", "BETA", "Preview"]
POST_SPELL = ["post", "rev", "r", "POST", "Rev", "R"]
DEV_SPELL = ["dev", "DEV", "Dev"]
SEPS = ["", ".", "-", "_"]
LOCAL_SEGS = ["0", "1", "2", "10", "01", "a", "b", "abc", "ubuntu", "1a", "a1", "z", "00", "deadbeef", "A", "Ab"]


def release(rnd: random.Random, maxlen: int = 5) -> str:
    n = rnd.choice([1, 1, 2, 2, 2, 3, 3, 3, 4, 5][: 10 if maxlen >= 5 else 8])
    n = min(n, maxlen)
    parts = [str(rnd.choice([0, 0, 1, 1, 2, 3, 9, 10, 2024]))for _ in range(n)]
    if rnd.random() < 0.05:
        parts[rnd.randrange(n)] = "0" + parts[0]  # leading zero
    return ".".join(parts)


def num(rnd: random.Random) -> str:
    return rnd.choice(["", "0", "1", "1", "2", "3", "10", "007"])


def version(rnd: random.Random, *, fancy: float = 0.5, local: float = 0.2, maxlen: int = 5) -> str:
    """A syntactically valid PEP 440 version string (not necessarily normalised)."""
    plain = rnd.random() > fancy
    s = ""
    if not plain and rnd.random() < 0.08:
        s += rnd.choice(["v", "V"])
    if rnd.random() < (0.05 if plain else 0.15):
        s += rnd.choice(["0", "1", "2", "1"]) + "!"
    s += release(rnd, maxlen)
    r = rnd.random()
    if r < 0.35:
        sp = rnd.choice(PRE_SPELL[:3] if plain else PRE_SPELL)
        s += ("" if plain else rnd.choice(SEPS)) + sp + ("" if plain else rnd.choice(SEPS)) + (rnd.choice(["0", "1", "2"]) if plain else num(rnd))
    r = rnd.random()
    if r < 0.25:
        if not plain and rnd.random() < 0.2:
            s += "-" + rnd.choice(["0", "1", "2", "12"])
        else:
            sp = "post" if plain else rnd.choice(POST_SPELL)
            s += ("." if plain else rnd.choice(SEPS)) + sp + ("" if plain else rnd.choice(SEPS)) + (rnd.choice(["0", "1", "2"]) if plain else num(rnd))
    r = rnd.random()
    if r < 0.25:
        sp = "dev" if plain else rnd.choice(DEV_SPELL)
        s += ("." if plain else rnd.choice(SEPS)) + sp + ("" if plain else rnd.choice(SEPS)) + (rnd.choice(["0", "1", "3"]) if plain else num(rnd))
    if rnd.random() < local:
        k = rnd.choice([1, 1, 2, 3])
        segs = [rnd.choice(LOCAL_SEGS) for _ in range(k)]
        s += "+" + segs[0] + "".join(rnd.choice([".", "-", "_"] if not plain else ["."]) + x for x in segs[1:])
    if not plain and rnd.random() < 0.1:
        s = rnd.choice([" ", "\t", "  ", "\n"]) + s
    if not plain and rnd.random() < 0.1:
        s = s + rnd.choice([" ", "\t", "  ", "\n"])
    return s


MUT_TOKENS = ["1", "0", ".", "-", "_", "+", "!", "a", "rc", "post", "dev", "v", " ", "x", "*", "1.0", "..", "١", "²", "é",
              " ", " ", "\x1f", "\x85", "e", "c", "r", "pre"]


def mutate(rnd: random.Random, s: str) -> str:
    """Token-level mutation of a valid string (mostly produces invalid ones)."""
    k = rnd.random()
    if not s:
        return rnd.choice(MUT_TOKENS)
    i = rnd.randrange(len(s) + 1)
    if k < 0.3:
        return s[:i] + rnd.choice(MUT_TOKENS) + s[i:]
    if k < 0.5:
        j = min(len(s), i + rnd.randint(1, 3))
        return s[:i] + s[j:]
    if k < 0.6:
        return s[:i]
    if k < 0.7:
        j = min(len(s), i + rnd.randint(1, 3))
        return s[:i] + s[i:j] * 2 + s[j:]
    if k < 0.8:
        return s.upper()
    if k < 0.9:
        toks = list(s)
        rnd.shuffle(toks)
        return "".join(toks)
    return "".join(rnd.choice(MUT_TOKENS) for _ in range(rnd.randint(0, 6)))


def related(rnd: random.Random, s: str) -> str:
    """A version likely to be close to s in the order (same release, other suffixes / padding / spelling)."""
    base = s.strip()
    k = rnd.random()
    core = base.split("+")[0]
    if k < 0.15:
        return core + ".0"
    if k < 0.3:
        return core + rnd.choice(["a1", "b2", "rc1", ".post1", ".dev0", ".post0", ".dev1", "a0", "-1", "c1"])
    if k < 0.45:
        return core + "+" + rnd.choice(LOCAL_SEGS) + rnd.choice(["", ".1", ".a", "-0"])
    if k < 0.55:
        return base.upper() if rnd.random() < 0.5 else "v" + base
    if k < 0.65 and "+" in base:
        return core
    if k < 0.75:
        import re
        m = re.match(r"^(v?(?:\d+!)?\d+(?:\.\d+)*)", base, re.I)
        if m:
            return m.group(1) + rnd.choice(["", ".0", ".0.0", "a1", ".post1", ".dev0"])
    return version(rnd)
