"""C03 — version parsing, normalisation and ordering follow PEP 440."""
from __future__ import annotations

import json
import subprocess
from typing import Any

from . import core, gen_version

PROP = "C03"
LEAN_MODULE = "PoetryVerif.Props.C03"
RULE = ("grammar-directed PEP 440 strings (1-5 release components, epochs, every pre/post/dev spelling and separator, "
        "implicit numbers, local labels, v prefix, whitespace, upper case) + token-level mutations; pairs built from "
        "related spellings of one release so that equal/adjacent versions are frequent. A case is non-trivial when the "
        "string parses (parse stream) or when both parse (pair stream); distinct = distinct input tuple.")
ASSUMPTIONS = [
    "Python `re` engine, int(), str.lower(), str.isnumeric() are trusted; the model's hand recogniser of VERSION_PATTERN is tied to them by the parse stream",
    "theorems are over ASCII; the non-ASCII case-folding of re.IGNORECASE (U+017F, U+212A) is outside the model and excluded from generation",
    "reference = packaging 26.3 from /venv site-packages, run in a separate process",
]


def ref_batch(reqs: list[dict[str, Any]]) -> list[Any]:
    p = subprocess.run([core.PY, str(core.VERIF / "vp" / "refserver.py")], input=json.dumps(reqs),
                       capture_output=True, text=True, timeout=600)
    if p.returncode != 0:
        raise RuntimeError("refserver failed: " + p.stderr[-400:])
    return json.loads(p.stdout)


def impl_dump(v: Any) -> str:
    def tag(t: Any) -> str:
        return "-" if t is None else f"{t.phase}:{t.number}"
    loc = "-" if v.local is None else ".".join(str(x) for x in v.local)
    return f"{v.epoch}|{v.release.text}|{tag(v.pre)}|{tag(v.post)}|{tag(v.dev)}|{loc}"


def impl_parse(s: str) -> list[str]:
    from poetry.core.constraints.version import Version
    try:
        v = Version.parse(s)
    except ValueError:
        return ["err", "value"]
    except Exception as e:  # noqa: BLE001
        return ["err", type(e).__name__]
    return ["ok", impl_dump(v), v.to_string(), str(v)]


def impl_cmp(a: str, b: str) -> list[str]:
    from poetry.core.constraints.version import Version
    try:
        x, y = Version.parse(a), Version.parse(b)
    except ValueError:
        return ["err", "value"]
    lt, eq, gt = x < y, x == y, x > y
    if [lt, eq, gt].count(True) != 1:
        return ["incoherent", f"lt={lt} eq={eq} gt={gt}"]
    sgn = "lt" if lt else ("eq" if eq else "gt")
    return ["ok", sgn, "1" if hash(x) == hash(y) else "0", "1" if (x <= y) == (lt or eq) and (x >= y) == (gt or eq) else "0"]


def gen_strings(ctx: core.Ctx, n: int) -> list[str]:
    rnd = ctx.rng
    out: list[str] = []
    for _ in range(n):
        k = rnd.random()
        s = gen_version.version(rnd, fancy=0.6, local=0.25)
        if k < 0.3:
            s = gen_version.mutate(rnd, s)
        out.append(s)
    return [s for s in out if core.valid_utf8(s) and "ſ" not in s and "K" not in s]


def check_strings(ctx: core.Ctx, strings: list[str], stream: str) -> None:
    model = core.run_driver([core.line("vparse", s) for s in strings])
    ref = ref_batch([{"op": "vparse", "s": s} for s in strings])
    dis = 0
    for s, m, r in zip(strings, model, ref):
        i = impl_parse(s)
        ok = i[0] == "ok"
        ctx.case("p:" + s, nontrivial=ok, sample={"parse": s, "impl": i} if ok else None)
        ctx.count("parse:" + i[0] + ("" if ok else ":" + i[1]))
        if i != m:
            dis += 1
            ctx.disagree(stream, s, i, m)
        # property oracle on the implementation (reference = packaging)
        if i[0] == "err" and i[1] != "value":
            ctx.violate(f"parse-crash:{s!r}", f"Version.parse({s!r}) raised {i[1]}", {"op": "vparse", "s": s})
        elif ok != (r[0] == "ok"):
            ctx.violate(f"accept:{s!r}", f"Version.parse({s!r}) accept={ok} but reference accept={r[0] == 'ok'}",
                        {"op": "vparse", "s": s})
        elif ok:
            if i[2] != r[1]:
                ctx.violate(f"normal:{s!r}", f"normal form of {s!r} is {i[2]!r}, reference {r[1]!r}", {"op": "vparse", "s": s})
            else:
                j = impl_parse(i[2])
                if j[0] != "ok" or j[2] != i[2] or impl_cmp(s, i[2])[:2] != ["ok", "eq"]:
                    ctx.violate(f"reparse:{s!r}", f"normal form {i[2]!r} of {s!r} does not re-parse to an equal version",
                                {"op": "vparse", "s": s})
    ctx.stream(stream, len(strings), dis)


def check_pairs(ctx: core.Ctx, pairs: list[tuple[str, str]], stream: str) -> None:
    model = core.run_driver([core.line("vcmp", a, b) for a, b in pairs])
    ref = ref_batch([{"op": "vcmp", "a": a, "b": b} for a, b in pairs])
    dis = 0
    for (a, b), m, r in zip(pairs, model, ref):
        i = impl_cmp(a, b)
        ok = i[0] == "ok"
        ctx.case("c:" + a + "\0" + b, nontrivial=ok, sample={"cmp": [a, b], "impl": i} if ok and i[1] == "eq" else None)
        ctx.count("cmp:" + (i[1] if ok else i[0]))
        if i[0] == "incoherent":
            ctx.violate(f"incoherent:{a!r},{b!r}", f"<,==,> not exclusive for {a!r},{b!r}: {i[1]}", {"op": "vcmp", "a": a, "b": b})
            continue
        mi = ["ok", m[1]] if m[0] == "ok" else m
        if i[:2] != mi[:2]:
            dis += 1
            ctx.disagree(stream, [a, b], i, m)
        if m[0] == "ok" and m[1] != m[2]:
            # the model disagrees with the Lean reference spec: theorem cmp_eq_ref would be false here
            ctx.disagree(stream + ":model-vs-spec", [a, b], m[1], m[2])
        if ok and r[0] == "ok":
            if i[1] != r[1]:
                ctx.violate(f"order:{a!r},{b!r}", f"{a!r} vs {b!r}: poetry-core says {i[1]}, reference {r[1]}",
                            {"op": "vcmp", "a": a, "b": b})
            elif i[1] == "eq" and i[2] != "1":
                ctx.violate(f"hash:{a!r},{b!r}", f"{a!r} == {b!r} but hashes differ", {"op": "vcmp", "a": a, "b": b})
            elif i[3] != "1":
                ctx.violate(f"le-ge:{a!r},{b!r}", f"<= / >= inconsistent with < == > for {a!r},{b!r}", {"op": "vcmp", "a": a, "b": b})
    ctx.stream(stream, len(pairs), dis)


CORPUS_STRINGS = ["1.0RC1", "1.0ALPHA1", "1.0.POST1", "1.0-1", "1.0+0", "1.0+a", "1.0+ABC", "1!0", "v1", " 1.0 ", "1.0\n",
                  "1.0a-1", "1.0a--1", "1.0-r1", "1.0pre", "1.0preview2", "1.0c3", "1.0.dev", "1.0-1-1", "1..0", "", " ", "1.0+",
                  "1.0+a..b", "1.0.post-1", "01.02", "1.0+00", "1.0rev", "1.0a.post1", "1_0", "1.0_dev_1", "1.0.a.1"]
CORPUS_PAIRS = [("1.0", "1.0+0"), ("1.0+0", "1.0+a"), ("1.0RC1", "1.0rc1"), ("1.0ALPHA1", "1.0a1"), ("1.0", "1.0.0"),
                ("1.0.dev0", "1.0a0"), ("1.0a1.dev1", "1.0a1"), ("1.0.post1.dev1", "1.0.post1"), ("1.0+a", "1.0+b"),
                ("1.0+1", "1.0+a"), ("1.0+a", "1.0+a.0"), ("1.0+10", "1.0+9"), ("1!0", "2"), ("1.0-1", "1.0.post1"),
                ("1.0+01", "1.0+1"), ("1.0.POST1", "1.0.post1"), ("1.0.DEV1", "1.0.dev1"), ("1.0+A", "1.0+a")]


def correspondence(ctx: core.Ctx) -> None:
    check_strings(ctx, CORPUS_STRINGS, "corpus-parse")
    check_pairs(ctx, CORPUS_PAIRS, "corpus-cmp")
    if ctx.thorough:
        # exhaustive over a fixed universe: all ordered pairs
        rnd = ctx.rng
        uni: list[str] = []
        for rel in ["1", "1.0", "1.0.0", "1.1", "0.9", "1!1.0", "2"]:
            for suf in ["", "a1", "a2", "b1", "rc1", ".post1", ".post2", ".dev0", ".dev1", "a1.dev1", ".post1.dev1", "a1.post1", "RC1"]:
                for loc in ["", "+0", "+a", "+1", "+a.1", "+1.a", "+A", "+10"]:
                    uni.append(rel + suf + loc)
        rnd.shuffle(uni)
        uni = uni[:420]
        check_strings(ctx, uni, "universe-parse")
        pairs = [(a, b) for a in uni for b in uni]
        for k in range(0, len(pairs), 40000):
            check_pairs(ctx, pairs[k:k + 40000], "universe-cmp")
    strings = gen_strings(ctx, ctx.budget(6000, 200000))
    check_strings(ctx, strings, "gen-parse")
    valid = [s for s in strings if impl_parse(s)[0] == "ok"]
    rnd = ctx.rng
    pairs = []
    for _ in range(ctx.budget(12000, 300000)):
        a = rnd.choice(valid)
        b = gen_version.related(rnd, a) if rnd.random() < 0.7 else rnd.choice(valid)
        if core.valid_utf8(b):
            pairs.append((a, b))
    check_pairs(ctx, pairs, "gen-cmp")


def search(ctx: core.Ctx) -> None:
    """Something broke (proof or correspondence): look harder for a failing input of the property itself."""
    ds = [d["input"] for d in ctx.disagreements]
    strings = [d for d in ds if isinstance(d, str)] + [x for d in ds if isinstance(d, list) for x in d]
    more: list[str] = []
    for s in strings[:200]:
        for _ in range(20):
            more.append(gen_version.related(ctx.rng, s))
    if more or strings:
        check_strings(ctx, (strings + more)[:20000], "search-parse")
        allv = [s for s in (strings + more) if impl_parse(s)[0] == "ok"][:400]
        check_pairs(ctx, [(a, b) for a in allv for b in allv][:160000], "search-cmp")
    if not ctx.violations:
        strings = gen_strings(ctx, 60000)
        check_strings(ctx, strings, "search-gen")
        valid = [s for s in strings if impl_parse(s)[0] == "ok"]
        pairs = [(a, gen_version.related(ctx.rng, a)) for a in valid for _ in range(3)]
        check_pairs(ctx, pairs, "search-gen-cmp")


def replay(ctx: core.Ctx, payload: dict[str, Any]) -> bool:
    w = payload.get("witness", payload)
    before = len(ctx.violations)
    if w.get("op") == "vparse":
        check_strings(ctx, [w["s"]], "replay")
    elif w.get("op") == "vcmp":
        check_pairs(ctx, [(w["a"], w["b"])], "replay")
    return len(ctx.violations) > before
