"""C01 — every built wheel is a self-consistent, installable archive."""
from __future__ import annotations

import json
import os
import subprocess
from pathlib import Path
from typing import Any

from . import build_common as bc
from . import core, gen_project

PROP = "C01"
LEAN_MODULE = "PoetryVerif.Props.C01"
RULE = ("seeded project trees from vp/gen_project.py (flat/src packages, nested packages, data files, single modules, stub-only "
        "packages, packages with from/to/format, include/exclude globs with per-format selectors, file scripts, entry points, "
        "licence files, extras, names needing normalisation, versions with epoch/pre/post/dev/local, local-version setting, "
        "[project] and [tool.poetry] styles), file modes perturbed inside their executable/non-executable class, "
        "SOURCE_DATE_EPOCH drawn from {unset, 0, 315532799, 315532800, recent, non-integer}; each project is built as "
        "{wheel, editable} x {hook API, builder API}. A case = one built archive; non-trivial when the build succeeds and the "
        "archive has at least one member besides the dist-info; distinct = distinct (feature set, name, version, kind, api).")
ASSUMPTIONS = [
    "zip/deflate encoder (zipfile, zlib), sha256 (hashlib), csv reader and the file system are trusted; sha256 is uninterpreted in the model (the harness supplies digests it computes itself from the files and from the archive)",
    "files do not change while a build runs (the builder reads every file three times: hash, copy, stat)",
    "each member once is an invariant of every wheel that is written (the writers refuse a name already in the archive, repo fix a8f41e9; theorem written_wheel_each_once); ConfigDistinct / DistinctTargets characterise when the build succeeds; a refused build is compared with the model at the refusing call (stream guard)",
    "the record theorems hold for all operation sequences; that the builder performs exactly the modelled sequence is tied by the correspondence (logged _add_file/_write_to_zip/_write_record calls vs model plan) on the generated projects",
    "names: ASCII project names; version text without '-' (true for PEP 440 normal form; a local-version label with '-'/'_' is the recorded finding D11 and is not generated)",
    "csv quoting as in CPython 3.12 with lineterminator '\\n' (',', '\"' and '\\n' force quoting)",
    "reference for PEP 427/503/440 name agreement: packaging 26.3 (parse_wheel_filename, parse_tag) in a separate process",
    "two file scripts with the same base name and a package `to` target containing '..' are not generated; one fixed witness of each runs on every check under the class keys file-scripts-same-basename / package-to-parent-directory",
]

NONEXEC_MODES = [0o644, 0o600, 0o664, 0o666, 0o640, 0o604, 0o654, 0o645, 0o444]
EXEC_MODES = [0o755, 0o700, 0o775, 0o777, 0o750, 0o744, 0o711, 0o500, 0o755]
SDE_VALUES: list[str | None] = [None, None, None, "0", "315532799", "315532800", "1727740801", "x", "", " 1700000000 ", "1_700_000_000", "-5"]
US = "\x1f"


def ref_batch(reqs: list[dict[str, Any]]) -> list[Any]:
    if not reqs:
        return []
    p = subprocess.run([core.PY, str(core.VERIF / "vp" / "refserver.py")], input=json.dumps(reqs),
                       capture_output=True, text=True, timeout=600)
    if p.returncode != 0:
        raise RuntimeError("refserver failed: " + p.stderr[-400:])
    return json.loads(p.stdout)


def pack(*fs: Any) -> str:
    return US.join(str(f) for f in fs)


# --------------------------------------------------------------------------------------
# the property, evaluated directly on a real .whl  (oracle; used for witnesses and replay)
# --------------------------------------------------------------------------------------

def oracle_archive(d: bc.WheelDesc) -> list[str]:
    """Everything in the statement that can be decided from the archive alone. Returns failure descriptions."""
    bad: list[str] = []
    if d.testzip is not None:
        bad.append(f"zip CRC failure in member {d.testzip!r}")
    names = [m["name"] for m in d.members]
    dups = sorted({n for n in names if names.count(n) > 1})
    if dups:
        bad.append(f"archive member listed more than once: {dups[:3]}")
    if len(d.dist_info_dirs) != 1:
        bad.append(f"expected exactly one .dist-info directory, found {d.dist_info_dirs}")
    if d.record_name is None:
        bad.append("no <dist-info>/RECORD member")
        return bad
    rows = d.record_rows
    if any(len(r) != 3 for r in rows):
        bad.append("RECORD row without exactly three fields")
        return bad
    rec_paths = [r[0] for r in rows]
    rdups = sorted({n for n in rec_paths if rec_paths.count(n) > 1})
    if rdups:
        bad.append(f"RECORD lists a path more than once: {rdups[:3]}")
    if sorted(set(rec_paths)) != sorted(set(names)):
        only_a = sorted(set(names) - set(rec_paths))[:3]
        only_r = sorted(set(rec_paths) - set(names))[:3]
        bad.append(f"RECORD paths differ from archive members (only in archive: {only_a}, only in RECORD: {only_r})")
    by_name: dict[str, list[dict[str, Any]]] = {}
    for m in d.members:
        by_name.setdefault(m["name"], []).append(m)
    for path, h, size in rows:
        if path == d.record_name:
            if h != "" or size != "":
                bad.append("RECORD's own row carries a hash or size")
            continue
        ms = by_name.get(path)
        if not ms:
            continue
        m = ms[-1]   # what an unzip leaves on disk when a name occurs twice
        if h != "sha256=" + m["digest"]:
            bad.append(f"RECORD hash of {path!r} is {h!r}, recomputed sha256={m['digest']}")
        if size != str(m["size"]):
            bad.append(f"RECORD size of {path!r} is {size!r}, member has {m['size']} bytes")
    for m in d.members:
        n = m["name"]
        comps = n.split("/")
        if n.startswith("/") or "\\" in n or ".." in comps or "" in comps or "." in comps or (len(n) > 1 and n[1] == ":"):
            bad.append(f"member path {n!r} is not a relative, forward-slashed path free of '..'")
        if (m["mode"] & 0o777) not in (0o644, 0o755):
            bad.append(f"member {n!r} has mode {oct(m['mode'] & 0o7777)}")
    return bad


def oracle_layout(d: bc.WheelDesc, allowed_top: set[str] | None) -> list[str]:
    """PEP 427 layout: the archive root holds only the project's own top-level packages/modules/included paths,
    `{distribution}-{version}.dist-info` and `{distribution}-{version}.data` — with distribution and version spelled
    exactly as in the file name (the normalised forms)."""
    bad: list[str] = []
    parts = d.file_name.split("-")
    if len(parts) < 5:
        return []       # reported by oracle_names
    prefix = parts[0] + "-" + parts[1]
    tops = sorted({m["name"].split("/")[0] for m in d.members})
    for t in tops:
        if t.endswith(".dist-info"):
            if t != prefix + ".dist-info":
                bad.append(f"dist-info directory {t!r} is not {prefix + '.dist-info'!r} (file name {d.file_name!r})")
        elif t.endswith(".data"):
            if t != prefix + ".data":
                bad.append(f"data directory {t!r} is not {prefix + '.data'!r} (file name {d.file_name!r}): installers will not recognise it")
        elif allowed_top is not None and t not in allowed_top and t not in ("..", ""):
            bad.append(f"top-level entry {t!r} is neither a selected package/module/include path {sorted(allowed_top)} nor the dist-info/data directory")
    for m in d.members:
        comps = m["name"].split("/")
        if comps[0].endswith(".data") and (len(comps) < 3 or comps[1] not in ("scripts", "purelib", "platlib", "headers", "data")):
            bad.append(f"member {m['name']!r} is not under a known .data sub-directory")
    return bad


def allowed_top_level(p: gen_project.Project, kind: str) -> set[str] | None:
    """top-level archive names the project's own configuration asks for (None when the description carries no meta)"""
    meta = p.meta
    if not meta or "module" not in meta:
        return None
    mod = meta["module"]
    if kind == "editable":
        return {mod + ".pth"}
    out: set[str] = set()
    pkgs = meta.get("packages") or []
    if not pkgs:
        out |= {mod, mod + ".py"}
    for e in pkgs:
        first = (e["to"] + "/" + e["include"]) if e.get("to") else e["include"]
        out.add(first.split("/")[0])
    for inc in meta.get("include") or []:
        path = inc if isinstance(inc, str) else inc["path"]
        out.add(path.split("/")[0])
    return out


def finding_class(p: gen_project.Project) -> str | None:
    """configurations behind recorded findings (keyed by class, not by project)"""
    fs = list((p.meta.get("file_scripts") or {}).values())
    bases = [x.rsplit("/", 1)[-1] for x in fs]
    if len(set(bases)) < len(bases):
        return "file-scripts-same-basename"
    if p.meta.get("two_sources"):
        return "two-sources-one-archive-name"
    for e in p.meta.get("packages") or []:
        to = e.get("to") or ""
        if to.startswith("/") or ".." in to.split("/"):
            return "package-to-parent-directory"
    return None


def header(hs: list[tuple[str, str]], key: str) -> list[str]:
    return [v for k, v in hs if k.lower() == key.lower()]


def oracle_names(d: bc.WheelDesc, ref_file: Any, ref_tag: Any, ref_meta_ver: Any, ref_canon: Any, ref_di_ver: Any) -> list[str]:
    """name agreement under PEP 427/503/440 normalisation (reference answers come from packaging in a subprocess)"""
    bad: list[str] = []
    if ref_file[0] != "ok":
        return [f"file name {d.file_name!r} is not a valid wheel file name: {ref_file[1:]}"]
    _, fname_name, fname_ver, _build, fname_tags = ref_file
    mname, mver = header(d.metadata_headers, "Name"), header(d.metadata_headers, "Version")
    if len(mname) != 1 or len(mver) != 1:
        return [f"METADATA has Name={mname} Version={mver}"]
    if ref_canon[0] != "ok" or ref_canon[1] != fname_name:
        bad.append(f"file name says project {fname_name!r}, METADATA Name {mname[0]!r} normalises to {ref_canon[1:]}")
    if ref_meta_ver[0] != "ok" or ref_meta_ver[1] != fname_ver:
        bad.append(f"file name says version {fname_ver!r}, METADATA Version {mver[0]!r} normalises to {ref_meta_ver[1:]}")
    tags = header(d.wheel_headers, "Tag")
    if ref_tag[0] != "ok" or ref_tag[1] != fname_tags:
        bad.append(f"file name tags {fname_tags} differ from WHEEL Tag {tags}")
    if len(d.dist_info_dirs) == 1:
        di = d.dist_info_dirs[0][: -len(".dist-info")]
        dn, _, dv = di.partition("-")
        if dn.replace("_", "-").lower() != fname_name or "-" in dv or ref_di_ver[0] != "ok" or ref_di_ver[1] != fname_ver:
            bad.append(f"dist-info directory {d.dist_info_dirs[0]!r} does not agree with file name {d.file_name!r}")
        if d.file_name.split("-")[0] != dn:
            bad.append(f"file name and dist-info spell the distribution differently: {d.file_name.split('-')[0]!r} vs {dn!r}")
    return bad


# --------------------------------------------------------------------------------------
# one project
# --------------------------------------------------------------------------------------

def perturb_modes(ctx_rng: Any, p: gen_project.Project) -> gen_project.Project:
    files = [gen_project.FileSpec(f.path, f.data, ctx_rng.choice(EXEC_MODES if f.executable else NONEXEC_MODES))
             for f in p.files]
    return gen_project.Project(p.name, p.version, p.style, p.pyproject, files, p.config_settings, p.features, p.meta)


def model_lines_for(b: bc.Built, d: bc.WheelDesc, sde: str | None, modname: str, data_folder: str) -> list[str]:
    """driver requests for one built wheel: replay of the logged operations, and the plan from unordered inputs"""
    log = b.log
    assert log is not None
    di = d.dist_info_dirs[0] if d.dist_info_dirs else "?.dist-info"
    ops = []
    for op in log.ops:
        if op[0] == "add":
            ops.append(pack("A", op[1], op[2], op[3], op[4]))
        elif op[0] == "write":
            ops.append(pack("W", op[1], op[2], op[3]))
    lines = [core.line("brun", di, *ops), core.line("bcsv", d.record_text)]
    items = []
    root = log.project_root
    for ab, _rel, tgt in log.to_add:
        data = Path(ab).read_bytes()
        items.append(pack("F", Path(ab).relative_to(root).as_posix() if root else ab, tgt, os.stat(ab).st_mode, bc.b64digest(data), len(data)))
    for s in log.file_scripts:
        data = Path(s).read_bytes()
        items.append(pack("S", Path(s).name, os.stat(s).st_mode, bc.b64digest(data), len(data)))
    for rel in log.dist_info_listing:
        data = log.dist_info_bytes[rel]
        items.append(pack("D", rel, log.dist_info_modes[rel], bc.b64digest(data), len(data)))
    pth = [o for o in log.ops if o[0] == "write"]
    pth_d, pth_n = (pth[0][2], pth[0][3]) if pth else ("", 0)
    lines.append(core.line("bwheel", "1" if b.kind == "editable" else "0", root or "/", modname, pth_d, str(pth_n),
                           log.dist_info_source or "/di", di, data_folder, "0" if sde is None else "1", sde or "", *items))
    return lines


def compare_model(ctx: core.Ctx, sig: Any, b: bc.Built, d: bc.WheelDesc, replies: list[list[str]]) -> int:
    """diff the model's answers against the real archive / the logged sequence; returns number of disagreements"""
    dis = 0
    log = b.log
    assert log is not None
    real_members = [pack(m["name"], (m["mode"] << 16) | m["attr_low"], m["digest"], m["size"]) for m in d.members]
    run, rdr, plan = replies
    # the model's csv reader (used by theorem record_reads_back) vs Python's csv.reader on the real RECORD text
    if rdr[0] != "ok" or [r.split(US) for r in rdr[1:]] != d.record_rows:
        dis += 1
        ctx.disagree("csv-reader", sig, d.record_rows[-2:], rdr[-2:])
    # (a) replay of the logged operations through the record state machine
    if run[0] != "ok":
        ctx.disagree("record-machine", sig, "built", run)
        return 1
    model_text = run[2]
    model_members = run[3:]
    if model_members:
        last = model_members[-1].split(US)
        last[2] = bc.b64digest(model_text.encode("utf-8"))   # sha256 is uninterpreted in the model
        model_members[-1] = US.join(last)
    if model_text != d.record_text:
        dis += 1
        ctx.disagree("record-text", sig, d.record_text[-300:], model_text[-300:])
    if model_members != real_members:
        dis += 1
        diff = [(a, c) for a, c in zip(real_members, model_members) if a != c][:2]
        ctx.disagree("members", sig, {"n": len(real_members), "first_diff": diff}, {"n": len(model_members)})
    recs = [(o[1], o[3], o[4]) if o[0] == "add" else (o[1], o[2], o[3]) for o in log.ops]
    if b.api == "builder" and [tuple(r) for r in log.records_after] != recs:
        dis += 1
        ctx.disagree("records-attr", sig, [list(r) for r in log.records_after][-3:], recs[-3:])
    # (b) plan from unordered inputs = the sequence the builder performed
    if plan[0] != "ok":
        dis += 1
        ctx.disagree("plan", sig, "built", plan)
        return dis
    n = int(plan[4])
    model_ops = plan[5:5 + n]
    real_ops = [pack("A", o[1], o[2], o[3], o[4]) if o[0] == "add" else pack("W", o[1], o[2], o[3])
                for o in log.ops if o[0] != "record"]
    if model_ops != real_ops:
        dis += 1
        diff = [(a, c) for a, c in zip(real_ops, model_ops) if a != c][:2]
        ctx.disagree("plan-ops", sig, {"n": len(real_ops), "first_diff": diff}, {"n": len(model_ops)})
    if plan[3] != d.record_text:
        dis += 1
        ctx.disagree("plan-record", sig, d.record_text[-200:], plan[3][-200:])
    dts = {",".join(map(str, m["date_time"])) for m in d.members}
    if dts != {",".join(map(str, bc.zip_dos_time(plan[1].split(","))))}:   # zip stores seconds with 2 s resolution
        dis += 1
        ctx.disagree("date-time", sig, sorted(dts), plan[1])
    if plan[2][:1] != "1":
        ctx.count("model:DistinctTargets-false")
    if plan[2][1:2] != "1":
        ctx.count("model:ConfigDistinct-false")
    else:
        ctx.count("model:ConfigDistinct-true")
        names = [m["name"] for m in d.members]
        if len(set(names)) != len(names):      # would contradict theorem builder_each_once
            dis += 1
            ctx.disagree("config-distinct", sig, sorted(n for n in set(names) if names.count(n) > 1)[:3], "ConfigDistinct holds")
    return dis


def check_project(ctx: core.Ctx, p: gen_project.Project, sde: str | None, stream: str,
                  kinds: tuple[str, ...] = ("wheel", "editable"), apis: tuple[str, ...] = ("hook", "builder")) -> None:
    base = bc.scratch("pcv-c01-")
    try:
        root = bc.materialise(p, parent=str(base), dirname=p.meta.get("root_dirname", "proj"))
        witness_base = {"project": p.to_json(), "sde": sde}
        with bc.env(environ={"SOURCE_DATE_EPOCH": sde}):
            try:
                facts = bc.facts(root, p.config_settings)
            except Exception as e:  # noqa: BLE001
                ctx.count("unbuildable:" + type(e).__name__)
                ctx.notes.append(f"generator produced an unbuildable project: {type(e).__name__}: {str(e)[:200]}")
                return
            if facts["meta_version"] != p.version:
                ctx.count("version-spelling-noncanonical" + ("+file-scripts" if "file-scripts" in p.features else ""))
            md = base / "prepared"
            md.mkdir()
            prep_name, prep_files = bc.prepare_metadata(root, md, p.config_settings)
            built: list[tuple[bc.Built, bc.WheelDesc]] = []
            driver_lines: list[str] = [
                core.line("bver", p.version, (p.config_settings or {}).get("local-version", "")),
                core.line("bpy2", facts["python_constraint"]),
                core.line("btime", "wheel", "0" if sde is None else "1", sde or ""),
            ]
            for kind in kinds:
                for api in apis:
                    out = base / f"out-{kind}-{api}"
                    out.mkdir()
                    b = bc.build(root, kind, api, out, p.config_settings, cwd=str(base))
                    sig = {"name": p.name, "version": p.version, "kind": kind, "api": api, "features": p.features}
                    wit = dict(witness_base, kind=kind, api=api)
                    key = f"{kind}/{api}:{p.signature()}"
                    if not b.ok:
                        ctx.count("build-failed:" + b.error.split(":")[0])
                        ctx.case(key, nontrivial=False)
                        ctx.notes.append(f"build failed ({kind}/{api}): {b.error[:200]}")
                        if "Several files would be written" in b.error and b.log is not None and b.log.ops:
                            # the guarded writers (repo fix a8f41e9): the model must refuse the same call, and only that one
                            ops = [pack("A", o[1], o[2], o[3], o[4]) if o[0] == "add" else pack("W", o[1], o[2], o[3])
                                   for o in b.log.ops if o[0] != "record"]
                            rr = core.run_driver([core.line("brunpartial", "-", *ops), core.line("brunpartial", "-", *ops[:-1])])
                            ctx.count("guard:refused-on-both-sides" if rr[0][:2] == ["err", "runtime"] else "guard:model-accepts")
                            bad = rr[0][:2] != ["err", "runtime"] or rr[1][0] != "ok"
                            ctx.stream("guard", 1, 1 if bad else 0)
                            if bad:
                                ctx.disagree("guard", {"project": p.name, "kind": kind, "api": api, "last_op": b.log.ops[-1][:2]}, b.error[:120], rr)
                        continue
                    # hook contract: the returned name is the file in the output directory
                    if b.listing != [b.returned]:
                        ctx.violate("returned-name:" + key, f"{kind}/{api} returned {b.returned!r} but the output directory holds {b.listing}", wit)
                        continue
                    d = bc.read_wheel(b.path)
                    fclass = finding_class(p)
                    for msg in oracle_archive(d) + oracle_layout(d, allowed_top_level(p, kind)):
                        vkey = "archive:" + msg[:60] + ":" + key
                        if fclass == "file-scripts-same-basename" and ("more than once" in msg or ".data/scripts/" in msg):
                            vkey = fclass
                        elif fclass == "package-to-parent-directory" and ("is not a relative" in msg):
                            vkey = fclass
                        elif fclass == "two-sources-one-archive-name" and ("more than once" in msg or "RECORD" in msg):
                            vkey = fclass
                        if vkey in PENDING_CLASSES:
                            ctx.count("pending-finding:" + vkey)
                            if not any(vkey in n for n in ctx.notes):
                                ctx.notes.append(f"pending finding {vkey}: {msg}")
                            continue
                        ctx.violate(vkey, f"{kind}/{api} wheel of {p.name} {p.version}: {msg}", wit)
                    if prep_name not in d.dist_info_dirs:
                        ctx.violate("prepared-name:" + key, f"prepare_metadata_for_build_wheel returned {prep_name!r}, wheel contains {d.dist_info_dirs}", wit)
                    elif prep_files != d.dist_info_bytes:
                        diff = sorted(k for k in set(prep_files) | set(d.dist_info_bytes) if prep_files.get(k) != d.dist_info_bytes.get(k))
                        ctx.violate("prepared-bytes:" + key, f"prepared dist-info differs from the dist-info inside the {kind}/{api} wheel in {diff[:4]}", wit)
                    built.append((b, d))
                    nontrivial = any(not m["name"].startswith(tuple(d.dist_info_dirs)) for m in d.members)
                    ctx.case(key, nontrivial=nontrivial,
                             sample={"wheel": d.file_name, "kind": kind, "api": api, "members": len(d.members), "features": p.features})
                    ctx.count(f"built:{kind}/{api}")
                    ctx.count("members", len(d.members))
                    driver_lines += model_lines_for(b, d, sde, facts["module_name"], facts["data_folder"])
            if not built:
                return
            # reference: packaging in a subprocess
            reqs: list[dict[str, Any]] = []
            for _b, d in built:
                mname, mver = header(d.metadata_headers, "Name"), header(d.metadata_headers, "Version")
                tags = header(d.wheel_headers, "Tag")
                di = d.dist_info_dirs[0][: -len(".dist-info")] if d.dist_info_dirs else "x-0"
                reqs += [{"op": "wheelname", "s": d.file_name}, {"op": "tags", "s": tags[0] if len(tags) == 1 else "?"},
                         {"op": "vparse", "s": mver[0] if mver else "?"}, {"op": "canon", "s": mname[0] if mname else "?"},
                         {"op": "vparse", "s": di.partition("-")[2]}]
            refs = ref_batch(reqs)
            replies = core.run_driver(driver_lines)
            ver_r, py2_r, time_r = replies[0], replies[1], replies[2]
            dis = 0
            for i, (b, d) in enumerate(built):
                sig = {"name": p.name, "version": p.version, "kind": b.kind, "api": b.api, "cfg": p.config_settings}
                wit = dict(witness_base, kind=b.kind, api=b.api)
                key = f"{b.kind}/{b.api}:{p.signature()}"
                for msg in oracle_names(d, *refs[5 * i: 5 * i + 5]):
                    ctx.violate("names:" + msg[:50] + ":" + key, f"{b.kind}/{b.api} wheel of {p.name} {p.version}: {msg}", wit)
                dis += compare_model(ctx, sig, b, d, replies[3 + 3 * i: 6 + 3 * i])
            # names: model vs what the builder computed / wrote
            b0, d0 = built[0]
            mver = header(d0.metadata_headers, "Version")
            if ver_r[0] != "ok" or [ver_r[1]] != mver or ver_r[1] != facts["meta_version"]:
                dis += 1
                ctx.disagree("version-text", [p.version, p.config_settings], [mver, facts["meta_version"]], ver_r)
            py2 = "1" if facts["supports_py2"] else "0"
            if py2_r != ["ok", py2]:
                dis += 1
                ctx.disagree("supports-python2", facts["python_constraint"], py2, py2_r)
            names_r = core.run_driver([core.line("bnames", p.name, facts["meta_version"], py2)])[0]
            impl_names = [facts["package_name"], facts["package_name"].replace("-", "_"), facts["dist_info"], facts["data_folder"],
                          facts["wheel_filename"], facts["tag"]]
            if names_r[:7] != ["ok", *impl_names]:
                dis += 1
                ctx.disagree("names", [p.name, facts["meta_version"], py2], impl_names, names_r[1:7])
            for b, d in built:
                tags = header(d.wheel_headers, "Tag")
                if d.file_name != names_r[5] or d.dist_info_dirs != [names_r[3]] or tags != [names_r[6]] or b.returned != names_r[5]:
                    dis += 1
                    ctx.disagree("names-archive", [p.name, p.version], [d.file_name, d.dist_info_dirs, tags], names_r[1:7])
            ctx.stream(stream, len(built), dis)
    finally:
        bc.rmtree(base)


CORPUS_WANTS = [{"layout:package-flat", "style:poetry"}, {"layout:package-src", "style:project"}, {"layout:module-flat"},
                {"layout:module-src"}, {"layout:stubs"}, {"layout:explicit", "style:poetry"}, {"layout:explicit", "style:project"}]


def _tiny(name: str, extra_tool: str, files: dict[str, tuple[bytes, int]], meta: dict[str, Any]) -> gen_project.Project:
    py = (f'[tool.poetry]\nname = "{name}"\nversion = "1.0"\ndescription = ""\nauthors = []\n{extra_tool}\n'
          '[tool.poetry.dependencies]\npython = ">=3.8"\n\n' + gen_project.BUILD_SYSTEM)
    fl = [gen_project.FileSpec(k, v[0], v[1]) for k, v in files.items()]
    m = {"module": name.replace("-", "_"), "packages": [], "include": [], "file_scripts": {}}
    m.update(meta)
    return gen_project.Project(name, "1.0", "poetry", py, fl, None, ["corpus-finding"], m)


def findings_corpus() -> list[gen_project.Project]:
    """one fixed witness per recorded finding class (not produced by the generator)"""
    dup = _tiny("dup-scripts",
                '\n[tool.poetry.scripts]\na = { reference = "bin/a.sh", type = "file" }\nb = { reference = "tools/a.sh", type = "file" }\n',
                {"dup_scripts/__init__.py": (b"x = 1\n", 0o644), "bin/a.sh": (b"#!/bin/sh\n", 0o755), "tools/a.sh": (b"#!/bin/sh\necho 2\n", 0o644)},
                {"file_scripts": {"a": "bin/a.sh", "b": "tools/a.sh"}})
    up = _tiny("to-parent", 'packages = [{ include = "my_pkg", to = "../up" }]\n',
               {"my_pkg/__init__.py": (b"x = 1\n", 0o644)},
               {"packages": [{"include": "my_pkg", "to": "../up"}]})
    two = _tiny("two-sources", 'packages = [{ include = "pkg", from = "a" }, { include = "pkg", from = "b" }]\n',
                {"a/pkg/__init__.py": (b"A = 1\n", 0o644), "b/pkg/__init__.py": (b"B = 1\n", 0o644)},
                {"packages": [{"include": "pkg", "from": "a"}, {"include": "pkg", "from": "b"}], "two_sources": True})
    # files that resolve OUTSIDE the project / source root (the unchanged builder refuses them: `relative_to` raises):
    # an explicit include beside the project, and a package data file that is a symbolic link to a project-level directory
    outside = _tiny("outside-include", 'include = [{ path = "../shared/schema.json", format = ["wheel"] }]\n',
                    {"outside_include/__init__.py": (b"x = 1\n", 0o644), "../shared/schema.json": (b"{}\n", 0o644)},
                    {"include": [{"path": "../shared/schema.json", "format": ["wheel"]}]})
    link = _tiny("link-outside", 'packages = [{ include = "link_outside", from = "src" }]\n',
                 {"src/link_outside/__init__.py": (b"x = 1\n", 0o644), "shared/data.json": (b"{}\n", 0o644)},
                 {"packages": [{"include": "link_outside", "from": "src"}],
                  "symlinks": {"src/link_outside/data.json": "../../shared/data.json"}})
    return [dup, up, two, outside, link]


# classes whose witness reproduces on the current tree but which the lead has not yet triaged (fix or known finding):
# reported as a note and counted, not as a violation; remove the key here once known_findings.json / a repo fix has it
PENDING_CLASSES: set[str] = set()   # two-sources-one-archive-name: repaired in /repo (the builder refuses a second file under one name)


def perm_stream(ctx: core.Ctx) -> None:
    """normalize_file_permissions: generated Lean definition vs the Python function on all low 12-bit patterns + random high bits"""
    from poetry.core.masonry.utils.helpers import normalize_file_permissions
    modes = list(range(0, 0o10000)) + [ctx.rng.getrandbits(ctx.rng.choice([16, 24, 40])) for _ in range(500)] + [0o100644, 0o100755, 0o040755, 0o120777]
    rep = core.run_driver([core.line("bperm", str(m)) for m in modes])
    dis = 0
    for m, r in zip(modes, rep):
        want = normalize_file_permissions(m)
        if r[:2] != ["ok", str(want)]:
            dis += 1
            ctx.disagree("perm", m, want, r)
        if (want & 0o777) not in (0o644, 0o755) or (want >> 9) != (m >> 9) or ((want & 0o777) == 0o755) != bool(m & 0o100):
            ctx.violate(f"perm:{m}", f"normalize_file_permissions({oct(m)}) = {oct(want)}", {"perm": m})
    ctx.stream("perm", len(modes), dis)
    ctx.evaluations += len(modes)


def correspondence(ctx: core.Ctx) -> None:
    perm_stream(ctx)
    for fp in findings_corpus():
        # a build that is refused is fine (the configuration is then outside "buildable"); a wheel that is written must satisfy C01
        check_project(ctx, fp, None, "findings-corpus", kinds=("wheel",), apis=("hook",))
    rnd = ctx.rng
    n = ctx.budget(60, 1400)
    for i in range(n):
        want = CORPUS_WANTS[i] if i < len(CORPUS_WANTS) else None
        p = perturb_modes(rnd, gen_project.generate(rnd, want))
        for f in p.features:
            ctx.count("feature:" + f)
        sde = rnd.choice(SDE_VALUES)
        ctx.count("sde:" + repr(sde))
        check_project(ctx, p, sde, "projects")


def search(ctx: core.Ctx) -> None:
    """Proof or correspondence broke: evaluate the property itself on more (and on the disagreeing) real wheels."""
    rnd = ctx.rng
    for _ in range(ctx.budget(150, 600)):
        if ctx.violations:
            return
        p = perturb_modes(rnd, gen_project.generate(rnd))
        check_project(ctx, p, rnd.choice(SDE_VALUES), "search")


def replay(ctx: core.Ctx, payload: dict[str, Any]) -> bool:
    w = payload.get("witness", payload)
    before = len(ctx.violations)
    if "perm" in w:
        from poetry.core.masonry.utils.helpers import normalize_file_permissions
        m = int(w["perm"])
        want = normalize_file_permissions(m)
        return (want & 0o777) not in (0o644, 0o755) or (want >> 9) != (m >> 9) or ((want & 0o777) == 0o755) != bool(m & 0o100)
    p = gen_project.Project.from_json(w["project"])
    kinds = (w["kind"],) if "kind" in w else ("wheel", "editable")
    apis = (w["api"],) if "api" in w else ("hook", "builder")
    check_project(ctx, p, w.get("sde"), "replay", kinds, apis)
    return len(ctx.violations) > before
