"""C17 — marker projections only ever weaken; reduction by a Python range is exact."""
from __future__ import annotations

import re
from typing import Any

from . import core, gen_marker as G, marker_common as MC, marker_engine as E
from . import c11_gen

PROP = "C17"
LEAN_MODULE = "PoetryVerif.Props.C17"
RULE = ("markers from the C06 domain with up to 5 leaves x subsets of the variable names (only), x single variable names "
        "(exclude, without_extras) x Python ranges from the C11 domain (reduce_by_python_constraint); results evaluated on the "
        "environment sample. Non-trivial = operand parses and is not universal/empty; distinct = distinct (op, marker, argument).")
ASSUMPTIONS = [
    "functools caches cleared before every case; model is cache-free",
    "4 s limit per real-code call (time-outs counted, never a verdict)",
    "for `exclude` the property speaks about conjunctions of single-variable clauses only; other shapes are compared model vs code",
]

NAMES = ["python_version", "python_full_version", "sys_platform", "os_name", "platform_machine", "extra", "platform_release",
         "platform_system", "implementation_name", "platform_python_implementation", "platform_version"]


def mentioned(m: Any) -> set[str]:
    from poetry.core.version.markers import MarkerUnion, MultiMarker, SingleMarkerLike
    if isinstance(m, SingleMarkerLike):
        return {m.name}
    if isinstance(m, (MultiMarker, MarkerUnion)):
        out: set[str] = set()
        for x in m.markers:
            out |= mentioned(x)
        return out
    return set()


def conj_of_singles(text: str) -> list[str] | None:
    """the clauses if the text is a plain conjunction `c1 and c2 and …` of single-variable items"""
    if "(" in text or " or " in text:
        return None
    parts = text.split(" and ")
    for p in parts:
        if G.count_leaves(p) != 1:
            return None
    return parts


def clause_name(clause: str) -> str | None:
    m = re.match(r"\s*([A-Za-z_.]+)\s*(?:===|==|!=|<=|>=|~=|<|>|not\s+in|in)", clause)
    if m:
        return {v: k for k, v in G.ALIASES.items()}.get(m.group(1), m.group(1))
    m = re.search(r"(?:not\s+in|in)\s+([A-Za-z_.]+)\s*$", clause)
    if m:
        return {v: k for k, v in G.ALIASES.items()}.get(m.group(1), m.group(1))
    return None


def py_in_range(c: Any, e: dict[str, Any]) -> bool:
    from poetry.core.constraints.version import Version
    return c.allows(Version.parse(e["python_full_version"]))


def oracle(ctx: core.Ctx, recs: list[dict[str, Any]], envs: list[dict[str, Any]]) -> None:
    from poetry.core.constraints.version import parse_constraint
    for rec in recs:
        case = rec["case"]
        k, a = case["kind"], case["a"]
        ta = E.truth_of(a, envs)
        ok = rec.get("ok", False)
        arg = case.get("names") or case.get("name") or case.get("c") or case.get("op")
        ctx.case(f"{k}:{a}\0{arg}", nontrivial=ok and ta is not None,
                 sample={"kind": k, "a": a, "arg": arg, "result": rec.get("text")} if ok and k != "parse" else None)
        ctx.count(f"{k}:" + ("ok" if ok else rec.get("error", "?")))
        if rec.get("timeout") or ta is None or ta == E.TIMEOUT:
            continue
        wit = dict(case)
        if not ok:
            ctx.violate(f"raises:{k}:{a}|{arg}", f"{k}({a!r}, {arg!r}) raised {rec['error']} {rec.get('exc', '')}", wit)
            continue
        r = rec["result"]
        xa, xr = MC.split_bits(ta), MC.split_bits(rec["bits"])
        if k == "only":
            extra_names = mentioned(r) - set(case["names"])
            if extra_names:
                ctx.violate(f"only-mentions:{a}|{arg}", f"only({a!r}, {arg}) = {rec['text']!r} mentions {sorted(extra_names)}", wit)
                continue
            bad = [j for j in range(len(envs)) if xa[j] == "1" and xr[j] != "1"]
            if bad:
                ctx.violate(f"only-strengthens:{a}|{arg}", f"only({a!r}, {arg}) = {rec['text']!r} is false where the original holds", {**wit, "env": envs[bad[0]]})
        elif k == "excl" or (k == "unop" and case.get("op") == "noextras"):
            # the property speaks about a marker that IS a conjunction of single-variable clauses (as an object)
            from poetry.core.version.markers import MultiMarker, SingleMarkerLike
            name = case.get("name", "extra")
            try:
                obj = E.impl_parse(a)
            except Exception:  # noqa: BLE001
                continue
            members = [obj] if isinstance(obj, SingleMarkerLike) else (list(obj.markers) if isinstance(obj, MultiMarker) else None)
            if members is None or not all(isinstance(x, SingleMarkerLike) for x in members):
                ctx.count("exclude:not-a-conjunction-of-singles")
                continue
            ctx.count("exclude:conjunction-of-singles")
            keep = [x for x in members if x.name != name]
            sp = [MC.split_bits(MC.truth(x, envs)) for x in keep]
            if any(any(b not in "01" for b in s_) for s_ in sp):
                continue
            want_bits = ["1" if all(s_[j] == "1" for s_ in sp) else "0" for j in range(len(envs))]
            bad = [j for j in range(len(envs)) if xr[j] != want_bits[j]]
            if bad:
                ctx.violate(f"exclude-wrong:{a}|{name}", f"exclude({a!r}, {name!r}) = {rec['text']!r} is not the conjunction of the other clauses of {str(obj)!r}", {**wit, "env": envs[bad[0]]})
        elif k == "reduce":
            try:
                pc = parse_constraint(case["c"])
            except Exception:  # noqa: BLE001
                continue
            bad = [j for j, e in enumerate(envs) if xa[j] in "01" and py_in_range(pc, e) and xr[j] != xa[j]]
            if bad:
                ctx.violate(f"reduce-wrong:{a}|{case['c']}", f"reduce_by_python_constraint({a!r}, {case['c']!r}) = {rec['text']!r} differs from the original on "
                            f"{envs[bad[0]]['python_full_version']} (inside the range)", {**wit, "env": envs[bad[0]]})


def gen_cases(ctx: core.Ctx, n: int) -> list[dict[str, Any]]:
    rnd = ctx.rng
    out: list[dict[str, Any]] = []
    for _ in range(n):
        a = G.marker(rnd, max_leaves=rnd.choice([1, 2, 3, 4, 5]))
        if rnd.random() < 0.35:
            # a plain conjunction of singles, so that `exclude` is inside the property's domain
            a = " and ".join(G.leaf(rnd) for _ in range(rnd.randint(1, 4)))
        names = rnd.sample(NAMES, rnd.randint(1, 4))
        out.append({"kind": "only", "a": a, "names": names})
        out.append({"kind": "excl", "a": a, "name": rnd.choice(NAMES[:7])})
        out.append({"kind": "unop", "op": "noextras", "a": a})
        out.append({"kind": "reduce", "a": a, "c": c11_gen.py_range(rnd)})
    return out


CORPUS = [
    {"kind": "only", "a": 'python_version >= "3.8" and sys_platform == "linux" or extra == "a"', "names": ["python_version"]},
    {"kind": "only", "a": 'python_version >= "3.8" and (sys_platform == "linux" or extra == "a")', "names": ["extra", "sys_platform"]},
    {"kind": "excl", "a": 'python_version >= "3.8" and sys_platform == "linux" and extra == "a"', "name": "extra"},
    {"kind": "excl", "a": 'extra == "a" and extra != "b"', "name": "extra"},
    {"kind": "unop", "op": "noextras", "a": 'extra == "a" or python_version >= "3.8"'},
    {"kind": "reduce", "a": 'python_version >= "3.8" and sys_platform == "linux"', "c": ">=3.9"},
    {"kind": "reduce", "a": 'python_version < "3.8" or sys_platform == "linux"', "c": ">=3.9,<4"},
    {"kind": "reduce", "a": 'python_full_version >= "3.8.1" and python_version < "3.11"', "c": "^3.8"},
    {"kind": "reduce", "a": 'python_version in "3.8 3.9" or extra == "a"', "c": "~3.9"},
    {"kind": "reduce", "a": 'python_version >= "3.8" or python_version < "3.7"', "c": ">=3.6"},
]


def run(ctx: core.Ctx, cases: list[dict[str, Any]], stream: str, envs: list[dict[str, Any]] | None = None) -> None:
    envs = envs or G.env_grid(ctx.rng, 24)
    recs = E.run_cases(ctx, cases, stream, envs)
    oracle(ctx, recs, envs)


def correspondence(ctx: core.Ctx) -> None:
    run(ctx, CORPUS, "corpus")
    cases = gen_cases(ctx, ctx.budget(330, 10000))
    for k in range(0, len(cases), 1200):
        run(ctx, cases[k:k + 1200], "gen")
    # every single python leaf (all operators; literals incl. the two-digit 3.10 / 3.10.0 / 3.8.10) reduced by ranges open on
    # either side: the rewriting of `python_full_version >= "X.Y.0"` into `python_version >= "X.Y"` happens on this path
    leaves = G.python_leaf_universe() + [f'python_full_version {op} "{v}"' for op in G.VOPS for v in ("3.10.0", "3.8.10", "3.9.20", "3.11.0")]
    ranges = [">=3.8", ">=3.7", "<3.12", ">=3.8,<3.12", "^3.9", "~3.10", ">=3.10", "<3.10", ">=3.6,<3.10 || >=3.11",
              ">=3.8.1,<4.0", ">3.8", ">=3.8.1,<3.9", "3.8.1", "<=3.9.5", ">=3.9.1,<3.10.2"]    # ends inside a minor release
    uni = [{"kind": "reduce", "a": a, "c": c} for a in leaves for c in ranges]
    if not ctx.thorough:
        uni = (ctx.rng.sample(uni, 450) + [{"kind": "reduce", "a": f'python_full_version {op} "3.10.0"', "c": c} for op in (">=", "<") for c in ranges[:4]]
               + [{"kind": "reduce", "a": f'python_version {op} "3.8"', "c": c} for op in (">", "!=", "<=", "==") for c in ranges[9:13]])
    for k in range(0, len(uni), 1200):
        run(ctx, uni[k:k + 1200], "reduce-leaf-universe")
    lcu = list_conj_universe()
    if not ctx.thorough:
        pinned = [c for c in lcu if c["c"] in ("~3.9", "~3.8") and c["a"].startswith("python_full_version !=")]
        lcu = pinned + ctx.rng.sample(lcu, 350)
    lenvs = G.envs(extra_sets=[[]], pys=LIST_CONJ_ENVS_PY)
    for k in range(0, len(lcu), 1200):
        run(ctx, lcu[k:k + 1200], "reduce-list-conjunctions", envs=lenvs)


def list_conj_universe() -> list[dict[str, Any]]:
    """a comparison clause on the python version next to an `in` / `not in` LIST clause of two or three versions in one
    conjunction (both orders), alone (MultiMarker path) and as the python-only member of a union (the MarkerUnion shortcut
    through get_python_constraint_from_marker), reduced by ranges that lie inside ONE of the listed minors and by wider ones:
    the comparison clause must keep restricting every listed version, not only the first (seeded change C17-6)"""
    cmps = [f'python_full_version {op} "{v}"' for op in ("!=", "<", ">=") for v in ("3.8.1", "3.9.1")]
    cmps += [f'python_version {op} "{v}"' for op in ("<", ">=", "!=") for v in ("3.8", "3.9")]
    lists = ['python_version in "3.7, 3.9"', 'python_version in "3.8 3.9"', 'python_version in "3.7, 3.8, 3.9"',
             'python_version not in "3.7, 3.8"', 'python_full_version in "3.8.1, 3.9.1"', 'python_version in "3.9, 3.8"']
    ranges = ["~3.7", "~3.8", "~3.9", ">=3.9,<3.10", "^3.9", ">=3.8", ">=3.7,<3.10", ">=3.9.1,<3.9.5"]
    out = []
    for a in cmps:
        for b in lists:
            for conj in (f"{a} and {b}", f"{b} and {a}"):
                for m in (conj, f'{conj} or sys_platform == "linux"'):
                    out += [{"kind": "reduce", "a": m, "c": c} for c in ranges]
    return out


LIST_CONJ_ENVS_PY = ["3.7.0", "3.7.1", "3.8.0", "3.8.1", "3.8.10", "3.9.0", "3.9.1", "3.9.4", "3.9.18", "3.10.0", "3.10.12"]


def search(ctx: core.Ctx) -> None:
    seeds = []
    for d in ctx.disagreements:
        i = d["input"]
        c = i.get("case", i) if isinstance(i, dict) else None
        if c and "kind" in c:
            seeds.append(c)
    if seeds:
        run(ctx, seeds[:300], "search-disagreeing", envs=G.envs())
    if not ctx.violations:
        cases = gen_cases(ctx, 1500)
        for k in range(0, len(cases), 1200):
            run(ctx, cases[k:k + 1200], "search-gen")
            if ctx.violations:
                return


def replay(ctx: core.Ctx, payload: dict[str, Any]) -> bool:
    w = dict(payload.get("witness", payload))
    env = w.pop("env", None)
    before = len(ctx.violations)
    run(ctx, [w], "replay", envs=[env] if env else G.envs())
    return len(ctx.violations) > before
