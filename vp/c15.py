"""C15 — constraint text round-trips; range operators and bumps are monotone."""
from __future__ import annotations

from typing import Any

from . import core, vc_engine
from . import vc_common as V

PROP = "C15"
LEAN_MODULE = "PoetryVerif.Props.C15"
RULE = ("pairs of constraints with 1-3 '||' groups of 1-3 clauses over every operator (==, !=, <, <=, >, >=, ~=, ^, ~, bare, "
        "==X.*, !=X.*) and versions with pre/post/dev/local segments; probes = every bound, its dev/pre/post/local/next-patch "
        "neighbours and unrelated versions; the property oracle uses the probes that are regular for all bounds of both "
        "operands, the model/implementation comparison uses all probes (regular or not). Non-trivial = both operands parse and "
        "neither is empty/universal; distinct = distinct (a,b) text pair.")
ASSUMPTIONS = [
    "Python list.sort is modelled as a stable insertion sort by `<`; functools.cached_property is transparent",
    "the constraint parser's regex cascade is modelled by a hand tokeniser (tied by the parse stream of this run)",
]
WHICH = "C15"

CORPUS = [(">=1.0post-", "<2"), ("~=2.0.0a1.dev2||>1.0.0, !=1!1.0.*||==1.0.0.post1.dev1+a.1,<=2.0.0", "<3"), ("<1 || >2", "<1,>2"), ("<4", ">=1.2,<2 || >=2.dev0"), (">1.0", "1.0.post1+local"), ("*", "<1,>2"), ("<1,>2", "*"),
          ("!=0 || ==0.*", "1.*"), (">=1.0+local", "1.0"), ("1.0", ">=1.0+local"), ("1.0+local", "1.0"), ("!=1.0+local", "1.0"),
          ("^1.2", "~1.2.3"), ("!=1.2.*", "1.2.3"), ("<2.0.0", ">=2.0.0.dev0"), ("==1.*", "!=1.2.*"), ("~=1.2", "<1.5 || >3"),
          (">=1,<2 || >=3", "<1.5 || >=1.7,<3.5"), ("!=1.0", "!=2.0"), ("!=1.0,!=2.0", "1.0 || 2.0"), ("<1.0 || >1.0", "1.0")]


def gen_pairs(ctx: core.Ctx, n: int) -> list[tuple[str, str]]:
    rnd = ctx.rng
    out = []
    for _ in range(n):
        a = V.gen_constraint(rnd)
        b = V.gen_constraint(rnd) if rnd.random() > 0.06 else rnd.choice(["*", "<1,>2", a])
        out.append((a, b))
    return out


BUMP_REL = ["1", "0", "2.0", "1.2", "0.0", "0.5", "1.2.3", "0.0.3", "0.1.0", "2.0.0", "1.2.3.4", "0.0.0.1", "1.0.0.0", "3.1.4.1.5"]
# incl. upper-case and alternative spellings of the segments (the operator patterns are case-insensitive regexes)
BUMP_SUF = ["", "", "a1", "b2", "rc1", ".post1", ".dev0", ".dev3", "a1.dev2", ".post2.dev1", "rc1.post3", "RC1", ".Post3", ".DEV1", "A2", "-Beta.3"]
BUMP_EPOCH = ["", "", "", "1!", "2!"]
METHODS = ["next_major", "next_minor", "next_patch", "next_breaking", "stable", "first_devrelease", "first_prerelease", "next_stable",
           "next_prerelease", "next_postrelease", "next_devrelease", "without_local", "without_postrelease", "without_devrelease"]


def bump_versions(ctx: core.Ctx, n: int | None) -> list[str]:
    allv = [e + r + x for e in dict.fromkeys(BUMP_EPOCH) for r in BUMP_REL for x in dict.fromkeys(BUMP_SUF)]
    if n is None or n >= len(allv):
        return allv
    return ctx.rng.sample(allv, n)


def check_bumps(ctx: core.Ctx, versions: list[str], stream: str) -> None:
    """bumps and the range operators ^ ~ ~= on every version: model vs code (texts of all derived versions, parsed ranges) and
    the property oracle (bumps are final and strictly greater; the ranges admit V, reject their upper bound and every pre-release
    of it; ~=V agrees with the reference's compatible-release specifier on probes)."""
    from poetry.core.constraints.version import Version, parse_constraint
    from . import c03
    lines = [core.line("vbump", v) for v in versions]
    ops = [("^", v) for v in versions] + [("~", v) for v in versions] + [("~=", v) for v in versions if "." in v.split("!")[-1]]
    lines += [core.line("cparse", o + v) for o, v in ops]
    out = core.run_driver(lines)
    dis = 0
    for v, mo in zip(versions, out[:len(versions)]):
        V0 = Version.parse(v)
        io = ["ok"]
        for meth in METHODS:
            try:
                io.append(str(getattr(V0, meth)() if callable(getattr(V0, meth)) else getattr(V0, meth)))
            except Exception as e:  # noqa: BLE001
                io.append("!" + V.errname(e))
        ctx.case("bump:" + v, nontrivial=True, sample={"version": v, "next_breaking": io[4]} if "!" in v else None)
        ctx.count("bump:precision=" + str(V0.precision))
        if io != mo:
            dis += 1
            ctx.disagree(stream + ":bumps", v, io, mo)
        for meth, t in zip(METHODS[:4], io[1:5]):
            if t.startswith("!"):
                ctx.violate(f"bump-raises:{meth}:{v}", f"Version({v!r}).{meth}() raised {t}", {"op": "bump", "v": v})
                continue
            w = Version.parse(t)
            if not (w > V0) or w.is_unstable() or w.is_postrelease() or w.is_local() or w.epoch != V0.epoch:
                ctx.violate(f"bump-wrong:{meth}:{v}", f"Version({v!r}).{meth}() = {t}: must be a final release of the same epoch strictly greater than the version", {"op": "bump", "v": v})
    ref_reqs = []
    ref_meta = []
    for (o, v), mo in zip(ops, out[len(versions):]):
        text = o + v
        V0 = Version.parse(v)
        try:
            c = parse_constraint(text)
        except Exception as e:  # noqa: BLE001
            ctx.violate(f"range-raises:{text}", f"parse_constraint({text!r}) raised {V.errname(e)}", {"op": "range", "text": text})
            continue
        io = ["ok", *V.report(c, [])]
        if io[:5] != mo[:5]:
            dis += 1
            ctx.disagree(stream + ":range", text, io, mo)
        ctx.case("range:" + text, nontrivial=True)
        ctx.count("range:" + o)
        mx = getattr(c, "max", None)
        wit = {"op": "range", "text": text}
        if mx is None or getattr(c, "min", None) is None:
            ctx.violate(f"range-shape:{text}", f"{text!r} parsed to {c}, not a bounded range", wit)
            continue
        pre = [Version.parse(mx.text + x) for x in (".dev0", "a0", "rc5")] if not mx.is_unstable() else []
        if not c.allows(V0):
            ctx.violate(f"range-rejects-self:{text}", f"{text!r} parsed to {c} which rejects {v} itself", wit)
        elif c.allows(mx) or any(c.allows(p_) for p_ in pre):
            ctx.violate(f"range-admits-upper:{text}", f"{text!r} parsed to {c} which admits its upper bound {mx} or a pre-release of it", wit)
        elif mx.is_unstable() or mx.is_postrelease() or not (mx > V0) or mx.epoch != V0.epoch:
            ctx.violate(f"range-upper-shape:{text}", f"{text!r} parsed to {c}: the upper bound must be a final release of the same epoch above {v}", wit)
        if o == "~=":
            probes = [v, mx.text, mx.text + ".dev0", V0.next_patch().text, V0.next_minor().text, V0.next_major().text,
                      V0.stable.text + ".post1", ("%d!" % V0.epoch if V0.epoch else "") + ".".join(str(x) for x in V0.release.to_parts()[:-1]) + ".99"]
            probes = [p_ for p_ in dict.fromkeys(probes) if V.parse_probe(p_) is not None
                      and V.is_regular(V.parse_probe(p_), [V0, mx])]
            ref_reqs.append({"op": "specv", "s": text, "vs": probes})
            ref_meta.append((text, c, probes))
    if ref_reqs:
        for (text, c, probes), r in zip(ref_meta, c03.ref_batch(ref_reqs)):
            if r[0] != "ok":
                ctx.count("compat:reference-rejects")     # e.g. ~=1 — the reference has no such specifier
                continue
            for p_, want in zip(probes, r[1]):
                if want is not None and c.allows(Version.parse(p_)) != want:
                    ctx.violate(f"compat-vs-ref:{text}", f"{text!r} parsed to {c}: admits {p_} = {not want}, PEP 440 compatible release says {want}", {"op": "range", "text": text, "v": p_})
                    break
    ctx.stream(stream, len(lines), dis)


def correspondence(ctx: core.Ctx) -> None:
    vc_engine.run_pairs(ctx, CORPUS, "corpus", WHICH)
    check_bumps(ctx, ["1!1.2.3.4", "2!0.0.3.dev1", "1!1.2.3.4rc1", "0", "0.0", "0.0.0", "1.0a1", "1!2.0.post1.dev0", "1.4.5RC1", "V1.2", "2.2.Post3", "1!2.3.DEV1"] + bump_versions(ctx, ctx.budget(260, None)), "bumps")
    n = ctx.budget(1500, 40000)
    pairs = gen_pairs(ctx, n)
    for k in range(0, len(pairs), 2000):
        vc_engine.run_pairs(ctx, pairs[k:k + 2000], "gen", WHICH)
    edges = V.wildcard_edge_unions()
    vc_engine.run_pairs(ctx, [(e, "*") for e in edges] + [(e, ctx.rng.choice(edges)) for e in edges], "wildcard-edges", WHICH)
    vc_engine.run_pairs(ctx, V.pin_at_end_pairs(), "pin-at-end", WHICH)
    fam = V.gen_family_pairs(ctx.rng, ctx.budget(800, 20000))
    for k in range(0, len(fam), 2000):
        vc_engine.run_pairs(ctx, fam[k:k + 2000], "release-family", WHICH)
    if ctx.thorough:
        clauses = sorted({V.gen_clause(ctx.rng) for _ in range(3000)})[:150]
        allp = [(a, b) for a in clauses for b in clauses]
        for k in range(0, len(allp), 2500):
            vc_engine.run_pairs(ctx, allp[k:k + 2500], "single-clause-universe", WHICH)


def search(ctx: core.Ctx) -> None:
    seeds = [d["input"] for d in ctx.disagreements if isinstance(d["input"], list) and len(d["input"]) == 2]
    pairs = [(a, b) for a, b in seeds[:300]] + [(b, a) for a, b in seeds[:300]]
    if pairs:
        vc_engine.run_pairs(ctx, pairs, "search-disagreeing", WHICH)
    if not ctx.violations:
        check_bumps(ctx, bump_versions(ctx, None), "search-bumps")
    if not ctx.violations:
        pairs = gen_pairs(ctx, 12000)
        for k in range(0, len(pairs), 2000):
            vc_engine.run_pairs(ctx, pairs[k:k + 2000], "search-gen", WHICH)
            if ctx.violations:
                break


def replay(ctx: core.Ctx, payload: dict[str, Any]) -> bool:
    w = payload.get("witness", payload)
    before = len(ctx.violations)
    if w.get("op") == "bump":
        check_bumps(ctx, [w["v"]], "replay")
        return len(ctx.violations) > before
    if w.get("op") == "range":
        t = w["text"]
        check_bumps(ctx, [t.lstrip("^~=")], "replay")
        return len(ctx.violations) > before
    vc_engine.run_pairs(ctx, [(w["a"], w["b"])] * 3, "replay", WHICH)
    return len(ctx.violations) > before
