"""Project-tree generator for C09 (file selection, sdist/wheel agreement).

A generated project is a JSON-able dict (replayable):
  name, version, files {posix: text}, dirs [posix] (extra empty directories), packages (list|None), include (list),
  exclude (list), readme (None|str|list), scripts {name: reference}, console (bool), git (None | {"ignore": {posix: text}}).
`materialise(spec, root)` writes it (pyproject.toml included) and initialises the git work tree when asked.
Every random choice comes from the `random.Random` handed in.
"""
from __future__ import annotations

import fnmatch
import os
import random
import subprocess
from pathlib import Path
from typing import Any

NAMES = ["simple", "my-pkg", "Foo.Bar", "acme_tool", "x", "pkg-stubs", "data-kit", "lib2"]
SUBPKGS = ["sub", "core", "utils", "_impl", "vendor", "tests"]
MODS = ["a", "b", "main", "util", "cli", "test_x", "_gen", "conftest"]
DATA = ["data.json", "schema.yaml", "notes.txt", "t.html", "x.tmp", "run.log", "blob.bin", ".hidden", "Makefile", "py.typed",
        "with space.txt", "a.b.c", "x.pyc", ".py", "README.md"]
LEGAL = ["LICENSE", "LICENCE.md", "COPYING", "COPYING.LESSER", "AUTHORS", "AUTHORS.rst", "NOTICE", "NOTICE.txt", "LICENSE-APACHE"]
TOP_FILES = ["CHANGELOG.md", "Makefile", "tox.ini", "setup.cfg", "build.log", "notes.tmp", "conftest.py", ".editorconfig",
             "MANIFEST.in"]
FORMATS: list[Any] = [None, "sdist", "wheel", ["sdist", "wheel"], ["sdist"], ["wheel"]]


def module_name(name: str) -> str:
    import re
    return re.sub(r"[-_.]+", "-", name).lower().replace("-", "_")


def dist_name(name: str) -> str:
    return module_name(name)


def _text(rnd: random.Random, path: str) -> str:
    return f"# {path}\nv = {rnd.randrange(10**6)}\n"


def _fill_package(rnd: random.Random, files: dict[str, str], base: str, depth: int, stub: bool, rich: float) -> None:
    ext = ".pyi" if stub else ".py"
    files[f"{base}/__init__{ext}"] = _text(rnd, base)
    for m in rnd.sample(MODS, rnd.randint(0, 3)):
        files[f"{base}/{m}{ext}"] = _text(rnd, m)
    if stub and rnd.random() < 0.6:
        files[f"{base}/py.typed"] = ""
    if rnd.random() < rich:
        for d in rnd.sample(DATA, rnd.randint(1, 3)):
            if stub and not (d.endswith(".pyi") or d == "py.typed"):
                continue
            files[f"{base}/{d}"] = _text(rnd, d)
    if rnd.random() < rich * 0.7 and not stub:
        dd = rnd.choice(["data", "templates", "static/css"])
        for d in rnd.sample(DATA, rnd.randint(1, 3)):
            files[f"{base}/{dd}/{d}"] = _text(rnd, d)
    if rnd.random() < 0.35 and not stub:
        files[f"{base}/__pycache__/{rnd.choice(MODS)}.cpython-312.pyc"] = "\0pyc"
    if depth > 0:
        for s in rnd.sample(SUBPKGS, rnd.randint(0, 2)):
            _fill_package(rnd, files, f"{base}/{s}", depth - 1, stub, rich)


def _derive_pattern(rnd: random.Random, path: str, is_dir: bool) -> str:
    """a glob that (usually) hits `path`: exact, parent dir, sibling glob, recursive glob, class/?-mutation"""
    parts = path.split("/")
    name = parts[-1]
    k = rnd.random()
    stem, dot, ext = name.rpartition(".")
    if k < 0.25:
        return path
    if k < 0.40 and len(parts) > 1:
        return "/".join(parts[:-1])
    if k < 0.55 and dot and stem:
        return "/".join(parts[:-1] + ["*." + ext])
    if k < 0.68 and dot and stem:
        return "**/*." + ext
    if k < 0.75:
        return "**/" + name
    if k < 0.82 and len(parts) > 1:
        return parts[0] + "/**/" + name
    if k < 0.87 and len(name) > 1:
        i = rnd.randrange(len(name))
        return "/".join(parts[:-1] + [name[:i] + "?" + name[i + 1:]])
    if k < 0.92 and len(name) > 1:
        i = rnd.randrange(len(name))
        c = name[i]
        cls = rnd.choice([f"[{c}z]", f"[!{c}]", f"[a-z{c}]", f"[{c}-{c}]", "[!a-m]", f"[]{c}]"])
        return "/".join(parts[:-1] + [name[:i] + cls + name[i + 1:]])
    if k < 0.95 and len(parts) > 1:
        return "/".join(parts[:-1]) + "/"
    if k < 0.97:
        return "./" + path
    return "/".join(parts[:-1] + ["*"]) if len(parts) > 1 else name + "*"


def _glob_package(rnd: random.Random, files: dict[str, str], base: str, pn: str, frm: str | None) -> str:
    """a `packages` include written as a glob below (or at the level of) the package directory `base`: non-recursive globs that
    match a mix of files and non-empty sub-directories, single-match and multi-match, `?`/`[..]` forms, recursive forms"""
    subs = sorted({p[len(base) + 1:].split("/")[0] for p in files if p.startswith(base + "/") and "/" in p[len(base) + 1:]})
    subs = [d for d in subs if d != "__pycache__"]
    if not subs:
        files[f"{base}/sub/__init__.py"] = _text(rnd, "sub")
        files[f"{base}/sub/a.py"] = _text(rnd, "a")
        files[f"{base}/sub/data.json"] = "{}"
        subs = ["sub"]
    d = rnd.choice(subs)
    k = rnd.random()
    if k < 0.30:
        return pn + "/*"
    if k < 0.40:
        return pn + rnd.choice(["/?*", "/[!.]*", "/[a-z_]*"])
    if k < 0.52:
        return f"{pn}/{d[:1]}*"                 # files and directories starting alike; sometimes only the directory
    if k < 0.60:
        return f"{pn}/{d}"                       # exactly one sub-directory
    if k < 0.66:
        return f"{pn}/{d[:-1]}?" if len(d) > 1 else f"{pn}/{d}"
    if k < 0.74 and frm not in (None, "."):
        return rnd.choice(["*", "*/", pn[:1] + "*"])
    if k < 0.82:
        return pn[:2] + "*"
    return rnd.choice([pn + "/**/*.py", pn + "/**/*", pn + "/*.py"])


def _hits_pkginfo(pat: str) -> bool:
    """would this pattern select a root-level file named PKG-INFO?  (kept out of wheel-visible tables; see KNOWN deviations)"""
    comps = [c for c in pat.split("/") if c not in ("", ".")]
    comps = [c for i, c in enumerate(comps) if not (c == "**" and i < len(comps) - 1)] if comps and comps[-1] != "**" else comps
    return len(comps) == 1 and fnmatch.fnmatchcase("PKG-INFO", comps[0])


def generate(rnd: random.Random) -> dict[str, Any]:
    name = rnd.choice(NAMES)
    mod = module_name(name)
    stub = name.endswith("-stubs")
    files: dict[str, str] = {}
    dirs: list[str] = []
    rich = rnd.choice([0.2, 0.6, 0.9])
    layout = rnd.choice(["flat", "flat", "src", "src", "module", "src-module", "custom", "custom", "custom"])
    packages: list[dict[str, Any]] | None = None
    pkg_dirs: list[str] = []
    if layout == "flat":
        _fill_package(rnd, files, mod, rnd.randint(0, 2), stub, rich)
        pkg_dirs.append(mod)
    elif layout == "src":
        _fill_package(rnd, files, f"src/{mod}", rnd.randint(0, 2), stub, rich)
        pkg_dirs.append(f"src/{mod}")
    if layout in ("flat", "src") and not stub and rnd.random() < 0.3:
        base = pkg_dirs[0]
        frm = "src" if layout == "src" else None
        e0: dict[str, Any] = {"include": _glob_package(rnd, files, base, mod, frm)}
        if frm:
            e0["from"] = frm
        packages = [e0]
    if layout == "module":
        files[f"{mod}.py"] = _text(rnd, mod)
    elif layout == "src-module":
        files[f"src/{mod}.py"] = _text(rnd, mod)
    elif layout == "custom":
        packages = []
        for _ in range(rnd.randint(1, 3)):
            pn = rnd.choice([mod, "extra", "other_pkg", "tests", "tools"])
            frm = rnd.choice([None, None, "src", "lib", "python/src", "."])
            to = rnd.choice([None, None, None, "vendor", "ns/inner"])
            base = pn if frm in (None, ".") else f"{frm}/{pn}"
            if any(p["_dir"] == base for p in packages):
                continue
            kind = rnd.random()
            if kind < 0.12:
                files[base + ".py"] = _text(rnd, pn)
                inc = pn + ".py"
            elif kind < 0.5:
                _fill_package(rnd, files, base, rnd.randint(0, 2), False, rich)
                pkg_dirs.append(base)
                inc = pn
            else:
                _fill_package(rnd, files, base, rnd.randint(1, 2), False, rich)
                pkg_dirs.append(base)
                inc = _glob_package(rnd, files, base, pn, frm)
            e: dict[str, Any] = {"include": inc, "_dir": base}
            if frm is not None:
                e["from"] = frm
            if to is not None:
                e["to"] = to
            f = rnd.choice([None, None, None, ["sdist", "wheel"], "sdist", "wheel", ["wheel"]])
            if f is not None:
                e["format"] = f
            packages.append(e)
        for p in packages:
            del p["_dir"]
        if rnd.random() < 0.15:
            # also something the default detection would find, to exercise the filtered-empty fallback
            files.setdefault(f"{mod}/__init__.py", _text(rnd, mod))
    # top-level material
    if rnd.random() < 0.6:
        _fill_package(rnd, files, "tests", rnd.randint(0, 1), False, 0.4)
    if rnd.random() < 0.4:
        for d in rnd.sample(["index.md", "api.rst", "conf.py", "img/logo.svg", "_build/out.html"], rnd.randint(1, 3)):
            files[f"docs/{d}"] = _text(rnd, d)
    for t in rnd.sample(TOP_FILES, rnd.randint(0, 3)):
        files[t] = _text(rnd, t)
    for lg in rnd.sample(LEGAL, rnd.choice([0, 1, 1, 2, 3])):
        files[lg] = "legal " + lg + "\n"
    if rnd.random() < 0.25:
        for lf in rnd.sample(["MIT.txt", "Apache-2.0.txt", "third/BSD.txt", "third/deep/ISC.txt"], rnd.randint(1, 3)):
            files[f"LICENSES/{lf}"] = "licence " + lf + "\n"
    readme: Any = None
    r = rnd.random()
    if r < 0.5:
        readme = rnd.choice(["README.md", "README.rst", "docs/README.md"])
        files[readme] = "# readme\n"
    elif r < 0.65:
        readme = ["README.md", "CHANGES.md"]
        for x in readme:
            files[x] = "# " + x + "\n"
    elif r < 0.7:
        readme = "README.md"            # declared but absent: sdist must simply not contain it (metadata fails earlier!)
        files[readme] = "# readme\n"
    scripts: dict[str, str] = {}
    if rnd.random() < 0.3:
        for s in rnd.sample(["bin/run.sh", "scripts/tool.py", "go.sh"], rnd.randint(1, 2)):
            files[s] = "#!/bin/sh\necho hi\n"
            scripts[s.split("/")[-1].split(".")[0]] = s
    console = rnd.random() < 0.3
    if rnd.random() < 0.15:
        dirs.append(rnd.choice(["empty_dir", "docs/empty", f"{mod}_empty/inner"]))
    if rnd.random() < 0.2:
        files[rnd.choice(["stray.pyc", "tests/__pycache__/t.cpython-312.pyc", "docs/__pycache__/conf.pyc"])] = "\0"
    if rnd.random() < 0.08:
        host = rnd.choice(pkg_dirs) if pkg_dirs else "docs"
        files[f"{host}/{rnd.choice(['donn\u00e9es.txt', 'na\u00efve.py', '\u65e5\u672c.json'])}"] = "x\n"
    # tables built from what exists
    all_files = sorted(files)
    all_dirs = sorted({"/".join(p.split("/")[:i]) for p in all_files for i in range(1, len(p.split("/")))} | set(dirs))

    def pick() -> tuple[str, bool]:
        if all_dirs and rnd.random() < 0.3:
            return rnd.choice(all_dirs), True
        return rnd.choice(all_files), False

    include: list[Any] = []
    for _ in range(rnd.choice([0, 0, 1, 1, 2, 3])):
        p, isd = pick()
        pat = _derive_pattern(rnd, p, isd) if rnd.random() < 0.85 else rnd.choice(["nothing_here/*", "**/*.json", "docs", "tests"])
        f = rnd.choice(FORMATS)
        include.append(pat if f is None and rnd.random() < 0.5 else ({"path": pat} if f is None else {"path": pat, "format": f}))
    exclude: list[str] = []
    for _ in range(rnd.choice([0, 0, 1, 1, 2, 3])):
        p, isd = pick()
        pat = _derive_pattern(rnd, p, isd) if rnd.random() < 0.85 else rnd.choice(["**/*.tmp", "**/*.log", "tests", "**/tests", "**/*.json", "**"])
        if pat in ("**/*.py", "**", "**/*") and rnd.random() < 0.8:
            continue
        exclude.append(pat)
    if rnd.random() < 0.04:
        include.append({"path": rnd.choice(["*", "*-INFO", "[A-Z]*"]), "format": ["sdist", "wheel"]})
    legal_here = [f for f in all_files if "/" not in f and f.split(".")[0].split("-")[0] in ("LICENSE", "LICENCE", "COPYING", "AUTHORS", "NOTICE")]
    if legal_here and rnd.random() < 0.12:
        exclude.append(rnd.choice(legal_here + ["LICEN*", "COPYING*"]))
    git: dict[str, Any] | None = None
    if rnd.random() < 0.55:
        lines: list[str] = []
        for _ in range(rnd.choice([0, 1, 2, 3])):
            p, isd = pick()
            k = rnd.random()
            nm = p.split("/")[-1]
            ext = nm.rpartition(".")[2] if "." in nm[1:] else None
            if k < 0.3:
                lines.append("/" + p + ("/" if isd and rnd.random() < 0.5 else ""))
            elif k < 0.55 and ext:
                lines.append("*." + ext)
            elif k < 0.7:
                lines.append(nm)
            elif k < 0.8 and "/" in p:
                lines.append(p.rsplit("/", 1)[0] + "/")
            else:
                lines.append(rnd.choice(["*.log", "*.tmp", "__pycache__/", "*.pyc", "build/", "dist/", "_build/", ".hidden", "!keep.tmp"]))
        ign = {".gitignore": "\n".join(lines) + ("\n" if lines else "")}
        if all_dirs and rnd.random() < 0.2:
            d = rnd.choice(all_dirs)
            ign[d + "/.gitignore"] = rnd.choice(["*.json\n", "*\n!*.py\n", "*.txt\n", "data/\n"])
        for k2, v in ign.items():
            files[k2] = v
        git = {"tracked": rnd.random() < 0.3}
        if rnd.random() < 0.1:
            git["subdir"] = rnd.choice(["pkgs/" + mod, "python", "a/b/c"])
    return {"name": name, "version": rnd.choice(["0.1.0", "1.2.3", "2024.1", "1.0.0rc1"]), "files": files, "dirs": dirs,
            "packages": packages, "include": include, "exclude": exclude, "readme": readme, "scripts": scripts,
            "console": console, "git": git}


def generate_ignored_dir(rnd: random.Random) -> dict[str, Any]:
    """a generated project in which git ignores a WHOLE directory (one pattern `name/`) and an explicit include names one
    file inside it (or a glob over its parent): the ignored listing, the subtraction of explicit includes and the
    relocation of packages (`from` / `to`) all meet on that file"""
    for _ in range(50):
        spec = generate(rnd)
        deep = sorted(f for f in spec["files"] if f.count("/") >= 2 and not f.endswith(".gitignore"))
        if deep:
            break
    else:
        return spec
    f = rnd.choice(deep)
    d = f.rsplit("/", 1)[0]
    for k in [k for k in spec["files"] if k.endswith(".gitignore")]:
        del spec["files"][k]
    spec["files"][".gitignore"] = rnd.choice([d.rsplit("/", 1)[1] + "/", "/" + d + "/", d.rsplit("/", 1)[1]]) + "\n"
    spec["git"] = {"tracked": False}
    k = rnd.random()
    path = f if k < 0.6 else d.rsplit("/", 1)[0] + "/*" if k < 0.8 else d
    spec["include"] = [*spec["include"], {"path": path, "format": rnd.choice([["sdist", "wheel"], ["sdist", "wheel"], ["wheel"]])}]
    return spec


# ------------------------------------------------------------------------------------------------
# materialisation
# ------------------------------------------------------------------------------------------------

def tstr(s: str) -> str:
    out = ['"']
    for ch in s:
        if ch in '"\\':
            out.append("\\" + ch)
        elif ord(ch) < 32 or ord(ch) == 127:
            out.append("\\u%04x" % ord(ch))
        else:
            out.append(ch)
    return "".join(out) + '"'


def tval(v: Any) -> str:
    if isinstance(v, str):
        return tstr(v)
    if isinstance(v, bool):
        return "true" if v else "false"
    if isinstance(v, list):
        return "[" + ", ".join(tval(x) for x in v) + "]"
    if isinstance(v, dict):
        return "{ " + ", ".join(f"{k} = {tval(x)}" for k, x in v.items()) + " }"
    raise TypeError(v)


def pyproject_text(spec: dict[str, Any]) -> str:
    ls = ["[tool.poetry]", f"name = {tstr(spec['name'])}", f"version = {tstr(spec['version'])}",
          'description = "generated"', 'authors = ["A B <a@b.c>"]']
    if spec.get("readme") is not None:
        ls.append("readme = " + tval(spec["readme"]))
    if spec.get("packages"):
        ls.append("packages = " + tval(spec["packages"]))
    if spec.get("include"):
        ls.append("include = " + tval(spec["include"]))
    if spec.get("exclude"):
        ls.append("exclude = " + tval(spec["exclude"]))
    ls += ["", "[tool.poetry.dependencies]", 'python = ">=3.8"', ""]
    if spec.get("scripts") or spec.get("console"):
        ls.append("[tool.poetry.scripts]")
        if spec.get("console"):
            ls.append('hello = "builtins:print"')
        for k, ref in (spec.get("scripts") or {}).items():
            ls.append(f"{k} = {{ reference = {tstr(ref)}, type = \"file\" }}")
        ls.append("")
    ls += ["[build-system]", 'requires = ["poetry-core"]', 'build-backend = "poetry.core.masonry.api"', ""]
    return "\n".join(ls)


GIT_ENV = {"GIT_CONFIG_GLOBAL": "/dev/null", "GIT_CONFIG_SYSTEM": "/dev/null", "GIT_CONFIG_NOSYSTEM": "1",
           "GIT_TERMINAL_PROMPT": "0"}


def git(root: Path, *args: str) -> str:
    env = dict(os.environ, **GIT_ENV)
    return subprocess.run(["git", "-c", "init.defaultBranch=main", "-c", "user.name=verif", "-c", "user.email=verif@example.invalid",
                           "-c", "commit.gpgsign=false", *args], cwd=str(root), env=env, check=True,
                          capture_output=True, text=True).stdout


def materialise(spec: dict[str, Any], root: Path) -> Path:
    """write the project; returns the project directory (`root`, or `root/<git.subdir>` when the project is a
    sub-directory of the git work tree rooted at `root`)"""
    g = spec.get("git")
    proj = root / g["subdir"] if g and g.get("subdir") else root
    proj.mkdir(parents=True, exist_ok=True)
    for d in spec.get("dirs", []):
        (proj / d).mkdir(parents=True, exist_ok=True)
    for rel, text in spec["files"].items():
        p = proj / rel
        p.parent.mkdir(parents=True, exist_ok=True)
        p.write_bytes(text.encode("utf-8", "surrogateescape"))
        if rel.endswith(".sh"):
            p.chmod(0o755)
    (proj / "pyproject.toml").write_text(pyproject_text(spec), encoding="utf-8")
    if g is not None:
        git(root, "init", "-q")
        if g.get("tracked"):
            # some files are tracked: `ls-files --others` only reports untracked ignored files
            git(root, "add", "-A")
            git(root, "commit", "-q", "-m", "init", "--no-verify")
    return proj


def listing(root: Path) -> list[tuple[str, bool]]:
    """(posix, is_dir) for the project root (`.`) and everything below it (`.git` included: pathlib globs see it)"""
    out: list[tuple[str, bool]] = [(".", True)]
    for dp, dns, fns in os.walk(root):
        rel = Path(dp).relative_to(root)
        for d in dns:
            out.append(((rel / d).as_posix(), True))
        for f in fns:
            out.append(((rel / f).as_posix(), False))
    return sorted(out)
