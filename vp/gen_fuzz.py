"""Token-level fuzz generators for the six string grammars of C19 (version, version constraint, string
constraint, marker, PEP 508 requirement, dependency) and the type/key mutator for pyproject mappings.

Every function draws from the `random.Random` it is given and from nothing else, so a stream is a function of
its seed.  `gen(grammar, rnd)` returns `(text, label)`; the label names the strategy (it is part of the
evidence distribution and of the class key of time-outs).
"""
from __future__ import annotations

import copy
import random
import re
from typing import Any

from . import gen_marker, gen_version, vc_common

GRAMMARS = ["version", "vconstraint", "generic", "marker", "requirement", "dependency"]

# ---------------------------------------------------------------------------------------------------------
# alphabets
# ---------------------------------------------------------------------------------------------------------

ODD_WS = ["\t", "\n", "\x0b", "\x0c", "\r", "\x1c", "\x1d", "\x1e", "\x1f", "\x85", "\xa0", " ", " ", " ",
          " ", " ", " ", " ", " ", "　", "​", "﻿", "  ", " \t "]
UDIGITS = {"0": "٠０𝟎", "1": "١１¹", "2": "٢２²", "3": "٣３³", "4": "٤４", "5": "٥５", "6": "٦６", "7": "٧７", "8": "٨８", "9": "٩９৯"}
# characters that re.IGNORECASE folds onto ASCII letters (s, k, i): outside the ASCII models
FOLD_SPECIAL = ["\u017f", "\u212a", "\u0130", "\u0131"]

VERSION_TOKENS = ["0", "1", "2", "10", "007", "2024", ".", "-", "_", "+", "!", "v", "V", "a", "b", "c", "rc", "alpha", "beta", "pre",
                  "preview", "post", "rev", "r", "dev", "A", "RC", "Post", "DEV", "abc", "1a", "x", "*", " ", ".post", ".dev0", "-1"]
VC_OPS = ["==", "!=", "<", "<=", ">", ">=", "~=", "^", "~", "<>", "=", "===", "!==", "=>", "=<", "!", ""]
VC_TOKENS = VERSION_TOKENS + VC_OPS + [",", ", ", " ", "||", "|", " || ", ".*", "*", "x", "X", ".x", "dev", "1.0", "1.2.3", "2.0.0",
                                       "(", ")", "@", ";"]
GEN_WORDS = ["a", "b", "linux", "win32", "foo-bar", "Foo_Bar", "3.8", "x86_64", "tegra", "*", "a b", "'", '"', "in", "not", "IN", "Not In"]
GEN_TOKENS = ["==", "!=", "=", "!==", "===", "<", ">=", ",", ", ", " ", "||", "|", " || ", "'", '"', " in", " not in", " IN",
              " not\tin", " NOT IN", " In", "in", "not in", "*", ""] + GEN_WORDS
MARKER_NAMES = ["implementation_version", "platform_python_implementation", "implementation_name", "python_full_version",
                "platform_release", "platform_version", "platform_machine", "platform_system", "python_version", "sys_platform",
                "os_name", "os.name", "sys.platform", "platform.version", "platform.machine", "platform.python_implementation",
                "python_implementation", "extra"]
MARKER_OPS = ["===", "==", ">=", "<=", ">", "<", "!=", "~=", "not in", "in"]
MARKER_VALUES = ["3.8", "3.8.1", "3", "3.10", "2.7.*", "linux", "win32", "a", "foo-bar", "3.8 3.9", "3.8, 3.9", "3.8|3.9", "", " ",
                 "5.10.0-generic", "x, 'y' IN", "a, 'b' in", "'q' not in", "1.0+local", ">=3.8", "==3.8", "*", "3.8.*", "dev", "a b",
                 "tegra", "\\", "\\\"", "é", "3.٨", "x||y", "a,b", "!=a", "a, !=b", "<empty>", 'a"b', '"', 'Darwi"n', "a\\", "a\\\\b", "a\\\"'b", "in a",
                 "a'b", "3.8\\"]
MARKER_TOKENS = (MARKER_NAMES + MARKER_OPS + [" and ", " or ", "(", ")", " ", "\t", '"', "'", "and", "or", "not", "in", "AND", "OR", "IN",
                                              "NOT IN", ";", ",", "==", "<>", "!", "~", "^", "python_version", "extra", "os_name"]
                 + ['"' + v + '"' for v in MARKER_VALUES[:24]] + ["'" + v + "'" for v in MARKER_VALUES[:12]])
REQ_NAMES = ["foo", "Foo-Bar", "foo_bar", "foo.bar", "a", "A1", "zope.interface", "1pkg", "x-", "requests", "-bad", "_bad", "f" * 40]
REQ_EXTRAS = ["", "", "", "[a]", "[a,b]", "[a, b]", "[]", "[a,]", "[,a]", "[a b]", "[A_b.c]", "[a", "a]", "[[a]]", "[a][b]"]
REQ_URLS = ["https://example.com/foo-1.0.tar.gz", "https://example.com/foo-1.0-py3-none-any.whl", "git+https://github.com/a/b.git",
            "git+https://github.com/a/b.git@main#subdirectory=src", "git+ssh://git@github.com/a/b.git@v1.0", "git://github.com/a/b.git",
            "file:///tmp/c19/foo-1.0.tar.gz", "file:///tmp/c19/foo", "file:../foo", "file://localhost/x", "./foo", "../foo/bar.whl", "foo.tar.gz",
            "/abs/path/foo-1.0-py3-none-any.whl", "http://", "https://", "git+", "git+https://", "file:", "file://", "://", "a:b", "svn+https://x/y",
            "hg+https://x/y", "git+https://github.com/a/b.git#egg=b", "https://example.com/bad.whl", "https://example.com/a-b-c-d-e-f.whl",
            "git+https://github.com/a/b.git@", "git+file:///tmp/c19/x", "https://[::1", "https://ex ample.com/x", "file:///%00"]
REQ_TOKENS = (REQ_NAMES[:8] + REQ_EXTRAS[3:] + VC_OPS[:8] + ["1.0", "2", "1.0.*", "1.0a1", ",", " ", "(", ")", "@", " @ ", ";", " ; ", "#", " #", " # c", "[",
                                                              "]", "*", "=="] + REQ_URLS[:10] + ['python_version >= "3.8"', 'extra == "a"', "and", "or"])


def odd_ws(rnd: random.Random) -> str:
    return rnd.choice(ODD_WS)


def udigits(rnd: random.Random, s: str, p: float = 0.5) -> str:
    return "".join(rnd.choice(UDIGITS[c]) if c in UDIGITS and rnd.random() < p else c for c in s)


TOKEN_RE = re.compile(r"[A-Za-z_]+|\d+|\s+|\|\||[<>=!~^]+|.", re.S)


def tokens_of(s: str) -> list[str]:
    return TOKEN_RE.findall(s)


# ---------------------------------------------------------------------------------------------------------
# valid inputs per grammar
# ---------------------------------------------------------------------------------------------------------

def valid_version(rnd: random.Random) -> str:
    return gen_version.version(rnd, fancy=0.6, local=0.25)


def valid_vconstraint(rnd: random.Random) -> str:
    k = rnd.random()
    if k < 0.7:
        return vc_common.gen_constraint(rnd)
    if k < 0.8:
        return rnd.choice(["*", "x", "X", "v*", "*.*", "x.X.*", "dev", ">=dev", "==dev", "1.x", "1.*", "1.2.*", "==1.*.*", "!=1.2.*", "!= 1.2.*",
                           "~1", "~1.2", "~=1.2", "^0", "^0.0", "^0.0.3", "^1.2.3", ">1 <2", ">=1,<2", ">=1, <2", ">=1 ,<2", "<>1.0", "=1.0",
                           "1.0 || 2.0", "1.0 | 2.0", "1.0.*", "==1!1.0.*", "!=0 || ==0.*", "1.0-1", "1.0.post1.*", "==1.0a1.*", "==1.0.dev1.*",
                           "!=1.0+local.*", "==1.0+local", ">=1.0+a,<=1.0+b", "~=1.0.0.0", "~=1", "^1!2.3", ">2023.1", "1.0rc.*", "==1.0rc.*"])
    op = rnd.choice(["", "==", "!=", ">", ">=", "<", "<=", "~=", "^", "~", "== ", ">= "])
    return op + gen_version.version(rnd, fancy=0.5, local=0.2)


def valid_generic(rnd: random.Random) -> str:
    def atom() -> str:
        k = rnd.random()
        w = rnd.choice(GEN_WORDS[:10])
        if k < 0.35:
            return rnd.choice(["", "==", "!=", "= ", "== ", "!= ", "="]) + w
        if k < 0.6:
            return rnd.choice(["'", '"']).join(["", w, ""]) + rnd.choice([" in", " not in", "in", "  not in"])
        return rnd.choice(["!=", "", "=="]) + w
    groups = []
    for _ in range(rnd.choice([1, 1, 1, 2, 3])):
        groups.append(rnd.choice([",", ", ", " , "]).join(atom() for _ in range(rnd.choice([1, 1, 2, 3]))))
    if rnd.random() < 0.04:
        return "*"
    return rnd.choice([" || ", "||", " | ", "|"]).join(groups)


def valid_marker(rnd: random.Random) -> str:
    k = rnd.random()
    if k < 0.75:
        return gen_marker.marker(rnd, max_leaves=5)
    if k < 0.8:
        return rnd.choice(["", "*", "<empty>"])
    # a leaf over the full name/op/value vocabulary (mostly rejected by SingleMarker.__init__, accepted by the grammar)
    n, o, v = rnd.choice(MARKER_NAMES), rnd.choice(MARKER_OPS), rnd.choice(MARKER_VALUES)
    # a value holding a double quote (or ending in a backslash) can only be written between single quotes
    must_single = "'" not in v and ('"' in v or v.endswith("\\"))
    qv = ("'" + v + "'") if ("'" not in v and (must_single or rnd.random() < 0.3)) else ('"' + v + '"')
    sp = rnd.choice(["", " ", " ", "\t", "  "])
    if rnd.random() < 0.25:
        return f"{qv}{sp}{o}{sp if o not in ('in', 'not in') else ' '}{n}"
    return f"{n}{sp if o not in ('in', 'not in') else ' '}{o}{sp}{qv}"


def valid_requirement(rnd: random.Random, dependency: bool = False) -> str:
    name = rnd.choice(REQ_NAMES[:9])
    s = name + rnd.choice(REQ_EXTRAS[:7])
    k = rnd.random()
    if k < 0.45:
        n = rnd.choice([1, 1, 2, 3])
        cl = [rnd.choice(["==", "!=", "<", "<=", ">", ">=", "~=", "==="]) + rnd.choice(["", " "]) +
              (gen_version.version(rnd, fancy=0.3, local=0.1).strip() + rnd.choice(["", "", "", ".*"])) for _ in range(n)]
        spec = rnd.choice([",", ", ", " ,"]).join(cl)
        s += rnd.choice([" ", "", " "]) + (("(" + spec + ")") if rnd.random() < 0.2 else spec)
    elif k < 0.65:
        s += rnd.choice([" @ ", "@ ", " @", "@"]) + rnd.choice(REQ_URLS[:16 if not dependency else 24])
    if rnd.random() < 0.4:
        s += rnd.choice([" ; ", ";", "; ", " ;"]) + gen_marker.marker(rnd, max_leaves=3)
    if dependency:
        r = rnd.random()
        if r < 0.1:
            s += rnd.choice([" # comment", " #", " # a ; b", " # c ; python_version >= \"3.8\"", "#x"])
        elif r < 0.2:
            # the `name` itself is a path / URL / archive (poetry-core accepts those for `create_from_pep_508`)
            s = rnd.choice(REQ_URLS) + (rnd.choice(["", " ; ", ";"]) + (gen_marker.marker(rnd, max_leaves=2) if rnd.random() < 0.5 else ""))
    return s


VALID = {
    "version": valid_version,
    "vconstraint": valid_vconstraint,
    "generic": valid_generic,
    "marker": valid_marker,
    "requirement": valid_requirement,
    "dependency": lambda rnd: valid_requirement(rnd, dependency=True),
}
TOKENS = {
    "version": VERSION_TOKENS,
    "vconstraint": VC_TOKENS,
    "generic": GEN_TOKENS,
    "marker": MARKER_TOKENS,
    "requirement": REQ_TOKENS,
    "dependency": REQ_TOKENS + REQ_URLS,
}
OPERATORS = {
    "version": ["+", "!", ".", "-", "_", "a", "rc", "post", "dev", "v"],
    "vconstraint": [o for o in VC_OPS if o] + [",", "||", "|", ".*", "*"],
    "generic": ["==", "!=", "=", ",", "||", "|", " in", " not in", "'", '"'],
    "marker": MARKER_OPS + [" and ", " or ", "(", ")", '"', "'"],
    "requirement": [o for o in VC_OPS[:8]] + [",", "@", ";", "[", "]", "(", ")"],
    "dependency": [o for o in VC_OPS[:8]] + [",", "@", ";", "[", "]", "(", ")", " #", "#", "://", "git+"],
}


# ---------------------------------------------------------------------------------------------------------
# mutations
# ---------------------------------------------------------------------------------------------------------

def mutate(rnd: random.Random, grammar: str, s: str) -> tuple[str, str]:
    """one token-level mutation of `s`; returns (text, mutation name)"""
    toks = tokens_of(s)
    if not toks:
        return rnd.choice(TOKENS[grammar]), "m-empty"
    i = rnd.randrange(len(toks))
    k = rnd.random()
    if k < 0.16:
        toks.insert(i, rnd.choice(TOKENS[grammar]))
        return "".join(toks), "m-insert"
    if k < 0.30:
        del toks[i]
        return "".join(toks), "m-delete"
    if k < 0.40:
        toks.insert(i, toks[i])
        return "".join(toks), "m-dup"
    if k < 0.50 and len(toks) > 1:
        j = (i + 1) % len(toks)
        toks[i], toks[j] = toks[j], toks[i]
        return "".join(toks), "m-swap"
    if k < 0.60:
        toks[i] = rnd.choice(TOKENS[grammar])
        return "".join(toks), "m-replace"
    if k < 0.68:
        cut = rnd.randrange(len(s) + 1)
        return s[:cut], "m-truncate"
    if k < 0.73:
        cut = rnd.randrange(len(s) + 1)
        return s[cut:], "m-behead"
    if k < 0.80:
        toks[i] = toks[i].upper() if rnd.random() < 0.6 else toks[i].swapcase()
        return "".join(toks), "m-case"
    if k < 0.90:
        # whitespace: replace a whitespace token or insert one
        ws = [n for n, t in enumerate(toks) if t.isspace()]
        if ws and rnd.random() < 0.6:
            toks[rnd.choice(ws)] = odd_ws(rnd)
        else:
            toks.insert(i, odd_ws(rnd))
        return "".join(toks), "m-ws"
    if k < 0.96:
        ds = [n for n, t in enumerate(toks) if t.isdigit()]
        if ds:
            n = rnd.choice(ds)
            toks[n] = udigits(rnd, toks[n], 0.7)
            return "".join(toks), "m-udigit"
        toks.insert(i, rnd.choice("٣３²"))
        return "".join(toks), "m-udigit"
    if rnd.random() < 0.5:
        # a letter REPLACED by the non-ASCII character re.IGNORECASE folds onto it (s -> U+017F, k -> U+212A, i -> U+0130 / U+0131):
        # the regex still matches, str.lower() / table lookups downstream see a spelling they do not know (seeded change C19-6)
        text = "".join(toks)
        pos = [n for n, c in enumerate(text) if c in "sSkKiI"]
        if pos:
            n = rnd.choice(pos)
            rep = {"s": "\u017f", "k": "\u212a", "i": rnd.choice("\u0130\u0131")}[text[n].lower()]
            return text[:n] + rep + text[n + 1:], "m-fold"
    toks.insert(i, rnd.choice(FOLD_SPECIAL + ["é", "ß", "\x00", "\x01", "\x7f", "\\", "\U0001f600"]))
    return "".join(toks), "m-char"


# ---------------------------------------------------------------------------------------------------------
# long inputs
# ---------------------------------------------------------------------------------------------------------

RUN_CHARS = {
    "version": [" ", "\t", "\x0b", "0", "1", ".", "-", "_", "+", "a", "1.", ".0", "a-", "a.", "post", "-1", "!", "v", "\xa0", "\n"],
    "vconstraint": [" ", "\t", ",", "|", "||", ".*", ".*", ".*", "*", ".x", "=", "<", ">", "~", "^", "1", "0.", ".0", "-", "a-", " ,", ", ", " || ", "x", "\n", "-1", "dev"],
    "generic": [" ", "\t", ",", "|", "'", '"', "a", "a'", "=", "!", "'a' ", " in", "in ", "not ", "\n", "\x0b", " ,", "a "],
    "marker": [" ", "\t", "(", ")", '"', "'", "\\", '\\"', "a", "=", " and ", " or ", "in ", "not ", "3.", ".8", "|", ",", " ,", "\n"],
    "requirement": [" ", "\t", "a", "-", ".", "_", ",", "[", "]", "(", ")", "=", "<", "1.", ".0", "@", ";", "/", "a,", "[a]", "%", "#"],
    "dependency": [" ", "\t", "a", "-", ".", "_", ",", "[", "]", "(", ")", "=", "<", "1.", "@", ";", "/", "../", "#", " #", "%2e", ":", "a/"],
}
CHAIN_SEPS = {
    "version": [".", "-", "_", "+", "."],
    "vconstraint": [",", ", ", " ", " || ", "||", "|", " , "],
    "generic": [",", ", ", " || ", "||", "|"],
    "marker": [" and ", " or ", " and ", " or "],
    "requirement": [",", ", "],
    "dependency": [",", ", "],
}


def long_run(rnd: random.Random, grammar: str, size: int) -> tuple[str, str]:
    """a (mostly) valid prefix, ~`size` characters of one repeated token, a suffix: probes regex back-tracking"""
    unit = rnd.choice(RUN_CHARS[grammar])
    body = unit * max(1, size // len(unit))
    pre = rnd.choice([VALID[grammar](rnd), "", rnd.choice(TOKENS[grammar])])
    suf = rnd.choice(["", "", "x", "!", VALID[grammar](rnd), rnd.choice(TOKENS[grammar]), "\n"])
    return pre + body + suf, "long-run"


def chain_clause(rnd: random.Random, grammar: str, i: int) -> str:
    if grammar == "version":
        return rnd.choice([str(i), "a" + str(i), "0"])
    if grammar == "vconstraint":
        return rnd.choice(["!=", "", ">=", "<", "==", "!="]) + f"{i % 7}.{i}" + rnd.choice(["", "", ".*"])
    if grammar == "generic":
        return rnd.choice(["!=", "", "!=", "=="]) + "a" + str(i)
    if grammar == "marker":
        n = rnd.choice(["python_version", "os_name", "python_full_version", "extra", "sys_platform"])
        if n.startswith("python"):
            return f'{n} {rnd.choice(["==", "!=", ">=", "<"])} "3.{i % 40}"'
        return f'{n} {rnd.choice(["==", "!="])} "a{i}"'
    return rnd.choice(["!=", ">=", "<", "=="]) + f"{i % 5}.{i}"


UNIFORM = {
    "vconstraint": [("!=1.%d", ","), ("!=1.%d", ", "), ("1.%d", " || "), ("!=%d.*", ","), (">=1.%d", ",")],
    "generic": [("!=a%d", ","), ("a%d", " || "), ("'a%d' not in", ", ")],
    "marker": [('python_version == "3.%d"', " or "), ('python_version != "3.%d"', " and "), ('os_name == "a%d"', " or "),
               ('os_name != "a%d"', " and "), ('python_full_version != "3.%d.1"', " and "), ('extra == "e%d"', " or "),
               ('extra != "e%d"', " and "), ("sys_platform != 'a\"%d'", " and ")],
}
MAX_CHARS = 12000     # "very long inputs" are about 10^4 characters: chains are cut to this length


def long_chain(rnd: random.Random, grammar: str, clauses: int, uniform: bool = False) -> tuple[str, str]:
    """`clauses` clauses joined by one separator (cut to MAX_CHARS); `uniform`: one operator, pairwise distinct values — the shape
    on which the constraint / marker algebra does the most work per clause (nothing merges, nothing becomes empty)"""
    if uniform and grammar in UNIFORM:
        pat, sep = rnd.choice(UNIFORM[grammar])
        parts = [pat % i for i in range(clauses)]
    else:
        sep = rnd.choice(CHAIN_SEPS[grammar])
        one = rnd.random() < 0.5
        c0 = chain_clause(rnd, grammar, 0)
        parts = [c0 if one and rnd.random() < 0.3 else chain_clause(rnd, grammar, i) for i in range(clauses)]
    while parts and sum(len(x) + len(sep) for x in parts) > MAX_CHARS:
        parts = parts[: len(parts) * 9 // 10]
    s = sep.join(parts)
    if grammar == "version":
        s = "1" + rnd.choice([".", "+", "!"]) + s
    if grammar in ("requirement", "dependency"):
        k = rnd.random()
        if k < 0.4:
            s = "foo " + s
        elif k < 0.7:
            s = "foo[" + ",".join("e%d" % i for i in range(clauses)) + "]"
        else:
            s = "foo ; " + long_chain(rnd, "marker", clauses, uniform)[0]
    return s, "long-chain"


def long_nest(rnd: random.Random, grammar: str, depth: int, big: bool = False, alternate: bool = False) -> tuple[str, str]:
    inner = 'os_name == "a"' if rnd.random() < 0.6 else gen_marker.marker(rnd, max_leaves=2)
    k = rnd.random() if not alternate else 0.9
    if k < 0.6:
        m = "(" * depth + inner + ")" * depth
    elif k < 0.8:
        m = "(" * depth + inner + ")" * (depth - 1)
    else:
        # alternating and/or nesting: the simplifier's cost explodes with the depth, so only `big` cases go deep
        m = inner
        for i in range(depth if big else min(depth, rnd.choice([3, 5, 8]))):
            m = f'({m} {rnd.choice(["and", "or"])} extra == "e{i}")'
    if grammar == "marker":
        return m, "long-nest"
    if grammar in ("requirement", "dependency"):
        return rnd.choice(["foo ; ", "foo>=1.0;", "foo (" + "(" * (depth if rnd.random() < 0.2 else 0) + ">=1.0) ; "]) + m, "long-nest"
    if grammar == "generic":
        return "'" * depth + "a" + "'" * depth + " in", "long-nest"
    return "(" * depth + "1.0" + ")" * depth, "long-nest"


# ---------------------------------------------------------------------------------------------------------
# the stream
# ---------------------------------------------------------------------------------------------------------

def gen(grammar: str, rnd: random.Random, long_ok: bool = True, big: bool = False) -> tuple[str, str]:
    """one fuzz case.  `long_ok`: allow ~10^4-character cases; `big`: allow the large clause counts / nesting depths whose
    cost is super-linear in the real code (a few per run only)"""
    k = rnd.random()
    if k < 0.22:
        return VALID[grammar](rnd), "valid"
    if k < 0.60:
        s = VALID[grammar](rnd)
        names = []
        for _ in range(rnd.choice([1, 1, 1, 2, 2, 3])):
            s, n = mutate(rnd, grammar, s)
            names.append(n)
        return s, names[0] if len(names) == 1 else "m-multi"
    if k < 0.76:
        n = rnd.choice([1, 2, 2, 3, 3, 4, 5, 6, 8, 12])
        return "".join(rnd.choice(TOKENS[grammar]) for _ in range(n)), "tokens"
    if k < 0.785:
        s = VALID[grammar](rnd)
        toks = tokens_of(s) or [""]
        i = rnd.randrange(len(toks))
        op = rnd.choice(OPERATORS[grammar])
        toks.insert(i, op * rnd.choice([2, 2, 3]))
        return "".join(toks), "dup-operator"
    if k < 0.82:
        # a window of 1-3 tokens of a valid input repeated many times (+ a tail that makes the match fail late):
        # the shape on which a nested or overlapping quantifier back-tracks exponentially
        s = VALID[grammar](rnd)
        toks = tokens_of(s) or ["1"]
        span = rnd.choice([1, 2, 2, 3])
        starts = [n for n in range(len(toks)) if not toks[n].isalnum()] or list(range(len(toks)))
        i = rnd.choice(starts) if rnd.random() < 0.7 else rnd.randrange(len(toks))
        win = "".join(toks[i:i + span])
        rep = win * rnd.choice([12, 30, 60, 200])
        tail = rnd.choice(["", "x", "!", " ", "\n", ",", ".", "x"])
        keep = rnd.random() < 0.5
        return "".join(toks[:i]) + rep + ("".join(toks[i + span:]) if keep else "") + tail, "repeat-window"
    if k < 0.88:
        s = VALID[grammar](rnd)
        toks = tokens_of(s)
        out = []
        for t in toks:
            if t.isspace() and rnd.random() < 0.7:
                out.append(odd_ws(rnd))
            else:
                out.append(t)
                if rnd.random() < 0.25:
                    out.append(odd_ws(rnd))
        if rnd.random() < 0.3:
            out.insert(0, odd_ws(rnd))
        if rnd.random() < 0.3:
            out.append(odd_ws(rnd))
        return "".join(out), "odd-whitespace"
    if k < 0.93:
        return udigits(rnd, VALID[grammar](rnd), rnd.choice([0.2, 0.5, 1.0])), "unicode-digits"
    if k < 0.955:
        # pure garbage over a small alphabet (all grammars share it)
        n = rnd.randint(0, 10)
        return "".join(rnd.choice("01.a-+!=<>~^*,| '\"()[]@;#xv_\t\n\\/:%") for _ in range(n)), "chars"
    if not long_ok:
        return VALID[grammar](rnd), "valid"
    r = rnd.random()
    if r < 0.55:
        return long_run(rnd, grammar, rnd.choice([200, 2000, 10000, 10000]))
    if r < 0.85:
        return long_chain(rnd, grammar, rnd.choice([10, 25, 50]) if not big else rnd.choice([300, 600, 1200]))
    return long_nest(rnd, grammar, rnd.choice([5, 20, 60, 150, 400, 1500]), big)


# ---------------------------------------------------------------------------------------------------------
# pyproject mappings
# ---------------------------------------------------------------------------------------------------------

def base_mapping(rnd: random.Random) -> dict[str, Any]:
    """a valid pyproject mapping (as `tomllib.loads` would return it) with a random subset of the optional tables"""
    name = rnd.choice(["demo", "my-package", "pkg_a", "Foo.Bar"])
    version = rnd.choice(["1.0", "0.1.0", "2024.1", "1.0a1", "1!2.0"])
    project: dict[str, Any] = {"name": name, "version": version}
    poetry: dict[str, Any] = {}
    opt_project = {
        "description": "A demo", "readme": rnd.choice(["README.md", {"file": "README.rst", "content-type": "text/x-rst"}]),
        "requires-python": ">=3.8", "license": rnd.choice(["MIT", {"text": "MIT"}, {"file": "LICENSE"}]),
        "authors": [{"name": "A", "email": "a@example.com"}], "maintainers": [{"name": "B"}], "keywords": ["a", "b"],
        "classifiers": ["Topic :: Software Development"], "urls": {"Homepage": "https://example.com"},
        "scripts": {"cli": "demo:main"}, "gui-scripts": {"gui": "demo:gui"}, "entry-points": {"g": {"a": "demo:a"}},
        "dependencies": ["requests>=2.0", 'tomli; python_version < "3.11"'], "optional-dependencies": {"x": ["attrs"]},
        "dynamic": rnd.choice([["classifiers"], ["version"], ["dependencies", "readme"]]),
    }
    opt_poetry = {
        "name": name, "version": version, "description": "A demo", "authors": ["A <a@example.com>"], "maintainers": ["B <b@example.com>"],
        "license": "MIT", "readme": rnd.choice(["README.md", ["README.md", "CHANGES.md"]]), "homepage": "https://example.com",
        "repository": "https://example.com/r", "documentation": "https://example.com/d", "keywords": ["k"],
        "classifiers": ["Topic :: Software Development"], "package-mode": rnd.choice([True, False]),
        "packages": [{"include": "demo"}, {"include": "extra", "from": "lib", "format": ["sdist"]}],
        "include": ["CHANGELOG.md", {"path": "tests", "format": "sdist"}], "exclude": ["**/*.tmp"],
        "dependencies": {"python": "^3.8", "requests": "^2.0", "attrs": {"version": ">=21", "optional": True, "markers": 'os_name == "nt"'},
                         "multi": [{"version": "1.0", "python": "<3.9"}, {"version": "2.0", "python": ">=3.9"}],
                         "g": {"git": "https://github.com/a/b.git", "rev": "main"}, "p": {"path": "../p", "develop": True}},
        "dev-dependencies": {"pytest": "*"},
        "group": {"dev": {"optional": True, "dependencies": {"pytest": "^7"}}, "docs": {"dependencies": {"sphinx": "*"}}},
        "extras": {"x": ["attrs"]}, "scripts": {"cli": "demo:main", "f": {"reference": "bin/f.sh", "type": "file"},
                                                "c": {"reference": "demo:c", "type": "console", "extras": ["x"]}},
        "plugins": {"g": {"a": "demo:a"}}, "urls": {"Tracker": "https://example.com/t"},
        "build": rnd.choice(["build.py", {"script": "build.py", "generate-setup-file": True}]),
        "source": [{"name": "s", "url": "https://s.example.com", "priority": "primary"}],
        "requires-poetry": ">=2.0", "requires-plugins": {"p": ">1.0"},
    }
    for k, v in opt_project.items():
        if rnd.random() < 0.5:
            project[k] = copy.deepcopy(v)
    for k, v in opt_poetry.items():
        if rnd.random() < 0.45:
            poetry[k] = copy.deepcopy(v)
    d: dict[str, Any] = {}
    shape = rnd.random()
    if shape < 0.6:
        d["project"] = project
        d["tool"] = {"poetry": poetry}
    elif shape < 0.8:
        poetry.setdefault("name", name)
        poetry.setdefault("version", version)
        poetry.setdefault("description", "d")
        poetry.setdefault("authors", ["A <a@example.com>"])
        d["tool"] = {"poetry": poetry}
    elif shape < 0.9:
        d["project"] = project
    else:
        d["project"] = project
        d["tool"] = {"poetry": poetry, "other": {"x": 1}}
    if rnd.random() < 0.3:
        d["build-system"] = {"requires": ["poetry-core>=2.0"], "build-backend": "poetry.core.masonry.api"}
    return d


REPLACEMENTS: list[Any] = [None, 0, 1, -1, 1.5, True, False, "", "x", "1.0", [], [1], ["x"], [None], [[]], [{}], {}, {"x": 1}, {"": ""},
                           {"name": 1}, {"version": None}, {"file": 1}, {"include": 1}, "^3.8", ">=", "a <b>", " ", "\x00"]


def _paths(node: Any, prefix: tuple[Any, ...] = ()) -> list[tuple[Any, ...]]:
    out: list[tuple[Any, ...]] = []
    if isinstance(node, dict):
        for k in node:
            out.append(prefix + (k,))
            out.extend(_paths(node[k], prefix + (k,)))
    elif isinstance(node, list):
        for i, v in enumerate(node):
            out.append(prefix + (i,))
            out.extend(_paths(v, prefix + (i,)))
    return out


def _get(node: Any, path: tuple[Any, ...]) -> Any:
    for p in path:
        node = node[p]
    return node


def mutate_mapping(rnd: random.Random, d: dict[str, Any]) -> tuple[dict[str, Any], str]:
    """one type/key mutation: replace a value, delete a key, rename a key, nest deeply, add an unknown key"""
    d = copy.deepcopy(d)
    paths = _paths(d)
    if not paths:
        return {rnd.choice(["project", "tool", "x"]): rnd.choice(REPLACEMENTS)}, "j-root"
    path = rnd.choice(paths)
    parent = _get(d, path[:-1])
    key = path[-1]
    k = rnd.random()
    if k < 0.5:
        parent[key] = copy.deepcopy(rnd.choice(REPLACEMENTS))
        return d, "j-replace"
    if k < 0.62:
        del parent[key]
        return d, "j-delete"
    if k < 0.74 and isinstance(parent, dict):
        v = parent.pop(key)
        parent[rnd.choice([str(key) + "x", str(key).upper(), "", "name", "version", "dependencies", "python", "scripts", "extras", "readme", "type"])] = v
        return d, "j-rename"
    if k < 0.84:
        v: Any = parent[key]
        depth = rnd.choice([1, 2, 5, 30, 200])
        for _ in range(depth):
            v = {rnd.choice(["x", "dependencies", "group", str(key)]): v} if rnd.random() < 0.6 else [v]
        parent[key] = v
        return d, "j-nest"
    if k < 0.92 and isinstance(parent, dict):
        parent[rnd.choice(["unknown", "name", "version", "dependencies", "scripts", "extras", "readme", "source", "package-mode", "dynamic"])] = \
            copy.deepcopy(rnd.choice(REPLACEMENTS))
        return d, "j-add"
    # swap the value with that of another path (type confusion between sections)
    other = rnd.choice(paths)
    try:
        ov = copy.deepcopy(_get(d, other))
        parent[key] = ov
    except (KeyError, IndexError, TypeError):
        parent[key] = None
    return d, "j-graft"


def gen_mapping(rnd: random.Random) -> tuple[dict[str, Any], str]:
    d = base_mapping(rnd)
    if rnd.random() < 0.08:
        return d, "j-valid"
    n = rnd.choice([1, 1, 1, 2, 3])
    label = ""
    for _ in range(n):
        d, label = mutate_mapping(rnd, d)
    return d, label if n == 1 else "j-multi"
