"""C02 — requirements written into built metadata mean what pyproject declared."""
from __future__ import annotations

import re
import shutil
import tempfile
from pathlib import Path
from typing import Any

from . import core, gen_marker as G, marker_common as MC
from . import c11_gen
from . import vc_common as V

PROP = "C02"
LEAN_MODULE = "PoetryVerif.Props.C02"
RULE = ("generated projects in both table styles with 1-6 dependencies: legacy tables with version (conjunctions over all "
        "operators incl. ^ ~ ~= !=), python (C11 domain ranges), platform, markers (satisfiable, C06 domain without extra clauses), "
        "extras of the dependency, optional + membership in the project's extras; PEP 621 strings with specifiers/markers/extras and "
        "[project.optional-dependencies]. The Requires-Dist / Requires-Python / Provides-Extra produced by the real "
        "Factory -> Metadata.from_package pipeline are parsed and evaluated by the reference for candidate versions derived from "
        "every bound x an environment sample (13 interpreters x 3 platforms x sets of the project's extras). Non-trivial = the "
        "declaration carries at least one condition (python/platform/markers/optional) ; distinct = distinct declaration.")
ASSUMPTIONS = [
    "the Lean model of Factory.create_dependency / Metadata.from_package / format_python_constraint (Model/Dep02.lean over Model/Dep.lean) is tied to "
    "the real pipeline on every generated declaration: Requires-Dist text, selection, marker tree, in_extras, truth vector, Requires-Python, Provides-Extra",
    "reference = packaging 26.3 Requirement/Marker/SpecifierSet in a separate process, with the token reading of in/not in and set-valued extras (as C06)",
    "the declared version constraint and python range are interpreted by poetry-core's own constraint semantics (tied to PEP 440 by C04) on candidates that are regular for every bound",
    "tomli and the schema validation are trusted (only declarations accepted by Factory.validate are judged)",
]

KNOWN_SINGLE = "single-version-precision-lt-3"   # C11's known finding seen through C02
KNOWN_OPT_EXTRA = "optional-dependency-with-own-extra-clause-loses-membership"

NAMES = ["requests", "Django", "my_dep", "zope.interface", "A-b_c"]
OPS = [">=", ">", "<", "<=", "^", "~", "~=", "!=", "=="]
VERS = ["1", "1.2", "2.0", "1.2.3", "0.5", "3"]
PLATFORMS = ["linux", "win32", "darwin", "linux || darwin", "!=win32"]
EXTRA_NAMES = ["a", "b", "foo-bar"]


def gen_version_constraint(rnd: Any) -> str:
    n = rnd.randint(1, 2)
    cl = []
    for _ in range(n):
        op = rnd.choice(OPS)
        v = rnd.choice(VERS)
        if op == "~=" and "." not in v:
            v += ".0"
        cl.append(op + v)
    return ",".join(cl) if rnd.random() > 0.1 else "*"


def gen_dep(rnd: Any, project_extras: list[str]) -> dict[str, Any]:
    from poetry.core.constraints.version import parse_constraint
    ver = gen_version_constraint(rnd)
    while parse_constraint(ver).is_empty():      # the property's domain: satisfiable declarations
        ver = gen_version_constraint(rnd)
    d: dict[str, Any] = {"name": rnd.choice(NAMES) + str(rnd.randint(0, 9)), "version": ver}
    if rnd.random() < 0.5:
        d["python"] = c11_gen.py_range(rnd)
        while parse_constraint(d["python"]).is_empty():      # an empty python range is not a satisfiable declaration
            d["python"] = c11_gen.py_range(rnd)
    if rnd.random() < 0.3:
        d["platform"] = rnd.choice(PLATFORMS)
    if rnd.random() < 0.4:
        d["markers"] = G.marker(rnd, max_leaves=rnd.choice([1, 2, 3]), no_extra=True)
    if rnd.random() < 0.25:
        d["extras"] = rnd.sample(["x", "Y_z"], rnd.randint(1, 2))
    if project_extras and rnd.random() < 0.35:
        d["optional"] = True
        d["in_extras"] = rnd.sample(project_extras, rnd.randint(1, len(project_extras)))
    return d


def toml_str(s: str) -> str:
    return '"' + s.replace("\\", "\\\\").replace('"', '\\"') + '"'


def legacy_pyproject(deps: list[dict[str, Any]], project_extras: list[str], python: str) -> str:
    lines = ['[tool.poetry]', 'name = "demo"', 'version = "1.0"', 'description = "d"', 'authors = ["A <a@example.com>"]', "",
             "[tool.poetry.dependencies]", f"python = {toml_str(python)}"]
    def table(d: dict[str, Any]) -> str:
        items = [f"version = {toml_str(d['version'])}"]
        for k in ("python", "platform", "markers"):
            if k in d:
                items.append(f"{k} = {toml_str(d[k])}")
        if "extras" in d:
            items.append("extras = [" + ", ".join(toml_str(e) for e in d["extras"]) + "]")
        if d.get("optional"):
            items.append("optional = true")
        return "{ " + ", ".join(items) + " }"
    names: list[str] = []
    for d in deps:
        if d["name"] not in names:
            names.append(d["name"])
    for n in names:
        group = [d for d in deps if d["name"] == n]
        # several entries under one name = poetry's "multiple constraints" dependency: a list of tables
        lines.append(f"{toml_str(n)} = " + (table(group[0]) if len(group) == 1 else "[" + ", ".join(table(d) for d in group) + "]"))
    if project_extras:
        lines += ["", "[tool.poetry.extras]"]
        for e in project_extras:
            members = [n for n in names if any(e in d.get("in_extras", []) for d in deps if d["name"] == n)]
            lines.append(f"{toml_str(e)} = [" + ", ".join(toml_str(m) for m in members) + "]")
    lines += ["", "[build-system]", 'requires = ["poetry-core"]', 'build-backend = "poetry.core.masonry.api"', ""]
    return "\n".join(lines)


def expected_selected(d: dict[str, Any], v: Any, e: dict[str, Any], mk_bits: dict[str, bool | None]) -> bool | None:
    """the declaration's own meaning on candidate v / environment e (None = not judged)"""
    from poetry.core.constraints.generic import parse_constraint as pg
    from poetry.core.constraints.version import Version, parse_constraint
    c = parse_constraint(d["version"])
    if not V.is_regular(v, V.bounds(c)):
        return None
    ok = c.allows(v)
    if "python" in d:
        pc = parse_constraint(d["python"])
        if pc.is_empty():
            return None
        ok = ok and pc.allows(Version.parse(e["python_full_version"]))
    if "platform" in d:
        ok = ok and pg(d["platform"]).allows(pg(e["sys_platform"]))
    if "markers" in d:
        m = mk_bits.get(d["markers"] + "\0" + G.enc_env(e))
        if m is None:
            return None
        ok = ok and m
    if d.get("optional"):
        ok = ok and bool(set(d.get("in_extras", [])) & set(e["extra"]))
    return ok


def run_projects(ctx: core.Ctx, projects: list[dict[str, Any]], stream: str) -> None:
    from poetry.core.constraints.version import Version, parse_constraint
    from poetry.core.factory import Factory
    from poetry.core.masonry.metadata import Metadata
    from packaging.utils import canonicalize_name  # vendored copy: only used for name matching
    tmp = Path(tempfile.mkdtemp(prefix="c02_"))
    try:
        built: list[tuple[dict[str, Any], Any]] = []
        for i, pr in enumerate(projects):
            root = tmp / f"p{i}"
            (root / "demo").mkdir(parents=True)
            (root / "demo" / "__init__.py").write_text("")
            (root / "pyproject.toml").write_text(pr["toml"], encoding="utf-8")
            try:
                poetry = Factory().create_poetry(root)
                meta = Metadata.from_package(poetry.package)
                built.append((pr, meta))
                pr["_package"] = poetry.package
            except Exception as ex:  # noqa: BLE001
                ctx.case("p:" + pr["toml"], nontrivial=False)
                ctx.count("project:rejected:" + type(ex).__name__)
        # reference evaluation of the declared markers (token reading) on the env sample
        envs_by: list[list[dict[str, Any]]] = []
        mreqs = []
        for pr, _ in built:
            exsets = [[]] + [[x] for x in pr["extras"]] + ([pr["extras"]] if len(pr["extras"]) > 1 else [])
            envs = [dict(e, extra=list(ex)) for e in G.env_grid(ctx.rng, 14) for ex in [ctx.rng.choice(exsets)]]
            envs_by.append(envs)
            for d in pr["deps"]:
                if "markers" in d:
                    mreqs.append({"op": "mtok", "s": d["markers"], "envs": envs})
        dis = model_correspondence(ctx, built, envs_by, stream)
        mres = iter(MC.ref_batch(mreqs)) if mreqs else iter([])
        reqs = []
        plan = []
        for (pr, meta), envs in zip(built, envs_by):
            mk_bits: dict[str, bool | None] = {}
            for d in pr["deps"]:
                if "markers" in d:
                    r = next(mres)
                    for e, (tv, _pv) in zip(envs, r[1] if r[0] == "ok" else [[None, None]] * len(envs)):
                        mk_bits[d["markers"] + "\0" + G.enc_env(e)] = tv
            lines = list(meta.requires_dist)
            done_names: set[str] = set()
            for d in pr["deps"]:
                if d["name"] in done_names:
                    continue
                done_names.add(d["name"])
                group = [x for x in pr["deps"] if x["name"] == d["name"]]      # > 1: a multiple-constraints dependency
                bnds = [b for x in group for b in V.bounds(parse_constraint(x["version"]))]
                cands = []
                for t in V.probe_strings(ctx.rng, [b.text for b in bnds], n_extra=4)[:14 if len(group) == 1 else 20]:
                    pv = V.parse_probe(t)
                    if pv is not None and not pv.is_local() and (len(group) == 1 or V.is_regular(pv, bnds)):
                        cands.append(pv)
                cases = [[cv.text, e] for cv in cands[:8] for e in envs[:10]]
                mine = [ln for ln in lines if canonicalize_name(ln.split(";")[0].split("(")[0].split("[")[0].split("@")[0].strip().split(" ")[0]) == canonicalize_name(d["name"])]
                plan.append((pr, d, mine, cases, mk_bits, group))
                for ln in mine:
                    reqs.append({"op": "reqtok", "s": ln, "cases": cases})
        res = iter(MC.ref_batch(reqs)) if reqs else iter([])
        for pr, d, mine, cases, mk_bits, group in plan:
            if len(group) > 1:
                # multiple constraints: SOME line selects the candidate exactly when SOME entry of the declaration does
                ctx.case("dm:" + repr([sorted(x.items()) for x in group]), nontrivial=True, sample={"declared": group, "requires_dist": mine})
                ctx.count("dep:multiple-constraints:" + ("same-version" if len({x["version"] for x in group}) == 1 else "other-version"))
                wit = {"toml": pr["toml"], "dep": d["name"]}
                rs = [next(res) for _ in mine]
                bad = [(ln, r) for ln, r in zip(mine, rs) if r[0] != "ok"]
                if bad:
                    ctx.violate(f"ref-rejects:{bad[0][0]}", f"Requires-Dist {bad[0][0]!r} (from {group}) is rejected by the reference parser: {bad[0][1]}", wit)
                    continue
                for k, (vt, e) in enumerate(cases):
                    wants = [expected_selected(x, Version.parse(vt), e, mk_bits) for x in group]
                    gots = [r[3][k] for r in rs]
                    if any(w is None for w in wants) or any(not isinstance(g, bool) for g in gots):
                        continue
                    if any(wants) != any(gots):
                        from .c07 import KNOWN_NOTIN, notin_class
                        key = (KNOWN_SINGLE if any("python" in x and short_single(x["python"]) for x in group) else
                               KNOWN_NOTIN if any(notin_class(x.get("markers", "")) for x in group) else f"selection-multi:{group}")
                        ctx.violate(key, f"declared {group} -> {mine}: reference selects={any(gots)} for version {vt} on py={e['python_full_version']} "
                                         f"platform={e['sys_platform']} extras={e['extra']}, the declaration says {any(wants)}", {**wit, "version": vt, "env": e})
                        break
                    ctx.count("oracle:compared-multi")
                continue
            cond = any(k in d for k in ("python", "platform", "markers", "optional"))
            ctx.case("d:" + repr(sorted(d.items())), nontrivial=cond,
                     sample={"declared": d, "requires_dist": mine} if cond else None)
            ctx.count("dep:" + "+".join(k for k in ("python", "platform", "markers", "extras", "optional") if k in d) or "dep:plain")
            wit = {"toml": pr["toml"], "dep": d["name"]}
            if not mine:
                # a dependency may legitimately vanish only if it can never be selected
                sel = [expected_selected(d, Version.parse(vt), e, mk_bits) for vt, e in cases]
                if any(x is True for x in sel):
                    ctx.violate(f"dropped:{d}", f"declared dependency {d} has no Requires-Dist line although the declaration selects it somewhere", wit)
                else:
                    ctx.count("dep:never-selectable-dropped")
                continue
            if len(mine) > 1:
                ctx.violate(f"duplicated:{d}", f"declared dependency {d} has {len(mine)} Requires-Dist lines: {mine}", wit)
                for _ in mine:
                    next(res)
                continue
            r = next(res)
            if r[0] != "ok":
                ctx.violate(f"ref-rejects:{mine[0]}", f"Requires-Dist {mine[0]!r} (from {d}) is rejected by the reference parser: {r}", wit)
                continue
            if sorted(r[2]) != sorted(canonicalize_name(x) for x in d.get("extras", [])):
                ctx.violate(f"extras:{d}", f"Requires-Dist {mine[0]!r}: extras {r[2]} differ from declared {d.get('extras', [])}", wit)
                continue
            for (vt, e), got in zip(cases, r[3]):
                want = expected_selected(d, Version.parse(vt), e, mk_bits)
                if want is None or not isinstance(got, bool):
                    continue
                if got != want:
                    from .c07 import KNOWN_NOTIN, notin_class
                    key = (KNOWN_SINGLE if "python" in d and short_single(d["python"]) else
                           KNOWN_NOTIN if notin_class(d.get("markers", "")) else f"selection:{d}")
                    ctx.violate(key, f"declared {d} -> {mine[0]!r}: reference selects={got} for version {vt} on py={e['python_full_version']} "
                                     f"platform={e['sys_platform']} extras={e['extra']}, declaration says {want}", {**wit, "version": vt, "env": e, "dep_decl": d})
                    break
                ctx.count("oracle:compared")
        # Requires-Python: the reference specifier set admits exactly the interpreters the declared range admits
        # (interpreters of the release series format_python_constraint knows: PYTHON_VERSION)
        from poetry.core.version.helpers import PYTHON_VERSION
        series = {v[:-2] for v in PYTHON_VERSION}
        pys = [p for p in G.PY_FULL if ".".join(p.split(".")[:2]) in series] + sorted(x + ".0" for x in series)   # incl. the first release of each series
        rp = [(pr, meta) for pr, meta in built if pr.get("python") and meta.requires_python]
        for (pr, meta), r in zip(rp, MC.ref_batch([{"op": "specv", "s": meta.requires_python, "vs": pys} for pr, meta in rp]) if rp else []):
            if r[0] != "ok":
                ctx.violate(f"requires-python-rejected:{pr['python']}", f"Requires-Python {meta.requires_python!r} (declared python = {pr['python']!r}) "
                            f"is rejected by the reference: {r}", {"python": pr["python"]})
                continue
            decl = parse_constraint(pr["python"])
            for p, got in zip(pys, r[1]):
                want = decl.allows(Version.parse(p))
                if got is not None and got != want:
                    ctx.violate(f"requires-python:{pr['python']}", f"declared python = {pr['python']!r} -> Requires-Python {meta.requires_python!r}: reference admits "
                                f"{p} = {got}, declaration says {want}", {"python": pr["python"]})
                    break
                ctx.count("oracle:requires-python")
        for pr, meta in built:
            want_extras = sorted(canonicalize_name(x) for x in pr["extras"])
            if sorted(meta.provides_extra) != want_extras:
                ctx.violate(f"provides-extra:{pr['extras']}", f"Provides-Extra {meta.provides_extra} differs from declared {want_extras}", {"toml": pr["toml"]})
    finally:
        shutil.rmtree(tmp, ignore_errors=True)
    ctx.stream(stream, len(projects), dis if built else 0)


def opt(x: Any) -> str:
    return "-" if x is None else "=" + str(x)


def model_correspondence(ctx: core.Ctx, built: list[tuple[dict[str, Any], Any]], envs_by: list[list[dict[str, Any]]], stream: str) -> int:
    """Lean model (ops dep02 / pyfmt / provx) vs the real Factory -> Metadata.from_package pipeline, declaration by declaration"""
    from packaging.utils import canonicalize_name
    lines, plan = [], []
    for (pr, meta), envs in zip(built, envs_by):
        eenc = [G.enc_env(e) for e in envs[:10]]
        pkg = pr.get("_package")
        for d in pr["deps"]:
            in_ex = [e for e in pr["extras"] if e in d.get("in_extras", [])]
            lines.append(core.line("dep02", d["name"], d["version"], opt(d.get("python")), opt(d.get("platform")), opt(d.get("markers")),
                                   ",".join(d.get("extras", [])), "1" if d.get("optional") else "0", ",".join(in_ex), *eenc))
            same = [x for x in (pkg.requires if pkg is not None else []) if x.name == canonicalize_name(d["name"])]
            k = sum(1 for d0 in pr["deps"][: pr["deps"].index(d)] if d0["name"] == d["name"])     # k-th entry under that name
            real = same[k] if k < len(same) else None
            plan.append(("dep", pr, d, real, envs[:10], meta))
        if "python" in pr:
            lines.append(core.line("pyfmt", pr["python"]))
            plan.append(("py", pr, None, None, None, meta))
        lines.append(core.line("provx", *pr["extras"]))
        plan.append(("px", pr, None, None, None, meta))
    if not lines:
        return 0
    out = core.run_driver(lines)
    dis = 0
    for (kind, pr, d, real, envs, meta), mo in zip(plan, out):
        if mo[:2] == ["err", "unmodelled"]:
            ctx.count("model:unmodelled")
            continue
        if kind == "py":
            io = ["ok", opt(meta.requires_python)]
            if io != mo[:2]:
                dis += 1
                ctx.disagree(stream + ":requires-python", pr["python"], io, mo)
            ctx.count("model:requires-python")
        elif kind == "px":
            io = ["ok", ",".join(meta.provides_extra)]
            if io != mo[:2]:
                dis += 1
                ctx.disagree(stream + ":provides-extra", pr["extras"], io, mo)
        else:
            if real is None:
                ctx.count("model:no-real-object")
                continue
            sel = (not real.is_optional() or bool(real.in_extras)) and not real.marker.is_empty()
            try:
                text = "=" + real.to_pep_508()
            except Exception as e:  # noqa: BLE001
                text = "!" + MC.errname(e)
            io = ["ok", "1" if sel else "0", text, MC.mdump(real.marker), ",".join(real.in_extras), "1" if real.is_optional() else "0", MC.truth(real.marker, envs)]
            listed = [ln for ln in meta.requires_dist if ln == text[1:]]
            if mo[0] != "ok":
                dis += 1
                ctx.disagree(stream + ":model-raises", d, io[:3], mo)
                continue
            ib, mb = MC.split_bits(io[6]), MC.split_bits(mo[6])
            bits_ok = len(ib) == len(mb) and all(y == "u" or x == y for x, y in zip(ib, mb))
            if io[:6] != mo[:6] or not bits_ok:
                dis += 1
                k = next((i for i in range(6) if io[i] != mo[i]), 6)
                ctx.disagree(stream + ":" + ["status", "selected", "text", "marker", "in_extras", "optional", "truth"][k], d, io, mo)
            elif sel != bool(listed):
                dis += 1
                ctx.disagree(stream + ":line-listed", d, [sel, meta.requires_dist], mo[:3])
            ctx.count("model:declarations")
    return dis


def short_single(r: str) -> bool:
    from poetry.core.constraints.version import Version, parse_constraint
    try:
        c = parse_constraint(r)
    except Exception:  # noqa: BLE001
        return False
    return any(isinstance(x, Version) and x.precision < 3 for x in c.flatten())


def gen_project(rnd: Any) -> dict[str, Any]:
    extras = rnd.sample(EXTRA_NAMES, rnd.randint(0, 2))
    deps = []
    seen = set()
    for _ in range(rnd.randint(1, 5)):
        d = gen_dep(rnd, extras)
        if d["name"].lower() in seen:
            continue
        seen.add(d["name"].lower())
        deps.append(d)
    if rnd.random() < 0.3:
        # a "multiple constraints" dependency: two entries under one name that differ in their condition; the same version
        # range more often than not (then the two objects are equal under Dependency.__eq__, which ignores the condition)
        a = gen_dep(rnd, extras)
        while a["name"].lower() in seen:
            a["name"] = rnd.choice(NAMES) + str(rnd.randint(10, 99))
        b = gen_dep(rnd, extras)
        b["name"] = a["name"]
        if rnd.random() < 0.6:
            b["version"] = a["version"]
        for k in ("optional", "in_extras", "extras"):
            b.pop(k, None)
            if k in a:
                b[k] = a[k]
        pa, pb = rnd.sample(["<3.9", ">=3.9,<3.11", ">=3.11", "~3.8", "^3.10"], 2)
        a["python"], b["python"] = pa, pb
        deps += [a, b]
    used = [e for e in extras if any(e in d.get("in_extras", []) for d in deps)]
    for d in deps:
        if "in_extras" in d:
            d["in_extras"] = [e for e in d["in_extras"] if e in used]
    py = rnd.choice([">=3.8", "^3.9", ">=3.7,<4", "*", "~2.7 || ^3.6", ">=3.6,!=3.7.*", "3.9.*", ">=2.7,!=3.0.*,!=3.1.*,!=3.2.*"])
    return {"deps": deps, "extras": used, "python": py, "toml": legacy_pyproject(deps, used, py)}


# ------------------------------------------------------------------ PEP 621 tables
SPEC_OPS = [">=", ">", "<", "<=", "~=", "!=", "=="]
NAMES621 = ["requests", "Django", "zope.interface"]
PY621 = [None, ">=3.8", ">=3.7,<4", ">=3.9,!=3.10.*", "~=3.8"]


def gen_spec(rnd: Any) -> str:
    from poetry.core.constraints.version import parse_constraint
    while True:
        cl = []
        for _ in range(rnd.choice([0, 1, 1, 2])):
            op = rnd.choice(SPEC_OPS)
            v = rnd.choice(VERS)
            if op == "~=" and "." not in v:
                v += ".0"
            cl.append(op + v)
        t = ",".join(cl)
        if not t or not parse_constraint(t).is_empty():
            return t


def gen_req621(rnd: Any, name: str, spec: str, extra_clause: bool = False) -> str:
    t = name
    if rnd.random() < 0.2:
        t += "[" + ",".join(rnd.sample(["x", "Y_z"], rnd.randint(1, 2))) + "]"
    t += spec if rnd.random() < 0.7 else (" (" + spec + ")" if spec else "")
    if rnd.random() < 0.5:
        m = G.marker(rnd, max_leaves=rnd.choice([1, 1, 2, 3]), no_extra=True)
        if extra_clause and rnd.random() < 0.15:
            # a clause that only EXCLUDES an extra: the dependency stays mandatory (regression of poetry-core ad4e259)
            m = "(" + m + ") and extra != " + toml_free_quote(rnd.choice(EXTRA_NAMES))
        t += " ; " + m
    elif extra_clause and rnd.random() < 0.06:
        t += " ; extra != " + toml_free_quote(rnd.choice(EXTRA_NAMES))
    return t


def toml_free_quote(s: str) -> str:
    return "'" + s + "'"


def pep621_pyproject(pr: dict[str, Any]) -> str:
    lines = ["[project]", 'name = "demo"', 'version = "1.0"', 'description = "d"']
    if pr.get("python"):
        lines.append(f"requires-python = {toml_str(pr['python'])}")
    lines.append("dependencies = [" + ", ".join(toml_str(t) for t in pr["dependencies"]) + "]")
    if pr["optional"]:
        lines += ["", "[project.optional-dependencies]"]
        for x, l in pr["optional"]:
            lines.append(f"{toml_str(x)} = [" + ", ".join(toml_str(t) for t in l) + "]")
    lines += ["", "[build-system]", 'requires = ["poetry-core"]', 'build-backend = "poetry.core.masonry.api"', ""]
    return "\n".join(lines)


def gen_project621(rnd: Any) -> dict[str, Any]:
    """a [project] table in which one distribution may be declared several times: in `dependencies` under different
    markers, in several extras, with the same or another specifier (entries that are equal under Dependency.__eq__ —
    which ignores marker and extra membership — are the interesting ones)"""
    specs: dict[str, list[str]] = {}

    def entry(extra_clause: bool = False) -> str:
        n = rnd.choice(NAMES621)
        prev = specs.setdefault(n, [])
        sp = rnd.choice(prev) if prev and rnd.random() < 0.6 else gen_spec(rnd)
        prev.append(sp)
        return gen_req621(rnd, n if rnd.random() < 0.8 else n.upper().replace(".", "_"), sp, extra_clause)

    # `extra != …` clauses only in `dependencies` entries: an [optional-dependencies] entry whose own marker mentions
    # `extra` is printed without its membership clause (to_pep_508: has_extras) — reported, outside the generated domain
    deps = [entry(True) for _ in range(rnd.randint(0, 4))]
    opt = [(x, [entry() for _ in range(rnd.randint(1, 3))]) for x in rnd.sample(EXTRA_NAMES, rnd.randint(0, 2))]
    if not deps and not opt:
        deps = [entry(True)]
    pr: dict[str, Any] = {"dependencies": deps, "optional": opt, "python": rnd.choice(PY621)}
    pr["toml"] = pep621_pyproject(pr)
    return pr


def run_projects621(ctx: core.Ctx, projects: list[dict[str, Any]], stream: str) -> None:
    """PEP 621 tables: (a) model (op dep621: create_from_pep_508 + the factory's optional/_in_extras + selection + to_pep_508,
    `Proj621.requiresDist` = every entry's own line in table order) vs the real Factory -> Metadata pipeline, entry by entry
    and as a whole list; (b) oracle: for every distribution, candidate version, environment and set of active extras the
    reference selects SOME emitted line exactly when it selects SOME declared entry."""
    from poetry.core.constraints.version import parse_constraint
    from poetry.core.factory import Factory
    from poetry.core.masonry.metadata import Metadata
    from packaging.utils import canonicalize_name
    tmp = Path(tempfile.mkdtemp(prefix="c02p_"))
    dis = 0
    try:
        built = []
        for i, pr in enumerate(projects):
            root = tmp / f"p{i}"
            (root / "demo").mkdir(parents=True)
            (root / "demo" / "__init__.py").write_text("")
            (root / "pyproject.toml").write_text(pr["toml"], encoding="utf-8")
            MC.clear_caches()
            try:
                poetry = Factory().create_poetry(root)
                meta = Metadata.from_package(poetry.package)
                built.append((pr, meta, poetry.package))
            except Exception as ex:  # noqa: BLE001
                ctx.case("p621:" + pr["toml"], nontrivial=False)
                ctx.count("project621:rejected:" + type(ex).__name__)
        lines, plan, reqs, rplan = [], [], [], []
        for pr, meta, pkg in built:
            ents = [(t, None) for t in pr["dependencies"]] + [(t, x) for x, l in pr["optional"] for t in l]
            exnames = [x for x, _ in pr["optional"]]
            exsets = [[]] + [[x] for x in exnames] + ([exnames] if len(exnames) > 1 else [])
            envs = [dict(e, extra=list(ex)) for e in G.env_grid(ctx.rng, 8) for ex in exsets]
            eenc = [G.enc_env(e) for e in envs[:10]]
            for t, x in ents:
                lines.append(core.line("dep621", t, opt(x), *eenc))
            plan.append((pr, meta, pkg, ents, envs))
            # oracle requests: every declared entry and every emitted line on the same cases
            by_name: dict[str, list[tuple[str, Any]]] = {}
            for t, x in ents:
                nm = canonicalize_name(re.split(r"[\s\[(<>=!~;]", t.strip(), maxsplit=1)[0])
                by_name.setdefault(nm, []).append((t, x))
            for nm, group in by_name.items():
                bounds = []
                for t, _ in group:
                    sp = re.sub(r"^[^\s\[(<>=!~;]+(\[[^\]]*\])?", "", t.split(";")[0]).strip().strip("()")
                    bounds += V.bounds(parse_constraint(sp or "*"))
                cands = []
                for ct in V.probe_strings(ctx.rng, [b.text for b in bounds], n_extra=4)[:16]:
                    pv = V.parse_probe(ct)
                    if pv is not None and not pv.is_local() and V.is_regular(pv, bounds):
                        cands.append(pv.text)
                cases = [[cv, e] for cv in cands[:8] for e in envs]
                emitted = [ln for ln in meta.requires_dist
                           if canonicalize_name(re.split(r"[\s\[(<>=!~;@]", ln.strip(), maxsplit=1)[0]) == nm]
                for t, _ in group:
                    reqs.append({"op": "reqtok", "s": t, "cases": cases})
                for ln in emitted:
                    reqs.append({"op": "reqtok", "s": ln, "cases": cases})
                rplan.append((pr, nm, group, emitted, cases))
        out = core.run_driver(lines) if lines else []
        oi = iter(out)
        for pr, meta, pkg, ents, envs in plan:
            mos = [next(oi) for _ in ents]
            ctx.case("p621:" + pr["toml"], nontrivial=len(ents) > 1, sample={"toml": pr["toml"], "requires_dist": list(meta.requires_dist)} if len(ents) > 1 else None)
            ctx.count("project621:entries:" + str(min(len(ents), 6)))
            if any(mo[:2] == ["err", "unmodelled"] for mo in mos):
                ctx.count("model621:unmodelled")
                continue
            if any(mo[0] != "ok" for mo in mos):
                dis += 1
                ctx.disagree(stream + ":model-raises", pr["toml"], ["built"], [mo[:2] for mo in mos if mo[0] != "ok"][0])
                continue
            want_lines = [mo[2][1:] for mo in mos if mo[1] == "1" and mo[2].startswith("=")]
            if want_lines != list(meta.requires_dist):
                dis += 1
                ctx.disagree(stream + ":requires-dist-list", pr["toml"], list(meta.requires_dist), want_lines)
            real = list(pkg.requires)
            if len(real) == len(ents):
                for (t, x), d, mo in zip(ents, real, mos):
                    io = [MC.mdump(d.marker), ",".join(d.in_extras), MC.truth(d.marker, envs[:10])]
                    ib, mb = MC.split_bits(io[2]), MC.split_bits(mo[5])
                    if io[:2] != mo[3:5] or not (len(ib) == len(mb) and all(y == "u" or a == y for a, y in zip(ib, mb))):
                        dis += 1
                        ctx.disagree(stream + ":entry", [t, x], io, mo[3:6])
            ctx.count("model621:projects")
        res = iter(MC.ref_batch(reqs)) if reqs else iter([])
        for pr, nm, group, emitted, cases in rplan:
            decl = [next(res) for _ in group]
            emit = [next(res) for _ in emitted]
            wit = {"toml621": pr["toml"], "dist": nm}
            bad = [(t, r) for (t, _), r in zip(group, decl) if r[0] != "ok"]
            if bad:
                ctx.count("oracle621:declared-rejected-by-reference")
                continue
            rej = [(ln, r) for ln, r in zip(emitted, emit) if r[0] != "ok"]
            if rej:
                ctx.violate(f"ref-rejects:{rej[0][0]}", f"Requires-Dist {rej[0][0]!r} is rejected by the reference parser: {rej[0][1]}", wit)
                continue
            for k, (cv, e) in enumerate(cases):
                act = {canonicalize_name(z) for z in e["extra"]}
                dv = [r[3][k] for (t, x), r in zip(group, decl) if x is None or canonicalize_name(x) in act]
                ev = [r[3][k] for r in emit]
                if any(not isinstance(b, bool) for b in dv + ev):
                    continue
                want, got = any(dv), any(ev)
                if want != got:
                    own_extra = any(x is not None and ";" in t and G.mentions_extra(t.split(";", 1)[1]) for t, x in group)
                    from .c07 import KNOWN_NOTIN, notin_class
                    ctx.violate(KNOWN_OPT_EXTRA if own_extra else KNOWN_NOTIN if any(notin_class(t) for t, _ in group) else
                                f"selection621:{nm}:{sorted(t for t, _ in group)}",
                                f"[project] declares {group} for {nm}; Requires-Dist has {emitted}: reference selects={got} for version {cv} on "
                                f"py={e['python_full_version']} platform={e['sys_platform']} extras={e['extra']}, the declaration says {want}", wit)
                    break
                ctx.count("oracle621:compared")
        for pr, meta, pkg in built:
            want_extras = sorted({canonicalize_name(x) for x, _ in pr["optional"]})
            if sorted(meta.provides_extra) != want_extras:
                ctx.violate(f"provides-extra621:{want_extras}", f"Provides-Extra {meta.provides_extra} differs from declared {want_extras}", {"toml621": pr["toml"]})
            if (meta.requires_python or None) != pr.get("python"):
                ctx.violate(f"requires-python621:{pr.get('python')}", f"Requires-Python {meta.requires_python!r} differs from requires-python = {pr.get('python')!r}", {"toml621": pr["toml"]})
    finally:
        shutil.rmtree(tmp, ignore_errors=True)
    ctx.stream(stream, len(projects), dis)


CORPUS_DEPS = [
    {"name": "a1", "version": "^1.2", "python": "^3"}, {"name": "a2", "version": ">=1,<2", "python": ">=3.8,<3.10", "platform": "linux"},
    {"name": "a3", "version": "~1.2", "markers": 'sys_platform == "win32" or os_name == "nt"', "python": "~3.9"},
    {"name": "a4", "version": "!=1.2", "optional": True, "in_extras": ["a"]}, {"name": "a5", "version": "*", "python": "<=3.9.0,~3.9"},
    {"name": "a6", "version": "~=1.2.3", "platform": "linux || darwin", "extras": ["x"]},
    {"name": "a9", "version": ">=1.0", "python": ">=3.8", "markers": 'python_version < "3.8"'},   # contradictory: no line (3213fc9)
    {"name": "a10", "version": ">=1.0", "python": ">=3.8", "platform": "linux"}, {"name": "a11", "version": "*", "optional": True},
    {"name": "a12", "version": "==1", "markers": "'SMP' not in platform_version or \"Debian\" not in platform_version"},   # class notin-union-notin-any
    {"name": "a7", "version": ">1", "python": "3.*,>3.10"}, {"name": "a8", "version": "<2", "python": ">=3.6,!=3.8.*", "markers": 'python_version in "3.8 3.9"'},
]


def mk621(deps: list[str], optional: list[tuple[str, list[str]]], python: str | None = ">=3.7") -> dict[str, Any]:
    pr: dict[str, Any] = {"dependencies": deps, "optional": optional, "python": python}
    pr["toml"] = pep621_pyproject(pr)
    return pr


CORPUS_621 = [
    mk621(['colorama>=0.4 ; sys_platform == "win32"', 'colorama>=0.4 ; python_version < "3.8"', "tomli>=2.0"],
          [("test", ["pytest>=7.0", "coverage>=7.0"]), ("dev", ["pytest>=7.0", "black>=23.0"])]),
    mk621(["requests>=2", "requests>=2"], []),
    mk621(["colorama>=0.4 ; extra != 'x'", "foo>=1 ; python_version >= '3.8' and extra != 'docs'", "baz>=1"], []),   # ad4e259
    mk621(["colorama>=0.4 ; extra != 'x'"], [("x", ["qux>=1"])]),
    mk621(["Django (>=4) ; os_name == 'nt'"], [("a", ["django>=4"]), ("foo-bar", ["DJANGO>=4 ; os_name != 'nt'"])], None),
]


# class KNOWN_OPT_EXTRA, one fixed witness replayed every run
KNOWN_621 = mk621([], [("a", ["zope.interface ; python_version >= '3.8' and extra != 'foo-bar'"])], None)


def correspondence(ctx: core.Ctx) -> None:
    corpus = [{"deps": [d], "extras": d.get("in_extras", []), "python": ">=3.6", "toml": legacy_pyproject([d], d.get("in_extras", []), ">=3.6")} for d in CORPUS_DEPS]
    run_projects(ctx, corpus, "corpus")
    projects = [gen_project(ctx.rng) for _ in range(ctx.budget(220, 6000))]
    for k in range(0, len(projects), 250):
        run_projects(ctx, projects[k:k + 250], "gen")
    run_projects621(ctx, CORPUS_621, "corpus621")
    run_projects621(ctx, [KNOWN_621], "known-class621")
    p621 = [gen_project621(ctx.rng) for _ in range(ctx.budget(160, 4000))]
    for k in range(0, len(p621), 250):
        run_projects621(ctx, p621[k:k + 250], "gen621")


def search(ctx: core.Ctx) -> None:
    projects = [gen_project(ctx.rng) for _ in range(1200)]
    for k in range(0, len(projects), 250):
        run_projects(ctx, projects[k:k + 250], "search-gen")
        if [v for v in ctx.violations if v.key not in (KNOWN_SINGLE, KNOWN_OPT_EXTRA, "notin-union-notin-any")]:
            return
    p621 = [gen_project621(ctx.rng) for _ in range(1200)]
    for k in range(0, len(p621), 250):
        run_projects621(ctx, p621[k:k + 250], "search-gen621")
        if [v for v in ctx.violations if v.key not in (KNOWN_SINGLE, KNOWN_OPT_EXTRA, "notin-union-notin-any")]:
            return


def replay(ctx: core.Ctx, payload: dict[str, Any]) -> bool:
    w = payload.get("witness", payload)
    before = len(ctx.violations)
    if "toml621" in w:
        m = re.search(r"^dependencies = (\[.*\])$", w["toml621"], re.M)
        import tomllib
        doc = tomllib.loads(w["toml621"])["project"]
        pr = mk621(list(doc.get("dependencies", [])), [(x, list(l)) for x, l in doc.get("optional-dependencies", {}).items()], doc.get("requires-python"))
        for _ in range(3):
            run_projects621(ctx, [pr], "replay621")
        return len(ctx.violations) > before
    if "python" in w and "dep_decl" not in w:
        pr = {"deps": [], "extras": [], "python": w["python"], "toml": legacy_pyproject([], [], w["python"])}
        run_projects(ctx, [pr], "replay")
        return len(ctx.violations) > before
    if "dep_decl" in w:
        d = w["dep_decl"]
        pr = {"deps": [d], "extras": d.get("in_extras", []), "toml": legacy_pyproject([d], d.get("in_extras", []), ">=3.6")}
        for _ in range(3):
            run_projects(ctx, [pr], "replay")
    return len(ctx.violations) > before
