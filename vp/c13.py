"""C13 — marker normal forms and marker text preserve meaning."""
from __future__ import annotations

from typing import Any

from . import core, gen_marker as G, marker_common as MC, marker_engine as E

PROP = "C13"
LEAN_MODULE = "PoetryVerif.Props.C13"
RULE = ("markers from the C06 domain with up to 6 leaves; cnf and dnf of each, plus the results of intersect/union/invert on "
        "pairs; each result is checked for shape (CNF: conjunction of leaves or disjunctions of leaves; DNF dually), for truth "
        "preservation on the environment sample, and its text is re-parsed by poetry-core and by the reference parser and "
        "re-evaluated. Non-trivial = the operand parses and is not universal/empty; distinct = distinct (op, text).")
ASSUMPTIONS = [
    "functools caches cleared before every case; model is cache-free",
    "reference parser = packaging 26.3 Marker() in a separate process",
    "4 s limit per real-code call (time-outs counted, never a verdict)",
]


def is_leaf(m: Any) -> bool:
    from poetry.core.version.markers import SingleMarkerLike
    return isinstance(m, SingleMarkerLike)


def shape_ok(m: Any, form: str) -> bool:
    from poetry.core.version.markers import AnyMarker, EmptyMarker, MarkerUnion, MultiMarker
    if isinstance(m, (AnyMarker, EmptyMarker)) or is_leaf(m):
        return True
    outer, inner = (MultiMarker, MarkerUnion) if form == "cnf" else (MarkerUnion, MultiMarker)
    if isinstance(m, inner):
        return all(is_leaf(x) for x in m.markers)
    if isinstance(m, outer):
        return all(is_leaf(x) or (isinstance(x, inner) and all(is_leaf(y) for y in x.markers)) for x in m.markers)
    return False


def oracle(ctx: core.Ctx, recs: list[dict[str, Any]], envs: list[dict[str, Any]]) -> None:
    texts: list[tuple[dict[str, Any], str]] = []
    bits_of: dict[int, str] = {}
    for rec in recs:
        case = rec["case"]
        k, op, a = case["kind"], case.get("op"), case["a"]
        ta = E.truth_of(a, envs)
        ok = rec.get("ok", False)
        ctx.case(f"{k}:{op}:{a}\0{case.get('b', '')}", nontrivial=ok and ta is not None,
                 sample={"op": op, "a": a, "result": rec.get("text")} if ok and op in ("cnf", "dnf") and " " in a else None)
        ctx.count(f"{k}:{op}:" + ("ok" if ok else rec.get("error", "?")))
        if rec.get("timeout") or ta is None or ta == E.TIMEOUT:
            continue
        wit = dict(case)
        if not ok:
            if op in ("cnf", "dnf", "parse"):
                ctx.violate(f"raises:{op}:{a}", f"{op}({a!r}) raised {rec['error']} {rec.get('exc', '')}", wit)
            continue
        r = rec["result"]
        xr = MC.split_bits(rec["bits"])
        if op in ("cnf", "dnf", "parse"):
            xa = MC.split_bits(ta)
            bad = [j for j in range(len(envs)) if xa[j] in "01" and xr[j] != xa[j]]
            if bad:
                ctx.violate(f"wrong:{op}:{a}", f"{op}({a!r}) = {rec['text']!r} differs from its operand on {envs[bad[0]].get('python_full_version')}/{envs[bad[0]].get('sys_platform')}/{envs[bad[0]].get('extra')}",
                            {**wit, "env": envs[bad[0]]})
                continue
            if op in ("cnf", "dnf") and not shape_ok(r, op):
                ctx.violate(f"shape:{op}:{a}", f"{op}({a!r}) = {rec['text']!r} is not in {op.upper()} shape", wit)
                continue
        # text of every result: accepted by both parsers, evaluates identically
        if r.is_any() or r.is_empty():
            continue
        text = rec["text"]
        if text.startswith("!"):
            ctx.violate(f"str-raises:{op}:{a}|{case.get('b', '')}", f"str() of the result of {op} raised {text}", wit)
            continue
        t2 = E.truth_of(text, envs)
        if t2 == E.TIMEOUT:
            ctx.count("oracle:reparse-timeout")
            ctx.timeouts += 1
            continue
        if t2 is None:
            from . import c06
            ctx.violate(c06.KNOWN_EMPTY if c06.empty_literal(a + " " + (case.get("b") or "")) else f"unparsable:{op}:{a}|{case.get('b', '')}",
                        f"text {text!r} (result of {op} on {a!r}) is rejected by poetry-core's parser", wit)
            continue
        if MC.split_bits(t2) != xr:
            from .c07 import KNOWN_NOTIN, notin_class
            ctx.violate(KNOWN_NOTIN if notin_class(text) else f"text-differs:{op}:{a}|{case.get('b', '')}", f"text {text!r} evaluates differently from the marker it came from", wit)
            continue
        texts.append((wit, text))
        bits_of[id(wit)] = rec["bits"]
    if texts:
        ref = MC.ref_batch([{"op": "mtok", "s": t, "envs": envs} for _, t in texts])
        for (wit, text), rf in zip(texts, ref):
            if rf[0] != "ok":
                ctx.violate(f"ref-rejects:{text}", f"text {text!r} is rejected by the PEP 508 reference parser ({rf})", wit)
                continue
            ctx.count("ref-accepts")
            # ... and evaluates identically under the reference evaluator (token reading of lists, set-valued extras)
            from . import c06
            xr = MC.split_bits(bits_of[id(wit)])
            bad = [j for j, (tv, _pv) in enumerate(rf[1]) if tv is not None and xr[j] in "01" and (xr[j] == "1") != tv]
            if not bad:
                ctx.count("ref-evaluates-identically")
                continue
            if not c06.in_c06_domain(text):
                # the operands are in the domain; a result whose text left it and means something else to the reference
                # is what the property excludes ("evaluates identically to the marker it came from")
                ctx.count("ref-eval:result-text-outside-c06-domain")
                OUTSIDE.append(text)
            key = (c06.KNOWN_PFV2 if c06.pfv2_list(text) else c06.KNOWN_WS if c06.ws_literal(text) else
                   c06.KNOWN_NOTIN if c06.two_notin_alternatives(text) else f"ref-evaluates-differently:{text}")
            e = envs[bad[0]]
            ctx.violate(key, f"text {text!r} (result of {wit.get('op')} on {wit.get('a')!r}): the reference evaluates {rf[1][bad[0]][0]} on "
                             f"{e.get('python_full_version')}/{e.get('sys_platform')}/{e.get('extra')}, the marker it came from {xr[bad[0]] == '1'}", {**wit, "env": e})


OUTSIDE: list[str] = []   # result texts outside the C06 domain on which the reference evaluates differently (debug aid)


def cases_for(a: str, b: str | None) -> list[dict[str, Any]]:
    cs: list[dict[str, Any]] = [{"kind": "parse", "op": "parse", "a": a}, {"kind": "unop", "op": "cnf", "a": a},
                                {"kind": "unop", "op": "dnf", "a": a}, {"kind": "unop", "op": "invert", "a": a}]
    if b is not None:
        cs += [{"kind": "binop", "op": "intersect", "a": a, "b": b}, {"kind": "binop", "op": "union", "a": a, "b": b}]
    return cs


CORPUS = ['(python_version >= "3.8" or os_name == "nt") and (sys_platform == "linux" or extra == "a")',
          'python_version >= "3.8" and os_name == "nt" or sys_platform == "linux" and extra == "a"',
          '(python_version >= "3.8" and os_name == "nt" or sys_platform == "linux") and (extra == "a" or extra == "b")',
          'python_version ~= "3.8" or python_version < "3.7"', 'sys_platform not in "linux darwin" or os_name == "nt"',
          '"tegra" in platform_version and (extra != "a" or python_full_version >= "3.9.1")',
          '(os_name == "nt" or os_name == "posix") and (os_name != "nt" or sys_platform == "win32")',
          'python_version >= "3.8" and python_version < "3.9" or python_version >= "3.10" and sys_platform == "linux"']


def run(ctx: core.Ctx, items: list[tuple[str, str | None]], stream: str, envs: list[dict[str, Any]] | None = None,
        keep_caches: bool = False) -> None:
    envs = envs or G.env_grid(ctx.rng, 22)
    cases: list[dict[str, Any]] = []
    for i, (a, b) in enumerate(items):
        cs = cases_for(a, b)
        if keep_caches:     # the calls made before this one in the same process, kept in the witness for the replay
            for c in cs:
                c["history"] = [list(x) for x in items[max(0, i - 4):i]]
        cases += cs
    recs = E.run_cases(ctx, cases, stream, envs, keep_caches=keep_caches)
    oracle(ctx, recs, envs)


def gen_items(ctx: core.Ctx, n: int) -> list[tuple[str, str | None]]:
    rnd = ctx.rng
    out: list[tuple[str, str | None]] = []
    for _ in range(n):
        a = G.marker(rnd, max_leaves=rnd.choice([2, 3, 4, 5, 6, 6]))
        b = G.marker(rnd, max_leaves=rnd.choice([1, 2, 3, 4])) if rnd.random() < 0.5 else None
        out.append((a, b))
    return out


def correspondence(ctx: core.Ctx) -> None:
    run(ctx, [(t, None) for t in CORPUS], "corpus")
    # same-variable contradictions / tautologies / overlaps nested inside a compound, in every position
    sv = G.same_variable_pairs(ctx.rng, 0)
    sv = ctx.rng.sample(sv, min(len(sv), ctx.budget(160, 3000)))
    nested: list[tuple[str, str | None]] = []
    for a, b in sv:
        c = G.leaf(ctx.rng)
        inner = f"({a} {ctx.rng.choice(['and', 'or'])} {b})"
        op = ctx.rng.choice(["and", "or"])
        nested.append((f"{inner} {op} {c}" if ctx.rng.random() < 0.5 else f"{c} {op} {inner}", None))
    for k in range(0, len(nested), 300):
        run(ctx, nested[k:k + 300], "nested-same-variable")
    items = gen_items(ctx, ctx.budget(220, 9000))
    for k in range(0, len(items), 300):
        run(ctx, items[k:k + 300], "gen")
    # literal shapes: empty values, values holding either quote character or a backslash — what `_quoted` has to choose
    # the quotes for (repo fixes 3046ca3, 7b51c5a) and what the operator/value regexes have to keep apart
    # (a backslash is not a PEP 508 string character — the reference rejects it — so it is C19's subject, not this one's)
    lits = ['""', "''", "'a\"b'", '"it\'s"', "'\"'", "'a\"b\"c'"]
    shapes = [(f"{n} {op} {l}", None) for n in ("os_name", "platform_version", "extra") for op in ("==", "!=") for l in lits]
    shapes += [(f"{l} {op} platform_version", None) for op in ("in", "not in") for l in lits]
    shapes += [(f'os_name == {l} or os_name == "nt"', f"os_name != {l}") for l in lits]
    run(ctx, shapes, "literal-shapes")
    hist = G.history_items(ctx.rng, ctx.budget(150, 4000))
    for k in range(0, len(hist), 300):
        run(ctx, hist[k:k + 300], "history", keep_caches=True)


def search(ctx: core.Ctx) -> None:
    seeds = []
    for d in ctx.disagreements:
        i = d["input"]
        c = i.get("case", i) if isinstance(i, dict) else None
        if c and "a" in c:
            seeds.append((c["a"], c.get("b")))
    if seeds:
        run(ctx, seeds[:200], "search-disagreeing", envs=G.envs())
    # disagreements met in a call-history stream: repeat each one after the calls that preceded it
    done = 0
    for d in ctx.disagreements:
        i = d["input"]
        c = i.get("case", i) if isinstance(i, dict) else None
        if c and c.get("history") and done < 40 and not ctx.violations:
            done += 1
            hist = [(x[0], x[1]) for x in c["history"]]
            run(ctx, hist + [(c["a"], c.get("b"))], "search-history", envs=G.envs(), keep_caches=True)
    if not ctx.violations:
        items = gen_items(ctx, 1200)
        for k in range(0, len(items), 300):
            run(ctx, items[k:k + 300], "search-gen")
            if ctx.violations:
                return


def replay(ctx: core.Ctx, payload: dict[str, Any]) -> bool:
    w = payload.get("witness", payload)
    before = len(ctx.violations)
    envs = [w["env"]] if "env" in w else G.envs()
    hist = [(x[0], x[1]) for x in w.get("history", [])]
    run(ctx, hist + [(w["a"], w.get("b"))], "replay", envs=envs, keep_caches=bool(hist))
    return len(ctx.violations) > before
