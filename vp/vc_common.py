"""Shared pieces for the version-constraint properties (C04, C05, C12, C15): generators, the
implementation adapter with canonical dumps, regular-probe computation."""
from __future__ import annotations

import random
from typing import Any

from . import core

REL = ["1", "1.0", "1.2", "2", "2.0.0", "1.2.3", "0", "0.1", "3", "1.0.0", "0.0.1", "1.2.0", "2.0", "1!1.0"]
SUF = ["", "", "", "", "a1", "rc2", ".post1", ".dev0", ".dev3", "a1.dev2", ".post1.dev1", "b0", ".post0"]
LOC = ["", "", "", "", "", "+local", "+1", "+a.1"]
OPS = ["==", "!=", "<", "<=", ">", ">=", "~=", "^", "~", "", "==*", "!=*", ">", "<", ">=", "<="]


def gen_ver(rnd: random.Random, local: bool = True) -> str:
    return rnd.choice(REL) + rnd.choice(SUF) + (rnd.choice(LOC) if local else "")


def gen_clause(rnd: random.Random) -> str:
    op = rnd.choice(OPS)
    if op in ("==*", "!=*"):
        base = rnd.choice(REL)
        if rnd.random() < 0.15:
            base += rnd.choice([".post1", "a1", ".dev1"])
        return op[:2] + base + ".*"
    v = gen_ver(rnd, local=op in ("==", "!=", "", ">=", "<=", ">", "<"))
    if op == "~=" and "." not in v.split("!")[-1].split("a")[0].split("rc")[0].split("b")[0].split("+")[0].rstrip(".postdev0123456789"):
        v = rnd.choice(["1.0", "1.2", "1.2.3", "2.0.0"]) + rnd.choice(SUF)
    sp = rnd.choice(["", "", "", " "])
    return op + sp + v


def gen_constraint(rnd: random.Random, max_groups: int = 3, max_clauses: int = 3) -> str:
    groups = []
    for _ in range(rnd.randint(1, max_groups)):
        sep = rnd.choice([",", ", ", ","])
        groups.append(sep.join(gen_clause(rnd) for _ in range(rnd.randint(1, max_clauses))))
    if rnd.random() < 0.03:
        return "*"
    return rnd.choice([" || ", "||", " | "]).join(groups)


# ------------------------------------------------------------------ one release and its relatives
FAM_REL = ["1.0", "2.0", "1.2", "2", "1.2.3", "2.0.0", "3", "1!1.0"]


def family(rel: str) -> list[str]:
    """a release X and the versions poetry-core derives from it or orders next to it: first dev / first pre-release, a
    pre-release, post-releases, a local build, the padded spelling, the next patch / minor — the values at which derived
    bounds (`allowed_max` of `<X` is X.dev0, `==X.*` is [X.dev0, next.dev0)) coincide with written ones"""
    ep, _, r = rel.rpartition("!")
    ep = ep + "!" if ep else ""
    parts = [int(x) for x in r.split(".")]
    nxt = parts[:-1] + [parts[-1] + 1]
    prv = parts[:-1] + [max(parts[-1] - 1, 0)]
    j = lambda ps: ep + ".".join(str(x) for x in ps)  # noqa: E731
    return [rel, rel + ".dev0", rel + "a0", rel + "rc1", rel + ".post0", rel + ".post1", rel + "+local", rel + ".0", rel + ".dev1",
            j(nxt), j(nxt) + ".dev0", j(prv), j(parts + [1])]


def gen_family_constraint(rnd: random.Random, fam: list[str], rel: str) -> str:
    def clause() -> str:
        k = rnd.random()
        if k < 0.12:
            return rnd.choice(["==", "!="]) + rel + ".*"
        if k < 0.2:
            return rnd.choice(["^", "~", "~="]) + rnd.choice([fam[0], fam[-2], fam[-1]])
        op = rnd.choice(["==", "==", "!=", "<", "<", "<=", ">", ">=", ">=", ""])
        v = rnd.choice(fam)
        if "+" in v and op in ("<", ">"):
            op += "="
        return op + v
    groups = [",".join(clause() for _ in range(rnd.choice([1, 1, 1, 2]))) for _ in range(rnd.choice([1, 1, 2, 2, 3]))]
    return " || ".join(groups)


def gen_family_pairs(rnd: random.Random, n: int) -> list[tuple[str, str]]:
    """both operands over ONE release family (half of the time one operand is a single version of the family)"""
    out = []
    for _ in range(n):
        rel = rnd.choice(FAM_REL)
        fam = family(rel)
        a = "==" + rnd.choice(fam) if rnd.random() < 0.5 else gen_family_constraint(rnd, fam, rel)
        b = gen_family_constraint(rnd, fam, rel)
        out.append((a, b) if rnd.random() < 0.5 else (b, a))
    return out


def pin_at_end_pairs() -> list[tuple[str, str]]:
    """a single pinned version that IS one end of a bounded range (or lies just outside / inside it), against that range with
    every combination of end flags, in both operand orders: `Version.union/intersect/difference` have their own branches for
    `v == other.min` and `v == other.max`, and each must keep the OTHER end's flag (seeded change C05-6)"""
    out = []
    for lo, hi in (("1.0", "2.0"), ("1.2.3", "1.3"), ("1.0.post1", "1.1.dev0"), ("2.0a1", "2.0"), ("1!1.0", "1!2")):
        for lop in (">", ">="):
            for hop in ("<", "<="):
                rng = f"{lop}{lo},{hop}{hi}"
                for v in (lo, hi):
                    out += [("==" + v, rng), (rng, "==" + v)]
        for rng in (f">{lo}", f">={lo}", f"<{hi}", f"<={hi}"):
            for v in (lo, hi):
                out += [("==" + v, rng), (rng, "==" + v)]
    return out


def wildcard_edge_unions() -> list[str]:
    """two-range unions around one release series with every combination of end flags and plain / first-dev ends — the shapes
    next to the one the printer spells `!=X.*` (`<X.dev0 || >=next.dev0`)"""
    out = []
    for a, b in (("1.2", "1.3"), ("1", "2"), ("2.0", "2.1"), ("1.0.post1", "1.0.post2"), ("1!1.2", "1!1.3")):
        for lo in ("<" + a, "<=" + a, "<" + a + ".dev0", "<=" + a + ".dev0"):
            for hi in (">" + b, ">=" + b, ">" + b + ".dev0", ">=" + b + ".dev0"):
                out.append(f"{lo} || {hi}")
        for lo in (">=" + a, ">" + a, ">=" + a + ".dev0", ">" + a + ".dev0"):
            for hi in ("<" + b, "<=" + b, "<" + b + ".dev0", "<=" + b + ".dev0"):
                out.append(f"{lo},{hi}")
    return out


def gen_many_ranges(rnd: random.Random) -> str:
    """the largest shape of the domain: three `||` groups of three clauses (`lo, hi, !=hole` or `end, !=hole, !=hole`), i.e. a
    union of up to nine ranges — count thresholds (a bisect or a fast path above N members) only show here"""
    pts = sorted(rnd.sample(range(0, 60), 12))
    groups = []
    g0 = f"<{pts[2]},!={pts[0]},!={pts[1]}"
    g1 = f">={pts[3]},<{pts[6]},!={pts[rnd.choice([4, 5])]}" if rnd.random() < 0.5 else f">{pts[3]},<={pts[6]},!={pts[4]}"
    g2 = f">{pts[7]},!={pts[9]},!={pts[10]}"
    groups = [g0, g1, g2]
    rnd.shuffle(groups)
    return " || ".join(groups)


def gen_many_range_pairs(rnd: random.Random, n: int) -> list[tuple[str, str]]:
    out = []
    for _ in range(n):
        a = gen_many_ranges(rnd)
        k = rnd.random()
        x, y = sorted(rnd.sample(range(0, 60), 2))
        b = (f">={x}" if k < 0.2 else f"<{y}" if k < 0.35 else f">={x},<{y}" if k < 0.6 else f">{x}.5,<={y}" if k < 0.7
             else gen_many_ranges(rnd) if k < 0.9 else f"!={x},!={y}")
        out.append((a, b) if rnd.random() < 0.5 else (b, a))
    return out


PROBE_BASES = ["0.0.1", "0.5", "1.1", "1.5", "1.2.5", "2.5", "3.5", "4", "0.0.0.1", "1.0.1", "1.2.3.1", "1.3", "2.1", "0", "1", "1.0", "1.2", "1.2.3", "2", "3"]
PROBE_SUF = ["", ".dev1", "a2", ".post3", "+loc", ".post2+x.1", "rc1.dev1", ".dev0", "a0", ".post0"]


def dump(c: Any) -> str:
    from poetry.core.constraints.version import EmptyConstraint, Version, VersionRange, VersionUnion
    if isinstance(c, EmptyConstraint):
        return "E"
    if isinstance(c, Version):
        return f"V({c.text})"
    if isinstance(c, VersionRange):
        mn = c.min.text if c.min is not None else "-"
        mx = c.max.text if c.max is not None else "-"
        return f"R({mn},{mx},{int(c.include_min)},{int(c.include_max)})"
    if isinstance(c, VersionUnion):
        return "U[" + ";".join(dump(r) for r in c.ranges) + "]"
    return f"?{type(c).__name__}"


ERRMAP = {"AssertionError": "assertion", "IndexError": "index", "KeyError": "key", "RecursionError": "recursion",
          "AttributeError": "attribute", "TypeError": "type", "NotImplementedError": "notimplemented", "RuntimeError": "runtime"}


def errname(e: BaseException) -> str:
    if isinstance(e, ValueError):
        return "value"
    return ERRMAP.get(type(e).__name__, type(e).__name__)


def safe(fn: Any) -> str:
    try:
        r = fn()
    except Exception as e:  # noqa: BLE001
        return "!" + errname(e)
    if isinstance(r, bool):
        return "1" if r else "0"
    return str(r)


def bits(c: Any, probes: list[Any]) -> str:
    out = []
    for p in probes:
        if p is None:
            out.append("?")
            continue
        try:
            out.append("1" if c.allows(p) else "0")
        except Exception:  # noqa: BLE001
            out.append("E")
    return "".join(out)


def parse_probe(s: str) -> Any:
    from poetry.core.constraints.version import Version
    try:
        return Version.parse(s)
    except ValueError:
        return None


def report(c: Any, probes: list[Any]) -> list[str]:
    return [safe(lambda: str(c)), dump(c), ("1" if c.is_any() else "0") + ("1" if c.is_empty() else "0"),
            safe(lambda: c.is_simple()), bits(c, probes)]


def relkey(v: Any) -> tuple[Any, ...]:
    return (v.epoch, v.release._compare_key)


def bounds(c: Any) -> list[Any]:
    out = []
    for r in c.flatten():
        if r.min is not None:
            out.append(r.min)
        if r.max is not None:
            out.append(r.max)
    return out


def is_regular(v: Any, bs: list[Any]) -> bool:
    return all(v == e or relkey(v) != relkey(e) for e in bs)


def probe_strings(rnd: random.Random, bound_texts: list[str], n_extra: int = 14) -> list[str]:
    """Probes: every bound, neighbours of every bound (dev/pre/post/local/next patch) and unrelated versions."""
    ps: list[str] = []
    for t in bound_texts:
        ps.append(t)
        base = t.split("+")[0]
        for suf in (".dev0", "a0", ".post0", "+zz", ".1", ".0"):
            ps.append(base + suf)
    for _ in range(n_extra):
        ps.append(rnd.choice(PROBE_BASES) + rnd.choice(PROBE_SUF))
    seen: list[str] = []
    for p in ps:
        if p not in seen:
            seen.append(p)
    return seen
