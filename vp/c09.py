"""C09 — sdist and wheel of one project agree with each other and honour include/exclude."""
from __future__ import annotations

import fnmatch as py_fnmatch
import hashlib
import json
import os
import shutil
import subprocess
import tarfile
import tempfile
import zipfile
from pathlib import Path
from typing import Any

from . import c09_gen, core

PROP = "C09"
LEAN_MODULE = "PoetryVerif.Props.C09"
RULE = ("generated project trees (flat/src package, single module, custom packages table with from/to/format, nested "
        "sub-packages, data files, stubs, __pycache__/.pyc, scripts, legal files, LICENSES/, readmes, tests/docs) with random "
        "include/exclude tables whose patterns are derived from existing paths (exact file, directory, sibling/recursive glob, "
        "?/[..] mutations, trailing slash, './' prefix; include entries as string or table with every `format` shape) and, in "
        "about half of the cases, an initialised git work tree with generated .gitignore files (optionally committed). Each "
        "project is built for real: sdist, wheel, and wheel from the unpacked sdist. A case is non-trivial when both builds "
        "succeed; distinct = distinct (tables, file list).")
ASSUMPTIONS = [
    "pathlib.Path.glob of CPython 3.12 and fnmatch.translate are modelled by `globMatch`/`fnmatch` (tied by the glob/fnmatch streams); "
    "patterns containing `..` and absolute patterns are outside the model and not generated",
    "no symbolic links, no build script / generate-setup-file, POSIX case-sensitive file system",
    "the VCS-ignored list is an input of the model: the list the builder's own call to Git.get_ignored_files returned",
    "tar/zip/gzip/deflate encoders, tomli and `git` itself are trusted; metadata text is an opaque function of the project (C14)",
    "every failure of the statement on the real builders is raised; failures belonging to a catalogued defect class carry that "
    "class key (KNOWN_CLASSES, one fixed witness each, run every time) and are downgraded only through known_findings.json",
]

US = "\x1f"


# ------------------------------------------------------------------------------------------------
# encoding for the model
# ------------------------------------------------------------------------------------------------

def enc_tree(listing: list[tuple[str, bool]]) -> str:
    return "\n".join(("d" if d else "f") + US + p for p, d in listing)


def _fmt_field(f: Any) -> str:
    if f is None:
        return "-"
    return ",".join(f if isinstance(f, list) else [f])


def enc_cfg(spec: dict[str, Any], root_name: str, version: str) -> str:
    ls = [US.join(["name", c09_gen.module_name(spec["name"]), root_name, c09_gen.dist_name(spec["name"]), version,
                   "1" if spec.get("console") else "0"])]
    for p in spec.get("packages") or []:
        ls.append(US.join(["pkg", p["include"], "1" if "from" in p else "0", p.get("from", ""), "1" if "to" in p else "0",
                           p.get("to", ""), _fmt_field(p.get("format"))]))
    for i in spec.get("include") or []:
        if isinstance(i, str):
            i = {"path": i}
        ls.append(US.join(["inc", i["path"], _fmt_field(i.get("format"))]))
    for e in spec.get("exclude") or []:
        ls.append(US.join(["exc", e]))
    rd = spec.get("readme")
    for r in ([] if rd is None else ([rd] if isinstance(rd, str) else rd)):
        ls.append(US.join(["readme", r]))
    for ref in (spec.get("scripts") or {}).values():
        ls.append(US.join(["script", ref]))
    return "\n".join(ls)


ERR = {ValueError: "value", RuntimeError: "runtime", IndexError: "index", NotImplementedError: "notimplemented",
       KeyError: "key", TypeError: "type", AssertionError: "assertion", AttributeError: "attribute"}


def err_name(e: BaseException) -> str:
    for k, v in ERR.items():
        if isinstance(e, k):
            return v
    return type(e).__name__


# ------------------------------------------------------------------------------------------------
# the real builders
# ------------------------------------------------------------------------------------------------

def _quiet() -> None:
    import logging
    import warnings
    warnings.filterwarnings("ignore", message="Duplicate name", category=UserWarning)
    logging.getLogger("poetry.core").setLevel(logging.ERROR)


def find_git_root(proj: Path) -> Path | None:
    for d in [proj, *proj.parents]:
        if (d / ".git").exists():
            return d
    return None


def ignored_truth(proj: Path) -> tuple[list[str] | None, list[str]]:
    """(untracked+ignored files below the project, relative to it, unquoted — the reference;
    the list as poetry-core's present command line yields it — only a fallback for the model input)"""
    groot = find_git_root(proj)
    if groot is None:
        return None, []
    env = dict(os.environ, **c09_gen.GIT_ENV)
    z = subprocess.run(["git", "-C", proj.as_posix(), "ls-files", "--others", "-i", "--exclude-standard", "-z"],
                       capture_output=True, check=True, env=env).stdout.decode("utf-8", "surrogateescape")
    truth = [x for x in z.split("\0") if x]
    args = ["git", "--git-dir", (groot / ".git").as_posix(), "--work-tree", groot.as_posix(), "ls-files", "--others", "-i",
            "--exclude-standard"]
    txt = subprocess.run(args, capture_output=True, check=True, env=env).stdout.decode()
    return truth, txt.strip().split("\n")


def real_facts(root: Path, fmt: str) -> dict[str, Any]:
    """find_files_to_add / find_excluded_files of a fresh builder, canonicalised"""
    from poetry.core.factory import Factory
    from poetry.core.masonry.builders.sdist import SdistBuilder
    from poetry.core.masonry.builders.wheel import WheelBuilder
    _quiet()
    from poetry.core.vcs.git import Git
    seen: list[list[str]] = []
    orig = Git.get_ignored_files

    def recording(self: Any, *a: Any, **k: Any) -> list[str]:
        r = orig(self, *a, **k)
        seen.append(list(r))
        return r

    Git.get_ignored_files = recording  # type: ignore[method-assign]
    try:
        poetry = Factory().create_poetry(root)
        b = SdistBuilder(poetry) if fmt == "sdist" else WheelBuilder(poetry)
        files = b.find_files_to_add()
        pairs = sorted((f.relative_to_project_root().as_posix(),
                        (f.relative_to_source_root() if fmt == "sdist" else f.relative_to_target_root()).as_posix(),
                        "d" if f.path.is_dir() else "f") for f in files)
        excl = sorted(b.find_excluded_files(fmt))
        return {"ok": True, "pairs": pairs, "excluded": excl, "version": b._meta.version, "vcs": seen[0] if seen else None}
    except Exception as e:  # noqa: BLE001
        return {"ok": False, "err": err_name(e), "msg": str(e)[:200], "vcs": seen[0] if seen else None}
    finally:
        Git.get_ignored_files = orig  # type: ignore[method-assign]


def real_build(root: Path, fmt: str, out: Path) -> dict[str, Any]:
    from poetry.core.factory import Factory
    from poetry.core.masonry.builders.sdist import SdistBuilder
    from poetry.core.masonry.builders.wheel import WheelBuilder
    _quiet()
    import tempfile
    old_tmpdir = tempfile.tempdir
    out.mkdir(parents=True, exist_ok=True)
    tempfile.tempdir = str(out)      # the temporary .whl a failing build leaves behind stays inside the scratch tree
    try:
        poetry = Factory().create_poetry(root)
        b = SdistBuilder(poetry) if fmt == "sdist" else WheelBuilder(poetry)
        p = b.build(out)
        return {"ok": True, "path": p}
    except Exception as e:  # noqa: BLE001
        return {"ok": False, "err": err_name(e), "msg": str(e)[:200]}
    finally:
        tempfile.tempdir = old_tmpdir


def sdist_names(p: Path) -> list[tuple[str, bool]]:
    with tarfile.open(p) as t:
        return [(m.name, m.isdir()) for m in t.getmembers()]


def wheel_names(p: Path) -> list[str]:
    with zipfile.ZipFile(p) as z:
        return z.namelist()


def unpack_sdist(p: Path, dest: Path) -> Path:
    with tarfile.open(p) as t:
        t.extractall(dest, filter="data")
    tops = [x for x in dest.iterdir()]
    if len(tops) != 1:
        raise RuntimeError(f"sdist has {len(tops)} top-level entries")
    return tops[0]


# ------------------------------------------------------------------------------------------------
# property oracle on the real artefacts (independent of the Lean model; pathlib + git are the references)
# ------------------------------------------------------------------------------------------------

def py_glob(root: Path, base: str, pat: str) -> set[str] | None:
    try:
        return {p.relative_to(root).as_posix() for p in (root / base).glob(pat)}
    except (ValueError, NotImplementedError, IndexError):
        return None


def prefixes(p: str) -> list[str]:
    parts = p.split("/")
    return ["/".join(parts[:i]) for i in range(1, len(parts) + 1)]


def is_bytecode(p: str) -> bool:
    parts = p.split("/")
    return "__pycache__" in parts or Path(p).suffix == ".pyc"


def fmts_of(entry: Any, default: list[str]) -> list[str]:
    f = entry.get("format") if isinstance(entry, dict) else None
    if f is None:
        return default
    return f if isinstance(f, list) else [f]


class Facts:
    """what the property's wording refers to, computed with pathlib / git on the real tree"""

    def __init__(self, spec: dict[str, Any], root: Path, truth: list[str] | None) -> None:
        self.spec, self.root = spec, root
        self.files = {p for p, d in c09_gen.listing(root) if not d}
        self.dirs = {p for p, d in c09_gen.listing(root) if d}
        self.ignored = set(truth or [])
        self.excl: set[str] = set()
        for e in spec.get("exclude") or []:
            self.excl |= py_glob(root, ".", e) or set()
        rd = spec.get("readme")
        self.readmes = [] if rd is None else ([rd] if isinstance(rd, str) else list(rd))
        self.legal: set[str] = set()
        for pat in ["COPYING*", "LICEN[SC]E*", "AUTHORS*", "NOTICE*"]:
            self.legal |= py_glob(root, ".", pat) or set()
        self.legal |= py_glob(root, "LICENSES", "**/*") or set()
        self.scripts = [Path(r).as_posix() for r in (spec.get("scripts") or {}).values()]

    def explicit(self, fmt: str) -> set[str]:
        out: set[str] = set()
        for i in self.spec.get("include") or []:
            ent = {"path": i} if isinstance(i, str) else i
            if fmt in fmts_of(ent, ["sdist"]):
                out |= py_glob(self.root, ".", ent["path"]) or set()
        return out

    def hidden(self, f: str) -> str | None:
        for q in prefixes(f):
            if q in self.excl:
                return f"exclude pattern hits {q!r}"
            if q in self.ignored:
                return f"VCS ignores {q!r}"
        return None

    def mandatory_sdist(self, f: str) -> bool:
        return f == "pyproject.toml" or f in self.legal or f in self.scripts or f in [Path(r).as_posix() for r in self.readmes]

    def package_files(self, fmt: str) -> dict[str, str] | None:
        """files the declared `packages` patterns select for this format (before exclusion), evaluated with pathlib on the
        real tree, each with the reason it is selected; None = declared packages unusable"""
        pk = [p for p in (self.spec.get("packages") or []) if fmt in fmts_of(p, ["sdist", "wheel"])]
        if not pk:
            mod = c09_gen.module_name(self.spec["name"])
            for base, inc in [(".", mod), (".", mod + ".py"), ("src", mod), ("src", mod + ".py")]:
                if (self.root / base / inc).exists():
                    pk = [{"include": inc, "from": base}]
                    break
            else:
                return None
        out: dict[str, str] = {}
        for p in pk:
            where = f"packages pattern {p['include']!r}" + (f" (from {p['from']!r})" if p.get("from") else "")
            els = py_glob(self.root, p.get("from", "."), p["include"])
            if not els:
                return None
            for e in sorted(els):
                if e in self.files:
                    out.setdefault(e, f"{where} matches the file")
                else:
                    pre = "" if e == "." else e + "/"
                    for f in self.files:
                        if f.startswith(pre):
                            out.setdefault(f, f"{where} matches the directory {e!r} above it")
        return out


def vcs_class(spec: dict[str, Any], q: str) -> str | None:
    """known class of a VCS-ignored path that poetry-core fails to recognise as ignored"""
    g = spec.get("git") or {}
    if g.get("subdir"):
        return "vcs-ignored-in-git-subdirectory"
    if any(ord(c) > 126 or c in '"\\' or ord(c) < 32 for c in q):
        return "vcs-ignored-non-ascii-name"
    return None


def oracle_format(ctx: core.Ctx, spec: dict[str, Any], facts: Facts, fmt: str, srcs: dict[str, str], wit: dict[str, Any]) -> None:
    """`srcs`: source path (project relative) → archive member name, for the files the archive really contains.
    Every failure of the statement is raised; failures of a catalogued defect class carry that class key."""
    exp = facts.explicit(fmt)
    for f in sorted(srcs):
        if f in facts.dirs:
            continue
        why = facts.hidden(f)
        if fmt == "sdist" and facts.mandatory_sdist(f):
            # pyproject.toml, readmes and scripts are demanded by the statement itself; legal files too, but a legal file
            # that the user excluded / the VCS ignores / that is bytecode is shipped regardless
            if f in facts.legal and (why or is_bytecode(f)) and not any(q in exp for q in prefixes(f)):
                ctx.violate("legal-file-bypasses-exclude",
                            f"sdist contains legal file {f!r} although {why or 'it is a bytecode file'} and no include re-adds it", wit)
            continue
        if is_bytecode(f):
            if not (f in exp and "__pycache__" not in f.split("/")):
                ctx.violate(f"{fmt}:bytecode", f"{fmt} contains bytecode file {f!r} (member {srcs[f]!r}) that no {fmt} include names",
                            wit)
            continue
        if why and not any(q in exp for q in prefixes(f)):
            key = f"{fmt}:excluded-member"
            if "VCS" in why and not any(q in facts.excl for q in prefixes(f)):
                hit = next(q for q in prefixes(f) if q in facts.ignored)
                key = vcs_class(spec, hit) or key
            ctx.violate(key, f"{fmt} contains {f!r} although {why} and no include for {fmt} re-adds it", wit)
    for f in sorted(exp & facts.files):
        if "__pycache__" in f.split("/"):
            continue
        if f not in srcs:
            ctx.violate(f"{fmt}:explicit-include-missing", f"{f!r} is explicitly included for {fmt} but missing from the {fmt}", wit)
    pf = facts.package_files(fmt)
    if pf is not None:
        for f in sorted(pf):
            if is_bytecode(f) or facts.hidden(f):
                continue
            if f not in srcs:
                ctx.violate(f"{fmt}:package-file-missing",
                            f"{f!r} is missing from the {fmt} although {pf[f]} and it is neither excluded, VCS-ignored nor bytecode", wit)


# ------------------------------------------------------------------------------------------------
# one project
# ------------------------------------------------------------------------------------------------

def sha(p: Path) -> str:
    return hashlib.sha256(p.read_bytes()).hexdigest()


def model_lines(fmt: str, tree: str, cfg: str, ign: str) -> list[str]:
    return [core.line("select", fmt, tree, cfg, ign), core.line("members", fmt, tree, cfg, ign),
            core.line("excluded", fmt, tree, cfg, ign)]


def split_field(s: str) -> list[str]:
    return s.split("\n") if s else []


def run_project(ctx: core.Ctx, spec: dict[str, Any], stream: str) -> None:
    """materialise, build for real, compare with the model, run the property oracle"""
    tmp = Path(tempfile.mkdtemp(prefix="c09-"))
    dis = 0
    wit = {"op": "project", "spec": spec}
    try:
        root = c09_gen.materialise(spec, tmp / "proj")
        truth, as_poetry = ignored_truth(root)
        listing = c09_gen.listing(root)
        tree = enc_tree(listing)
        facts_s = real_facts(root, "sdist")
        facts_w = real_facts(root, "wheel")
        version = facts_s.get("version") or facts_w.get("version") or spec["version"]
        cfg = enc_cfg(spec, root.name, version)
        # the ignored list is an input of the model: exactly what the builder's call to the VCS returned
        got = facts_s.get("vcs") if facts_s.get("vcs") is not None else facts_w.get("vcs")
        ign_list = got if got is not None else (as_poetry if truth is not None else [])
        ign = "\n" if ign_list == [""] else "\n".join(ign_list)
        lines: list[str] = []
        for fmt in ("sdist", "wheel"):
            lines += model_lines(fmt, tree, cfg, ign)
        # glob correspondence on every pattern of the tables (+ legal patterns)
        globs: list[tuple[str, str]] = []
        for p in spec.get("packages") or []:
            globs.append((p.get("from", "."), p["include"]))
        for i in spec.get("include") or []:
            globs.append((".", i if isinstance(i, str) else i["path"]))
        for e in spec.get("exclude") or []:
            globs.append((".", e))
        globs += [(".", "LICEN[SC]E*"), ("LICENSES", "**/*"), (".", "**"), (".", "**/*.py")]
        for base, pat in globs:
            lines.append(core.line("glob", pat, Path(base).as_posix(), tree))
        replies = core.run_driver(lines)
        model: dict[str, Any] = {}
        for k, fmt in enumerate(("sdist", "wheel")):
            model[fmt] = replies[3 * k: 3 * k + 3]
        glob_replies = replies[6:]
        # ---- glob stream
        gd = 0
        for (base, pat), mr in zip(globs, glob_replies):
            try:
                real = ["ok", "\n".join(p.relative_to(root).as_posix() for p in sorted((root / base).glob(pat)))]
            except Exception as e:  # noqa: BLE001
                real = ["err", err_name(e)]
            if (root / base).is_dir() or real[0] == "err":
                if real != mr:
                    gd += 1
                    ctx.disagree("glob", {"base": base, "pattern": pat, "spec": spec}, real, mr)
        ctx.stream("glob", len(globs), gd)
        # ---- ignored set: git (unquoted, project relative) vs what poetry-core obtains; outside the two catalogued
        # defect classes (sub-directory of the work tree, names git quotes) the two must coincide
        if truth is not None and got is not None:
            ctx.count("git:ignored-nonempty" if truth else "git:ignored-empty")
            special = bool((spec.get("git") or {}).get("subdir")) or any(vcs_class(spec, t) for t in truth)
            if not special:
                bad = sorted(set(truth) ^ (set(got) - {""}))
                ctx.stream("ignored", 1, 1 if bad else 0)
                if bad:
                    ctx.disagree("ignored", {"spec": spec}, sorted(got), sorted(truth))
            else:
                ctx.count("git:subdir-or-quoted-name")
        # ---- the gitignore model (Model/GitIgnore.lean) vs git itself: the reference listing, directory patterns included
        if truth is not None and not (spec.get("git") or {}).get("subdir"):
            igf = [US.join([(Path(k).parent.as_posix()), v]) for k, v in spec["files"].items()
                   if k == ".gitignore" or k.endswith("/.gitignore")]
            mg = core.run_driver([core.line("gitignored", tree, *igf)])[0]
            model_ign = sorted(x for x in (mg[1].split("\n") if len(mg) > 1 else []) if x)
            ok_names = all(t.isascii() for t in truth)
            if ok_names:
                bad = mg[0] != "ok" or model_ign != sorted(truth)
                ctx.stream("ignored-model", 1, 1 if bad else 0)
                ctx.count("gitignore-model:" + ("dir-pattern" if any(ln.strip().endswith("/") for _d, _s, v in [x.partition(US) for x in igf] for ln in v.split("\n")) else "other"))
                if bad:
                    ctx.disagree("ignored-model", {"gitignore": igf, "files": sorted(spec["files"])[:40]}, sorted(truth), model_ign)
        # ---- selection / excluded set
        for fmt, rf in (("sdist", facts_s), ("wheel", facts_w)):
            ms, mm, me = model[fmt]
            if ms[0] == "ok" and len(ms) > 1:
                ms = ["ok", "\n".join(sorted(split_field(ms[1])))]
            if rf["ok"]:
                real_sel = ["ok", "\n".join(sorted(US.join(t) for t in rf["pairs"]))]
                real_exc = ["ok", "\n".join(sorted(set(rf["excluded"])))]
            else:
                real_sel = real_exc = ["err", rf["err"]]
            if real_sel != ms:
                dis += 1
                ctx.disagree(stream + ":select-" + fmt, spec, real_sel, ms)
            if rf["ok"] and real_exc != me:
                dis += 1
                ctx.disagree(stream + ":excluded-" + fmt, spec, real_exc, me)
            ctx.count(f"{fmt}:" + ("ok" if rf["ok"] else "err:" + rf["err"]))
        # ---- real builds
        out = tmp / "out"
        bs = real_build(root, "sdist", out / "s")
        bw = real_build(root, "wheel", out / "w")
        ok_both = bs["ok"] and bw["ok"]
        sig = json.dumps([spec.get("packages"), spec.get("include"), spec.get("exclude"), sorted(spec["files"]), spec.get("git")],
                         sort_keys=True)
        ctx.case(sig, nontrivial=ok_both,
                 sample={"packages": spec.get("packages"), "include": spec.get("include"), "exclude": spec.get("exclude"),
                         "git": spec.get("git"), "files": len(spec["files"])} if ok_both and (spec.get("include") or spec.get("exclude")) else None)
        facts = Facts(spec, root, truth)
        for p in spec.get("packages") or []:
            els = py_glob(root, p.get("from", "."), p["include"]) or set()
            nonempty = [e for e in els if e in facts.dirs and any(f.startswith(e + "/") for f in facts.files)]
            if len(els) > 1 and nonempty:
                ctx.count("packages:multi-match-glob-with-nonempty-directory")
            elif len(els) == 1 and nonempty:
                ctx.count("packages:single-directory")
            elif els:
                ctx.count("packages:files-only")
        if bs["ok"]:
            names = sdist_names(bs["path"])
            real_m = ["ok", "\n".join(n for n, _ in names)]
            if real_m != model["sdist"][1]:
                dis += 1
                ctx.disagree(stream + ":members-sdist", spec, real_m, model["sdist"][1])
            top = f"{c09_gen.dist_name(spec['name'])}-{version}"
            stray = [n for n, _ in names if not n.startswith(top + "/")]
            if stray:
                ctx.violate("sdist:layout-root", f"sdist members outside {top}/: {stray[:3]}", wit)
            rel = {n[len(top) + 1:]: n for n, d in names if n.startswith(top + "/")}
            need = ["pyproject.toml", "PKG-INFO"] + [Path(r).as_posix() for r in facts.readmes if (root / r).exists()] + sorted(facts.legal)
            for n in need:
                if n not in rel:
                    ctx.violate("sdist:layout-missing", f"sdist lacks {n!r}", wit)
            srcs = {k: v for k, v in rel.items() if k != "PKG-INFO"}
            oracle_format(ctx, spec, facts, "sdist", srcs, wit)
        elif facts_s["ok"]:
            ctx.count("sdist:build-err:" + bs["err"])
        if bw["ok"]:
            wn = wheel_names(bw["path"])
            real_m = ["ok", "\n".join(wn)]
            if real_m != model["wheel"][1]:
                dis += 1
                ctx.disagree(stream + ":members-wheel", spec, real_m, model["wheel"][1])
            if facts_w["ok"]:
                srcs_w = {}
                for s, a, _k in facts_w["pairs"]:
                    if a in wn:
                        srcs_w[s] = a
                    else:
                        ctx.violate("wheel:selected-file-missing", f"wheel lacks {a!r} (from {s!r})", wit)
                oracle_format(ctx, spec, facts, "wheel", srcs_w, wit)
                di = f"{c09_gen.dist_name(spec['name'])}-{version}"
                extra = [n for n in wn if not n.startswith(di + ".dist-info/") and not n.startswith(di + ".data/") and n not in srcs_w.values()]
                if extra:
                    ctx.violate("wheel:unselected-member", f"wheel has members no selected file accounts for: {extra[:3]}", wit)
        # ---- PKG-INFO == METADATA
        if ok_both:
            with tarfile.open(bs["path"]) as t:
                pk = [m for m in t.getmembers() if m.name.endswith("/PKG-INFO") and m.name.count("/") == 1]
                pkg_info = t.extractfile(pk[0]).read() if pk else None  # type: ignore[union-attr]
            with zipfile.ZipFile(bw["path"]) as z:
                md = [n for n in z.namelist() if n.endswith(".dist-info/METADATA")]
                metadata = z.read(md[0]) if md else None
            if pkg_info is None or pkg_info != metadata:
                ctx.violate("pkginfo-ne-metadata", "PKG-INFO of the sdist differs from METADATA of the wheel", wit)
        # ---- wheel from the unpacked sdist
        if ok_both and facts_s["ok"] and facts_w["ok"]:
            s_src = {s for s, _a, _k in facts_s["pairs"]}
            w_src = {s for s, _a, _k in facts_w["pairs"]}
            premise = w_src <= s_src
            ctx.count("premise:" + ("wheel⊆sdist" if premise else "not-subset"))
            if premise:
                un = unpack_sdist(bs["path"], tmp / "unpacked")
                b2 = real_build(un, "wheel", out / "w2")
                if not b2["ok"]:
                    ctx.count("rebuild:err:" + b2["err"])
                    if os.environ.get("C09_DEBUG"):
                        print("REBUILD-ERR", b2["msg"], json.dumps({k: spec[k] for k in ("packages", "include", "exclude")}))
                    if _some_package_emptied(spec, facts, s_src):
                        ctx.violate("package-emptied-by-exclusion-rebuild-fails",
                                    f"wheel builds from the tree but not from the unpacked sdist, where a declared package has no module left: {b2['msg']}", wit)
                    else:
                        ctx.violate("wheel-from-sdist:build-fails", f"wheel builds from the tree but not from the unpacked sdist: {b2['msg']}", wit)
                else:
                    same = sha(b2["path"]) == sha(bw["path"]) and b2["path"].name == bw["path"].name
                    ctx.count("rebuild:" + ("identical" if same else "different"))
                    # decidable boundary of theorem C09.wheel_from_sdist_eq_decidable: no VCS-ignored list, no relocated
                    # package, no wheel rule reaching PKG-INFO (+ premise and successful rebuild, both established here)
                    bd = core.run_driver([core.line("boundary", tree, cfg)])[0]
                    inside = bd[:3] == ["ok", "1", "1"] and not [x for x in ign_list if x]
                    ctx.count("boundary:" + ("inside" if inside else "outside:" + ("vcs" if [x for x in ign_list if x] else "")
                                             + ("" if bd[:2] == ["ok", "1"] else "+ambiguous-arc") + ("" if bd[2:3] == ["1"] else "+pkginfo")))
                    if inside and sorted(wheel_names(bw["path"])) != sorted(wheel_names(b2["path"])):
                        dis += 1     # would contradict the theorem (or the model no longer mirrors the selection)
                        ctx.disagree(stream + ":theorem-boundary", spec, "wheels differ", bd)
                    if not same:
                        n1, n2 = wheel_names(bw["path"]), wheel_names(b2["path"])
                        added = sorted(set(n2) - set(n1))
                        # sdist-only files that the VCS hides in the tree but nothing hides in the unpacked sdist
                        vcs_dev = sorted(f for f in s_src - w_src if any(q in facts.ignored for q in prefixes(f)))
                        if "PKG-INFO" in [a.rsplit("/", 1)[-1] for a in added] and "PKG-INFO" not in facts.files:
                            ctx.violate("wheel-pattern-matches-generated-PKG-INFO",
                                        f"wheel built from the unpacked sdist additionally contains the generated PKG-INFO ({added[:3]})", wit)
                        elif vcs_dev and not (set(n1) - set(n2)):
                            ctx.violate("vcs-ignored-file-included-for-sdist-only",
                                        f"wheel built from the unpacked sdist additionally contains {added[:3]}: {vcs_dev[:3]} VCS-ignored in the tree, "
                                        "re-included for the sdist only", wit)
                        else:
                            ctx.violate("wheel-from-sdist:differs",
                                        f"wheel built from the unpacked sdist differs from the wheel built from the tree (members differing: {sorted(set(n1) ^ set(n2))[:4]})", wit)
                    # model: select wheel on the unpacked tree
                    tree2 = enc_tree(c09_gen.listing(un))
                    cfg2 = enc_cfg(spec, un.name, version)
                    r2 = core.run_driver([core.line("members", "wheel", tree2, cfg2, "")])[0]
                    real2 = ["ok", "\n".join(wheel_names(b2["path"]))]
                    if r2 != real2:
                        dis += 1
                        ctx.disagree(stream + ":members-wheel-from-sdist", spec, real2, r2)
        ctx.stream(stream, 1, 1 if dis else 0)
    finally:
        shutil.rmtree(tmp, ignore_errors=True)


def _some_package_emptied(spec: dict[str, Any], facts: Facts, s_src: set[str]) -> bool:
    """a package (declared for the wheel) none of whose .py files reached the sdist: PackageInclude rejects what is left"""
    pk = [p for p in (spec.get("packages") or []) if "wheel" in fmts_of(p, ["sdist", "wheel"])]
    if not pk:
        pf = set(facts.package_files("wheel") or {})
        return not any(f in s_src and Path(f).suffix == ".py" for f in pf)
    for p in pk:
        els = py_glob(facts.root, p.get("from", "."), p["include"]) or set()
        fl: set[str] = set()
        for e in els:
            if e in facts.files:
                fl.add(e)
            elif len(els) == 1:
                # one directory: PackageInclude.check_elements looks at everything below it
                fl |= {f for f in facts.files if f.startswith(e + "/")}
            # several matches (a glob): check_elements looks at the matched elements themselves only — a module deeper
            # inside a matched directory does not count (has_modules on the direct elements)
        if not any(f in s_src and Path(f).suffix == ".py" for f in fl):
            return True
    return False


# ------------------------------------------------------------------------------------------------
# fnmatch stream
# ------------------------------------------------------------------------------------------------

def fnmatch_stream(ctx: core.Ctx, n: int) -> None:
    rnd = ctx.rng
    alpha = "abcxyzABZ019-_.!^]["
    pats, names = [], []
    for _ in range(n):
        name = "".join(rnd.choice("abcxyzABZ019-_.") for _ in range(rnd.randint(0, 6)))
        k = rnd.random()
        if k < 0.5:
            pat = "".join(rnd.choice([c, c, c, "*", "?", f"[{c}]", f"[!{c}]", "[a-c]", "[!a-c]", "[x-z0-1]", "[]a]", "[a-]", "[-a]", "[c-a]", "[a-cx-z]", "[!]]"])
                          for c in (name or "a"))
        else:
            pat = "".join(rnd.choice(alpha + "**??") for _ in range(rnd.randint(1, 7)))
        pats.append(pat)
        names.append(name)
    rep = core.run_driver([core.line("fnmatch", p, s) for p, s in zip(pats, names)])
    dis = 0
    for p, s, r in zip(pats, names, rep):
        real = "1" if py_fnmatch.fnmatchcase(s, p) else "0"
        if [real] != r:
            dis += 1
            ctx.disagree("fnmatch", {"pattern": p, "name": s}, real, r)
    ctx.stream("fnmatch", n, dis)


# ------------------------------------------------------------------------------------------------
# fixed cases
# ------------------------------------------------------------------------------------------------

def _base(files: dict[str, str], **kw: Any) -> dict[str, Any]:
    spec = {"name": "demo", "version": "1.0", "files": files, "dirs": [], "packages": None, "include": [], "exclude": [],
            "readme": None, "scripts": {}, "console": False, "git": None}
    spec.update(kw)
    return spec


CORPUS = [
    _base({"demo/__init__.py": "", "demo/data/x.json": "{}", "demo/data/y.tmp": "", "LICENSE": "l", "README.md": "r"},
          readme="README.md", exclude=["demo/data/*.tmp"]),
    _base({"src/demo/__init__.py": "", "src/demo/sub/__init__.py": "", "src/demo/sub/gen.py": "", "COPYING": "c",
           "LICENSES/MIT.txt": "m", "LICENSES/x/B.txt": "b", ".gitignore": "gen.py\n"}, git={"tracked": False},
          include=[{"path": "src/demo/sub/gen.py", "format": ["sdist", "wheel"]}]),
    _base({"demo/__init__.py": "", "demo/__pycache__/a.cpython-312.pyc": "", "demo/b.pyc": "", "tests/__init__.py": "", "tests/t.py": ""},
          include=["tests", {"path": "demo/b.pyc", "format": "wheel"}], exclude=["tests/t.py"]),
    _base({"lib/extra/__init__.py": "", "lib/extra/m.py": "", "demo.py": ""},
          packages=[{"include": "extra", "from": "lib", "to": "vendor"}, {"include": "demo.py", "format": "sdist"}]),
    _base({"demo/__init__.py": "", "demo/sub/__init__.py": "", "demo/sub/a.py": "", "docs/a.md": "", "docs/b.md": ""},
          include=[{"path": "docs/*.md", "format": ["wheel"]}, "docs"], exclude=["demo/sub", "docs/b.md"]),
]

# Catalogued defect classes of poetry-core (class key → ONE fixed minimal witness, run every time).  A class key is raised
# through ctx.violate like any other failure; `check` downgrades it to KNOWN-FINDING only while known_findings.json lists it.
KNOWN_CLASSES: dict[str, dict[str, Any]] = {
    # Lean: C09.wheel_from_sdist_counterexample_vcs
    "vcs-ignored-file-included-for-sdist-only": _base(
        {"demo/__init__.py": "", "demo/_version.py": "v = 1\n", ".gitignore": "_version.py\n"}, git={"tracked": False},
        include=["demo/_version.py"]),
    # Lean: C09.wheel_from_sdist_counterexample_pkginfo
    "wheel-pattern-matches-generated-PKG-INFO": _base(
        {"demo/__init__.py": "", "NOTES": "n\n"}, include=[{"path": "*", "format": ["sdist", "wheel"]}]),
    "package-emptied-by-exclusion-rebuild-fails": _base(
        {"demo/__init__.py": "", "demo/data.txt": "d\n"}, exclude=["demo/*.py"]),
    "vcs-ignored-in-git-subdirectory": _base(
        {"demo/__init__.py": "", "demo/secret.txt": "s\n", ".gitignore": "*.txt\n"}, git={"tracked": False, "subdir": "pkgs/demo"}),
    "vcs-ignored-non-ascii-name": _base(
        {"demo/__init__.py": "", "demo/donn\u00e9es.txt": "s\n", "demo/cle\u0301.txt": "decomposed (NFD) name\n", ".gitignore": "*.txt\n"},
        git={"tracked": False}),
    "legal-file-bypasses-exclude": _base(
        {"demo/__init__.py": "", "LICENSE": "l\n"}, exclude=["LICENSE"]),
}


def correspondence(ctx: core.Ctx) -> None:
    fnmatch_stream(ctx, ctx.budget(1500, 20000))
    for spec in CORPUS:
        run_project(ctx, spec, "corpus")
    for key, spec in KNOWN_CLASSES.items():
        before = {v.key for v in ctx.violations}
        sub = core.Ctx(ctx.prop, ctx.tier, ctx.seed)
        run_project(sub, spec, "known-class")
        _merge(ctx, sub)
        ctx.count(f"known-class:{key}:" + ("reproduced" if any(v.key == key for v in sub.violations) else "not-reproduced"))
    n = ctx.budget(40, 800)
    for _ in range(n):
        spec = c09_gen.generate(ctx.rng)
        run_project(ctx, spec, "gen")
    for _ in range(ctx.budget(8, 200)):
        run_project(ctx, c09_gen.generate_ignored_dir(ctx.rng), "gen-ignored-dir")


def _merge(ctx: core.Ctx, sub: core.Ctx) -> None:
    for v in sub.violations:
        ctx.violate(v.key, v.what, v.witness)
    ctx.disagreements += sub.disagreements
    for k, n in sub.dist.items():
        ctx.count(k, n)
    for name, st in sub.streams.items():
        ctx.stream(name, st["cases"], st["disagreements"])
    ctx.evaluations += sub.evaluations
    ctx.nontrivial |= sub.nontrivial


def search(ctx: core.Ctx) -> None:
    """Proof or correspondence broke: run the oracle on the disagreeing projects again and on more generated ones."""
    known = set(core.known_keys(PROP))

    def found() -> bool:
        return any(v.key not in known for v in ctx.violations)

    seen = 0
    base = list(ctx.disagreements)
    for d in base:
        spec = d["input"].get("spec") if isinstance(d["input"], dict) and "spec" in d["input"] else d["input"]
        if isinstance(spec, dict) and "files" in spec and seen < 30:
            seen += 1
            run_project(ctx, spec, "search")
            if found():
                return
    # the disagreeing projects again with an explicit include aimed at the paths on which model and code differed (a listing
    # that differs matters to the property only when some rule picks the path up again)
    import copy
    tried = 0
    for d in base:
        spec = d["input"].get("spec") if isinstance(d["input"], dict) and "spec" in d["input"] else d["input"]
        a, b = d.get("impl"), d.get("model")
        if not (isinstance(spec, dict) and "files" in spec and isinstance(a, list) and isinstance(b, list)):
            continue
        diff = {str(x) for x in a} ^ {str(x) for x in b}
        cand: set[str] = set()
        for q in diff:
            q = q.rstrip("/")
            cand.add(q)
            cand |= {f for f in spec["files"] if f.startswith(q + "/")}
            if "/" in q:
                cand.add(q.rsplit("/", 1)[0] + "/*")
        for c in sorted(cand)[:6]:
            for fmt in (["sdist", "wheel"], ["wheel"]):
                if tried >= 60:
                    break
                tried += 1
                v = copy.deepcopy(spec)
                v["include"] = [*v["include"], {"path": c, "format": fmt}]
                run_project(ctx, v, "search-aimed-include")
                if found():
                    return
    for i in range(ctx.budget(150, 600)):
        run_project(ctx, c09_gen.generate_ignored_dir(ctx.rng) if i % 2 else c09_gen.generate(ctx.rng), "search")
        if found():
            return


def replay(ctx: core.Ctx, payload: dict[str, Any]) -> bool:
    """re-run a recorded project; with a `key` in the witness: does exactly that failure class occur again?"""
    w = payload.get("witness", payload)
    if w.get("op") != "project":
        return False
    sub = core.Ctx(ctx.prop, ctx.tier, ctx.seed)
    run_project(sub, w["spec"], "replay")
    want = w.get("key") or payload.get("key")
    hit = [v for v in sub.violations if (v.key == want if want else True)]
    for v in hit:
        ctx.violate(v.key, v.what, v.witness)
    return bool(hit)
