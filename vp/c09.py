"""C09 — sdist and wheel of one project agree with each other and honour include/exclude."""
from __future__ import annotations

import fnmatch as py_fnmatch
import hashlib
import json
import os
import shutil
import subprocess
import tarfile
import tempfile
import zipfile
from pathlib import Path
from typing import Any

from . import c09_gen, core

PROP = "C09"
LEAN_MODULE = "PoetryVerif.Props.C09"
RULE = ("generated project trees (flat/src package, single module, custom packages table with from/to/format, nested "
        "sub-packages, data files, stubs, __pycache__/.pyc, scripts, legal files, LICENSES/, readmes, tests/docs) with random "
        "include/exclude tables whose patterns are derived from existing paths (exact file, directory, sibling/recursive glob, "
        "?/[..] mutations, trailing slash, './' prefix; include entries as string or table with every `format` shape) and, in "
        "about half of the cases, an initialised git work tree with generated .gitignore files (optionally committed). Each "
        "project is built for real: sdist, wheel, and wheel from the unpacked sdist. A case is non-trivial when both builds "
        "succeed; distinct = distinct (tables, file list).")
ASSUMPTIONS = [
    "pathlib.Path.glob of CPython 3.12 and fnmatch.translate are modelled by `globMatch`/`fnmatch` (tied by the glob/fnmatch streams); "
    "patterns containing `..` and absolute patterns are outside the model and not generated",
    "no symbolic links, no build script / generate-setup-file, POSIX case-sensitive file system, ASCII file names "
    "(git quotes other names in `ls-files` output)",
    "the project directory is the root of the git work tree (poetry-core hands back git's paths relative to the work tree)",
    "tar/zip/gzip/deflate encoders, tomli and `git` itself are trusted; metadata text is an opaque function of the project (C14)",
    "wheel-from-sdist equality is demanded under the property's premise (wheel sources ⊆ sdist sources); the two configurations "
    "for which the Lean counterexamples show it false (VCS-ignored file re-included for the sdist only; a wheel pattern matching the "
    "generated PKG-INFO) are replayed separately as known deviations",
]

US = "\x1f"


# ------------------------------------------------------------------------------------------------
# encoding for the model
# ------------------------------------------------------------------------------------------------

def enc_tree(listing: list[tuple[str, bool]]) -> str:
    return "\n".join(("d" if d else "f") + US + p for p, d in listing)


def _fmt_field(f: Any) -> str:
    if f is None:
        return "-"
    return ",".join(f if isinstance(f, list) else [f])


def enc_cfg(spec: dict[str, Any], root_name: str, version: str) -> str:
    ls = [US.join(["name", c09_gen.module_name(spec["name"]), root_name, c09_gen.dist_name(spec["name"]), version,
                   "1" if spec.get("console") else "0"])]
    for p in spec.get("packages") or []:
        ls.append(US.join(["pkg", p["include"], "1" if "from" in p else "0", p.get("from", ""), "1" if "to" in p else "0",
                           p.get("to", ""), _fmt_field(p.get("format"))]))
    for i in spec.get("include") or []:
        if isinstance(i, str):
            i = {"path": i}
        ls.append(US.join(["inc", i["path"], _fmt_field(i.get("format"))]))
    for e in spec.get("exclude") or []:
        ls.append(US.join(["exc", e]))
    rd = spec.get("readme")
    for r in ([] if rd is None else ([rd] if isinstance(rd, str) else rd)):
        ls.append(US.join(["readme", r]))
    for ref in (spec.get("scripts") or {}).values():
        ls.append(US.join(["script", ref]))
    return "\n".join(ls)


ERR = {ValueError: "value", RuntimeError: "runtime", IndexError: "index", NotImplementedError: "notimplemented",
       KeyError: "key", TypeError: "type", AssertionError: "assertion", AttributeError: "attribute"}


def err_name(e: BaseException) -> str:
    for k, v in ERR.items():
        if isinstance(e, k):
            return v
    return type(e).__name__


# ------------------------------------------------------------------------------------------------
# the real builders
# ------------------------------------------------------------------------------------------------

def _quiet() -> None:
    import logging
    import warnings
    warnings.filterwarnings("ignore", message="Duplicate name", category=UserWarning)
    logging.getLogger("poetry.core").setLevel(logging.ERROR)


def ignored_truth(root: Path) -> tuple[list[str] | None, list[str]]:
    """(what git reports as untracked+ignored, NUL-separated = unquoted; the same list as poetry-core reads it)"""
    if not (root / ".git").exists():
        return None, []
    env = dict(os.environ, **c09_gen.GIT_ENV)
    args = ["git", "--git-dir", (root / ".git").as_posix(), "--work-tree", root.as_posix(), "ls-files", "--others", "-i",
            "--exclude-standard"]
    z = subprocess.run([*args, "-z"], capture_output=True, check=True, env=env).stdout.decode("utf-8", "surrogateescape")
    truth = [x for x in z.split("\0") if x]
    txt = subprocess.run(args, capture_output=True, check=True, env=env).stdout.decode()
    return truth, txt.strip().split("\n")


def real_facts(root: Path, fmt: str) -> dict[str, Any]:
    """find_files_to_add / find_excluded_files of a fresh builder, canonicalised"""
    from poetry.core.factory import Factory
    from poetry.core.masonry.builders.sdist import SdistBuilder
    from poetry.core.masonry.builders.wheel import WheelBuilder
    _quiet()
    try:
        poetry = Factory().create_poetry(root)
        b = SdistBuilder(poetry) if fmt == "sdist" else WheelBuilder(poetry)
        files = b.find_files_to_add()
        rp = root.resolve()
        pairs = sorted((f.relative_to_project_root().as_posix(),
                        (f.relative_to_source_root() if fmt == "sdist" else f.relative_to_target_root()).as_posix(),
                        "d" if f.path.is_dir() else "f") for f in files)
        excl = sorted(b.find_excluded_files(fmt))
        vcs = None
        from poetry.core.vcs import get_vcs
        v = get_vcs(rp)
        if v is not None:
            vcs = v.get_ignored_files()
        return {"ok": True, "pairs": pairs, "excluded": excl, "version": b._meta.version, "vcs": vcs}
    except Exception as e:  # noqa: BLE001
        return {"ok": False, "err": err_name(e), "msg": str(e)[:200]}


def real_build(root: Path, fmt: str, out: Path) -> dict[str, Any]:
    from poetry.core.factory import Factory
    from poetry.core.masonry.builders.sdist import SdistBuilder
    from poetry.core.masonry.builders.wheel import WheelBuilder
    _quiet()
    try:
        poetry = Factory().create_poetry(root)
        b = SdistBuilder(poetry) if fmt == "sdist" else WheelBuilder(poetry)
        p = b.build(out)
        return {"ok": True, "path": p}
    except Exception as e:  # noqa: BLE001
        return {"ok": False, "err": err_name(e), "msg": str(e)[:200]}


def sdist_names(p: Path) -> list[tuple[str, bool]]:
    with tarfile.open(p) as t:
        return [(m.name, m.isdir()) for m in t.getmembers()]


def wheel_names(p: Path) -> list[str]:
    with zipfile.ZipFile(p) as z:
        return z.namelist()


def unpack_sdist(p: Path, dest: Path) -> Path:
    with tarfile.open(p) as t:
        t.extractall(dest, filter="data")
    tops = [x for x in dest.iterdir()]
    if len(tops) != 1:
        raise RuntimeError(f"sdist has {len(tops)} top-level entries")
    return tops[0]


# ------------------------------------------------------------------------------------------------
# property oracle on the real artefacts (independent of the Lean model; pathlib + git are the references)
# ------------------------------------------------------------------------------------------------

def py_glob(root: Path, base: str, pat: str) -> set[str] | None:
    try:
        return {p.relative_to(root).as_posix() for p in (root / base).glob(pat)}
    except (ValueError, NotImplementedError, IndexError):
        return None


def prefixes(p: str) -> list[str]:
    parts = p.split("/")
    return ["/".join(parts[:i]) for i in range(1, len(parts) + 1)]


def is_bytecode(p: str) -> bool:
    parts = p.split("/")
    return "__pycache__" in parts or Path(p).suffix == ".pyc"


def fmts_of(entry: Any, default: list[str]) -> list[str]:
    f = entry.get("format") if isinstance(entry, dict) else None
    if f is None:
        return default
    return f if isinstance(f, list) else [f]


class Facts:
    """what the property's wording refers to, computed with pathlib / git on the real tree"""

    def __init__(self, spec: dict[str, Any], root: Path, truth: list[str] | None) -> None:
        self.spec, self.root = spec, root
        self.files = {p for p, d in c09_gen.listing(root) if not d}
        self.dirs = {p for p, d in c09_gen.listing(root) if d}
        self.ignored = set(truth or [])
        self.excl: set[str] = set()
        for e in spec.get("exclude") or []:
            self.excl |= py_glob(root, ".", e) or set()
        rd = spec.get("readme")
        self.readmes = [] if rd is None else ([rd] if isinstance(rd, str) else list(rd))
        self.legal: set[str] = set()
        for pat in ["COPYING*", "LICEN[SC]E*", "AUTHORS*", "NOTICE*"]:
            self.legal |= py_glob(root, ".", pat) or set()
        self.legal |= py_glob(root, "LICENSES", "**/*") or set()
        self.scripts = [Path(r).as_posix() for r in (spec.get("scripts") or {}).values()]

    def explicit(self, fmt: str) -> set[str]:
        out: set[str] = set()
        for i in self.spec.get("include") or []:
            ent = {"path": i} if isinstance(i, str) else i
            if fmt in fmts_of(ent, ["sdist"]):
                out |= py_glob(self.root, ".", ent["path"]) or set()
        return out

    def hidden(self, f: str) -> str | None:
        for q in prefixes(f):
            if q in self.excl:
                return f"exclude pattern hits {q!r}"
            if q in self.ignored:
                return f"VCS ignores {q!r}"
        return None

    def mandatory_sdist(self, f: str) -> bool:
        return f == "pyproject.toml" or f in self.legal or f in self.scripts or f in [Path(r).as_posix() for r in self.readmes]

    def package_files(self, fmt: str) -> set[str] | None:
        """files of the declared packages for this format (before exclusion); None = declared packages unusable"""
        pk = [p for p in (self.spec.get("packages") or []) if fmt in fmts_of(p, ["sdist", "wheel"])]
        if not pk:
            mod = c09_gen.module_name(self.spec["name"])
            for base, inc in [(".", mod), (".", mod + ".py"), ("src", mod), ("src", mod + ".py")]:
                if (self.root / base / inc).exists():
                    pk = [{"include": inc, "from": base}]
                    break
            else:
                return None
        out: set[str] = set()
        for p in pk:
            els = py_glob(self.root, p.get("from", "."), p["include"])
            if not els:
                return None
            for e in els:
                if e in self.files:
                    out.add(e)
                else:
                    pre = "" if e == "." else e + "/"
                    out |= {f for f in self.files if f.startswith(pre)}
        return out


def oracle_format(ctx: core.Ctx, spec: dict[str, Any], facts: Facts, fmt: str, srcs: dict[str, str], wit: dict[str, Any]) -> None:
    """`srcs`: source path (project relative) → archive member name, for the files the archive really contains"""
    exp = facts.explicit(fmt)
    for f in sorted(srcs):
        if fmt == "sdist" and facts.mandatory_sdist(f):
            continue
        if f in facts.dirs:
            continue
        if is_bytecode(f):
            if not (f in exp and "__pycache__" not in f.split("/")):
                ctx.violate(f"{fmt}:bytecode", f"{fmt} contains bytecode file {f!r} (member {srcs[f]!r}) that no {fmt} include names",
                            wit)
            continue
        why = facts.hidden(f)
        if why and not any(q in exp for q in prefixes(f)):
            ctx.violate(f"{fmt}:excluded-member", f"{fmt} contains {f!r} although {why} and no include for {fmt} re-adds it", wit)
    for f in sorted(exp & facts.files):
        if "__pycache__" in f.split("/"):
            continue
        if f not in srcs:
            ctx.violate(f"{fmt}:explicit-include-missing", f"{f!r} is explicitly included for {fmt} but missing from the {fmt}", wit)
    pf = facts.package_files(fmt)
    if pf is not None:
        for f in sorted(pf):
            if is_bytecode(f) or facts.hidden(f):
                continue
            if f not in srcs:
                ctx.violate(f"{fmt}:package-file-missing", f"package file {f!r} is neither excluded nor ignored but missing from the {fmt}", wit)


# ------------------------------------------------------------------------------------------------
# one project
# ------------------------------------------------------------------------------------------------

def sha(p: Path) -> str:
    return hashlib.sha256(p.read_bytes()).hexdigest()


def model_lines(fmt: str, tree: str, cfg: str, ign: str) -> list[str]:
    return [core.line("select", fmt, tree, cfg, ign), core.line("members", fmt, tree, cfg, ign),
            core.line("excluded", fmt, tree, cfg, ign)]


def split_field(s: str) -> list[str]:
    return s.split("\n") if s else []


def run_project(ctx: core.Ctx, spec: dict[str, Any], stream: str, deviation: str | None = None) -> dict[str, Any]:
    """materialise, build for real, compare with the model, run the oracle. Returns a small report."""
    tmp = Path(tempfile.mkdtemp(prefix="c09-"))
    rep: dict[str, Any] = {"deviation_reproduced": False}
    dis = 0
    wit = {"op": "project", "spec": spec}
    try:
        root = tmp / "proj"
        c09_gen.materialise(spec, root)
        truth, as_poetry = ignored_truth(root)
        listing = c09_gen.listing(root)
        tree = enc_tree(listing)
        facts_s = real_facts(root, "sdist")
        facts_w = real_facts(root, "wheel")
        version = facts_s.get("version") or facts_w.get("version") or spec["version"]
        cfg = enc_cfg(spec, root.name, version)
        ign = "\n".join(as_poetry) if truth is not None else ""
        if truth is not None and as_poetry == [""]:
            ign = "\n"  # poetry-core's list is [""]: one empty entry
        lines: list[str] = []
        for fmt in ("sdist", "wheel"):
            lines += model_lines(fmt, tree, cfg, ign)
        # glob correspondence on every pattern of the tables (+ legal patterns)
        globs: list[tuple[str, str]] = []
        for p in spec.get("packages") or []:
            globs.append((p.get("from", "."), p["include"]))
        for i in spec.get("include") or []:
            globs.append((".", i if isinstance(i, str) else i["path"]))
        for e in spec.get("exclude") or []:
            globs.append((".", e))
        globs += [(".", "LICEN[SC]E*"), ("LICENSES", "**/*"), (".", "**"), (".", "**/*.py")]
        for base, pat in globs:
            lines.append(core.line("glob", pat, Path(base).as_posix(), tree))
        replies = core.run_driver(lines)
        model: dict[str, Any] = {}
        for k, fmt in enumerate(("sdist", "wheel")):
            model[fmt] = replies[3 * k: 3 * k + 3]
        glob_replies = replies[6:]
        # ---- glob stream
        gd = 0
        for (base, pat), mr in zip(globs, glob_replies):
            try:
                real = ["ok", "\n".join(p.relative_to(root).as_posix() for p in sorted((root / base).glob(pat)))]
            except Exception as e:  # noqa: BLE001
                real = ["err", err_name(e)]
            if (root / base).is_dir() or real[0] == "err":
                if real != mr:
                    gd += 1
                    ctx.disagree("glob", {"base": base, "pattern": pat, "spec": spec}, real, mr)
        ctx.stream("glob", len(globs), gd)
        # ---- ignored set: git (unquoted) vs what poetry-core obtains
        if truth is not None:
            got = facts_s.get("vcs") if facts_s["ok"] else (facts_w.get("vcs") if facts_w["ok"] else None)
            if got is not None:
                bad = sorted(set(truth) ^ (set(got) - {""}))
                ctx.stream("ignored", 1, 1 if bad else 0)
                if bad:
                    ctx.disagree("ignored", {"spec": spec}, sorted(got), sorted(truth))
                ctx.count("git:ignored-nonempty" if truth else "git:ignored-empty")
        # ---- selection / excluded set
        for fmt, rf in (("sdist", facts_s), ("wheel", facts_w)):
            ms, mm, me = model[fmt]
            if rf["ok"]:
                real_sel = ["ok", "\n".join(US.join(t) for t in rf["pairs"])]
                real_exc = ["ok", "\n".join(sorted(set(rf["excluded"])))]
            else:
                real_sel = real_exc = ["err", rf["err"]]
            if ms[0] == "ok" and len(ms) > 1:
                ms = ["ok", "\n".join(sorted(split_field(ms[1])))]
            if rf["ok"]:
                real_sel = ["ok", "\n".join(sorted(split_field(real_sel[1])))]
            if real_sel != ms:
                dis += 1
                ctx.disagree(stream + ":select-" + fmt, spec, real_sel, ms)
            if rf["ok"] and real_exc != me:
                dis += 1
                ctx.disagree(stream + ":excluded-" + fmt, spec, real_exc, me)
            ctx.count(f"{fmt}:" + ("ok" if rf["ok"] else "err:" + rf["err"]))
        # ---- real builds
        out = tmp / "out"
        bs = real_build(root, "sdist", out / "s")
        bw = real_build(root, "wheel", out / "w")
        ok_both = bs["ok"] and bw["ok"]
        sig = json.dumps([spec.get("packages"), spec.get("include"), spec.get("exclude"), sorted(spec["files"]), bool(spec.get("git"))],
                         sort_keys=True)
        ctx.case(sig, nontrivial=ok_both,
                 sample={"packages": spec.get("packages"), "include": spec.get("include"), "exclude": spec.get("exclude"),
                         "git": bool(spec.get("git")), "files": len(spec["files"])} if ok_both and (spec.get("include") or spec.get("exclude")) else None)
        if bs["ok"] != facts_s["ok"] or bw["ok"] != facts_w["ok"]:
            # e.g. convert_script_files raising only in build
            pass
        facts = Facts(spec, root, truth)
        if bs["ok"]:
            names = sdist_names(bs["path"])
            real_m = ["ok", "\n".join(n for n, _ in names)]
            if real_m != model["sdist"][1]:
                dis += 1
                ctx.disagree(stream + ":members-sdist", spec, real_m, model["sdist"][1])
            top = f"{c09_gen.dist_name(spec['name'])}-{version}"
            stray = [n for n, _ in names if not n.startswith(top + "/")]
            if stray:
                ctx.violate("sdist:layout-root", f"sdist members outside {top}/: {stray[:3]}", wit)
            rel = {n[len(top) + 1:]: n for n, d in names if n.startswith(top + "/")}
            need = ["pyproject.toml", "PKG-INFO"] + [Path(r).as_posix() for r in facts.readmes if (root / r).exists()] + sorted(facts.legal)
            for n in need:
                if n not in rel:
                    ctx.violate("sdist:layout-missing", f"sdist lacks {n!r}", wit)
            srcs = {k: v for k, v in rel.items() if k != "PKG-INFO"}
            oracle_format(ctx, spec, facts, "sdist", srcs, wit)
        elif facts_s["ok"]:
            ctx.count("sdist:build-err:" + bs["err"])
        if bw["ok"]:
            wn = wheel_names(bw["path"])
            real_m = ["ok", "\n".join(wn)]
            if real_m != model["wheel"][1]:
                dis += 1
                ctx.disagree(stream + ":members-wheel", spec, real_m, model["wheel"][1])
            if facts_w["ok"]:
                srcs_w = {}
                for s, a, _k in facts_w["pairs"]:
                    if a in wn:
                        srcs_w[s] = a
                    else:
                        ctx.violate("wheel:selected-file-missing", f"wheel lacks {a!r} (from {s!r})", wit)
                oracle_format(ctx, spec, facts, "wheel", srcs_w, wit)
                di = f"{c09_gen.dist_name(spec['name'])}-{version}"
                extra = [n for n in wn if not n.startswith(di + ".dist-info/") and not n.startswith(di + ".data/") and n not in srcs_w.values()]
                if extra:
                    ctx.violate("wheel:unselected-member", f"wheel has members no selected file accounts for: {extra[:3]}", wit)
        # ---- PKG-INFO == METADATA
        if ok_both:
            with tarfile.open(bs["path"]) as t:
                pk = [m for m in t.getmembers() if m.name.endswith("/PKG-INFO") and m.name.count("/") == 1]
                pkg_info = t.extractfile(pk[0]).read() if pk else None  # type: ignore[union-attr]
            with zipfile.ZipFile(bw["path"]) as z:
                md = [n for n in z.namelist() if n.endswith(".dist-info/METADATA")]
                metadata = z.read(md[0]) if md else None
            if pkg_info is None or pkg_info != metadata:
                ctx.violate("pkginfo-ne-metadata", "PKG-INFO of the sdist differs from METADATA of the wheel", wit)
        # ---- wheel from the unpacked sdist
        if ok_both and facts_s["ok"] and facts_w["ok"]:
            s_src = {s for s, _a, _k in facts_s["pairs"]}
            w_src = {s for s, _a, _k in facts_w["pairs"]}
            premise = w_src <= s_src
            ctx.count("premise:" + ("wheel⊆sdist" if premise else "not-subset"))
            if premise:
                un = unpack_sdist(bs["path"], tmp / "unpacked")
                b2 = real_build(un, "wheel", out / "w2")
                # the two configurations in which the statement is known (and proved) false
                vcs_dev = any(q in facts.ignored for f in s_src - w_src for q in prefixes(f))
                if not b2["ok"]:
                    # a declared package all of whose files are excluded has nothing left in the sdist
                    ctx.count("rebuild:err:" + b2["err"])
                    if os.environ.get("C09_DEBUG"):
                        print("REBUILD-ERR", b2["msg"], json.dumps({k: spec[k] for k in ("packages", "include", "exclude")}))
                    rep["rebuild_err"] = b2["err"]
                    pfw = facts.package_files("wheel") or set()
                    if any((f in s_src) for f in pfw) and not deviation and not _some_package_emptied(spec, facts, s_src):
                        ctx.violate("wheel-from-sdist:build-fails", f"wheel builds from the tree but not from the unpacked sdist: {b2['msg']}", wit)
                else:
                    same = sha(b2["path"]) == sha(bw["path"]) and b2["path"].name == bw["path"].name
                    ctx.count("rebuild:" + ("identical" if same else "different"))
                    if not same:
                        rep["deviation_reproduced"] = True
                        n1, n2 = wheel_names(bw["path"]), wheel_names(b2["path"])
                        diff = sorted(set(n1) ^ set(n2))
                        if deviation is None and not vcs_dev:
                            ctx.violate("wheel-from-sdist:differs",
                                        f"wheel built from the unpacked sdist differs from the wheel built from the tree (members differing: {diff[:4]})", wit)
                        elif deviation is None:
                            ctx.count("rebuild:different-because-vcs-ignored-file-in-sdist")
                    # model: select wheel on the unpacked tree = select wheel on the tree
                    tree2 = enc_tree(c09_gen.listing(un))
                    cfg2 = enc_cfg(spec, un.name, version)
                    r2 = core.run_driver([core.line("members", "wheel", tree2, cfg2, "")])[0]
                    real2 = ["ok", "\n".join(wheel_names(b2["path"]))]
                    if r2 != real2:
                        dis += 1
                        ctx.disagree(stream + ":members-wheel-from-sdist", spec, real2, r2)
        ctx.stream(stream, 1, 1 if dis else 0)
    finally:
        shutil.rmtree(tmp, ignore_errors=True)
    return rep


def _some_package_emptied(spec: dict[str, Any], facts: Facts, s_src: set[str]) -> bool:
    """a package (declared for the wheel) none of whose .py files reached the sdist: PackageInclude rejects what is left"""
    pk = [p for p in (spec.get("packages") or []) if "wheel" in fmts_of(p, ["sdist", "wheel"])]
    if not pk:
        pf = facts.package_files("wheel") or set()
        return not any(f in s_src and f.endswith(".py") for f in pf)
    for p in pk:
        els = py_glob(facts.root, p.get("from", "."), p["include"]) or set()
        fl: set[str] = set()
        for e in els:
            if e in facts.files:
                fl.add(e)
            else:
                fl |= {f for f in facts.files if f.startswith(e + "/")}
        if not any(f in s_src and f.endswith(".py") for f in fl):
            return True
    return False


# ------------------------------------------------------------------------------------------------
# fnmatch stream
# ------------------------------------------------------------------------------------------------

def fnmatch_stream(ctx: core.Ctx, n: int) -> None:
    rnd = ctx.rng
    alpha = "abcxyzABZ019-_.!^]["
    pats, names = [], []
    for _ in range(n):
        name = "".join(rnd.choice("abcxyzABZ019-_.") for _ in range(rnd.randint(0, 6)))
        k = rnd.random()
        if k < 0.5:
            pat = "".join(rnd.choice([c, c, c, "*", "?", f"[{c}]", f"[!{c}]", "[a-c]", "[!a-c]", "[x-z0-1]", "[]a]", "[a-]", "[-a]", "[c-a]", "[a-cx-z]", "[!]]"])
                          for c in (name or "a"))
        else:
            pat = "".join(rnd.choice(alpha + "**??") for _ in range(rnd.randint(1, 7)))
        pats.append(pat)
        names.append(name)
    rep = core.run_driver([core.line("fnmatch", p, s) for p, s in zip(pats, names)])
    dis = 0
    for p, s, r in zip(pats, names, rep):
        real = "1" if py_fnmatch.fnmatchcase(s, p) else "0"
        if [real] != r:
            dis += 1
            ctx.disagree("fnmatch", {"pattern": p, "name": s}, real, r)
    ctx.stream("fnmatch", n, dis)


# ------------------------------------------------------------------------------------------------
# fixed cases
# ------------------------------------------------------------------------------------------------

def _base(files: dict[str, str], **kw: Any) -> dict[str, Any]:
    spec = {"name": "demo", "version": "1.0", "files": files, "dirs": [], "packages": None, "include": [], "exclude": [],
            "readme": None, "scripts": {}, "console": False, "git": None}
    spec.update(kw)
    return spec


CORPUS = [
    _base({"demo/__init__.py": "", "demo/data/x.json": "{}", "demo/data/y.tmp": "", "LICENSE": "l", "README.md": "r"},
          readme="README.md", exclude=["demo/data/*.tmp"]),
    _base({"src/demo/__init__.py": "", "src/demo/sub/__init__.py": "", "src/demo/sub/gen.py": "", "COPYING": "c",
           "LICENSES/MIT.txt": "m", "LICENSES/x/B.txt": "b", ".gitignore": "gen.py\n"}, git={"tracked": False},
          include=[{"path": "src/demo/sub/gen.py", "format": ["sdist", "wheel"]}]),
    _base({"demo/__init__.py": "", "demo/__pycache__/a.cpython-312.pyc": "", "demo/b.pyc": "", "tests/__init__.py": "", "tests/t.py": ""},
          include=["tests", {"path": "demo/b.pyc", "format": "wheel"}], exclude=["tests/t.py"]),
    _base({"lib/extra/__init__.py": "", "lib/extra/m.py": "", "demo.py": ""},
          packages=[{"include": "extra", "from": "lib", "to": "vendor"}, {"include": "demo.py", "format": "sdist"}]),
    _base({"demo/__init__.py": "", "demo/sub/__init__.py": "", "demo/sub/a.py": "", "docs/a.md": "", "docs/b.md": ""},
          include=[{"path": "docs/*.md", "format": ["wheel"]}, "docs"], exclude=["demo/sub", "docs/b.md"]),
]

# configurations in which `wheel_from_sdist_eq` is false (Lean: C09.wheel_from_sdist_counterexample_*): replayed, never demanded
DEVIATIONS: dict[str, dict[str, Any]] = {
    "vcs-ignored-file-included-for-sdist-only": _base(
        {"demo/__init__.py": "", "demo/_version.py": "v = 1\n", ".gitignore": "_version.py\n"}, git={"tracked": False},
        include=["demo/_version.py"]),
    "wheel-pattern-matches-generated-PKG-INFO": _base(
        {"demo/__init__.py": "", "NOTES": "n\n"}, include=[{"path": "*", "format": ["sdist", "wheel"]}]),
}


def correspondence(ctx: core.Ctx) -> None:
    fnmatch_stream(ctx, ctx.budget(1500, 20000))
    for spec in CORPUS:
        run_project(ctx, spec, "corpus")
    for key, spec in DEVIATIONS.items():
        rep = run_project(ctx, spec, "deviation", deviation=key)
        ctx.count(f"deviation:{key}:" + ("reproduced" if rep["deviation_reproduced"] else "not-reproduced"))
    n = ctx.budget(40, 800)
    for _ in range(n):
        spec = c09_gen.generate(ctx.rng)
        run_project(ctx, spec, "gen")


def search(ctx: core.Ctx) -> None:
    """Proof or correspondence broke: run the oracle on the disagreeing projects again and on more generated ones."""
    seen = 0
    for d in list(ctx.disagreements):
        spec = d["input"].get("spec") if isinstance(d["input"], dict) and "spec" in d["input"] else d["input"]
        if isinstance(spec, dict) and "files" in spec and seen < 30:
            seen += 1
            run_project(ctx, spec, "search")
            if ctx.violations:
                return
    for _ in range(ctx.budget(150, 600)):
        run_project(ctx, c09_gen.generate(ctx.rng), "search")
        if ctx.violations:
            return


def replay(ctx: core.Ctx, payload: dict[str, Any]) -> bool:
    w = payload.get("witness", payload)
    before = len(ctx.violations)
    if w.get("op") == "deviation":
        return bool(run_project(ctx, DEVIATIONS[w["key"]], "replay", deviation=w["key"])["deviation_reproduced"])
    if w.get("op") == "project":
        run_project(ctx, w["spec"], "replay")
    return len(ctx.violations) > before
