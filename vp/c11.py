"""C11 — Python ranges and python_version markers convert into each other exactly."""
from __future__ import annotations

from typing import Any

from . import core, gen_marker as G, marker_common as MC, marker_engine as E
from . import c11_gen
from . import vc_common as V

PROP = "C11"
LEAN_MODULE = "PoetryVerif.Props.C11"
RULE = ("Python ranges with 1-3 clauses and 1-2 '||' groups over >=,>,<,<=,^,~,~=,!=X.Y.*,X.Y.*,X.* and ==X.Y.Z on 1-3 component "
        "versions -> create_nested_marker text -> evaluated by poetry-core and by the reference on every interpreter of a grid "
        "covering each minor 2.6-4.1 with several patch levels (python_version = X.Y); markers over python_version / "
        "python_full_version (plus arbitrary other clauses for the one-sided part) -> get_python_constraint_from_marker. "
        "Non-trivial = the range/marker parses and is neither universal nor empty; distinct = distinct input text.")
ASSUMPTIONS = [
    "reference evaluator = packaging 26.3 in a separate process (token reading for in/not in as in C06)",
    "functools caches cleared before every case; 4 s limit per real-code call",
]

KNOWN_SINGLE = "single-version-precision-lt-3"


def has_short_single_version(c: Any) -> bool:
    from poetry.core.constraints.version import Version
    return any(isinstance(x, Version) and x.precision < 3 for x in c.flatten())


GRID = []
for mj, minors in ((2, [6, 7]), (3, list(range(0, 14))), (4, [0, 1])):
    for mn in minors:
        for p in (0, 1, 5, 12):
            GRID.append(f"{mj}.{mn}.{p}")


def py_envs() -> list[dict[str, Any]]:
    base = dict(G.PLATFORMS[0])
    out = []
    for full in GRID:
        a, b, _ = full.split(".")
        e = dict(base)
        e.update({"python_full_version": full, "python_version": f"{a}.{b}", "implementation_version": full, "extra": []})
        out.append(e)
    return out


ENVS = py_envs()


def check_ranges(ctx: core.Ctx, ranges: list[str], stream: str) -> None:
    from poetry.core.constraints.version import Version, parse_constraint
    cases = [{"kind": "cnm", "name": "python_version", "c": r} for r in ranges]
    recs = E.run_cases(ctx, cases, stream, ENVS)
    texts: list[tuple[str, str, Any]] = []
    for rec in recs:
        r = rec["case"]["c"]
        try:
            c = parse_constraint(r)
        except Exception:  # noqa: BLE001
            ctx.case("r:" + r, nontrivial=False)
            ctx.count("range:unparsable")
            continue
        nontrivial = not (c.is_any() or c.is_empty())
        ctx.case("r:" + r, nontrivial=nontrivial, sample={"range": r, "marker": rec.get("result")} if nontrivial and rec.get("ok") else None)
        ctx.count("range:" + type(c).__name__)
        if c.is_empty():
            continue  # an empty range has no marker (create_nested_marker asserts); outside the property
        if not rec.get("ok"):
            ctx.violate(f"cnm-raises:{r}", f"create_nested_marker('python_version', {r!r}) raised {rec.get('error')} {rec.get('exc', '')}", {"range": r})
            continue
        texts.append((r, rec["result"], c))
    # evaluate the marker text by poetry-core and by the reference
    ref = MC.ref_batch([{"op": "mtok", "s": t, "envs": ENVS} for _, t, _ in texts if t])
    it = iter(ref)
    for r, t, c in texts:
        want = [c.allows(Version.parse(e["python_full_version"])) for e in ENVS]
        if t == "":
            if not all(want):
                ctx.violate(f"cnm-empty-text:{r}", f"range {r!r} is turned into the universal marker but rejects some interpreter", {"range": r})
            continue
        rf = next(it)
        MC.clear_caches()
        tb = E.truth_of(t, ENVS)
        if tb == E.TIMEOUT:
            ctx.timeouts += 1
            continue
        if tb is None:
            ctx.violate(f"marker-unparsable:{r}", f"marker {t!r} made from range {r!r} is rejected by poetry-core's parser", {"range": r})
            continue
        pb = MC.split_bits(tb)
        bad = [j for j in range(len(ENVS)) if (pb[j] == "1") != want[j]]
        if bad:
            ctx.violate(KNOWN_SINGLE if has_short_single_version(c) else f"marker-vs-range:{r}", f"range {r!r} -> {t!r}: poetry-core evaluates {pb[bad[0]]} on {GRID[bad[0]]}, the range says {want[bad[0]]}", {"range": r, "py": GRID[bad[0]]})
            continue
        if rf[0] != "ok":
            ctx.violate(f"ref-rejects:{r}", f"marker {t!r} made from range {r!r} is rejected by the reference parser", {"range": r})
            continue
        bad = [j for j in range(len(ENVS)) if rf[1][j][0] is not None and rf[1][j][0] != want[j]]
        if bad:
            ctx.violate(f"ref-vs-range:{r}", f"range {r!r} -> {t!r}: the reference evaluates {rf[1][bad[0]][0]} on {GRID[bad[0]]}, the range says {want[bad[0]]}", {"range": r, "py": GRID[bad[0]]})
        ctx.count("range:compared")


def check_markers(ctx: core.Ctx, markers: list[tuple[str, bool]], stream: str) -> None:
    """(marker text, python_only)"""
    from poetry.core.constraints.version import Version
    probes = GRID
    cases = [{"kind": "gpc", "a": m} for m, _ in markers]
    recs = E.run_cases(ctx, cases, stream, ENVS, probes=probes)
    for rec, (m, pyonly) in zip(recs, markers):
        MC.clear_caches()
        tb = E.truth_of(m, ENVS)
        if tb == E.TIMEOUT:
            ctx.timeouts += 1
            tb = None
        ok = rec.get("ok", False) and tb is not None
        ctx.case("m:" + m, nontrivial=ok, sample={"marker": m, "range": str(rec.get("result"))} if ok else None)
        ctx.count(("gpc:pyonly:" if pyonly else "gpc:general:") + ("ok" if rec.get("ok") else rec.get("error", "?")))
        if tb is None or rec.get("timeout"):
            continue
        if not rec.get("ok"):
            ctx.violate(f"gpc-raises:{m}", f"get_python_constraint_from_marker({m!r}) raised {rec.get('error')} {rec.get('exc', '')}", {"marker": m})
            continue
        c = rec["result"]
        pb = MC.split_bits(tb)
        for j, e in enumerate(ENVS):
            if pb[j] not in "01":
                continue
            try:
                adm = c.allows(Version.parse(e["python_full_version"]))
            except Exception as ex:  # noqa: BLE001
                ctx.violate(f"gpc-allows-raises:{m}", f"constraint {c} from marker {m!r}: allows raised {type(ex).__name__}", {"marker": m})
                break
            if pb[j] == "1" and not adm:
                ctx.violate(f"gpc-too-small:{m}", f"marker {m!r} holds on {GRID[j]} but its python constraint {c} rejects it", {"marker": m, "py": GRID[j], "pyonly": pyonly})
                break
            if pyonly and pb[j] == "0" and adm:
                ctx.violate(f"gpc-too-big:{m}", f"python-only marker {m!r} is false on {GRID[j]} but its python constraint {c} admits it", {"marker": m, "py": GRID[j], "pyonly": pyonly})
                break


def gen_markers(ctx: core.Ctx, n: int) -> list[tuple[str, bool]]:
    rnd = ctx.rng
    out = []
    for _ in range(n):
        if rnd.random() < 0.6:
            out.append((G.marker(rnd, max_leaves=rnd.choice([1, 2, 3, 4]), python_only=True), True))
        else:
            out.append((G.marker(rnd, max_leaves=rnd.choice([2, 3, 4, 5])), False))
    return out


CORPUS_R = ["^3", "^3.8", "~3.9", "~=3.8", "~=3.8.1", ">=3.8,<4", ">3.8", "<=3.9", ">3.8.1", "<=3.9.5", "3.*,>3.10", "3.9.*", "!=3.9.*",
            ">=3.6,!=3.8.*", "<=3.9.0,~3.9", "==3.9.1", "^2.7 || ^3.6", ">=3 || <2.7", ">2", "<=3", "~3", "3.*", ">=3.8,<3.10 || >=3.11"]
CORPUS_M = [('python_version >= "3.8" and python_version < "3.10"', True), ('python_full_version > "3.8.0" or python_version < "3.7"', True),
            ('python_version in "3.8 3.9"', True), ('python_version not in "3.8"', True), ('python_version ~= "3.8"', True),
            ('python_version > "3.8"', True), ('python_version <= "3.8"', True), ('python_version == "3.8" or python_full_version >= "3.10.1"', True),
            ('python_version >= "3.8" and sys_platform == "linux"', False), ('python_version >= "3.8" or sys_platform == "linux"', False),
            ('sys_platform == "linux"', False), ('extra == "a" and python_full_version < "3.9.1" or python_version >= "3.11"', False)]


def meeting_ranges() -> list[str]:
    """two `||` groups whose bounds meet on (or next to) one version, every flag combination, 1-3 component versions: the
    shapes around "everything but one version"."""
    out = []
    for v in ("3.11", "3.9", "3", "3.0", "3.8.1", "3.10.0", "2.7", "4.0"):
        for lo in ("<", "<="):
            for hi in (">", ">="):
                out += [f"{lo}{v} || {hi}{v}", f"{hi}{v} || {lo}{v}"]
        out += [f"!={v}", f"!={v}.*" if v.count(".") < 2 else f"!={v}", f"<{v} || >{v},<4.0", f">=3.6,<{v} || >{v}"]
    return sorted(set(out))


def correspondence(ctx: core.Ctx) -> None:
    check_ranges(ctx, CORPUS_R, "corpus-ranges")
    check_ranges(ctx, meeting_ranges(), "meeting-ranges")
    check_markers(ctx, CORPUS_M, "corpus-markers")
    n = ctx.budget(500, 20000)
    ranges = [c11_gen.py_range(ctx.rng) for _ in range(n)]
    for k in range(0, len(ranges), 2000):
        check_ranges(ctx, ranges[k:k + 2000], "gen-ranges")
    pu = G.python_leaf_universe()
    allp = [(f"{a} {op} {b}", True) for a in pu for b in pu for op in ("and", "or")]
    if not ctx.thorough:
        pvpv = [(f"{a} and {b}", True) for a in pu for b in pu if a.startswith("python_version") and b.startswith("python_version")]
        allp = pvpv + ctx.rng.sample(allp, 300)
    for k in range(0, len(allp), 1500):
        check_markers(ctx, allp[k:k + 1500], "python-pairs")
    lc = [(m, "sys_platform" not in m) for m in G.python_list_conjunctions(ctx.rng, None if ctx.thorough else 300)]
    for k in range(0, len(lc), 1500):
        check_markers(ctx, lc[k:k + 1500], "list-clauses")
    ms = gen_markers(ctx, ctx.budget(400, 15000))
    for k in range(0, len(ms), 1500):
        check_markers(ctx, ms[k:k + 1500], "gen-markers")


def search(ctx: core.Ctx) -> None:
    rs, ms = [], []
    for d in ctx.disagreements:
        i = d["input"]
        c = i.get("case", i) if isinstance(i, dict) else None
        if c and c.get("kind") == "cnm":
            rs.append(c["c"])
        elif c and c.get("kind") == "gpc":
            ms.append((c["a"], False))
    if rs:
        check_ranges(ctx, rs[:300], "search-disagreeing-ranges")
    if ms:
        check_markers(ctx, ms[:300], "search-disagreeing-markers")
    if not ctx.violations:
        check_ranges(ctx, [c11_gen.py_range(ctx.rng) for _ in range(6000)], "search-ranges")
    if not ctx.violations:
        check_markers(ctx, gen_markers(ctx, 3000), "search-markers")


def replay(ctx: core.Ctx, payload: dict[str, Any]) -> bool:
    w = payload.get("witness", payload)
    before = len(ctx.violations)
    if "range" in w:
        check_ranges(ctx, [w["range"]], "replay")
    elif "marker" in w:
        check_markers(ctx, [(w["marker"], bool(w.get("pyonly", False)))], "replay")
    return len(ctx.violations) > before
