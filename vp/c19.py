"""C19 — parsers accept or reject with the documented error, never crash (and never hang); values print.

* real-code oracle on six grammars (version, version constraint, string constraint, marker, PEP 508 requirement, dependency) over
  the token-level fuzz stream of `gen_fuzz` (strategy shares in RULE): outcome ok | documented-error | other(type) | timeout, values
  printed and re-parsed, class-keyed violations with delta-debugged witnesses;
* model/implementation correspondence for all six grammars on the same stream (driver ops vparse, cparse, cmparse, gparse, xparse,
  mraw, mparse, reqparse, dep508): accept/reject, error class, printed text, structure dump;
* a few giant inputs per grammar (clause chains, deep nesting) with a 60 s hang threshold, slower-than-5-s cases counted as `slow:*`;
* a deterministic regex stress corpus (pump strings derived from the syntax tree of every pattern of the parser modules);
* `Factory.validate` / `validate_object` on type- and key-mutated mappings (correspondence-only: no Lean model of the schema engine).
"""
from __future__ import annotations

import copy
import hashlib
import json
import multiprocessing
import os
import re
import shutil
import signal
import sys
import tempfile
import time
import traceback
from typing import Any, Callable

from . import core, gen_fuzz as GF, marker_common as MC, vc_common as V

PROP = "C19"
LEAN_MODULE = "PoetryVerif.Props.C19"
RULE = ("per grammar (version, version constraint [parse_constraint + parse_marker_version_constraint], string constraint [generic + "
        "extra], marker [parse_marker + raw tree], PEP 508 requirement, dependency [create_from_pep_508]) one seeded stream "
        "(gen_fuzz.gen): 22% valid inputs from the repo-grammar generators; 38% 1-3 token-level mutations of a valid input "
        "(insert/delete/duplicate/swap/replace a token, truncate, behead, case, odd whitespace \\t \\n \\x0b \\x0c \\r \\x1c-\\x1f \\x85 "
        "\\xa0 U+1680 U+2000-200A U+2028/9 U+202F U+205F U+3000 ZWSP BOM, Unicode digits, case-folding specials); 16% random sequences of "
        "1-12 valid tokens; 2.5% a doubled/tripled operator; 3.5% a window of 1-3 tokens repeated 12-200 times with a failing tail; 6% odd "
        "whitespace at token boundaries; 5% Unicode digits (Arabic-Indic, fullwidth, superscript, mathematical); 2.5% raw characters; 4.5% "
        "long inputs: 55% one token repeated to 200/2000/10^4 characters around a valid prefix/suffix, 30% chains of 10-50 clauses, 15% "
        "parentheses/quotes nested 5-1500 deep (and-or nesting at most 8 deep). Giant inputs (label *-big; chunk 0 of each grammar; 2 in "
        "quick, 4 in thorough): chains of 300-1000 clauses cut to 12000 characters, 60% of them uniform (one operator, distinct values), "
        "and nesting 30-400 deep (thorough: one with random and/or at every level). Deterministic regex stress: every pattern constant, "
        "literal re.* pattern and lark terminal of the parser modules on pump strings built from its own syntax tree (each repeatable "
        "sub-expression taken many times after a sampled prefix, tails \\x00 / ! / none; all at 200 characters, the eight slowest at 2000; "
        "more than 1 s CPU for one match/search, twice, is super-linear). Outcome per case on the real code: ok(text) | documented-error | "
        "other(type) | timeout; a hang is 5 s CPU (60 s for the size strategies long-chain*/long-nest*, whose slower-than-5-s cases are "
        "counted as slow:<parser>:<label>), confirmed by a second run; ok values are printed and the text re-parsed. pyproject stream: "
        "valid mappings with random optional tables, 1-3 mutations (replace a value by None/int/float/bool/str/list/dict, delete/rename/"
        "add a key, nest up to 200 deep, graft another subtree) through Factory.validate(strict in {False, True}) and validate_object. "
        "Non-trivial = the input parses, or comes from any strategy but raw characters; distinct = distinct (grammar, text).")
ASSUMPTIONS = [
    "Python `re`, int(), str methods and the vendored lark (LALR engine, contextual lexer) are trusted; the hand recognisers of the "
    "Lean models are tied to them by the correspondence streams of this run (accept/reject, error class, printed text, structure dump)",
    "the models are ASCII-exact; inputs containing U+017F, U+212A, U+0130, U+0131 (folded onto s/k/i by re.IGNORECASE), digit runs "
    "beyond CPython's 4300-digit int limit, U+0001 (operand separator of the driver protocol) and `platform_release` literals outside "
    "PEP 440 (model outcome `unmodelled`) are run on the real code only and counted as model-skipped",
    "PEP 508 requirements and dependencies: correspondence with Model/Requirement.lean / Model/Dep.lean (ops reqparse, dep508) on accept/reject, error "
    "class and structure; URLs outside the modelled urllib fragment, file/directory dependencies (file-system probes) and markers beyond 10 leaves are "
    "real-code only (counted as model-skipped); Factory.validate / validate_object are correspondence-only (no Lean model; fastjsonschema trusted)",
    "fastjsonschema.compile is memoised per schema text by the harness (pure function; poetry-core recompiles both schemas on every validate call)",
    "a hang is 5 s of process CPU time (ITIMER_PROF; 60 s for the clause-count / nesting-depth strategies, where super-linear cost is not a hang) observed on two runs of the same input; dependency parsing runs with an empty "
    "temporary directory as cwd",
]

ALARM_S = 5.0          # hang threshold (CPU seconds) for every strategy but the two size strategies below
ALARM_SIZE_S = 60.0    # … for `long-chain*` / `long-nest*`: hundreds of clauses / deep nesting cost super-linear time in the algebra;
                       # that is cost, not a hang: slower than ALARM_S is counted as `slow:<parser>:<label>`, only ALARM_SIZE_S is a hang
SKIP_AFTER_S = 20.0    # a giant case is skipped when the previous one of the same label in the chunk took longer than this


def alarm_for(label: str) -> float:
    return ALARM_SIZE_S if label.startswith(("long-chain", "long-nest")) else ALARM_S
FOLD_SPECIAL = set("\u017f\u212a\u0130\u0131")
_DIGIT_RUN = re.compile(r"\d{4300,}")


# ----------------------------------------------------------------------------------------------------------------
# running the real code
# ----------------------------------------------------------------------------------------------------------------

class _Timeout(BaseException):
    pass


def _on_alarm(*_a: Any) -> None:
    raise _Timeout()


def with_cpu_alarm(fn: Callable[[], Any], seconds: float = ALARM_S) -> Any:
    old = signal.signal(signal.SIGPROF, _on_alarm)
    signal.setitimer(signal.ITIMER_PROF, seconds)
    try:
        return fn()
    finally:
        signal.setitimer(signal.ITIMER_PROF, 0)
        signal.signal(signal.SIGPROF, old)


def _quiet() -> None:
    import logging
    logging.disable(logging.CRITICAL)  # poetry-core logs a warning per non-existent path


def clear_caches() -> None:
    for name, mod in list(sys.modules.items()):
        if not name.startswith("poetry.core") or "_vendor" in name or mod is None:
            continue
        for v in list(vars(mod).values()):
            cc = getattr(v, "cache_clear", None)
            if callable(cc):
                try:
                    cc()
                except Exception:  # noqa: BLE001
                    pass


def site_of(e: BaseException) -> str:
    """`file.py:function` of the last poetry-core (non-vendored) frame of the traceback"""
    site = "?"
    tb = e.__traceback__
    while tb is not None:
        code = tb.tb_frame.f_code
        fn = code.co_filename.replace("\\", "/")
        if "/poetry/core/" in fn and "/_vendor/" not in fn:
            site = fn.rsplit("/", 1)[-1] + ":" + code.co_name
        tb = tb.tb_next
    return site


def errclass(target: str, e: BaseException) -> str:
    """model error name of a documented error, or '' when the exception is not the documented one"""
    if isinstance(e, ValueError):
        return "value"
    if target in ("marker", "mraw"):
        from lark.exceptions import UnexpectedInput
        if isinstance(e, UnexpectedInput):
            return "syntax"
    return ""


def _targets(grammar: str) -> dict[str, Callable[[str], Any]]:
    if grammar == "version":
        from poetry.core.constraints.version import Version
        return {"version": Version.parse}
    if grammar == "vconstraint":
        from poetry.core.constraints.version import parse_constraint, parse_marker_version_constraint
        return {"vconstraint": parse_constraint, "mvconstraint": parse_marker_version_constraint}
    if grammar == "generic":
        from poetry.core.constraints.generic import parse_constraint, parse_extra_constraint
        return {"generic": parse_constraint, "extra": parse_extra_constraint}
    if grammar == "marker":
        from poetry.core.version.markers import parse_marker
        return {"marker": parse_marker, "mraw": MC.raw_marker}
    if grammar == "requirement":
        from poetry.core.version.requirements import Requirement
        return {"requirement": Requirement}
    if grammar == "dependency":
        from poetry.core.packages.dependency import Dependency
        return {"dependency": Dependency.create_from_pep_508}
    raise KeyError(grammar)


def _texts(target: str, v: Any) -> list[str]:
    """everything `print` could be asked to show; the first entry is the text that is re-parsed"""
    if target == "version":
        return [v.to_string(), str(v), repr(v), v.text]
    if target == "dependency":
        return [v.to_pep_508(), str(v), repr(v), v.base_pep_508_name, str(v.constraint), str(v.marker)]
    if target == "requirement":
        return [str(v), repr(v), str(v.constraint), str(v.marker) if v.marker is not None else ""]
    return [str(v), repr(v)]


def _dump(target: str, v: Any) -> str:
    if target == "version":
        loc = "-" if v.local is None else ".".join(str(x) for x in v.local)
        tag = lambda t: "-" if t is None else f"{t.phase}:{t.number}"  # noqa: E731
        return f"{v.epoch}|{v.release.text}|{tag(v.pre)}|{tag(v.post)}|{tag(v.dev)}|{loc}"
    if target in ("vconstraint", "mvconstraint"):
        return V.dump(v)
    if target in ("marker", "mraw"):
        return MC.mdump(v)
    if target == "requirement":
        opt = lambda x: "-" if x is None else "=" + str(x)  # noqa: E731
        return "|".join([v.name, ",".join(v.extras), v.pretty_constraint, V.dump(v.constraint), opt(v.url),
                         "-" if v.marker is None else "=" + MC.mdump(v.marker)])
    if target == "dependency":
        from . import c10
        return "|".join([c10.spec_dump(v), c10.kind_dump(v), V.dump(v.constraint), v._pretty_constraint, MC.mdump(v.marker)])
    return ""


def run_one(target: str, fn: Callable[[str], Any], s: str, alarm: bool = True, label: str = "") -> dict[str, Any]:
    """outcome of one parser on one input: cls ok|doc|other|timeout (+ text, dump, err, etype, site, stage, cpu seconds)"""
    t0 = time.process_time()
    o = _run_one(target, fn, s, alarm, alarm_for(label))
    o["cpu"] = time.process_time() - t0
    return o


def _run_one(target: str, fn: Callable[[str], Any], s: str, alarm: bool, seconds: float) -> dict[str, Any]:
    stage = "parse"

    def body() -> dict[str, Any]:
        nonlocal stage
        v = fn(s)
        stage = "print"
        texts = _texts(target, v)
        for t in texts:
            if not isinstance(t, str):
                raise TypeError("printed value is not a str")
        dump = _dump(target, v)
        stage = "reparse"
        rejected = ""
        if target != "mraw":
            try:
                fn(texts[0])
            except Exception as e2:  # noqa: BLE001
                rejected = errclass(target, e2)
                if not rejected:
                    raise
        return {"cls": "ok", "text": texts[0], "dump": dump, "reprint_rejected": rejected}

    try:
        return with_cpu_alarm(body, seconds) if alarm else body()
    except _Timeout:
        return {"cls": "timeout", "stage": stage}
    except Exception as e:  # noqa: BLE001
        ec = errclass(target, e)
        if ec and stage == "parse":
            if ec == "syntax" and target == "marker" and _grammar_accepts(s):
                # lark's error although the grammar accepts the INPUT: it comes from a marker text the simplifier printed and
                # re-parsed (the defect class of repo fix 3046ca3)
                return {"cls": "other", "etype": "internal-reparse", "site": _literal_cause(s), "stage": stage, "msg": str(e)[:80].replace("\n", " ")}
            return {"cls": "doc", "err": ec}
        site = site_of(e)
        if isinstance(e, OSError) and e.errno is not None:
            # file-system limits hit by a path probe (ENAMETOOLONG, ELOOP ...): one class per errno, whichever probe met it first
            import errno as _errno
            site = _errno.errorcode.get(e.errno, str(e.errno))
        return {"cls": "other", "etype": type(e).__name__, "site": site, "stage": stage, "msg": str(e)[:120]}


def _literal_cause(s: str) -> str:
    """which kind of string literal of the input makes a printed marker text unreadable (class key of the two oracles below)"""
    if re.search(r"""(["'])\1""", s):
        return "empty-literal"        # `name op ""`: operator and value are glued and split again by a regex
    if "\\" in s:
        return "backslash"            # a value ending in a backslash / holding \" and ' is printed between the wrong quotes
    return "other"


def _grammar_accepts(s: str) -> bool:
    from poetry.core.version import markers as MK
    try:
        MK._parser.parse(s)
        return True
    except Exception:  # noqa: BLE001
        return False


# C19 states "a returned value can be printed" (str() does not raise) — that the printed text of a marker is READ BACK by
# parse_marker is C13's clause, judged there (stream `literal-shapes`, class empty-literal-misread).  The re-read test of
# this plug-in found the defects behind repo fixes 3046ca3 / 7b51c5a; it stays as a counter (`marker:ok:reprint-rejected`)
# and is not a C19 verdict.
REPRINT_IS_VIOLATION = False


def violation_of(target: str, s: str, label: str, o: dict[str, Any]) -> tuple[str, str, dict[str, Any]] | None:
    if o["cls"] == "ok" and target == "marker" and o.get("reprint_rejected") and REPRINT_IS_VIOLATION:
        return (f"marker:reprint-rejected:{_literal_cause(s)}",
                f"parse_marker({_short(s)}) returns a marker whose printed text {_short(o['text'])} parse_marker rejects "
                f"({o['reprint_rejected']}): the value cannot be printed", {"parser": target, "s": s, "label": label})
    if o["cls"] == "other":
        key = f"{target}:{o['etype']}:{o['site']}" + ("" if o["stage"] == "parse" else ":" + o["stage"])
        what = (f"{target} parser on {_short(s)} raised {o['etype']} ({o['msg']}) at {o['site']} during {o['stage']}; "
                f"documented: {'ValueError family / lark UnexpectedInput' if target in ('marker', 'mraw') else 'ValueError family'}")
        return key, what, {"parser": target, "s": s, "label": label}
    if o["cls"] == "timeout":
        key = f"{target}:timeout:{label}"
        what = f"{target} parser on {_short(s)} ({len(s)} chars, strategy {label}) exceeded {alarm_for(label):.0f} s CPU during {o['stage']} (twice)"
        return key, what, {"parser": target, "s": s, "label": label}
    return None


def _short(s: str) -> str:
    r = repr(s)
    return r if len(r) <= 140 else r[:90] + f"...[{len(s)} chars]..." + r[-30:]


# ----------------------------------------------------------------------------------------------------------------
# model side
# ----------------------------------------------------------------------------------------------------------------

MODEL_OPS = {"version": "vparse", "vconstraint": "cparse", "mvconstraint": "cmparse", "generic": "gparse", "extra": "xparse",
             "mraw": "mraw", "marker": "mparse", "requirement": "reqparse", "dependency": "dep508"}


def model_skip(target: str, s: str) -> str:
    if any(c in FOLD_SPECIAL for c in s):
        return "case-folding-special"
    if "\x01" in s and target in ("generic", "extra"):
        return "u0001"
    if _DIGIT_RUN.search(s):
        return "int-digit-limit"
    if not core.valid_utf8(s):
        return "surrogate"
    if target == "marker" and (len(s) > 1500 or GF.gen_marker.count_leaves(s) > 10):
        return "marker-simplifier-size"
    if target in ("requirement", "dependency") and ";" in s and (len(s) > 1500 or GF.gen_marker.count_leaves(s.split(";", 1)[1]) > 10):
        return "marker-simplifier-size"
    if len(s) > 12000:
        return "length"
    return ""


def model_view(target: str, m: list[str]) -> list[str]:
    """canonical [ok, text, dump] | [err, name] of a driver reply"""
    if target == "version":
        return ["ok", m[2], m[1]] if m[0] == "ok" else ["err", m[1] if len(m) > 1 else m[0]]
    if target in ("vconstraint", "mvconstraint"):
        return ["ok", m[1], m[2]] if m[0] == "ok" else ["err", m[1] if len(m) > 1 else m[0]]
    if target in ("generic", "extra"):
        return ["ok", m[1], ""] if m[0] == "ok" else ["err", m[1] if len(m) > 1 else m[0]]
    if target == "mraw":
        if m[0] == "ok":
            return ["ok", m[3], m[2]]
        return ["err", m[1] if len(m) > 1 else m[0]]
    if target == "marker":
        return ["ok", m[2], ""] if m[0] == "ok" else ["err", m[1] if len(m) > 1 else m[0]]
    if target == "requirement":
        # name, extras, constraint text, constraint dump, url, marker dump
        return ["ok", "", "|".join(m[1:7])] if m[0] == "ok" else ["err", m[1] if len(m) > 1 else m[0]]
    if target == "dependency":
        # text = to_pep_508(); dump = spec, kind, constraint dump, pretty constraint, marker dump
        return ["ok", m[9], "|".join(m[1:6])] if m[0] == "ok" else ["err", m[1] if len(m) > 1 else m[0]]
    return ["err", "?"]


def impl_view(target: str, o: dict[str, Any]) -> list[str]:
    if o["cls"] == "ok":
        if target == "requirement":
            return ["ok", "", o["dump"]]
        if target == "dependency":
            return ["ok", "=" + o["text"], o["dump"]]
        return ["ok", o["text"], o["dump"] if target in ("version", "vconstraint", "mvconstraint", "mraw") else ""]
    if o["cls"] == "doc":
        return ["err", o["err"]]
    if o["cls"] == "other":
        if o["etype"] == "internal-reparse":
            return ["err", "syntax"]      # the exception class the model reports as well; the oracle judges where it came from
        return ["err", V.ERRMAP.get(o["etype"], o["etype"])]
    return ["err", "timeout"]


# ----------------------------------------------------------------------------------------------------------------
# one chunk of the string stream (runs in a worker process)
# ----------------------------------------------------------------------------------------------------------------

def digest(sig: str) -> str:
    return hashlib.blake2b(sig.encode("utf-8", "replace"), digest_size=8).hexdigest()


def run_cases(grammar: str, cases: list[tuple[str, str]], want_model: bool = True) -> dict[str, Any]:
    targets = _targets(grammar)
    res: dict[str, Any] = {"n": len(cases), "dist": {}, "nontrivial": [], "violations": [], "disagreements": [], "samples": [],
                           "streams": {}, "timeouts": 0}
    dist = res["dist"]

    def cnt(k: str, n: int = 1) -> None:
        dist[k] = dist.get(k, 0) + n

    outcomes: dict[str, list[dict[str, Any]]] = {t: [] for t in targets}
    big_cost: dict[str, float] = {}
    for idx, (s, label) in enumerate(cases):
        if idx % 1500 == 1499:
            clear_caches()
        cnt(f"{grammar}:strategy:{label}")
        any_ok = False
        if label.endswith("-big") and big_cost.get(label, 0.0) > SKIP_AFTER_S:
            # the previous giant input of this strategy was already expensive: do not spend the budget twice
            cnt(f"{grammar}:skipped-giant:{label}")
            for t in targets:
                outcomes[t].append({"cls": "skipped"})
            continue
        for t, fn in targets.items():
            o = run_one(t, fn, s, label=label)
            if label.endswith("-big"):
                big_cost[label] = max(big_cost.get(label, 0.0), o["cpu"])
            if o["cls"] == "timeout":
                o2 = run_one(t, fn, s, label=label)
                if o2["cls"] != "timeout":
                    cnt(f"{t}:timeout-not-reproduced")
                    o = o2
                else:
                    res["timeouts"] += 1
            outcomes[t].append(o)
            if o["cls"] != "timeout" and o["cpu"] > ALARM_S:
                cnt(f"slow:{t}:{label}")
            cnt(f"{t}:" + (o["cls"] if o["cls"] != "other" else "other:" + o["etype"]) + (":" + o["err"] if o["cls"] == "doc" else ""))
            any_ok = any_ok or o["cls"] == "ok"
            if o["cls"] == "ok" and o.get("reprint_rejected"):
                cnt(f"{t}:ok:reprint-rejected:{_literal_cause(s)}")
            # `mraw` (the un-simplified tree) is the harness's own entry point for the correspondence: not judged
            v = violation_of(t, s, label, o) if t != "mraw" else None
            if v is not None and not any(x[0] == v[0] for x in res["violations"]):
                res["violations"].append(v)
        if any_ok or label not in ("chars",):
            res["nontrivial"].append(digest(grammar + "\0" + s))
        if any_ok and len(res["samples"]) < 2 and 6 < len(s) < 90:
            t0 = next(t for t in targets if outcomes[t][-1]["cls"] == "ok")
            res["samples"].append({"grammar": grammar, "input": s, "strategy": label, "printed": outcomes[t0][-1]["text"][:100]})
    # ---- model correspondence
    if want_model:
        for t in targets:
            op = MODEL_OPS.get(t)
            if op is None:
                continue
            idxs, lines = [], []
            for i, (s, _label) in enumerate(cases):
                why = model_skip(t, s)
                if why:
                    cnt(f"{t}:model-skipped:{why}")
                    continue
                idxs.append(i)
                lines.append(core.line(op, s))
            replies = core.run_driver(lines, timeout=1500) if lines else []
            dis = 0
            for i, m in zip(idxs, replies):
                s = cases[i][0]
                if outcomes[t][i]["cls"] == "skipped":
                    cnt(f"{t}:model-skipped:giant-skipped")
                    continue
                mv = model_view(t, m)
                iv = impl_view(t, outcomes[t][i])
                if mv[0] == "err" and mv[1] in ("unmodelled", "fuel"):
                    cnt(f"{t}:model-skipped:{mv[1]}")
                    continue
                if iv[0] == "err" and iv[1] in ("timeout", "recursion"):
                    # resource exhaustion of the interpreter (the oracle above judges it); the model has no stack limit
                    cnt(f"{t}:model-skipped:impl-{iv[1]}")
                    continue
                if t == "dependency" and mv[0] == "ok" and mv[1] == "!unmodelled":
                    cnt(f"{t}:model-skipped:print-unmodelled")
                    mv = [mv[0], iv[1], mv[2]]
                if mv != iv:
                    dis += 1
                    if len(res["disagreements"]) < 40:
                        res["disagreements"].append({"stream": f"fuzz-{t}", "input": s, "impl": iv, "model": mv})
            res["streams"][f"fuzz-{t}"] = {"cases": len(idxs), "disagreements": dis}
    clear_caches()
    return res


def gen_cases(grammar: str, seed: int, n: int, n_big: int) -> list[tuple[str, str]]:
    import random
    rnd = random.Random(f"C19-{grammar}-{seed}")
    cases = []
    for i in range(n):
        if i < n_big:
            # the few large cases of this chunk (super-linear cost in the real code): chains and nesting only
            # quick (two giants per grammar): moderate sizes, and-or nesting shallow; thorough (four): up to 1000 clauses and
            # and-or nesting 30-400 deep (exponential in the simplifier: the `*:timeout:long-nest-big` classes)
            deep = n_big > 2
            s, label = (GF.long_chain(rnd, grammar, rnd.choice([300, 600, 1000] if deep else [300, 600]), uniform=rnd.random() < 0.6)
                        if i % 2 == 0 else GF.long_nest(rnd, grammar, rnd.choice([30, 100, 400]), big=deep, alternate=(i == 3)))
            cases.append((s, label + "-big"))
        else:
            cases.append(GF.gen(grammar, rnd))
    return cases


def chunk_worker(args: tuple[str, int, int, int]) -> dict[str, Any]:
    grammar, seed, n, n_big = args
    core.use_repo_source()
    _quiet()
    tmp = None
    old = os.getcwd()
    try:
        if grammar == "dependency":
            tmp = tempfile.mkdtemp(prefix="c19dep")
            os.chdir(tmp)
        r = run_cases(grammar, gen_cases(grammar, seed, n, n_big))
        r["grammar"] = grammar
        return r
    finally:
        os.chdir(old)
        if tmp:
            shutil.rmtree(tmp, ignore_errors=True)


# ----------------------------------------------------------------------------------------------------------------
# pyproject mappings
# ----------------------------------------------------------------------------------------------------------------

_COMPILE_CACHED = False


def memoise_schema_compile() -> None:
    """poetry-core compiles both JSON schemas anew on every validate() (~45 ms each); `fastjsonschema.compile` is a pure
    function of the schema, so the harness memoises it per schema text (in-process wrapper; nothing in the repo is touched)."""
    global _COMPILE_CACHED
    if _COMPILE_CACHED:
        return
    import poetry.core.json as pj
    fjs = pj.fastjsonschema
    orig = fjs.compile
    cache: dict[str, Any] = {}

    def compile_cached(definition: Any, *a: Any, **k: Any) -> Any:
        if a or k:
            return orig(definition, *a, **k)
        key = json.dumps(definition, sort_keys=True)
        if key not in cache:
            cache[key] = orig(definition)
        return cache[key]
    fjs.compile = compile_cached
    _COMPILE_CACHED = True


def _fresh(x: Any) -> Any:
    """a private copy for the code under test; `copy.deepcopy` is itself recursive (about three frames per nesting level), so for
    a very deep mapping the HARNESS would overflow before the code under test is entered — then the object itself is passed
    (nothing the validator does to it matters afterwards: every mapping is used once)"""
    try:
        return copy.deepcopy(x)
    except RecursionError:
        return x


def run_mapping(d: dict[str, Any], strict: bool) -> dict[str, Any]:
    memoise_schema_compile()
    from poetry.core.factory import Factory
    from poetry.core.json import validate_object

    def body() -> dict[str, Any]:
        r = Factory.validate(_fresh(d), strict=strict)
        if not (isinstance(r, dict) and all(isinstance(v, list) and all(isinstance(x, str) for x in v) for v in r.values())):
            raise TypeError("Factory.validate did not return a mapping of message lists")
        n = sum(len(v) for v in r.values())
        for name, sub in (("poetry-schema", (d.get("tool") or {}).get("poetry") if isinstance(d.get("tool"), dict) else None),
                          ("project-schema", d.get("project"))):
            e = validate_object(_fresh(sub), name)  # type: ignore[arg-type]
            if not (isinstance(e, list) and all(isinstance(x, str) for x in e)):
                raise TypeError("validate_object did not return a list of messages")
        return {"cls": "ok", "messages": n, "errors": len(r.get("errors", []))}

    try:
        return with_cpu_alarm(body)
    except _Timeout:
        return {"cls": "timeout", "stage": "validate"}
    except Exception as e:  # noqa: BLE001
        return {"cls": "other", "etype": type(e).__name__, "site": site_of(e), "stage": "validate", "msg": str(e)[:120],
                "schema_valid": schema_valid(d)}


def schema_valid(d: dict[str, Any]) -> bool:
    """do the sections satisfy the two JSON schemas (what the checks after the schema validation may rely on)?"""
    from poetry.core.json import validate_object
    try:
        tool = d.get("tool", {})
        if not isinstance(tool, dict):
            return False
        poetry = tool.get("poetry", {})
        project = d.get("project")
        if not isinstance(poetry, dict) or (project is not None and not isinstance(project, dict)):
            return False
        if validate_object(_fresh(poetry), "poetry-schema"):
            return False
        return project is None or not validate_object(_fresh(project), "project-schema")
    except Exception:  # noqa: BLE001
        return False


def mapping_violation(d: dict[str, Any], strict: bool, label: str, o: dict[str, Any]) -> tuple[str, str, dict[str, Any]] | None:
    if o["cls"] == "ok":
        return None
    if o["cls"] == "timeout":
        return (f"validate:timeout:{label}", f"Factory.validate(strict={strict}) exceeded {ALARM_S:.0f} s CPU on a {label} mapping",
                {"parser": "validate", "mapping": d, "strict": strict, "label": label})
    # a crash on data that violates a schema is one family per exception type (the follow-up checks assume schema-valid
    # types; the site is whichever check meets the value first); a crash on schema-valid data is keyed by its site
    key = f"validate:{o['etype']}:{o['site']}" if o.get("schema_valid") else f"validate:schema-invalid:{o['etype']}"
    what = (f"Factory.validate(strict={strict}) raised {o['etype']} ({o['msg']}) at {o['site']} instead of returning error lists "
            f"(sections {'satisfy' if o.get('schema_valid') else 'violate'} the schemas); "
            f"mapping {json.dumps(d, default=str)[:160]}")
    return key, what, {"parser": "validate", "mapping": d, "strict": strict, "label": label}


def mapping_worker(args: tuple[int, int]) -> dict[str, Any]:
    import random
    seed, n = args
    core.use_repo_source()
    rnd = random.Random(f"C19-validate-{seed}")
    res: dict[str, Any] = {"n": 0, "dist": {}, "nontrivial": [], "violations": [], "disagreements": [], "samples": [], "streams": {},
                           "timeouts": 0, "grammar": "validate"}
    for _ in range(n):
        d, label = GF.gen_mapping(rnd)
        for strict in (False, True):
            o = run_mapping(d, strict)
            res["n"] += 1
            k = f"validate:strict={int(strict)}:" + (o["cls"] if o["cls"] != "other" else "other:" + o["etype"])
            if o["cls"] == "ok":
                k += ":clean" if o["messages"] == 0 else (":errors" if o["errors"] else ":warnings-only")
            res["dist"][k] = res["dist"].get(k, 0) + 1
            res["dist"][f"validate:strategy:{label}"] = res["dist"].get(f"validate:strategy:{label}", 0) + 1
            res["nontrivial"].append(digest("validate\0" + str(strict) + json.dumps(d, sort_keys=True, default=str)))
            v = mapping_violation(d, strict, label, o)
            if v is not None and not any(x[0] == v[0] for x in res["violations"]):
                res["violations"].append(v)
            if o["cls"] == "ok" and o["errors"] and len(res["samples"]) < 1 and len(json.dumps(d, default=str)) < 300:
                res["samples"].append({"grammar": "validate", "mapping": d, "strategy": label, "strict": strict, "errors": o["errors"]})
    return res


# ----------------------------------------------------------------------------------------------------------------
# shrinking
# ----------------------------------------------------------------------------------------------------------------

def _key_of_string(target: str, s: str, label: str) -> str | None:
    grammar = {"mvconstraint": "vconstraint", "extra": "generic", "mraw": "marker"}.get(target, target)
    fn = _targets(grammar)[target]
    o = run_one(target, fn, s, label=label)
    if o["cls"] == "timeout":
        o = run_one(target, fn, s, label=label)
    v = violation_of(target, s, label, o)
    return v[0] if v else None


def shrink_string(target: str, s: str, label: str, key: str, budget: int = 260) -> str:
    """delta debugging (chunk removal, then single-character simplification) keeping the same class key"""
    if ":timeout:" in key:
        budget = 5 if alarm_for(label) <= ALARM_S else 1
    evals = 0

    def still(t: str) -> bool:
        nonlocal evals
        evals += 1
        return _key_of_string(target, t, label) == key

    n = 2
    while len(s) >= 2 and evals < budget:
        size = max(1, len(s) // n)
        removed = False
        i = 0
        while i < len(s) and evals < budget:
            t = s[:i] + s[i + size:]
            if t != s and still(t):
                s = t
                removed = True
            else:
                i += size
        if not removed:
            if size == 1:
                break
            n = min(len(s), n * 2)
    # simplify characters (prefer plain ASCII letters/digits) without changing the class
    for i in range(len(s)):
        if evals >= budget:
            break
        for rep in ("a", "1"):
            if s[i] not in "a1" and not s[i].isspace() and s[i].isalnum():
                t = s[:i] + rep + s[i + 1:]
                if still(t):
                    s = t
                    break
    return s


def shrink_mapping(d: dict[str, Any], strict: bool, label: str, key: str, budget: int = 200) -> dict[str, Any]:
    evals = 0

    def still(x: dict[str, Any]) -> bool:
        nonlocal evals
        evals += 1
        v = mapping_violation(x, strict, label, run_mapping(x, strict))
        return v is not None and v[0] == key

    changed = True
    while changed and evals < budget:
        changed = False
        for path in sorted(GF._paths(d), key=lambda p: (len(p), str(p))):
            if evals >= budget:
                break
            try:
                x = copy.deepcopy(d)
            except RecursionError:
                return d          # too deep for the harness to copy: keep the unshrunk mapping
            try:
                parent = GF._get(x, path[:-1])
                del parent[path[-1]]
            except (KeyError, IndexError, TypeError):
                continue
            if still(x):
                d = x
                changed = True
                break
    return d


# ----------------------------------------------------------------------------------------------------------------
# parent side
# ----------------------------------------------------------------------------------------------------------------

CORPUS: list[tuple[str, str]] = [
    ("version", "1.0.po\u017ft1"), ("version", "2!1.2.PO\u017fT3.dev1"), ("version", "1.0prev\u0131ew2"), ("version", "1.0PREV\u0130EW2"), ("version", "1.0-po\u017ft-2+a.1"),
    ("vconstraint", ">=1.0.po\u017ft1,<2"), ("vconstraint", "~=1.0prev\u0131ew2"), ("marker", 'python_full_version >= "3.8.po\u017ft1"'),
    ("requirement", "foo>=1.0.po\u017ft1"), ("dependency", "foo (>=1.0.po\u017ft1) ; python_version >= \"3.8\""),
    ("dependency", "a" * 300 + ".tar.gz"), ("dependency", "a" * 300 + ".whl"), ("dependency", "foo @ " + "a" * 300 + ".tar.gz"),
    ("marker", "os_name == 'a\"b'"), ("marker", "os_name == 'a\\'"), ("marker", 'os_name == "a\\"\'b"'), ("marker", "os_name == 'a\\' and os_name != 'b'"),
    ("marker", "os_name == 'a\\\\b'"), ("marker", 'extra != "a" and extra != "b"'), ("requirement", "foo ; os_name == 'a\"b'"), ("dependency", "foo ; extra != 'a\"b'"),
    ("generic", "!==x"), ("generic", "\"a\" IN"), ("generic", "'a' not\tin"), ("vconstraint", "==1.0a1.dev0.*,<=1.0"),
    ("vconstraint", "==1.0.post1.dev0.*,>1.0.0"), ("vconstraint", "1.0 || 1.0+local"), ("dependency", "foo.tar.gz"), ("generic", "'x' IN"), ("generic", "'x' not\tin"), ("generic", "'x' in"), ("generic", "a, 'x' NOT IN"), ("generic", "==a || !=b,!=c"),
    ("generic", ""), ("generic", "*"), ("generic", "||"), ("generic", ","), ("generic", "'a' in, 'b' not in"), ("generic", "\"a\" in"),
    ("vconstraint", "!=0 || ==0.*"), ("vconstraint", "==1!1.0.*"), ("vconstraint", "!=1.0.*"), ("vconstraint", ">=1.0+x || 1.0"),
    ("vconstraint", "!=1.0,!=1.0+x"), ("vconstraint", ">1,<1"), ("vconstraint", ">=1,<=1"), ("vconstraint", "<=1.0+x,>=1.0"), ("vconstraint", "^"),
    ("vconstraint", ""), ("vconstraint", "*"), ("vconstraint", "||"), ("vconstraint", ",1"), ("vconstraint", "1,"), ("vconstraint", "~=1"),
    ("vconstraint", "==1.0rc.*"), ("vconstraint", "dev"), ("vconstraint", "1.0 - 2.0"), ("vconstraint", ">=1 <2 || 3.*"), ("vconstraint", "!=*"),
    ("vconstraint", "==١.*"), ("vconstraint", "1.0\n"), ("vconstraint", "1.0\n\n"), ("vconstraint", "x.x.x"),
    ("version", "1.0"), ("version", ""), ("version", "1.0+"), ("version", "١"), ("version", "1.0\x85"), ("version", "v1!2.3rc.post-1.dev+a-b"),
    ("marker", 'os_name == "a, \'x\' IN"'), ("marker", 'extra == "a, \'x\' IN"'), ("marker", 'python_version in "3.8, 3.9"'), ("marker", ""),
    ("marker", 'python_version >= "3.8" and (os_name == "nt" or extra == "a")'), ("marker", '"tegra" in platform_release'),
    ("marker", 'platform_release != "23.1.0" and "tegra" not in platform_release'), ("marker", 'python_version > "=3.8"'),
    ("marker", 'python_full_version == "3.8"'), ("marker", 'python_version ~= "3"'), ("marker", "(" * 40 + 'os_name == "a"' + ")" * 40),
    ("marker", 'os_name == "a" and'), ("marker", "os_name == 'a\"'"), ("marker", 'os_name == "\\""'), ("marker", 'os_name === "a"'),
    ("requirement", "foo"), ("requirement", "foo[a,b]>=1.0,<2 ; python_version >= \"3.8\""), ("requirement", "foo @ https://example.com/foo.whl"),
    ("requirement", "foo (>=1.0)"), ("requirement", "foo ; os_name == \"a, 'x' IN\""), ("requirement", "foo==1.0.*"), ("requirement", "foo===1.0"),
    ("requirement", "foo @ file:"), ("requirement", "foo[]"), ("requirement", ""), ("requirement", "foo >="), ("requirement", "foo @"),
    ("dependency", "foo"), ("dependency", "foo>=1.0 # c ; python_version >= \"3.8\""), ("dependency", "git+https://github.com/a/b.git"),
    ("dependency", "foo @ git+https://github.com/a/b.git@main#subdirectory=src"), ("dependency", "./foo"), ("dependency", "foo @ file:../x"),
    ("dependency", "https://example.com/bad.whl"), ("dependency", "foo @ https://example.com/foo-1.0-py3-none-any.whl"), ("dependency", "foo @ git+"),
    ("dependency", "foo ; os_name == \"a, 'x' IN\""), ("dependency", "foo @ https://[::1"),
]


def _merge(ctx: core.Ctx, r: dict[str, Any], raw_violations: list[tuple[str, str, dict[str, Any]]]) -> None:
    ctx.evaluations += r["n"]
    ctx.nontrivial.update(r["nontrivial"])
    for k, n in r["dist"].items():
        ctx.count(k, n)
    for s in r["samples"]:
        if len(ctx.samples) < 12 and sum(1 for x in ctx.samples if x.get("grammar") == s.get("grammar")) < 2:
            ctx.samples.append(s)
    for name, st in r["streams"].items():
        ctx.stream(name, st["cases"], st["disagreements"])
    for d in r["disagreements"]:
        ctx.disagree(d["stream"], d["input"], d["impl"], d["model"])
    ctx.timeouts += r["timeouts"]
    for v in r["violations"]:
        if not any(x[0] == v[0] for x in raw_violations):
            raw_violations.append(v)


def _finish(ctx: core.Ctx, raw: list[tuple[str, str, dict[str, Any]]]) -> None:
    """minimise one witness per class key and register the violations"""
    known = core.known_keys(PROP)
    for key, what, w in raw[:12]:
        if any(v.key == key for v in ctx.violations):
            continue
        if key in known:
            ctx.violate(key, what, w)
            continue
        try:
            if w["parser"] == "regex":
                pass
            elif w["parser"] == "validate":
                m = shrink_mapping(w["mapping"], w["strict"], w["label"], key)
                w = dict(w, mapping=m)
                what = re.sub(r"mapping \{.*$", "mapping " + json.dumps(m, default=str)[:300], what)
            else:
                cwd, tmp = os.getcwd(), None
                if w["parser"] == "dependency":
                    tmp = tempfile.mkdtemp(prefix="c19dep")
                    os.chdir(tmp)
                try:
                    s = shrink_string(w["parser"], w["s"], w["label"], key)
                finally:
                    os.chdir(cwd)
                    if tmp:
                        shutil.rmtree(tmp, ignore_errors=True)
                if s != w["s"]:
                    what = what.replace(_short(w["s"]), _short(s) + f" (minimised from {len(w['s'])} chars)")
                    w = dict(w, s=s)
        except Exception:  # noqa: BLE001 — an unminimised witness is still a witness
            traceback.print_exc()
        ctx.violate(key, what, w)


def _plan(ctx: core.Ctx, strings: int, mappings: int, chunk: int) -> tuple[list[tuple[str, int, int, int]], list[tuple[int, int]]]:
    per = strings // len(GF.GRAMMARS)
    jobs: list[tuple[str, int, int, int]] = []
    for g in GF.GRAMMARS:
        left, first = per, True
        # the slow front ends get smaller chunks so that the pool stays balanced
        size = chunk if g in ("version", "vconstraint", "generic") else max(500, chunk // 3)
        while left > 0:
            n = min(size, left)
            n_big = (4 if ctx.thorough else 2) if first else 0
            jobs.append((g, ctx.rng.getrandbits(48), n, n_big))
            left -= n
            first = False
    mjobs = []
    left = mappings
    while left > 0:
        n = min(max(200, chunk // 4), left)
        mjobs.append((ctx.rng.getrandbits(48), n))
        left -= n
    return jobs, mjobs


def _run_stream(ctx: core.Ctx, strings: int, mappings: int, chunk: int, raw: list[tuple[str, str, dict[str, Any]]],
                regex: bool = False) -> None:
    jobs, mjobs = _plan(ctx, strings, mappings, chunk)
    workers = max(1, min(int(os.environ.get("VERIF_WORKERS", "0")) or (os.cpu_count() or 2) - 2, 14, len(jobs) + len(mjobs)))
    mp = multiprocessing.get_context("fork")
    # expensive grammars first (better packing); results are merged in plan order, so the run is a function of the seed
    order = sorted(range(len(jobs)), key=lambda i: -{"marker": 5, "dependency": 4, "requirement": 3}.get(jobs[i][0], 1))
    with mp.Pool(workers) as pool:
        rpend = pool.apply_async(regex_worker, (0,)) if regex else None
        pend = {i: pool.apply_async(chunk_worker, (jobs[i],)) for i in order}
        mpend = [pool.apply_async(mapping_worker, (j,)) for j in mjobs]
        for i in range(len(jobs)):
            _merge(ctx, pend[i].get(timeout=3000), raw)
        for p in mpend:
            r = p.get(timeout=3000)
            _merge(ctx, r, raw)
            ctx.stream("validate-mappings", r["n"], 0)
        if rpend is not None:
            _merge(ctx, rpend.get(timeout=3000), raw)


def correspondence(ctx: core.Ctx) -> None:
    _quiet()
    raw: list[tuple[str, str, dict[str, Any]]] = []
    # 1. corpus (past witnesses and boundary inputs), in process
    by_g: dict[str, list[tuple[str, str]]] = {}
    for g, s in CORPUS:
        by_g.setdefault(g, []).append((s, "corpus"))
    cwd, tmp = os.getcwd(), tempfile.mkdtemp(prefix="c19dep")
    try:
        os.chdir(tmp)
        for g, cases in by_g.items():
            r = run_cases(g, cases)
            r["streams"] = {k.replace("fuzz-", "corpus-"): v for k, v in r["streams"].items()}
            for d in r["disagreements"]:
                d["stream"] = d["stream"].replace("fuzz-", "corpus-")
            _merge(ctx, r, raw)
    finally:
        os.chdir(cwd)
        shutil.rmtree(tmp, ignore_errors=True)
    # 2. the fuzz streams
    _run_stream(ctx, ctx.budget(40000, 2000000), ctx.budget(1500, 40000), ctx.budget(2400, 24000), raw, regex=True)
    _finish(ctx, raw)
    ctx.notes.append("validate: correspondence-only (no Lean model)")


def search(ctx: core.Ctx) -> None:
    """proof or correspondence broke: run a second, differently seeded stream and replay the disagreeing inputs as oracle cases"""
    raw: list[tuple[str, str, dict[str, Any]]] = []
    for d in ctx.disagreements[:200]:
        t = d["stream"].split("-", 1)[-1]
        g = {"mvconstraint": "vconstraint", "extra": "generic", "mraw": "marker"}.get(t, t)
        if g in GF.GRAMMARS and isinstance(d["input"], str):
            _merge(ctx, run_cases(g, [(d["input"], "disagreement")], want_model=False), raw)
    if not raw:
        _run_stream(ctx, ctx.budget(60000, 400000), ctx.budget(1000, 8000), 3000, raw)
    _finish(ctx, raw)


def replay(ctx: core.Ctx, payload: dict[str, Any]) -> bool:
    _quiet()
    w = payload.get("witness", payload)
    before = len(ctx.violations)
    if w.get("parser") == "regex":
        v = regex_violation(w)
    elif w.get("parser") == "validate":
        o = run_mapping(w["mapping"], bool(w.get("strict")))
        v = mapping_violation(w["mapping"], bool(w.get("strict")), w.get("label", "replay"), o)
    else:
        t = w["parser"]
        g = {"mvconstraint": "vconstraint", "extra": "generic", "mraw": "marker"}.get(t, t)
        cwd, tmp = os.getcwd(), tempfile.mkdtemp(prefix="c19dep")
        try:
            os.chdir(tmp)
            fn = _targets(g)[t]
            o = run_one(t, fn, w["s"], label=w.get("label", "replay"))
            if o["cls"] == "timeout":
                o = run_one(t, fn, w["s"], label=w.get("label", "replay"))
            v = violation_of(t, w["s"], w.get("label", "replay"), o)
        finally:
            os.chdir(cwd)
            shutil.rmtree(tmp, ignore_errors=True)
    if v is not None:
        ctx.violate(v[0], v[1], v[2])
    return len(ctx.violations) > before


def extra_evidence(ctx: core.Ctx) -> dict[str, Any]:
    skipped = {k: v for k, v in ctx.dist.items() if ":model-skipped:" in k}
    return {"model_skipped": skipped, "notes": ctx.notes, "alarm_cpu_seconds": ALARM_S, "alarm_cpu_seconds_size_strategies": ALARM_SIZE_S,
            "modelled_parsers": sorted(MODEL_OPS), "oracle_only": ["validate"]}


# ----------------------------------------------------------------------------------------------------------------
# deterministic regex stress: pump strings derived from the syntax tree of every regular expression of the parsers
# ----------------------------------------------------------------------------------------------------------------

REGEX_MODULES = [
    "poetry.core.constraints.version.patterns", "poetry.core.constraints.version.parser", "poetry.core.constraints.generic.parser",
    "poetry.core.version.pep440.parser", "poetry.core.version.markers", "poetry.core.version.requirements", "poetry.core.vcs.git",
    "poetry.core.utils.patterns", "poetry.core.packages.utils.utils", "poetry.core.packages.utils.link", "poetry.core.packages.dependency",
    "poetry.core.utils.helpers",
]
REGEX_LIMIT_S = 1.0      # CPU seconds for one match attempt on a 2000-character pump string (linear: < 10 ms; quadratic: < 0.3 s)
REGEX_ALARM_S = 3.0


def regex_sources() -> list[tuple[str, str, Any]]:
    """(file, name, compiled pattern) for every regular expression of the parser modules: compiled module/class constants,
    literal patterns passed to re.<function> inside the module source, and the /regex/ terminals of the lark grammars"""
    import ast
    import importlib
    out: list[tuple[str, str, Any]] = []
    seen: set[tuple[str, int]] = set()

    def add(file: str, name: str, pat: Any) -> None:
        k = (pat.pattern, pat.flags)
        if k not in seen:
            seen.add(k)
            out.append((file, name, pat))

    for modname in REGEX_MODULES:
        try:
            mod = importlib.import_module(modname)
        except Exception:  # noqa: BLE001
            continue
        file = (getattr(mod, "__file__", modname) or modname).replace("\\", "/").rsplit("/", 1)[-1]
        for name, v in sorted(vars(mod).items()):
            if isinstance(v, re.Pattern):
                add(file, name, v)
            elif isinstance(v, (list, tuple)) and v and all(isinstance(x, re.Pattern) for x in v):
                for x in v:
                    add(file, name, x)
            elif isinstance(v, type) and getattr(v, "__module__", None) == modname:
                for an, av in sorted(vars(v).items()):
                    if isinstance(av, re.Pattern):
                        add(file, f"{name}.{an}", av)
        try:
            tree = ast.parse(open(mod.__file__, encoding="utf-8").read())
        except Exception:  # noqa: BLE001
            continue
        for node in ast.walk(tree):
            if (isinstance(node, ast.Call) and isinstance(node.func, ast.Attribute) and isinstance(node.func.value, ast.Name)
                    and node.func.value.id == "re" and node.args and isinstance(node.args[0], ast.Constant)
                    and isinstance(node.args[0].value, str)):
                try:
                    add(file, f"re.{node.func.attr}@{node.lineno}", re.compile(node.args[0].value))
                except re.error:
                    pass
    gdir = core.REPO / "src" / "poetry" / "core" / "version" / "grammars"
    for g in sorted(gdir.glob("*.lark")):
        for m in re.finditer(r"^([A-Z_]+):\s*/(.+)/([a-z]*)\s*$", g.read_text(encoding="utf-8"), re.M):
            try:
                add(g.name, m.group(1), re.compile(m.group(2).replace("\\/", "/"), re.I if "i" in m.group(3) else 0))
            except re.error:
                pass
    return out


def _in_matches(items: list[Any], ch: str) -> bool:
    from re import _constants as C  # type: ignore[attr-defined]
    neg, hit = False, False
    for op, av in items:
        if op is C.NEGATE:
            neg = True
        elif op is C.LITERAL:
            hit = hit or ord(ch) == av
        elif op is C.RANGE:
            hit = hit or av[0] <= ord(ch) <= av[1]
        elif op is C.CATEGORY:
            name = str(av)
            base = (ch.isdigit() if "DIGIT" in name else ch.isspace() if "SPACE" in name else (ch.isalnum() or ch == "_"))
            hit = hit or (not base if "NOT" in name else base)
    return hit != neg


def _sample(seq: Any, groups: dict[int, str], rich: bool) -> str:
    """a short string the node sequence matches (first alternatives; optional parts present iff `rich`)"""
    from re import _constants as C  # type: ignore[attr-defined]
    out = []
    for op, av in seq:
        if op is C.LITERAL:
            out.append(chr(av))
        elif op is C.NOT_LITERAL:
            out.append("a" if av != ord("a") else "b")
        elif op is C.ANY:
            out.append("a")
        elif op is C.IN:
            out.append(next((c for c in "a1 .-_,|'\"/:@=<>~^!*+x\t\\" if _in_matches(av, c)), "a"))
        elif op is C.BRANCH:
            out.append(_sample(av[1][0], groups, rich))
        elif op is C.SUBPATTERN:
            s = _sample(av[3], groups, rich)
            if av[0] is not None:
                groups[av[0]] = s
            out.append(s)
        elif op in (C.MAX_REPEAT, C.MIN_REPEAT) or str(op) == "POSSESSIVE_REPEAT":
            lo = av[0]
            out.append(_sample(av[2], groups, rich) * (lo if lo > 0 else (1 if rich else 0)))
        elif op is C.GROUPREF:
            out.append(groups.get(av, ""))
        elif str(op) == "ATOMIC_GROUP":
            out.append(_sample(av, groups, rich))
        # AT, ASSERT, ASSERT_NOT, GROUPREF_EXISTS: zero width / ignored
    return "".join(out)


def _pumps(seq: Any, n: int, rich: bool) -> list[str]:
    """strings in which exactly one repeatable sub-expression is taken n times, everything before it once"""
    from re import _constants as C  # type: ignore[attr-defined]
    res: list[str] = []
    nodes = list(seq)
    for i, (op, av) in enumerate(nodes):
        prefix = _sample(nodes[:i], {}, rich)
        inner: list[Any] = []
        if op in (C.MAX_REPEAT, C.MIN_REPEAT) or str(op) == "POSSESSIVE_REPEAT":
            if av[1] is C.MAXREPEAT or av[1] > 8:
                body = _sample(av[2], {}, True)
                if body:
                    res.append(prefix + body * max(1, n // len(body)))
                    # alternative members of a branch / class inside the body give other pump units
                    for alt in _alternatives(av[2]):
                        if alt and alt != body:
                            res.append(prefix + alt * max(1, n // len(alt)))
            inner = [av[2]]
        elif op is C.SUBPATTERN:
            inner = [av[3]]
        elif op is C.BRANCH:
            inner = list(av[1])
        elif str(op) == "ATOMIC_GROUP":
            inner = [av]
        for sub in inner:
            res.extend(prefix + s for s in _pumps(sub, n, rich))
    return res


def _alternatives(seq: Any) -> list[str]:
    from re import _constants as C  # type: ignore[attr-defined]
    nodes = list(seq)
    out: list[str] = []
    if len(nodes) == 1:
        op, av = nodes[0]
        if op is C.BRANCH:
            out = [_sample(b, {}, True) for b in av[1]]
        elif op is C.SUBPATTERN:
            out = _alternatives(av[3])
        elif op is C.IN:
            out = [c for c in "a1 .-_,|" if _in_matches(av, c)][:3]
    return out


def pump_strings(pat: Any, n: int) -> list[str]:
    try:
        from re import _parser  # type: ignore[attr-defined]
        tree = _parser.parse(pat.pattern, pat.flags)
    except Exception:  # noqa: BLE001
        return []
    out: list[str] = []
    for rich in (True, False):
        for p in _pumps(tree, n, rich):
            for tail in ("\x00", "!", ""):
                s = p + tail
                if s not in out:
                    out.append(s)
    return out[:240]


def _time_regex(pat: Any, mode: str, s: str) -> float:
    """CPU seconds of one match attempt (REGEX_ALARM_S when it was interrupted)"""
    fn = pat.match if mode == "match" else pat.search
    t0 = time.process_time()
    try:
        with_cpu_alarm(lambda: fn(s), REGEX_ALARM_S)
    except _Timeout:
        return REGEX_ALARM_S
    return time.process_time() - t0


def regex_worker(_arg: int) -> dict[str, Any]:
    core.use_repo_source()
    _quiet()
    sub = core.Ctx(PROP, "quick", 0)
    raw: list[tuple[str, str, dict[str, Any]]] = []
    regex_stress(sub, raw)
    return {"n": sub.evaluations, "dist": sub.dist, "nontrivial": [], "violations": raw, "disagreements": [], "samples": [],
            "streams": sub.streams, "timeouts": 0, "grammar": "regex"}


def regex_violation(w: dict[str, Any]) -> tuple[str, str, dict[str, Any]] | None:
    """replay of a regex-stress witness: the named constant (any member of a list constant) on the recorded string"""
    for file, name, pat in regex_sources():
        if file == w["file"] and name.split("@")[0] == w["name"].split("@")[0]:
            for mode in ("match", "search"):
                if _time_regex(pat, mode, w["s"]) > REGEX_LIMIT_S and _time_regex(pat, mode, w["s"]) > REGEX_LIMIT_S:
                    return (f"regex:timeout:{file}:{name.split('@')[0]}",
                            f"regular expression {name} of {file} needs more than {REGEX_LIMIT_S:.0f} s CPU for one .{mode}() on {_short(w['s'])}", w)
    return None


def regex_stress(ctx: core.Ctx, raw: list[tuple[str, str, dict[str, Any]]]) -> None:
    """quick and thorough: every pattern on all its pump strings at 200 characters, then the eight pumps that were slowest there
    at 2000 characters; one match attempt above REGEX_LIMIT_S CPU (twice) is a super-linear branch"""
    n_pat = n_str = 0

    def judge(file: str, name: str, pat: Any, mode: str, s: str) -> bool:
        nonlocal n_str
        n_str += 1
        t = _time_regex(pat, mode, s)
        if t > REGEX_LIMIT_S and _time_regex(pat, mode, s) > REGEX_LIMIT_S:
            key = f"regex:timeout:{file}:{name.split('@')[0]}"
            what = (f"regular expression {name} of {file} ({_short(pat.pattern)}) needs more than {REGEX_LIMIT_S:.0f} s CPU for one "
                    f".{mode}() on the {len(s)}-character pump string {_short(s)} (a repeatable sub-expression taken many times, then a "
                    f"non-matching tail): super-linear back-tracking")
            if not any(x[0] == key for x in raw):
                raw.append((key, what, {"parser": "regex", "file": file, "name": name, "mode": mode, "s": s, "label": "regex-stress"}))
            return True
        judge.last = t  # type: ignore[attr-defined]
        return False

    for file, name, pat in regex_sources():
        n_pat += 1
        if any(x[0] == f"regex:timeout:{file}:{name.split('@')[0]}" for x in raw):
            ctx.count("regex-stress:same-constant-already-flagged")
            continue
        small, big = pump_strings(pat, 200), pump_strings(pat, 2000)
        times: list[tuple[float, int, str]] = []
        flagged = False
        for i, s in enumerate(small):
            for mode in ("match", "search"):
                if judge(file, name, pat, mode, s):
                    flagged = True
                    break
                times.append((judge.last, i, mode))  # type: ignore[attr-defined]
            if flagged:
                break
        if not flagged:
            times.sort(key=lambda x: (-x[0], x[1], x[2]))
            for _t, i, mode in times[:8]:
                if i < len(big) and judge(file, name, pat, mode, big[i]):
                    flagged = True
                    break
        ctx.count("regex-stress:" + ("super-linear" if flagged else "linear-or-quadratic"))
    ctx.evaluations += n_str
    ctx.stream("regex-stress", n_str, 0)
    ctx.count("regex-stress:patterns", n_pat)
