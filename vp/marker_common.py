"""Adapters for the real marker objects: canonical dumps that match Lean's `M.dump`, environments, truth vectors."""
from __future__ import annotations

import json
import subprocess
from typing import Any

from . import core
from . import vc_common as V


def cdump(c: Any) -> str:
    from poetry.core.constraints.version import VersionConstraint
    if isinstance(c, VersionConstraint):
        return "v:" + V.dump(c)
    return "g:" + str(c)


def mdump(m: Any) -> str:
    from poetry.core.version.markers import (AnyMarker, AtomicMarkerUnion, AtomicMultiMarker, EmptyMarker, MarkerUnion,
                                             MultiMarker, SingleMarker)
    if isinstance(m, AnyMarker):
        return "ANY"
    if isinstance(m, EmptyMarker):
        return "EMPTY"
    if isinstance(m, SingleMarker):
        return f"S({m.name}|{m.operator}|{m.value}|{int(m._swapped_name_value)}|{cdump(m.constraint)})"
    if isinstance(m, AtomicMultiMarker):
        return f"AM({m.name}|{m.constraint})"
    if isinstance(m, AtomicMarkerUnion):
        return f"AU({m.name}|{m.constraint})"
    if isinstance(m, MultiMarker):
        return "AND[" + ";".join(mdump(x) for x in m.markers) + "]"
    if isinstance(m, MarkerUnion):
        return "OR[" + ";".join(mdump(x) for x in m.markers) + "]"
    return "?" + type(m).__name__


def impl_env(e: dict[str, Any]) -> dict[str, Any]:
    d = dict(e)
    if "extra" in d:
        d["extra"] = set(d["extra"])
    return d


def errname(e: BaseException) -> str:
    from lark.exceptions import UnexpectedInput
    if isinstance(e, UnexpectedInput):
        return "syntax"
    return V.errname(e)


def truth(m: Any, envs: list[dict[str, Any]]) -> str:
    out = []
    for e in envs:
        try:
            out.append("1" if m.validate(impl_env(e)) else "0")
        except Exception as ex:  # noqa: BLE001
            out.append("!" + errname(ex) + ";")
    return "".join(out)


def split_bits(s: str) -> list[str]:
    """'10!value;u1' -> ['1','0','!value;','u','1']"""
    out = []
    i = 0
    while i < len(s):
        if s[i] == "!":
            j = s.index(";", i)
            out.append(s[i:j + 1])
            i = j + 1
        else:
            out.append(s[i])
            i += 1
    return out


def raw_marker(text: str) -> Any:
    """the un-simplified marker tree of `text` (what `_compact_markers(..., top_level=False)` builds)"""
    from poetry.core.version import markers as M
    parsed = M._parser.parse(text)
    return M._compact_markers(parsed.children, top_level=False)


def clear_caches() -> None:
    from poetry.core.version import markers as M
    for f in (M.parse_marker, M.cnf, M.dnf, M._merge_single_markers):
        try:
            f.cache_clear()
        except AttributeError:
            pass


def ref_batch(reqs: list[dict[str, Any]]) -> list[Any]:
    p = subprocess.run([core.PY, str(core.VERIF / "vp" / "refserver.py")], input=json.dumps(reqs),
                       capture_output=True, text=True, timeout=900)
    if p.returncode != 0:
        raise RuntimeError("refserver failed: " + p.stderr[-400:])
    return json.loads(p.stdout)
