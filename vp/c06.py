"""C06 — marker evaluation agrees with the PEP 508 reference."""
from __future__ import annotations

from typing import Any

from . import core, gen_marker as G, marker_common as MC

PROP = "C06"
LEAN_MODULE = "PoetryVerif.Props.C06"
RULE = ("marker texts over the PEP 508 variables (python_version two-component literals; python_full_version two/three-"
        "component, three for ~= and for in/not in lists; platform_release; string variables with ==, !=, in, not in; "
        "reversed operands for in/not in; aliases; extra ==/!= with names needing normalisation), and/or/parentheses up to "
        "nesting depth 4, both quote styles, 1-6 leaves; plus a mutated (mostly malformed) stream. Each text is evaluated on a "
        "sample of the grid 13 interpreters x 3 platform tuples x 5 sets of extras that contains every interpreter. "
        "Non-trivial = the text parses; distinct = distinct text.")
ASSUMPTIONS = [
    "lark's LALR engine/contextual lexer and Python `re` are trusted; the hand recognisers of markers.lark and of the two "
    "SingleMarker regexes are tied to them by the parse stream of this run",
    "reference = packaging 26.3 (/venv site-packages, separate process); as the property states, non-reversed in/not in lists "
    "are compared by token and `extra` by membership in the set of active extras (packaging itself does substring tests and "
    "single-valued extras); the token reading is tied to plain packaging on every case where the two readings coincide",
    "environment values and literals are final releases (regular for the version algebra); platform_release values that are "
    "not PEP 440 versions are outside the model (counted as unmodelled)",
]

KNOWN_PFV2 = "pfv-list-two-component"
KNOWN_WS = "generic-literal-whitespace"
KNOWN_NOTIN = "notin-union-notin-any"
KNOWN_EMPTY = "empty-literal-misread"


def two_notin_alternatives(t: str) -> bool:
    """two reversed `"x" not in var` items on one variable (the known finding of C07 seen through parse_marker's simplification)"""
    import re
    names = re.findall(r"""(?:"[^"]*"|'[^']*')\s*not in\s*([A-Za-z_.]+)""", t)
    return any(names.count(n) > 1 for n in names) and " or " in t

CORPUS = [
    'os_name != ""', "sys_platform == ''",      # class empty-literal-misread
    '"5.1" not in platform_release or "10" not in platform_release',
    'python_version >= "3.8"', 'python_full_version ~= "3.8.1"', 'python_full_version == "3.8"', 'python_version in "3.8 3.9"',
    'python_version not in "3.8, 3.9"', '"tegra" in platform_version', "'arm' not in platform_machine", 'os.name == "nt"',
    'extra == "Foo_Bar"', 'extra != "foo.bar" and extra == "a"', 'sys_platform in "linux darwin"',
    'python_version >= "3.8" and (sys_platform == "linux" or (os_name == "nt" and extra == "a"))',
    'python_version > "3.8" or python_version < "3.8" and sys_platform != "win32" or extra == "b"',
    '(python_version >= "3.8")', '((python_version >= "3.8" or os_name == "nt"))', 'python_version>="3.8"and os_name=="nt"',
    'platform_release >= "5.10.0"', 'python_full_version < "3.10.0" and python_version >= "3.8"',
    'python_version ~= "3.8"', 'python_version == "3.10" or python_version == "3.9"', 'python_version != "3.10"',
    'python_full_version not in "3.8.10 3.9.1"', 'platform_python_implementation != "CPython"',
    'python_version > "=3.8"', 'python_version >= ""', "python_version >= '3.8", 'python_version >= "3.8" and', 'foo == "x"',
    '"3.8" <= python_version', 'python_version === "3.8"', 'python_version >= "3.8" or (os_name == "nt"',
]


def check_texts(ctx: core.Ctx, texts: list[str], stream: str, envs: list[dict[str, Any]] | None = None,
                history: list[str] | None = None) -> None:
    """`history`: marker texts parsed earlier in this process that the cases of this call may depend on (state kept between
    calls); recorded in every witness and parsed again first by --replay"""
    from poetry.core.version.markers import parse_marker
    envs = envs or G.env_grid(ctx.rng, 26)
    eenc = [G.enc_env(e) for e in envs]
    model = core.run_driver([core.line("mraw", t, *eenc) for t in texts])
    ref = MC.ref_batch([{"op": "mtok", "s": t, "envs": envs} for t in texts])
    dis = 0
    for t, mo, rf in zip(texts, model, ref):
        # ---------------- implementation: raw tree and the public parse_marker
        try:
            raw = MC.raw_marker(t)
            io = ["ok", MC.mdump(raw), str(raw), MC.truth(raw, envs)]
        except Exception as e:  # noqa: BLE001
            raw = None
            io = ["err", MC.errname(e)]
        MC.clear_caches()
        try:
            pm = parse_marker(t)
            pbits = MC.truth(pm, envs)
            perr = None
        except Exception as e:  # noqa: BLE001
            pm, pbits, perr = None, "", MC.errname(e)
        ok = raw is not None
        ctx.case("m:" + t, nontrivial=ok, sample={"marker": t, "text": io[2], "truth": io[3][:12]} if ok and " " in t else None)
        ctx.count("parse:" + (("ok:leaves=" + str(min(G.count_leaves(t), 7))) if ok else "err:" + io[1]))
        # ---------------- model vs implementation (structure, text, truth of the raw tree)
        if mo[0] == "ok":
            mm = ["ok", mo[2], mo[3], mo[4]]
        elif mo[0] == "lerr":
            mm = ["err", mo[1]]
        else:
            mm = ["err", mo[1] if len(mo) > 1 else mo[0]]
        if mm[0] == "err" and mm[1] == "unmodelled":
            ctx.count("unmodelled-literal")
        elif io[0] != mm[0] or (io[0] == "err" and io[1] != mm[1]):
            dis += 1
            ctx.disagree(stream + ":accept", t, io, mm)
        elif io[0] == "ok":
            if io[1] != mm[1] or io[2] != mm[2]:
                dis += 1
                ctx.disagree(stream + ":structure", t, io[:3], mm[:3])
            ib, mb = MC.split_bits(io[3]), MC.split_bits(mm[3])
            bad = [k for k, (x, y) in enumerate(zip(ib, mb)) if y != "u" and x != y]
            if bad:
                dis += 1
                ctx.disagree(stream + ":truth", {"marker": t, "env": envs[bad[0]]}, ib[bad[0]], mb[bad[0]])
            ctx.count("unmodelled-env-values", sum(1 for y in mb if y == "u"))
            # the simplified marker must evaluate like the raw one (ties the simplifier to the model's raw evaluation)
            if pm is not None and two_notin_alternatives(t):
                ctx.count("simplified-vs-raw:skipped-known-notin-union")   # the simplifier is knowingly unsound there (C07 finding)
            elif pm is not None:
                pb = MC.split_bits(pbits)
                bad = [k for k, (x, y) in enumerate(zip(pb, mb)) if y in "01" and x in "01" and x != y]
                if bad:
                    dis += 1
                    ctx.disagree(stream + ":simplified-vs-raw-model", {"marker": t, "env": envs[bad[0]]}, pb[bad[0]], mb[bad[0]])
        # ---------------- Lean spec vs reference (defect of the spec if they differ; never a violation)
        if mo[0] in ("ok", "lerr") and rf[0] == "ok":
            sb = mo[5] if mo[0] == "ok" else mo[3]
            for k, (c, (tv, pv)) in enumerate(zip(sb, rf[1])):
                if c in "01" and tv is not None and (c == "1") != tv:
                    dis += 1
                    ctx.disagree(stream + ":spec-vs-reference", {"marker": t, "env": envs[k]}, tv, c)
                    break
        # ---------------- property oracle on the real code: parse_marker(t).validate(E) == reference(t, E)
        if rf[0] == "ok":
            in_domain = in_c06_domain(t)
            if pm is None:
                if in_domain and perr is not None:
                    ctx.violate(KNOWN_EMPTY if empty_literal(t) else KNOWN_WS if ws_literal(t) else f"rejects:{t}", f"parse_marker({t!r}) raised {perr} but the reference accepts and evaluates it", {"marker": t})
                continue
            if not in_domain:
                ctx.count("oracle:outside-domain")
                continue
            pb = MC.split_bits(pbits)
            for k, (x, (tv, pv)) in enumerate(zip(pb, rf[1])):
                if tv is None:
                    continue
                if x not in "01":
                    ctx.violate(f"validate-raises:{t}", f"parse_marker({t!r}).validate raised {x} on {envs[k]}", {"marker": t, "env": envs[k]})
                    break
                if (x == "1") != tv:
                    key = (KNOWN_EMPTY if empty_literal(t) else KNOWN_PFV2 if pfv2_list(t) else KNOWN_WS if ws_literal(t) else
                           KNOWN_NOTIN if two_notin_alternatives(t) else f"eval:{t}")
                    ctx.violate(key, f"{t!r} on {brief(envs[k])}: poetry-core {x == '1'}, reference {tv}",
                                {"marker": t, "env": envs[k], **({"history": history} if history else {})})
                    break
                ctx.count("oracle:compared")
    ctx.stream(stream, len(texts), dis)


def brief(e: dict[str, Any]) -> str:
    return f"py={e.get('python_full_version')} platform={e.get('sys_platform')} extras={e.get('extra')}"


def ws_literal(t: str) -> bool:
    """an item on a string variable whose literal carries white space the string-constraint grammar strips or splits on
    (class generic-literal-whitespace: that grammar has no quoting): any white space in an ==/!= literal; leading or
    trailing white space, or white space other than a blank, in any literal (lists, reversed `in` / `not in`)"""
    import re
    ver = ("python_version", "python_full_version", "extra")
    for name, op, lit in re.findall(r"""([A-Za-z_.]+)\s*(==|!=|not\s+in|in)\s*("[^"]*"|'[^']*')""", t):
        v = lit[1:-1]
        if name in ver:
            continue
        if op in ("==", "!=") and name != "platform_release" and re.search(r"\s", v):
            return True
        if v != v.strip() or re.search(r"[^\S ]", v):
            return True
    for lit, op, name in re.findall(r"""("[^"]*"|'[^']*')\s*(not\s+in|in)\s*([A-Za-z_.]+)""", t):
        v = lit[1:-1]
        if name not in ver and (v != v.strip() or re.search(r"[^\S ]", v)):
            return True
    return False


def empty_literal(t: str) -> bool:
    """an item whose literal is the empty string: SingleMarker glues operator and value and a regex splits the operator text
    again (`os_name != ""` is read as `os_name == "!="`)"""
    import re
    # (a literal of white space only is stripped to the empty one)
    return bool(re.search(r"""(==|!=|<=|>=|~=|<|>|\bin)\s*("\s*"|'\s*')""", t) or re.search(r"""("\s*"|'\s*')\s*(not\s+in|in)\b""", t))


def pfv2_list(t: str) -> bool:
    import re
    for m in re.finditer(r"python_full_version\s+(?:not\s+)?in\s+(\"[^\"]*\"|'[^']*')", t):
        toks = [x for x in re.split(r"[ ,|]+", m.group(1)[1:-1]) if x]
        if any(x.count(".") < 2 for x in toks):
            return True
    return False


def in_c06_domain(t: str) -> bool:
    """the literal/operator shapes the property quantifies over (everything else is only compared model vs code)"""
    import re
    items = re.findall(r"""([A-Za-z_.]+)\s*(===|==|!=|<=|>=|~=|<|>|not in|in)\s*("[^"]*"|'[^']*')""", t)
    rev = re.findall(r"""("[^"]*"|'[^']*')\s*(===|==|!=|<=|>=|~=|<|>|not in|in)\s*([A-Za-z_.]+)""", t)
    if len(items) + len(rev) != G.count_leaves(t):
        return False        # e.g. `not  in` with several blanks: poetry-core's grammar has the literal "not in" (C19's subject)
    # (empty literals stay in the domain: `os_name != ""` is a well-formed marker the reference evaluates — poetry-core
    #  mis-reads it, class empty-literal-misread)
    for _, op, lit in items:
        if " ".join(op.split()) in ("in", "not in") and not re.fullmatch(r"[^ ,|]+([ ,|]+[^ ,|]+)*", lit[1:-1]):
            return False    # a list literal is a list of tokens: no leading/trailing/doubled separators producing empty tokens
    known = set(G.STR_VARS) | set(G.ALIASES.values()) | {"python_version", "python_full_version", "platform_release",
                                                          "implementation_version", "extra", "python_implementation"}
    if any(n not in known for n, _, _ in items) or any(n not in known for _, _, n in rev):
        return False        # e.g. `not\t in`: the name the pattern picked is not a marker variable
    for name, op, lit in items:
        lit = lit[1:-1]
        op = " ".join(op.split())
        if name == "python_version":
            toks = [x for x in re.split(r"[ ,|]+", lit) if x] if op in ("in", "not in") else [lit]
            if op == "===" or not toks or not all(re.fullmatch(r"\d+\.\d+", x) for x in toks):
                return False
        elif name == "python_full_version":
            toks = [x for x in re.split(r"[ ,|]+", lit) if x] if op in ("in", "not in") else [lit]
            need3 = op == "~="
            if op == "===" or not toks or not all(re.fullmatch(r"\d+\.\d+(\.\d+)?", x) for x in toks):
                return False
            if need3 and lit.count(".") != 2:
                return False
        elif name == "platform_release":
            if op in ("in", "not in", "===", "~=") or not re.fullmatch(r"\d+(\.\d+){0,2}", lit):
                return False
        elif name == "implementation_version":
            return False
        elif name == "extra":
            # extras are PEP 508 identifiers (the property: "membership of the normalised name")
            if op not in ("==", "!=") or not re.fullmatch(r"[A-Za-z0-9]([A-Za-z0-9._-]*[A-Za-z0-9])?", lit):
                return False
        else:
            if op not in ("==", "!=", "in", "not in"):
                return False
    for lit, op, name in rev:
        op = " ".join(op.split())
        if op not in ("in", "not in") or name in ("python_version", "python_full_version", "extra", "implementation_version"):
            return False
    return True


def gen_texts(ctx: core.Ctx, n: int, pfv2: bool = False) -> list[str]:
    rnd = ctx.rng
    out = []
    for _ in range(n):
        t = G.marker(rnd, max_leaves=rnd.choice([1, 2, 3, 4, 5, 6, 6]), pfv2_lists=pfv2)
        if rnd.random() < 0.12:
            t = G.mutate(rnd, t)
        if core.valid_utf8(t) and "\x00" not in t:
            out.append(t)
    return out


def correspondence(ctx: core.Ctx) -> None:
    check_texts(ctx, CORPUS, "corpus")
    sv = G.same_variable_pairs(ctx.rng, ctx.budget(350, 10 ** 9))
    svt = [f"{a} {ctx.rng.choice(['and', 'or'])} {b}" for a, b in sv]
    for k in range(0, len(svt), 1500):
        check_texts(ctx, svt[k:k + 1500], "same-variable")
    texts = gen_texts(ctx, ctx.budget(1000, 30000))
    for k in range(0, len(texts), 1500):
        check_texts(ctx, texts[k:k + 1500], "gen")
    # a literal shared by a string variable and `extra` (one is a single value, the other a set of active extras): first
    # the string leaves, then every pair of extra clauses over those literals, on environments with every set of extras
    shared = ["linux", "a", "inotify"]
    first = [f'sys_platform {op} "{v}"' for v in shared for op in ("==", "!=")] + [f'os_name == "{v}"' for v in shared]
    pairs = [f'extra {o1} "{x}" {j} extra {o2} "{y}"' for x in shared for y in shared + ["b"] for o1 in ("==", "!=")
             for o2 in ("==", "!=") for j in ("and", "or") if x != y]
    # two disjunctions (and, dually, two conjunctions) over the SAME two extras with every operator combination: distribution
    # yields conjunctions over equal values with different operators, which must stay distinct
    ops2 = [(o1, o2, o3, o4) for o1 in ("==", "!=") for o2 in ("==", "!=") for o3 in ("==", "!=") for o4 in ("==", "!=")]
    for x, y in (("a", "b"), ("linux", "a")):
        pairs += [f'(extra {o1} "{x}" or extra {o2} "{y}") and (extra {o3} "{x}" or extra {o4} "{y}")' for o1, o2, o3, o4 in ops2]
        pairs += [f'(extra {o1} "{x}" and extra {o2} "{y}") or (extra {o3} "{y}" and extra {o4} "{x}")' for o1, o2, o3, o4 in ops2]
    ex_envs = G.envs(pys=["3.9.1"])
    check_texts(ctx, first + pairs + [f"{a} and ({b})" for a, b in zip(first * 20, pairs)][: ctx.budget(40, 400)],
                "shared-literal-extras", envs=ex_envs, history=first)
    if ctx.thorough:
        # every single leaf shape on the full grid
        leaves = sorted({G.leaf(ctx.rng) for _ in range(6000)})
        full = G.envs()
        for k in range(0, len(leaves), 300):
            check_texts(ctx, leaves[k:k + 300], "leaf-universe-full-grid", envs=full)


def search(ctx: core.Ctx) -> None:
    seeds = []
    for d in ctx.disagreements:
        i = d["input"]
        seeds.append(i["marker"] if isinstance(i, dict) else i)
    seeds = [s for s in seeds if isinstance(s, str)][:300]
    if seeds:
        check_texts(ctx, seeds, "search-disagreeing", envs=G.envs())
    if not ctx.violations:
        leaves = sorted({G.leaf(ctx.rng) for _ in range(4000)})
        for k in range(0, len(leaves), 300):
            check_texts(ctx, leaves[k:k + 300], "search-leaves", envs=G.envs(extra_sets=[[], ["a"], ["a", "foo-bar"]]))
            if ctx.violations:
                return
        texts = gen_texts(ctx, 6000)
        for k in range(0, len(texts), 1500):
            check_texts(ctx, texts[k:k + 1500], "search-gen")
            if ctx.violations:
                return


def replay(ctx: core.Ctx, payload: dict[str, Any]) -> bool:
    w = payload.get("witness", payload)
    before = len(ctx.violations)
    envs = [w["env"]] if "env" in w else G.envs()
    hist = [h for h in w.get("history", []) if isinstance(h, str)]
    check_texts(ctx, hist + [w["marker"]], "replay", envs=envs, history=hist or None)
    return len(ctx.violations) > before
