"""C16 — string constraints (platform, extras) form a sound set algebra."""
from __future__ import annotations

import itertools
from typing import Any

from . import core

PROP = "C16"
LEAN_MODULE = "PoetryVerif.Props.C16"
RULE = ("pairs of constraint texts with 1-3 '||' groups of 1-3 clauses (operators ==, !=, bare, =; varied spacing, | and ||) over "
        "the alphabet a,b,c,d, for the generic and for the `extra` parser; probes = every mentioned value + 2 unseen ones "
        "(generic) / every subset of the mentioned extras, with and without an unseen one (extra); a share of operands are "
        "left folds of intersect/union/invert over parsed texts so that algebra results are fed back in; quick tier also exhaustive over all constraints with <=2 groups of <=2 clauses over 2 values, all ordered pairs, both variants; an in/not-in stream "
        "(substring-related values, probes incl. concatenations; correspondence only; thorough: exhaustive over 222 four-operator constraints, all ordered pairs) and a malformed token-soup stream. Thorough: exhaustive over all "
        "constraints with <=2 groups of <=2 clauses (the clauses of a group taken as a set) over 3 values, all ordered pairs, both variants. "
        "A case is non-trivial when both operands parse; distinct = distinct (variant, a, b).")
ASSUMPTIONS = [
    "Python `re` (split/match, IGNORECASE), str.strip and set/frozenset hashing are trusted; the model's hand tokeniser is tied to them by the parse and malformed streams",
    "the property states the ==/!= fragment; the four-operator theorems (g4_*) go beyond it and exclude the test-pinned `not in` U `not in` -> Any call site (known finding notin-union-notin-any)",
    "the `extra` semantics is the one of markers.py:SingleMarker.validate (== : member of the active set, != : not a member), without name canonicalisation",
    "operands of the in/not-in and malformed streams are compared model-vs-code but not judged by the oracle (outside the ==/!= fragment)",
]

SEP = "\x01"
VALS = ["a", "b", "c", "d"]
UNSEEN = ["z", "a b"]
ERRS = {"ValueError": "value", "KeyError": "key", "NotImplementedError": "notimplemented", "AssertionError": "assertion",
        "AttributeError": "attribute", "TypeError": "type", "IndexError": "index", "RecursionError": "recursion"}


def G() -> Any:
    import poetry.core.constraints.generic as g
    from poetry.core.constraints.generic.constraint import ExtraConstraint
    from poetry.core.constraints.generic.multi_constraint import ExtraMultiConstraint
    g.ExtraConstraint = ExtraConstraint  # type: ignore[attr-defined]
    g.ExtraMultiConstraint = ExtraMultiConstraint  # type: ignore[attr-defined]
    return g


def errname(e: BaseException) -> str:
    for cls in type(e).__mro__:
        if cls.__name__ in ERRS:
            return ERRS[cls.__name__]
    return type(e).__name__


# ----------------------------------------------------------------------------------------
# adapters on the real code
# ----------------------------------------------------------------------------------------

def dump(c: Any) -> str:
    g = G()
    t = type(c)
    if t is g.AnyConstraint:
        return "any"
    if t is g.EmptyConstraint:
        return "empty"
    if t is g.Constraint or t is g.ExtraConstraint:
        return ("XC(" if t is g.ExtraConstraint else "C(") + c.operator + "|" + core.enc(c.value) + ")"
    if t is g.MultiConstraint or t is g.ExtraMultiConstraint:
        return ("XM[" if t is g.ExtraMultiConstraint else "M[") + ";".join(dump(x) for x in c.constraints) + "]"
    if t is g.UnionConstraint:
        return "U[" + ";".join(dump(x) for x in c.constraints) + "]"
    return "?" + t.__name__


def den_extra(c: Any, active: frozenset[str]) -> bool:
    """reference meaning of an `extra` constraint for a set of active extras"""
    g = G()
    if isinstance(c, g.AnyConstraint):
        return True
    if isinstance(c, g.EmptyConstraint):
        return False
    if isinstance(c, g.UnionConstraint):
        return any(den_extra(x, active) for x in c.constraints)
    if isinstance(c, g.MultiConstraint):
        return all(den_extra(x, active) for x in c.constraints)
    if c.operator == "==":
        return c.value in active
    if c.operator == "!=":
        return c.value not in active
    return False


def probe_set(p: str) -> frozenset[str]:
    return frozenset(x for x in p.split(",") if x)


def member(x: bool, c: Any, p: str) -> bool:
    if x:
        return den_extra(c, probe_set(p))
    return bool(c.allows(G().Constraint(p)))


def bits(x: bool, c: Any, probes: list[str]) -> str:
    out = []
    for p in probes:
        try:
            out.append("1" if member(x, c, p) else "0")
        except Exception:  # noqa: BLE001
            out.append("E")
    return "".join(out)


def parse(x: bool, s: str) -> Any:
    g = G()
    return (g.parse_extra_constraint if x else g.parse_constraint)(s)


def eval_operand(x: bool, s: str) -> Any:
    parts = s.split(SEP)
    cur = parse(x, parts[0])
    i = 1
    while i < len(parts):
        o = parts[i]
        if o == "n":
            cur = cur.invert()
            i += 1
            continue
        if i + 1 >= len(parts):
            raise RuntimeError("bad chain")
        b = parse(x, parts[i + 1])
        cur = {"i": cur.intersect, "u": cur.union, "d": cur.difference}[o](b)
        i += 2
    return cur


def report(x: bool, c: Any, probes: list[str]) -> list[str]:
    return [str(c), dump(c), ("1" if c.is_any() else "0") + ("1" if c.is_empty() else "0"), bits(x, c, probes)]


def pybool(fn: Any) -> str:
    try:
        return "1" if fn() else "0"
    except Exception as e:  # noqa: BLE001
        return "!" + errname(e)


def impl_parse(x: bool, s: str, probes: list[str]) -> list[str]:
    try:
        c = eval_operand(x, s)
    except Exception as e:  # noqa: BLE001
        return ["err", errname(e)]
    return ["ok", *report(x, c, probes)]


def impl_all(x: bool, a: str, b: str, probes: list[str]) -> tuple[list[str], Any]:
    """mirror of the driver's `all` op; also returns the live objects for the oracle"""
    try:
        p = eval_operand(x, a)
        q = eval_operand(x, b)
    except Exception as e:  # noqa: BLE001
        return ["perr", errname(e)], None
    out = ["ok"]
    objs: dict[str, Any] = {"a": p, "b": q}
    for name, fn in (("intersect", lambda: p.intersect(q)), ("union", lambda: p.union(q)), ("invert", lambda: p.invert())):
        try:
            r = fn()
            objs[name] = r
            out += ["ok", *report(x, r, probes)]
        except Exception as e:  # noqa: BLE001
            objs[name] = e
            out += ["err", errname(e), "-", "-", "-"]
    out += [pybool(lambda: p.allows_all(q)), pybool(lambda: p.allows_any(q)), pybool(lambda: p == q),
            pybool(lambda: hash(p) == hash(q)), pybool(lambda: p.allows(q))]
    return out, objs


# ----------------------------------------------------------------------------------------
# property oracle on the real code
# ----------------------------------------------------------------------------------------

def oracle(x: bool, a: str, b: str, probes: list[str], objs: dict[str, Any]) -> list[tuple[str, str]]:
    """All ways the property fails for the pair (a, b) on `probes`. -> [(kind, description)]"""
    bad: list[tuple[str, str]] = []
    p, q = objs["a"], objs["b"]
    va = [member(x, p, v) for v in probes]
    vb = [member(x, q, v) for v in probes]
    name = "extra " if x else ""

    def flags(label: str, c: Any, vec: list[bool]) -> None:
        if c.is_any() and not all(vec):
            bad.append((label + ":is_any", f"{name}{label} {c!r} reports is_any but rejects {probes[vec.index(False)]!r}"))
        if c.is_empty() and any(vec):
            bad.append((label + ":is_empty", f"{name}{label} {c!r} reports is_empty but admits {probes[vec.index(True)]!r}"))

    flags("a", p, va)
    flags("b", q, vb)
    for op, spec in (("intersect", lambda s, t: s and t), ("union", lambda s, t: s or t)):
        r = objs[op]
        if isinstance(r, BaseException):
            bad.append((op + ":raises", f"{name}({a!r}).{op}({b!r}) raised {type(r).__name__}: {r}"))
            continue
        try:
            vr = [member(x, r, v) for v in probes]
        except Exception as e:  # noqa: BLE001
            bad.append((op + ":unusable", f"{name}({a!r}).{op}({b!r}) = {r!r} cannot be evaluated: {type(e).__name__}"))
            continue
        for v, s, t, u in zip(probes, va, vb, vr):
            if u != spec(s, t):
                bad.append((op + ":inexact", f"{name}({a!r}).{op}({b!r}) = {r!r} admits {v!r}: {u}, operands: {s}, {t}"))
                break
        flags(op, r, vr)
    r = objs["invert"]
    if isinstance(r, BaseException):
        if not isinstance(r, (ValueError, NotImplementedError)):
            bad.append(("invert:raises", f"{name}({a!r}).invert() raised {type(r).__name__}: {r}"))
    else:
        try:
            vr = [member(x, r, v) for v in probes]
            for v, s, u in zip(probes, va, vr):
                if u == s:
                    bad.append(("invert:inexact", f"{name}({a!r}).invert() = {r!r} admits {v!r}: {u}, operand: {s}"))
                    break
            flags("invert", r, vr)
        except Exception as e:  # noqa: BLE001
            bad.append(("invert:unusable", f"{name}({a!r}).invert() = {r!r} cannot be evaluated: {type(e).__name__}"))
    if not x:
        try:
            if p.allows_all(q) and any(t and not s for s, t in zip(va, vb)):
                v = next(v for v, s, t in zip(probes, va, vb) if t and not s)
                bad.append(("allows_all", f"({a!r}).allows_all({b!r}) is True but {v!r} is admitted by the second only"))
            if not p.allows_any(q) and any(s and t for s, t in zip(va, vb)):
                v = next(v for v, s, t in zip(probes, va, vb) if s and t)
                bad.append(("allows_any", f"({a!r}).allows_any({b!r}) is False but both admit {v!r}"))
        except Exception as e:  # noqa: BLE001
            bad.append(("pred:raises", f"allows_all/allows_any of ({a!r}, {b!r}) raised {type(e).__name__}: {e}"))
    return bad


# ----------------------------------------------------------------------------------------
# generators
# ----------------------------------------------------------------------------------------

def gen_clause(rnd: Any, vals: list[str]) -> str:
    op = rnd.choice(["==", "!=", "!=", "", "", "="] if rnd.random() < 0.9 else ["== ", "!= ", "=="])
    return op + rnd.choice(vals)


def gen_text(rnd: Any, vals: list[str] = VALS) -> str:
    groups = []
    for _ in range(rnd.randint(1, 3)):
        comma = rnd.choice([",", ", ", " , ", ","])
        groups.append(comma.join(gen_clause(rnd, vals) for _ in range(rnd.randint(1, 3))))
    return rnd.choice([" || ", "||", " | ", " || "]).join(groups)


def gen_operand(rnd: Any, chain: float) -> str:
    s = gen_text(rnd)
    while rnd.random() < chain:
        o = rnd.choice(["i", "u", "u", "n"])
        s = s + SEP + ("n" if o == "n" else o + SEP + gen_text(rnd))
    return s


IN_VALS = ["a", "ab", "abc", "b", "bc", "x"]


def gen_in_text(rnd: Any) -> str:
    groups = []
    for _ in range(rnd.randint(1, 2)):
        cl = []
        for _ in range(rnd.randint(1, 3)):
            v = rnd.choice(IN_VALS)
            k = rnd.random()
            if k < 0.3:
                cl.append(f"'{v}' in")
            elif k < 0.6:
                cl.append(f'"{v}" not in')
            else:
                cl.append(rnd.choice(["==", "!=", ""]) + v)
        groups.append(", ".join(cl))
    return " || ".join(groups)


SOUP = ["==", "!=", "=", "!", "|", "||", ",", " ", "  ", "a", "b", "c", "*", "'a' in", '"b" not in', "'", '"', "in", "not in",
        "IN", "Not In", "\n", "\t", "<", ">", "~", "'a b' in", "not\tin", " ", "ın", "'c'in"]


def gen_soup(rnd: Any) -> str:
    return "".join(rnd.choice(SOUP) for _ in range(rnd.randint(0, 7)))


def mentioned(texts: list[str]) -> list[str]:
    seen = []
    for v in VALS + IN_VALS:
        if any(v in t for t in texts) and v not in seen:
            seen.append(v)
    return seen


def probes_for(x: bool, a: str, b: str) -> list[str]:
    vals = mentioned([a, b])
    if not x:
        if "'" in a or '"' in a or "'" in b or '"' in b:
            # substring semantics: concatenations of mentioned values separate `in` / `not in` atoms
            cat = [p + q for p in vals for q in vals if p != q][:12]
            return vals + [c for c in cat if c not in vals] + UNSEEN + [""]
        return vals + UNSEEN
    vals = [v for v in vals if "," not in v][:4]
    out = []
    for r in range(len(vals) + 1):
        for sub in itertools.combinations(vals, r):
            out.append(",".join(sub))
            out.append(",".join((*sub, "z")))
    return out


# ----------------------------------------------------------------------------------------
# streams
# ----------------------------------------------------------------------------------------

DUP_KEY = "extra-multi-duplicate-value"


def dup_multi(c: Any) -> bool:
    g = G()
    if isinstance(c, g.MultiConstraint):
        vals = [a.value for a in c.constraints]
        return len(set(vals)) != len(vals)
    if isinstance(c, g.UnionConstraint):
        return any(dup_multi(m) for m in c.constraints)
    return False


def cls(d: str) -> str:
    return d.split("[")[0].split("(")[0]


def is_plain(s: str) -> bool:
    return SEP not in s


def check_pairs(ctx: core.Ctx, x: bool, pairs: list[tuple[str, str]], stream: str, judge: bool = True) -> None:
    pre = "x" if x else "g"
    reqs = []
    plist = []
    for a, b in pairs:
        pr = probes_for(x, a, b)
        plist.append(pr)
        reqs.append(core.line(pre + "all", a, b, *pr))
    model = core.run_driver(reqs)
    dis = 0
    for (a, b), pr, m in zip(pairs, plist, model):
        i, objs = impl_all(x, a, b, pr)
        ok = i[0] == "ok"
        ctx.case(f"{pre}:{a}\0{b}", nontrivial=ok,
                 sample={"variant": "extra" if x else "generic", "a": a, "b": b, "probes": pr, "impl": i} if ok and len(a) + len(b) > 14 else None)
        if ok:
            ctx.count(f"{stream}:intersect:" + (cls(i[3]) if i[1] == "ok" else "err-" + i[2]))
            ctx.count(f"{stream}:union:" + (cls(i[8]) if i[6] == "ok" else "err-" + i[7]))
            ctx.count(f"{stream}:invert:" + (cls(i[13]) if i[11] == "ok" else "err-" + i[12]))
            ctx.count(f"{stream}:allows_all={i[16]} allows_any={i[17]}")
        else:
            ctx.count(f"{stream}:operand-" + i[1])
        if i != m:
            dis += 1
            ctx.disagree(stream, {"variant": pre, "a": a, "b": b, "probes": pr}, i, m)
        if ok:
            fails = oracle(x, a, b, pr, objs)
            if fails:
                kind, what = fails[0]
                if judge and is_plain(a) and is_plain(b):
                    ctx.violate(f"{pre}:{kind}:{a!r},{b!r}", what, {"op": "pair", "x": x, "a": a, "b": b, "probes": pr})
                elif judge and any(dup_multi(objs[k]) for k in ("a", "b")):
                    # one class, one key: an ExtraMultiConstraint mentioning a value twice (only `invert` of a union
                    # with a repeated member builds it) breaks ExtraMultiConstraint.union's two-member shortcut
                    ctx.violate(DUP_KEY, what, {"op": "pair", "x": x, "a": a, "b": b, "probes": pr})
                elif judge:
                    ctx.violate(f"{pre}:chain:{kind}:{a!r},{b!r}", what, {"op": "pair", "x": x, "a": a, "b": b, "probes": pr})
                else:
                    ctx.count(f"{stream}:outside-quantifier-oracle-fail:{kind}")
                    if len(ctx.notes) < 8:
                        ctx.notes.append("not judged (in/not-in or malformed-stream operands): " + what)
    ctx.stream(stream, len(pairs), dis)


def check_parse(ctx: core.Ctx, x: bool, texts: list[str], stream: str) -> None:
    pre = "x" if x else "g"
    plist = [probes_for(x, t, "") for t in texts]
    model = core.run_driver([core.line(pre + "parse", t, *pr) for t, pr in zip(texts, plist)])
    dis = 0
    for t, pr, m in zip(texts, plist, model):
        i = impl_parse(x, t, pr)
        ok = i[0] == "ok"
        ctx.case(f"{pre}p:{t}", nontrivial=ok)
        ctx.count(f"{stream}:" + (i[2].split("[")[0].split("(")[0] if ok else "err-" + i[1]))
        if i != m:
            dis += 1
            ctx.disagree(stream, {"variant": pre, "text": t, "probes": pr}, i, m)
    ctx.stream(stream, len(texts), dis)


CORPUS = [
    ("!=a, !=b", "!=a, !=c"), ("!=a,!=b" + SEP + "u" + SEP + "!=a,!=c", "a"), ("a || a" + SEP + "n", "a"),
    ("a,b || c", "c"), ("!=a", "a || b"), ("!=a, !=b", "a || b"), ("a || b", "b || a"), ("a || b || c", "a || b"),
    ("*", "a"), ("a", "*"), ("!=a || !=b", "a"), ("a || !=a", "b"), ("!=", "=="), ("= =a", "a"), ("a", "!=a"),
    ("!=a,!=b,!=c", "!=b"), ("!=a,!=b || c", "!=c,!=a || a"), ("a,!=b", "!=a,b"), ("a,b", "!=a"), ("a,b", "a,!=b"),
    ("a || b", "!=a,!=b"), ("a,!=b || c", "a,!=b"), ("!=a,!=b", "!=b,!=a"), ("!=a,!=b || !=b,!=a", "!=a"),
]
CORPUS_PARSE = ["*", "", " ", "a", "==a", "= a", "!=a", "!==a", "a b", "'a' in", '"a b" not in', "'a' IN", "'a' not\tin",
                "'a' in\n", "a,", ",a", "a||", "|a", "a|b", "a | | b", "'a'' in", "''a' in", "' a ' in", "'a\nb' in", "a,b || c",
                "!=", "==", "=", "=!a", "a  ||  b", "a\t,\tb", "'a' in, b", "\"'a' in\" in", "*,a", "a || *", "ın", "'a' ın"]


def correspondence(ctx: core.Ctx) -> None:
    rnd = ctx.rng
    for x in (False, True):
        v = "x" if x else "g"
        check_parse(ctx, x, CORPUS_PARSE, f"{v}-corpus-parse")
        check_pairs(ctx, x, CORPUS, f"{v}-corpus")
        if not ctx.thorough:
            # exhaustive small scope in the quick tier: <=2 groups of <=2 clauses over 2 values, all ordered pairs
            u2 = universe(["a", "b"])
            check_pairs(ctx, x, [(p, q) for p in u2 for q in u2], f"{v}-exhaustive-2")
        n = ctx.budget(4000, 30000)
        pairs = [(gen_text(rnd), gen_text(rnd)) for _ in range(n)]
        check_pairs(ctx, x, pairs, f"{v}-gen")
        chains = [(gen_operand(rnd, 0.5), gen_operand(rnd, 0.35)) for _ in range(ctx.budget(2500, 15000))]
        check_pairs(ctx, x, chains, f"{v}-chain")
        soup = [gen_soup(rnd) for _ in range(ctx.budget(3000, 20000))]
        soup = [s for s in soup if core.valid_utf8(s) and SEP not in s]
        check_parse(ctx, x, soup, f"{v}-malformed")
        ok_soup = [s for s in soup if impl_parse(x, s, [])[0] == "ok"][: ctx.budget(300, 2000)]
        if ok_soup:
            check_pairs(ctx, x, [(rnd.choice(ok_soup), rnd.choice(ok_soup)) for _ in range(ctx.budget(600, 6000))],
                        f"{v}-malformed-pairs", judge=False)
    inp = [(gen_in_text(rnd), gen_in_text(rnd)) for _ in range(ctx.budget(2500, 25000))]
    check_pairs(ctx, False, inp, "g-in", judge=False)
    if ctx.thorough:
        uin = universe_in()
        pairs = [(p, q) for p in uin for q in uin]
        for k in range(0, len(pairs), 50000):
            check_pairs(ctx, False, pairs[k:k + 50000], "g-in-exhaustive", judge=False)
        uni = universe()
        for x in (False, True):
            v = "x" if x else "g"
            pairs = [(a, b) for a in uni for b in uni]
            for k in range(0, len(pairs), 50000):
                check_pairs(ctx, x, pairs[k:k + 50000], f"{v}-exhaustive")


def universe_in() -> list[str]:
    """four operators over values with substring relations: one clause, two clauses, two one-clause groups"""
    clauses = [f(v) for v in ["a", "ab", "b"] for f in (lambda v: v, lambda v: "!=" + v, lambda v: f"'{v}' in", lambda v: f"'{v}' not in")]
    two = [c1 + ", " + c2 for i, c1 in enumerate(clauses) for c2 in clauses[i + 1:]]
    return clauses + two + [c1 + " || " + c2 for c1 in clauses for c2 in clauses]


def universe(vals: list[str] | None = None) -> list[str]:
    """all constraints with <=2 groups of <=2 clauses over 3 values (the clauses of a group as a set)"""
    clauses = [op + v for v in (vals or ["a", "b", "c"]) for op in ["", "!="]]
    groups = list(clauses) + [c1 + "," + c2 for i, c1 in enumerate(clauses) for c2 in clauses[i + 1:]]
    return groups + [g1 + " || " + g2 for g1 in groups for g2 in groups]


def search(ctx: core.Ctx) -> None:
    """Something broke (proof or correspondence): look harder for a failing input of the property itself."""
    rnd = ctx.rng
    for d in ctx.disagreements[:300]:
        inp = d["input"]
        x = inp.get("variant") == "x"
        texts = [t for t in (inp.get("a"), inp.get("b"), inp.get("text")) if isinstance(t, str)]
        plain = [p for t in texts for p in t.split(SEP) if len(p) > 1 or p not in ("i", "u", "n", "d")]
        pairs = [(a, b) for a in plain for b in plain]
        if pairs:
            check_pairs(ctx, x, pairs[:50], "search-disagreeing")
    if not ctx.violations:
        uni = universe()
        small = [u for u in uni if "||" not in u]
        for x in (False, True):
            check_pairs(ctx, x, [(a, b) for a in small for b in small], "search-small")
            if ctx.violations:
                return
        for x in (False, True):
            pairs = [(rnd.choice(uni), rnd.choice(uni)) for _ in range(60000)]
            check_pairs(ctx, x, pairs, "search-universe")
            if ctx.violations:
                return
        for x in (False, True):
            check_pairs(ctx, x, [(gen_text(rnd), gen_text(rnd)) for _ in range(60000)], "search-gen")


def replay(ctx: core.Ctx, payload: dict[str, Any]) -> bool:
    w = payload.get("witness", payload)
    if w.get("op") != "pair":
        return False
    x, a, b = bool(w["x"]), w["a"], w["b"]
    pr = w.get("probes") or probes_for(x, a, b)
    i, objs = impl_all(x, a, b, pr)
    if i[0] != "ok":
        return False
    fails = oracle(x, a, b, pr, objs)
    for kind, what in fails[:1]:
        if any(dup_multi(objs[k]) for k in ("a", "b")):
            ctx.violate(DUP_KEY, what, w)
        elif is_plain(a) and is_plain(b):
            ctx.violate(f"{'x' if x else 'g'}:{kind}:{a!r},{b!r}", what, w)
        else:
            ctx.violate(f"{'x' if x else 'g'}:chain:{kind}:{a!r},{b!r}", what, w)
    return bool(fails)


def extra_evidence(ctx: core.Ctx) -> dict[str, Any]:
    return {"notes": ctx.notes}
