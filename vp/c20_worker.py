"""C20 worker: executes one workload under one schedule in THIS (fresh) process and prints JSON.

Stand-alone on purpose (no import of vp.core): started as  `python c20_worker.py`  with
PYTHONPATH=<repo>/src, job on stdin:
  {"calls":[{"op":..,"a":..,"b":..},…], "mode":"seq"|"threads", "order":[idx…] (seq),
   "plans":[[idx…],…] (threads: one list per thread), "sched_seed":int, "limit":seconds per call,
   "trace":bool}
Output: {"results":[[thread, idx, text, seconds],…], "timeouts":[idx…], "stacks_empty":bool,
         "stacks":…, "trace":{…}|null, "instrument_errors":[…]}
`text` is the canonical result: "<TypeName>|<str(result)>" or "!<error class>".
"""
from __future__ import annotations

import itertools
import json
import random
import signal
import sys
import threading
import time
from typing import Any

ERRMAP = {"AssertionError": "assertion", "IndexError": "index", "KeyError": "key", "RecursionError": "recursion",
          "AttributeError": "attribute", "TypeError": "type", "NotImplementedError": "notimplemented",
          "RuntimeError": "runtime"}


class CallTimeout(BaseException):
    pass


def errname(e: BaseException) -> str:
    if isinstance(e, ValueError):
        return "value"
    n = type(e).__name__
    if n in ("UnexpectedCharacters", "UnexpectedToken", "UnexpectedEOF", "UnexpectedInput", "LarkError"):
        return "lark"
    return ERRMAP.get(n, n)


def canon(r: Any) -> str:
    if r is None:
        return "None|"
    if isinstance(r, bool):
        return "bool|" + ("1" if r else "0")
    return type(r).__name__ + "|" + str(r)


def run_call(c: dict[str, Any]) -> Any:
    op = c["op"]
    a = c.get("a")
    b = c.get("b")
    if op[0] == "v":
        from poetry.core.constraints.version import Version
        if op == "vparse":
            return Version.parse(a)
    if op[0] == "c":
        from poetry.core.constraints.version import parse_constraint
        if op == "cparse":
            return parse_constraint(a)
        x, y = parse_constraint(a), parse_constraint(b)
        if op == "cint":
            return x.intersect(y)
        if op == "cuni":
            return x.union(y)
        if op == "cdiff":
            return x.difference(y)
        if op == "call":
            return x.allows_all(y)
        if op == "cany":
            return x.allows_any(y)
    if op[0] == "g":
        from poetry.core.constraints.generic import parse_constraint as gparse
        from poetry.core.constraints.generic import parse_extra_constraint as xparse
        p = xparse if op.startswith("gx") else gparse
        if op in ("gparse", "gxparse"):
            return p(a)
        x, y = p(a), p(b)
        if op in ("gint", "gxint"):
            return x.intersect(y)
        if op in ("guni", "gxuni"):
            return x.union(y)
    if op[0] == "m":
        from poetry.core.version.markers import cnf, dnf, parse_marker
        if op == "mparse":
            return parse_marker(a)
        if op == "mval":
            return parse_marker(a).validate(c["env"])
        if op == "minv":
            return parse_marker(a).invert()
        if op == "mcnf":
            return cnf(parse_marker(a))
        if op == "mdnf":
            return dnf(parse_marker(a))
        x, y = parse_marker(a), parse_marker(b)
        if op == "mint":
            return x.intersect(y)
        if op == "muni":
            return x.union(y)
    if op == "req":
        from poetry.core.version.requirements import parse_requirement
        return parse_requirement(a)
    if op == "dep":
        from poetry.core.packages.dependency import Dependency
        d = Dependency.create_from_pep_508(a)
        return d.to_pep_508()
    if op[0] == "p":
        return probe(op, c.get("g", "i"), a, b)
    raise RuntimeError("unknown op " + op)


# ------------------------------------------------------------------------------------------
# probes of detect_recursion: the REAL decorated functions are entered; what happens inside (a nested call with
# the same arguments, an exception passing through) is injected through the module global `dnf` / `cnf` that
# `intersection` / `union` call first.  Inactive (pure delegation) unless the calling thread armed it.
# ------------------------------------------------------------------------------------------

_ptl = threading.local()
PROBE_BARRIER: list[Any] = [None]
_probe_installed = [False]


class ProbeError(Exception):
    pass


def _sync() -> None:
    b = PROBE_BARRIER[0]
    if b is not None:
        try:
            b.wait(timeout=1.0)
        except threading.BrokenBarrierError:
            pass


def install_probe() -> None:
    if _probe_installed[0]:
        return
    _probe_installed[0] = True
    from poetry.core.version import markers as M

    def make(attr: str, which: str) -> None:
        orig = getattr(M, attr)

        def hooked(marker: Any) -> Any:
            st = getattr(_ptl, "active", None)
            if st is not None and st["g"] == which:
                _ptl.active = None
                guarded = M.intersection if which == "i" else M.union
                if st["kind"] == "raise":
                    raise ProbeError()
                _sync()   # every thread of a probe schedule is now inside guarded(x, y) with equal arguments
                for key, args in (("same", st["args"]), ("swapped", st["args"][::-1])):
                    try:
                        guarded(*args)
                        st[key] = "ok"
                    except RecursionError:
                        st[key] = "RecursionError"
                _sync()
            return orig(marker)

        hooked.__name__ = attr
        for k in ("cache_info", "cache_clear", "__wrapped__"):
            if hasattr(orig, k):
                setattr(hooked, k, getattr(orig, k))
        setattr(M, attr, hooked)

    make("dnf", "i")
    make("cnf", "u")


def probe(op: str, g: str, a: str, b: str) -> Any:
    from poetry.core.version import markers as M
    install_probe()
    x, y = M.parse_marker(a), M.parse_marker(b)
    guarded = M.intersection if g == "i" else M.union
    if op == "pcall":
        return guarded(x, y)
    st = {"g": g, "kind": "raise" if op == "praise" else "nest", "args": (x, y)}
    _ptl.active = st
    try:
        r = guarded(x, y)
        outer = canon(r)
    except ProbeError:
        outer = "!ProbeError"
    except RecursionError:
        outer = "!recursion"
    finally:
        fired = getattr(_ptl, "active", None) is None
        _ptl.active = None
    return f"outer={outer} fired={int(fired)} same={st.get('same', '-')} swapped={st.get('swapped', '-')}"


def exec_call(c: dict[str, Any]) -> str:
    try:
        return canon(run_call(c))
    except CallTimeout:
        raise
    except Exception as e:  # noqa: BLE001
        return "!" + errname(e)


# ------------------------------------------------------------------------------------------
# instrumentation (in-process wrapping only; the source tree is not touched)
# ------------------------------------------------------------------------------------------

EV: list[tuple[Any, ...]] = []          # one global event list; list.append is atomic → a linearisation
_counter = itertools.count(1)
_tl = threading.local()
_slot_lock = threading.Lock()
INSTR_ERR: list[str] = []
_tid_index: dict[int, int] = {}


def tid() -> int:
    """small stable number per thread *identity as the code sees it* (threading.get_ident())."""
    i = threading.get_ident()
    n = _tid_index.get(i)
    if n is None:
        n = _tid_index.setdefault(i, next(_counter))
    return n


class Interner:
    """token per equivalence class of hash/== — exactly what a dict (and functools.cache) distinguishes"""

    def __init__(self) -> None:
        self.d: dict[Any, int] = {}

    def tok(self, key: Any) -> int:
        t = self.d.get(key)
        if t is None:
            t = self.d.setdefault(key, next(_counter))
        return t


def install_guard(name: str) -> Any:
    """replace the `call_args` storage of a detect_recursion-decorated function by a recording one"""
    from collections import defaultdict

    from poetry.core.version import markers as M
    decorated = getattr(M, name)
    func = None
    for cell in decorated.__closure__ or ():
        v = cell.cell_contents
        if callable(v) and hasattr(v, "call_args"):
            func = v
    if func is None or not isinstance(func.call_args, defaultdict):
        INSTR_ERR.append(f"guard storage of {name} not found (shape of detect_recursion changed)")
        return None
    interner = Interner()

    class RecList(list):  # type: ignore[type-arg]
        __slots__ = ("owner",)

        def __contains__(self, item: Any) -> bool:
            res = list.__contains__(self, item)
            EV.append(("G", name, "c", self.owner, interner.tok(item), 1 if res else 0, tid()))
            if res:
                # (H1) sampling: was the test answered by a frame that was already on the list when a cached
                # computation that is still running started?  (a "foreign" frame in the sense of Model/ConcTaint.lean)
                idx = list.index(self, item)
                for fname, depths in getattr(_tl, "cstack", ()):
                    if idx < depths.get(name, 0):
                        EV.append(("H", fname, name, idx, depths.get(name, 0), 0))
            return res

        def append(self, item: Any) -> None:
            list.append(self, item)
            EV.append(("G", name, "p", self.owner, interner.tok(item), 0, tid()))

        def pop(self, *a: Any) -> Any:
            try:
                v = list.pop(self, *a)
            except IndexError:
                EV.append(("G", name, "x", self.owner, 0, -1, tid()))
                raise
            EV.append(("G", name, "x", self.owner, interner.tok(v), 0, tid()))
            return v

    class RecDict(defaultdict):  # type: ignore[type-arg]
        def __missing__(self, key: Any) -> Any:
            lst = RecList()
            # owner = the key the code used; mapped to the small number of the thread whose ident it is
            lst.owner = _tid_index.setdefault(key, next(_counter)) if isinstance(key, int) else -1
            self[key] = lst
            return lst

    new = RecDict(list)
    for k, v in func.call_args.items():
        if v:
            INSTR_ERR.append(f"{name}.call_args[{k}] not empty at install time")
    func.call_args = new
    return func


GUARD_FUNCS: dict[str, Any] = {}


def guard_depths() -> dict[str, int]:
    ident = threading.get_ident()
    return {g: len(dict.get(f.call_args, ident, ())) for g, f in GUARD_FUNCS.items()}


CACHED = [
    ("poetry.core.version.markers", "parse_marker"),
    ("poetry.core.version.markers", "cnf"),
    ("poetry.core.version.markers", "dnf"),
    ("poetry.core.version.markers", "_merge_single_markers"),
    ("poetry.core.constraints.version.parser", "parse_constraint"),
    ("poetry.core.constraints.generic.parser", "parse_constraint"),
    ("poetry.core.constraints.generic.parser", "parse_extra_constraint"),
    ("poetry.core.version.requirements", "parse_requirement"),
]


def value_token(vals: Interner, v: Any) -> int:
    return vals.tok(canon(v))


def install_memo(modname: str, attr: str, idx: int) -> None:
    import importlib
    import types
    mod = importlib.import_module(modname)
    cached = getattr(mod, attr)
    fname = ".".join(modname.split(".")[-2:]) + "." + attr
    inner = getattr(cached, "__wrapped__", None)
    if inner is None or not hasattr(cached, "cache_info") or not isinstance(inner, types.FunctionType) or inner.__closure__:
        INSTR_ERR.append(f"{fname}: not a functools cache around a plain function (memoisation changed shape)")
        return
    if hasattr(cached, "cache_clear"):
        cached.cache_clear()  # entries made while importing are outside the trace
    keys, vals = Interner(), Interner()

    def depth_cid() -> int:
        d = getattr(_tl, "depth", 0)
        return tid() * 1000 + d

    orig_inner = types.FunctionType(inner.__code__, inner.__globals__, inner.__name__, inner.__defaults__, None)
    orig_inner.__kwdefaults__ = inner.__kwdefaults__

    def shim_target(*a: Any, **k: Any) -> Any:
        cid = getattr(_tl, "pending", None)
        _tl.pending = None
        synthetic = cid is None or cid[0] != fname
        if synthetic:  # reached through a reference the outer wrapper does not cover
            d = getattr(_tl, "depth", 0)
            _tl.depth = d + 1
            c = tid() * 1000 + d
            EV.append(("M", fname, "c", c, keys.tok((a, tuple(sorted(k.items())))), 0))
        else:
            c = cid[1]
        EV.append(("M", fname, "m", c, 0, 0))
        cs = getattr(_tl, "cstack", None)
        if cs is None:
            cs = _tl.cstack = []
        cs.append((fname, guard_depths()))
        try:
            r = orig_inner(*a, **k)
        except BaseException:
            cs.pop()
            if synthetic:
                _tl.depth -= 1
                EV.append(("M", fname, "e", c, 0, 0))
            raise
        cs.pop()
        vt = value_token(vals, r)
        EV.append(("M", fname, "f", c, vt, 0))
        if synthetic:
            _tl.depth -= 1
            EV.append(("M", fname, "r", c, vt, 0))
        return r

    gname = f"__c20_shim_{idx}__"
    inner.__globals__[gname] = shim_target
    src = f"def _s(*a, **k):\n    return {gname}(*a, **k)\n"
    ns: dict[str, Any] = {}
    exec(compile(src, f"<c20 shim {fname}>", "exec"), ns)  # noqa: S102
    try:
        inner.__code__ = ns["_s"].__code__
        inner.__defaults__ = None
        inner.__kwdefaults__ = None
    except Exception as e:  # noqa: BLE001
        INSTR_ERR.append(f"{fname}: cannot instrument wrapped function: {e}")
        return

    def outer(*a: Any, **k: Any) -> Any:
        d = getattr(_tl, "depth", 0)
        c = tid() * 1000 + d
        _tl.depth = d + 1
        try:
            kt = keys.tok((a, tuple(sorted(k.items()))))
        except Exception:  # unhashable → functools raises TypeError as well
            kt = 0
        EV.append(("M", fname, "c", c, kt, 0))
        _tl.pending = (fname, c)
        try:
            r = cached(*a, **k)
        except BaseException:
            _tl.pending = None
            _tl.depth = d
            EV.append(("M", fname, "e", c, 0, 0))
            raise
        _tl.pending = None
        _tl.depth = d
        EV.append(("M", fname, "r", c, value_token(vals, r), 0))
        return r

    outer.__wrapped__ = inner  # type: ignore[attr-defined]
    outer.cache_info = cached.cache_info  # type: ignore[attr-defined]
    outer.cache_clear = cached.cache_clear  # type: ignore[attr-defined]
    outer.__name__ = attr
    # every module global that is the cached function → the recording wrapper
    for m in list(sys.modules.values()):
        n = getattr(m, "__name__", "")
        if not n.startswith("poetry.core") or "_vendor" in n:
            continue
        g = getattr(m, "__dict__", {})
        for kk, vv in list(g.items()):
            if vv is cached:
                g[kk] = outer


def install_lazy() -> None:
    from lark import Lark

    from poetry.core.version.parser import Parser
    objs = Interner()
    keep: list[Any] = []

    def otok(o: Any) -> int:
        if o is None:
            return 0
        keep.append(o)
        return objs.tok(id(o))

    def pget(self: Any) -> Any:
        with _slot_lock:
            v = self.__dict__.get("_lark")
            EV.append(("L", self.__dict__.setdefault("__c20_id__", next(_counter)), "r", tid(), otok(v), 0))
        return v

    def pset(self: Any, v: Any) -> None:
        with _slot_lock:
            self.__dict__["_lark"] = v
            if "__c20_traced__" in self.__dict__:
                EV.append(("L", self.__dict__.setdefault("__c20_id__", next(_counter)), "w", tid(), otok(v), 0))

    if "_lark" in Parser.__dict__ or "parse" not in Parser.__dict__:
        INSTR_ERR.append("Parser: unexpected class shape")
        return
    Parser._lark = property(pget, pset)  # type: ignore[assignment]

    orig_parse = Parser.parse

    def parser_parse(self: Any, text: str, **kw: Any) -> Any:
        self.__dict__["__c20_traced__"] = True
        prev = getattr(_tl, "parser", None)
        _tl.parser = self.__dict__.setdefault("__c20_id__", next(_counter))
        try:
            return orig_parse(self, text, **kw)
        finally:
            _tl.parser = prev

    Parser.parse = parser_parse  # type: ignore[method-assign]

    orig_open = Lark.open.__func__  # type: ignore[attr-defined]

    def lark_open(cls: Any, *a: Any, **k: Any) -> Any:
        r = orig_open(cls, *a, **k)
        p = getattr(_tl, "parser", None)
        if p is not None:
            EV.append(("L", p, "b", tid(), otok(r), 0))
        return r

    Lark.open = classmethod(lark_open)  # type: ignore[method-assign,assignment]
    orig_lparse = Lark.parse

    def lark_parse(self: Any, *a: Any, **k: Any) -> Any:
        p = getattr(_tl, "parser", None)
        if p is not None:
            EV.append(("L", p, "p", tid(), otok(self), 0))
        return orig_lparse(self, *a, **k)

    Lark.parse = lark_parse  # type: ignore[method-assign]


def install_all() -> list[Any]:
    import poetry.core.constraints.generic  # noqa: F401
    import poetry.core.constraints.version  # noqa: F401
    import poetry.core.packages.dependency  # noqa: F401
    import poetry.core.version.markers  # noqa: F401
    import poetry.core.version.requirements  # noqa: F401
    guards = [install_guard("intersection"), install_guard("union")]
    for gname, g in zip(("intersection", "union"), guards):
        if g is not None:
            GUARD_FUNCS[gname] = g
    for i, (m, a) in enumerate(CACHED):
        try:
            install_memo(m, a, i)
        except Exception as e:  # noqa: BLE001
            INSTR_ERR.append(f"{m}.{a}: {type(e).__name__}: {e}")
    try:
        install_lazy()
    except Exception as e:  # noqa: BLE001
        INSTR_ERR.append(f"lazy: {type(e).__name__}: {e}")
    return guards


def guard_state() -> tuple[bool, dict[str, Any]]:
    """`call_args` of intersection/union as they are now (quiescence post-condition)"""
    out: dict[str, Any] = {}
    ok = True
    try:
        from poetry.core.version import markers as M
        for name in ("intersection", "union"):
            dec = getattr(M, name)
            for cell in getattr(dec, "__closure__", None) or ():
                v = cell.cell_contents
                if callable(v) and hasattr(v, "call_args"):
                    ca = v.call_args
                    items = ca.items() if hasattr(ca, "items") else [("?", ca)]
                    sizes = {str(k): len(lst) for k, lst in items if len(lst)}
                    if sizes:
                        ok = False
                    out[name] = sizes
    except Exception as e:  # noqa: BLE001
        out["error"] = f"{type(e).__name__}: {e}"
    return ok, out


# ------------------------------------------------------------------------------------------
# schedules
# ------------------------------------------------------------------------------------------

def run_seq(calls: list[dict[str, Any]], order: list[int], limit: float) -> tuple[list[Any], list[int]]:
    def _h(*_a: Any) -> None:
        raise CallTimeout()

    signal.signal(signal.SIGALRM, _h)
    res, tos = [], []
    for i in order:
        t0 = time.perf_counter()
        signal.setitimer(signal.ITIMER_REAL, limit)
        try:
            txt = exec_call(calls[i])
        except CallTimeout:
            tos.append(i)
            continue
        finally:
            signal.setitimer(signal.ITIMER_REAL, 0)
        res.append([0, i, txt, round(time.perf_counter() - t0, 4)])
    return res, tos


def run_threads(calls: list[dict[str, Any]], plans: list[list[int]], seed: int, sync_probes: bool = False) -> list[Any]:
    n = len(plans)
    rnd = random.Random(seed)
    if sync_probes:
        PROBE_BARRIER[0] = threading.Barrier(n)
    delays = [rnd.random() * 0.002 if rnd.random() < 0.5 else 0.0 for _ in range(n)]
    spins = [rnd.randrange(0, 2000) for _ in range(n)]
    barrier = threading.Barrier(n)
    out: list[list[Any]] = [[] for _ in range(n)]
    sys.setswitchinterval(1e-6)

    def body(k: int) -> None:
        tid()
        barrier.wait()
        if delays[k]:
            time.sleep(delays[k])
        x = 0
        for _ in range(spins[k]):
            x += 1
        for i in plans[k]:
            t0 = time.perf_counter()
            out[k].append([k + 1, i, exec_call(calls[i]), round(time.perf_counter() - t0, 4)])

    ths = [threading.Thread(target=body, args=(k,), daemon=True) for k in range(n)]
    for t in ths:
        t.start()
    for t in ths:
        t.join()
    sys.setswitchinterval(0.005)
    return [r for lst in out for r in lst]


def main() -> None:
    job = json.loads(sys.stdin.read())
    calls = job["calls"]
    trace = bool(job.get("trace"))
    if trace:
        install_all()
    if job.get("shim") == "swapped_eq":
        # attribution aid ONLY (never used for a verdict run): make SingleMarker equality see the operand order
        from poetry.core.version.markers import SingleMarker
        SingleMarker._key = property(lambda self: (self._name, self._operator, self._value,  # type: ignore[assignment]
                                                   getattr(self, "_swapped_name_value", False)))
    if any(c["op"][0] == "p" for c in calls):
        install_probe()   # after the recording wrappers, so that it hooks whatever `dnf`/`cnf` now are
    if job["mode"] == "seq":
        res, tos = run_seq(calls, job["order"], float(job.get("limit", 2.0)))
    else:
        res, tos = run_threads(calls, job["plans"], int(job.get("sched_seed", 0)), bool(job.get("sync_probes"))), []
    ok, stacks = guard_state()
    out = {"results": res, "timeouts": tos, "stacks_empty": ok, "stacks": stacks,
           "trace": EV if trace else None, "instrument_errors": INSTR_ERR}
    sys.stdout.write(json.dumps(out))


if __name__ == "__main__":
    main()
