"""Shared machinery of the checks: context, PRNG, Lean build + axiom audit, driver batches,
evidence, replays, known findings.  See DESIGN.md §2.4 for the pipeline."""
from __future__ import annotations

import hashlib
import json
import os
import random
import re
import subprocess
import sys
import time
from pathlib import Path
from typing import Any, Callable, Iterable

VERIF = Path(__file__).resolve().parent.parent
REPO = Path(os.environ.get("VERIF_REPO", "/repo"))
LEAN_DIR = Path(os.environ.get("VERIF_LEAN_DIR", str(VERIF / "lean")))  # override only for development in a private copy
DRIVER = LEAN_DIR / ".lake" / "build" / "bin" / "driver"
EVIDENCE_DIR = VERIF / "evidence"
REPLAY_DIR = Path(os.environ.get("VERIF_REPLAY_DIR", str(VERIF / "replays")))
PY = "/venv/bin/python"

ALLOWED_AXIOMS = {"propext", "Classical.choice", "Quot.sound"}
FORBIDDEN_TOKENS = re.compile(
    r"\b(sorry|admit|native_decide|bv_decide|implemented_by|unsafe)\b|^\s*axiom\s|maxHeartbeats\s+0\b",
    re.M,
)

TRUSTED_BASE = [
    "Lean 4.33.0 kernel (lake build; leanchecker re-check in the thorough tier)",
    "axioms allowed per theorem: propext, Classical.choice, Quot.sound (audited by #print axioms on every run)",
    "tools/extract.py (tables + normalize_file_permissions regenerated from /repo on every run)",
    "hand-written model tied to /repo by the differential correspondence of this run (sampling, counts below)",
    "Spec/* formalisations of the references, each tied to packaging / email / zipfile by its own differential stream",
]


def use_repo_source() -> None:
    """Make `import poetry.core` resolve to /repo's working tree."""
    src = str(REPO / "src")
    if src in sys.path:
        sys.path.remove(src)
    sys.path.insert(0, src)
    os.environ["POETRY_CORE_VERIF"] = "1"


# ----------------------------------------------------------------------------------------
# line protocol
# ----------------------------------------------------------------------------------------

_SAFE = set(range(33, 127)) - {ord("%")}


def enc(s: str) -> str:
    if s == "":
        return "%"
    out = []
    for b in s.encode("utf-8", "surrogatepass"):
        out.append(chr(b) if b in _SAFE else "%%%02x" % b)
    return "".join(out)


def dec(s: str) -> str:
    if s == "%":
        return ""
    bs = bytearray()
    i = 0
    while i < len(s):
        if s[i] == "%":
            bs.append(int(s[i + 1 : i + 3], 16))
            i += 3
        else:
            bs.append(ord(s[i]))
            i += 1
    return bs.decode("utf-8", "replace")


def valid_utf8(s: str) -> bool:
    try:
        s.encode("utf-8")
        return True
    except UnicodeEncodeError:
        return False


def line(op: str, *args: str) -> str:
    return "\t".join([op, *[enc(a) for a in args]])


class DriverError(Exception):
    pass


def run_driver(lines: list[str], timeout: float = 600.0) -> list[list[str]]:
    """Pipe request lines to the compiled model driver; return one decoded field list per line."""
    if not lines:
        return []
    if not DRIVER.exists():
        raise DriverError("driver executable missing (build failed?)")
    data = ("\n".join(lines) + "\n").encode("ascii")
    p = subprocess.run([str(DRIVER)], input=data, capture_output=True, timeout=timeout)
    if p.returncode != 0:
        raise DriverError(f"driver exited {p.returncode}: {p.stderr.decode()[:400]}")
    out = p.stdout.decode("ascii", "replace").split("\n")
    if out and out[-1] == "":
        out.pop()
    if len(out) != len(lines):
        raise DriverError(f"driver answered {len(out)} lines for {len(lines)} requests: {p.stderr.decode()[:300]}")
    return [[dec(f) for f in ln.split("\t")] for ln in out]


def run_driver_split(lines: list[str], timeout: float = 240.0, single_timeout: float = 4.0) -> list[list[str]]:
    """Like run_driver, but with a per-request clock: the driver is kept as a session (one request written, one reply awaited);
    a request that does not answer within `single_timeout` seconds is answered `["err", "timeout"]` and the driver is
    restarted.  The model has no clock of its own (the real code memoises cnf/dnf, the model recomputes them), callers count
    these and never treat them as a verdict.  `timeout` is kept for signature compatibility."""
    import select
    if not lines:
        return []
    if not DRIVER.exists():
        raise DriverError("driver executable missing (build failed?)")
    out: list[list[str]] = []
    proc = None

    def start() -> subprocess.Popen:  # type: ignore[type-arg]
        return subprocess.Popen([str(DRIVER)], stdin=subprocess.PIPE, stdout=subprocess.PIPE, stderr=subprocess.DEVNULL)

    try:
        proc = start()
        buf = b""
        for ln in lines:
            assert proc.stdin is not None and proc.stdout is not None
            try:
                proc.stdin.write(ln.encode("ascii") + b"\n")
                proc.stdin.flush()
            except BrokenPipeError as e:
                raise DriverError("driver died: " + str(e)) from e
            deadline = time.time() + single_timeout
            reply = None
            while True:
                nl = buf.find(b"\n")
                if nl >= 0:
                    reply, buf = buf[:nl], buf[nl + 1:]
                    break
                left = deadline - time.time()
                if left <= 0:
                    break
                r, _, _ = select.select([proc.stdout], [], [], left)
                if not r:
                    break
                chunk = os.read(proc.stdout.fileno(), 1 << 16)
                if not chunk:
                    raise DriverError("driver closed its output")
                buf += chunk
            if reply is None:
                proc.kill()
                proc.wait()
                proc = start()
                buf = b""
                out.append(["err", "timeout"])
            else:
                out.append([dec(f) for f in reply.decode("ascii", "replace").split("\t")])
    finally:
        if proc is not None:
            try:
                proc.stdin.close()  # type: ignore[union-attr]
            except Exception:  # noqa: BLE001
                pass
            proc.kill()
            proc.wait()
    return out


# ----------------------------------------------------------------------------------------
# Lean build + audit
# ----------------------------------------------------------------------------------------

class BuildResult:
    def __init__(self) -> None:
        self.extract_ok = True
        self.extract_msg = ""
        self.build_ok = True
        self.driver_ok = True
        self.log = ""
        self.failed_decls: list[str] = []
        self.obligations: list[str] = []
        self.discharged: list[str] = []
        self.axiom_violations: dict[str, list[str]] = {}
        self.forbidden: list[str] = []
        self.seconds = 0.0

    @property
    def proofs_ok(self) -> bool:
        return (
            self.extract_ok
            and self.build_ok
            and not self.failed_decls
            and not self.axiom_violations
            and not self.forbidden
            and set(self.obligations) == set(self.discharged)
            and bool(self.obligations)
        )

    def broken_summary(self) -> list[str]:
        out = []
        if not self.extract_ok:
            out.append("extract: " + self.extract_msg)
        if not self.build_ok:
            out.append("lake build failed; failing declarations: " + (", ".join(self.failed_decls) or "(see log)"))
        for t, ax in self.axiom_violations.items():
            out.append(f"theorem {t} depends on non-standard axioms {ax}")
        for f in self.forbidden:
            out.append("forbidden token: " + f)
        missing = sorted(set(self.obligations) - set(self.discharged))
        if missing:
            out.append("obligations not discharged: " + ", ".join(missing))
        return out


def _run(cmd: list[str], cwd: Path, timeout: float) -> tuple[int, str]:
    try:
        p = subprocess.run(cmd, cwd=str(cwd), capture_output=True, text=True, timeout=timeout)
        return p.returncode, p.stdout + p.stderr
    except subprocess.TimeoutExpired as e:
        return 124, f"timeout after {timeout}s: {e}"


def theorem_names(module_file: Path) -> list[str]:
    """Property theorems declared in a Props file (namespace-qualified)."""
    names: list[str] = []
    ns: list[str] = []
    for ln in module_file.read_text().splitlines():
        m = re.match(r"\s*namespace\s+(\S+)", ln)
        if m:
            ns.append(m.group(1))
            continue
        m = re.match(r"\s*end\s+(\S+)", ln)
        if m and ns and ns[-1] == m.group(1):
            ns.pop()
            continue
        m = re.match(r"\s*(?:@\[[^\]]*\]\s*)?theorem\s+([A-Za-z_][\w.'!?]*)", ln)
        if m:
            names.append(".".join(ns + [m.group(1)]))
    return names


def import_cone(module: str) -> list[Path]:
    """All PoetryVerif source files transitively imported by `module`."""
    seen: dict[str, Path] = {}
    todo = [module]
    while todo:
        mod = todo.pop()
        if mod in seen or not mod.startswith("PoetryVerif"):
            continue
        f = LEAN_DIR / (mod.replace(".", "/") + ".lean")
        if not f.exists():
            continue
        seen[mod] = f
        for ln in f.read_text().splitlines():
            m = re.match(r"\s*import\s+(\S+)", ln)
            if m:
                todo.append(m.group(1))
    return list(seen.values())


def strip_comments(text: str) -> str:
    text = re.sub(r"/-.*?-/", "", text, flags=re.S)
    text = re.sub(r"--.*", "", text)
    return text


def lean_build(module: str, want_driver: bool = True) -> BuildResult:
    """extract → lake build <module> (+driver) → forbidden-token grep → #print axioms audit."""
    t0 = time.time()
    r = BuildResult()
    rc, out = _run([PY, str(VERIF / "tools" / "extract.py")], VERIF, 120)
    r.log += out
    if rc != 0:
        r.extract_ok = False
        r.extract_msg = out.strip()[-400:]
    props_file = LEAN_DIR / (module.replace(".", "/") + ".lean")
    r.obligations = theorem_names(props_file)
    targets = [module] + (["driver"] if want_driver else [])
    rc, out = _run(["lake", "build", *targets], LEAN_DIR, 3000)
    r.log += out
    if rc != 0:
        # driver may still be fine: try separately
        rc_m, out_m = _run(["lake", "build", module], LEAN_DIR, 3000)
        r.build_ok = rc_m == 0
        if want_driver:
            rc_d, out_d = _run(["lake", "build", "driver"], LEAN_DIR, 3000)
            r.driver_ok = rc_d == 0
            r.log += out_d
        if not r.build_ok:
            r.failed_decls = failing_decls(out_m)
    for f in import_cone(module):
        for m in FORBIDDEN_TOKENS.finditer(strip_comments(f.read_text())):
            r.forbidden.append(f"{f.name}: {m.group(0).strip()}")
    if r.build_ok:
        audit = "import " + module + "\n" + "\n".join(f"#print axioms {n}" for n in r.obligations) + "\n"
        af = LEAN_DIR / ".lake" / f"audit_{module.split('.')[-1]}.lean"
        af.parent.mkdir(exist_ok=True)
        af.write_text(audit)
        rc, out = _run(["lake", "env", "lean", str(af)], LEAN_DIR, 1200)
        r.log += out
        # (a theorem name may itself end in primes: `foo'`)
        for m in re.finditer(r"'([^\s']+'*)' depends on axioms: \[([^\]]*)\]", out):
            axs = [a.strip() for a in m.group(2).replace("\n", " ").split(",") if a.strip()]
            bad = [a for a in axs if a not in ALLOWED_AXIOMS]
            if bad:
                r.axiom_violations[m.group(1)] = bad
            else:
                r.discharged.append(m.group(1))
        for m in re.finditer(r"'([^\s']+'*)' does not depend on any axioms", out):
            r.discharged.append(m.group(1))
        if rc != 0 and not r.discharged:
            r.build_ok = False
            r.failed_decls = failing_decls(out)
    r.seconds = time.time() - t0
    return r


def failing_decls(log: str) -> list[str]:
    decls: list[str] = []
    for m in re.finditer(r"error: (\S+?\.lean):(\d+):\d+", log):
        path, ln = m.group(1), int(m.group(2))
        f = Path(path)
        if not f.is_absolute():
            f = LEAN_DIR / path
        name = f"{f.name}:{ln}"
        try:
            lines = f.read_text().splitlines()
            for i in range(min(ln, len(lines)) - 1, -1, -1):
                mm = re.match(r"\s*(?:@\[[^\]]*\]\s*)?(theorem|lemma|def|instance|example)\s+([A-Za-z_][\w.'!?]*)?", lines[i])
                if mm:
                    name = f"{f.name}:{mm.group(2) or 'example'}"
                    break
        except OSError:
            pass
        if name not in decls:
            decls.append(name)
    return decls


# ----------------------------------------------------------------------------------------
# check context
# ----------------------------------------------------------------------------------------

class Violation:
    def __init__(self, key: str, what: str, witness: Any, found_input: bool = True) -> None:
        self.key = key
        self.what = what
        self.witness = witness
        self.found_input = found_input


class Ctx:
    def __init__(self, prop: str, tier: str, seed: int) -> None:
        self.prop = prop
        self.tier = tier
        self.seed = seed
        self.rng = random.Random(f"{prop}-{seed}")
        self.t0 = time.time()
        self.evaluations = 0
        self.nontrivial: set[str] = set()
        self.samples: list[Any] = []
        self.dist: dict[str, int] = {}
        self.notes: list[str] = []
        self.disagreements: list[dict[str, Any]] = []
        self.violations: list[Violation] = []
        self.timeouts = 0
        self.streams: dict[str, dict[str, int]] = {}

    @property
    def thorough(self) -> bool:
        return self.tier == "thorough"

    def budget(self, quick: int, thorough: int) -> int:
        return thorough if self.thorough else quick

    def count(self, key: str, n: int = 1) -> None:
        self.dist[key] = self.dist.get(key, 0) + n

    def stream(self, name: str, cases: int, disagreements: int) -> None:
        s = self.streams.setdefault(name, {"cases": 0, "disagreements": 0})
        s["cases"] += cases
        s["disagreements"] += disagreements

    def case(self, sig: str, nontrivial: bool = True, sample: Any = None) -> None:
        self.evaluations += 1
        if nontrivial:
            self.nontrivial.add(hashlib.blake2b(sig.encode("utf-8", "replace"), digest_size=8).hexdigest())
        if sample is not None and len(self.samples) < 12:
            self.samples.append(sample)

    def disagree(self, stream: str, inp: Any, impl: Any, model: Any) -> None:
        self.disagreements.append({"stream": stream, "input": inp, "impl": impl, "model": model})

    def violate(self, key: str, what: str, witness: Any) -> None:
        if not any(v.key == key for v in self.violations):
            self.violations.append(Violation(key, what, witness))


def load_known() -> list[dict[str, Any]]:
    f = VERIF / "known_findings.json"
    if not f.exists():
        return []
    return json.loads(f.read_text()).get("findings", [])


def known_keys(prop: str) -> dict[str, dict[str, Any]]:
    return {e["key"]: e for e in load_known() if e["property"] == prop and e.get("status") == "known"}


def write_replay(prop: str, payload: dict[str, Any]) -> Path:
    REPLAY_DIR.mkdir(exist_ok=True, parents=True)
    blob = json.dumps(payload, sort_keys=True, ensure_ascii=True, default=str)
    h = hashlib.sha256(blob.encode()).hexdigest()[:12]
    p = REPLAY_DIR / f"{prop}-{h}.json"
    p.write_text(json.dumps(payload, indent=1, sort_keys=True, ensure_ascii=True, default=str) + "\n")
    return p


def write_evidence(ctx: Ctx, build: BuildResult | None, rule: str, violations: int,
                   extra: dict[str, Any] | None = None, assumptions: Iterable[str] = ()) -> None:
    EVIDENCE_DIR.mkdir(exist_ok=True)
    cov: dict[str, Any] = {
        "evaluations": ctx.evaluations,
        "distinct_nontrivial": len(ctx.nontrivial),
        "rule": rule,
        "samples": ctx.samples[:12] or ["(no sample recorded)"],
        "distribution": dict(sorted(ctx.dist.items())),
        "streams": ctx.streams,
        "timeouts": ctx.timeouts,
        "disagreements": len(ctx.disagreements),
    }
    if build is not None:
        cov.update({
            "obligations": len(build.obligations),
            "discharged": len(set(build.discharged) & set(build.obligations)),
            "theorems": build.obligations,
            "checker_cmd": "cd lean && lake build <Props module> && lake env lean <audit file with #print axioms per theorem>",
            "trusted_base": TRUSTED_BASE,
            "build_seconds": round(build.seconds, 1),
            "broken": build.broken_summary(),
        })
    if extra:
        cov.update(extra)
    ev = {
        "property_id": ctx.prop,
        "tier": ctx.tier,
        "seed": ctx.seed,
        "level": "proof",
        "coverage": cov,
        "assumptions": list(assumptions),
        "wall_s": round(time.time() - ctx.t0, 2),
        "violations": violations,
    }
    (EVIDENCE_DIR / f"{ctx.prop}.json").write_text(json.dumps(ev, indent=1, ensure_ascii=True, default=str) + "\n")


class Timeout(BaseException):
    pass


def with_alarm(seconds: float, fn: Callable[[], Any]) -> Any:
    """Run fn with a wall-clock limit (SIGALRM); raises Timeout."""
    import signal

    def _h(*_a: Any) -> None:
        raise Timeout()

    old = signal.signal(signal.SIGALRM, _h)
    signal.setitimer(signal.ITIMER_REAL, seconds)
    try:
        return fn()
    finally:
        signal.setitimer(signal.ITIMER_REAL, 0)
        signal.signal(signal.SIGALRM, old)


def leanchecker_wanted(ctx: Ctx) -> bool:
    return ctx.thorough and os.environ.get("VERIF_NO_LEANCHECKER") != "1"


def run_leanchecker(module: str, build: BuildResult) -> None:
    """Independent re-check of the compiled property module (thorough tier)."""
    if not build.build_ok:
        return
    rc, out = _run(["lake", "env", "leanchecker", module], LEAN_DIR, 1800)
    build.log += out
    if rc != 0:
        build.build_ok = False
        build.failed_decls.append("leanchecker rejected " + module + ": " + out.strip()[-300:])
