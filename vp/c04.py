"""C04 — constraint membership agrees with PEP 440 specifier semantics.

Four streams per batch of (constraint text, candidate versions):
  model-vs-impl   real `parse_constraint(s)` (+ `allows` on every candidate) vs the Lean model (driver op `cparse`)
  oracle          real poetry-core answer vs packaging's `SpecifierSet(s).contains(v, prereleases=True)` (refserver
                  subprocess), judged only inside the property's domain guard
  spec-vs-ref     Lean `Spec.contains` / `Spec.parseSet` (driver op `speccontains`) vs packaging, every candidate, no guard
  poetry-ops      `^V`, `~V`, `a || b`, bare `V`: poetry-core's answer vs packaging on the documented desugaring
"""
from __future__ import annotations

import json
import re
import subprocess
from typing import Any

from . import core
from . import vc_common as V

PROP = "C04"
LEAN_MODULE = "PoetryVerif.Props.C04"
RULE = ("specifier sets of 1-3 comma-joined clauses over ==, !=, <, <=, >, >=, ~=, ==X.*, !=X.* with literals of 1-5 release "
        "components, optional epoch, pre/post/dev segments in several spellings and local labels (only after ==/!=), the "
        "literals of one set mostly sharing a release family; candidates derived from EVERY literal of the set (itself, "
        "dev/pre/post/post.dev/local variants, next-pre.post, padded .0, .1, next and previous release, next prefix, other "
        "epoch) plus unrelated versions; a second stream of Poetry-only syntax (^V, ~V, bare V, a || b) judged against "
        "packaging on the documented desugaring; a malformed stream (mutated clause texts) for the acceptance of the "
        "specifier grammar. A case is one (specifier, candidate) pair; non-trivial = poetry-core and packaging both "
        "accept the specifier and the pair lies inside the property's domain guard (so the pair is judged); distinct = "
        "distinct pair text.")
ASSUMPTIONS = [
    "reference = packaging 26.3 from /venv site-packages run in a separate process (vp/refserver.py); its Specifier.contains is "
    "range based (packaging/_ranges.py), which is what Spec/Specifier.lean formalises clause by clause",
    "Spec.contains treats a comma as conjunction of clause membership; packaging intersects the clause ranges first "
    "(_ranges.intersect_ranges) — the two are tied by the spec-vs-ref stream on 1-3 clause sets, not by a proof",
    "the '===' operator (arbitrary string equality) is outside the property and never generated",
    "the domain guard is evaluated on the literals of the specifier text (for Poetry-only syntax: of its documented desugaring, "
    "so the computed upper bound of ^V / ~V counts as a literal)",
    "inside the literal three-disjunct guard two regions where poetry-core's intersect/union are not exact (irregular candidates, "
    "C05's hypothesis) are judged but reported under stable class keys handled by known_findings.json: 'sibling-of-another-literal' "
    "(candidate equals one literal and is a pre/post/dev/local sibling of another literal of the same set) and 'adjacent-union-gap' "
    "('a || b' over final literals where the candidate is a sibling of bounds of two different alternatives); any other failure "
    "is a violation under its own key; likewise C05's known finding K1 seen through C04 ('local-min-intersect': `==V` combined with a "
    "clause whose range starts at a local build of V admits other releases below the next patch of V)",
]

KNOWN_COMPAT_KEY = "compat-precision>3"

# ----------------------------------------------------------------------------------------------------------
# a small structural PEP 440 reader (independent of poetry-core and of packaging): guard + generators
# ----------------------------------------------------------------------------------------------------------

_VER = re.compile(r"""^\s*v?(?:(?P<epoch>[0-9]+)!)?(?P<release>[0-9]+(?:\.[0-9]+)*)
    (?P<pre>[-_.]?(?P<pre_l>alpha|a|beta|b|preview|pre|c|rc)[-_.]?(?P<pre_n>[0-9]+)?)?
    (?P<post>(?:-(?P<post_n1>[0-9]+))|(?:[-_.]?(?P<post_l>post|rev|r)[-_.]?(?P<post_n2>[0-9]+)?))?
    (?P<dev>[-_.]?(?P<dev_l>dev)[-_.]?(?P<dev_n>[0-9]+)?)?
    (?:\+(?P<local>[a-z0-9]+(?:[-_.][a-z0-9]+)*))?\s*$""", re.X | re.I)
_PRE = {"alpha": "a", "a": "a", "beta": "b", "b": "b", "preview": "rc", "pre": "rc", "c": "rc", "rc": "rc"}


def parts(text: str) -> tuple[Any, ...] | None:
    """(epoch, release, pre, post, dev, local) of a version text, normalised; None = not a version."""
    m = _VER.match(text)
    if not m:
        return None
    rel = tuple(int(x) for x in m.group("release").split("."))
    pre = (_PRE[m.group("pre_l").lower()], int(m.group("pre_n") or 0)) if m.group("pre") else None
    post = None
    if m.group("post"):
        post = int(m.group("post_n1") or m.group("post_n2") or 0)
    dev = int(m.group("dev_n") or 0) if m.group("dev") else None
    loc = None
    if m.group("local"):
        loc = tuple(int(x) if x.isdigit() else x.lower() for x in re.split(r"[-_.]", m.group("local")))
    return (int(m.group("epoch") or 0), rel, pre, post, dev, loc)


def strip0(rel: tuple[int, ...]) -> tuple[int, ...]:
    r = list(rel)
    while r and r[-1] == 0:
        r.pop()
    return tuple(r)


def relkey(p: tuple[Any, ...]) -> tuple[Any, ...]:
    return (p[0], strip0(p[1]))


def same_version(p: tuple[Any, ...], q: tuple[Any, ...]) -> bool:
    return relkey(p) == relkey(q) and p[2:] == q[2:]


def is_final(p: tuple[Any, ...]) -> bool:
    return p[2] is None and p[3] is None and p[4] is None and p[5] is None


def fmt(epoch: int, rel: tuple[int, ...], pre: Any = None, post: Any = None, dev: Any = None, loc: str | None = None) -> str:
    s = (f"{epoch}!" if epoch else "") + ".".join(str(x) for x in rel)
    if pre is not None:
        s += f"{pre[0]}{pre[1]}"
    if post is not None:
        s += f".post{post}"
    if dev is not None:
        s += f".dev{dev}"
    if loc:
        s += "+" + loc
    return s


# ----------------------------------------------------------------------------------------------------------
# desugaring of a constraint text into alternatives of PEP 440 specifier texts (the documented meaning)
# ----------------------------------------------------------------------------------------------------------

_HEAD = re.compile(r"^\s*v?(?:([0-9]+)!)?([0-9]+(?:\.[0-9]+)*)", re.I)


def caret_upper(text: str) -> str | None:
    """^1.2.3 := <2.0.0; ^0.2.3 := <0.3.0; ^0.0.3 := <0.0.4; ^0.0 := <0.1; ^0 := <1 (left-most non-zero of major,
    minor, patch is bumped; if all given ones are zero the last given one)."""
    m = _HEAD.match(text)
    if not m:
        return None
    rel = [int(x) for x in m.group(2).split(".")]
    head = rel[:3]
    k = next((i for i, x in enumerate(head) if x != 0), len(head) - 1)
    up = head[:k] + [head[k] + 1] + [0] * (len(rel) - k - 1)
    return (m.group(1) + "!" if m.group(1) else "") + ".".join(str(x) for x in up)


def tilde_upper(text: str) -> str | None:
    """~1.2.3 := <1.3.0; ~1.2 := <1.3; ~1 := <2."""
    m = _HEAD.match(text)
    if not m:
        return None
    rel = [int(x) for x in m.group(2).split(".")]
    up = [rel[0] + 1] if len(rel) == 1 else [rel[0], rel[1] + 1] + [0] * (len(rel) - 2)
    return (m.group(1) + "!" if m.group(1) else "") + ".".join(str(x) for x in up)


def desugar_clause(c: str) -> str | None:
    c = c.strip()
    if c.startswith("^"):
        v = c[1:].strip()
        u = caret_upper(v)
        return None if u is None or parts(v) is None else f">={v},<{u}"
    if c.startswith("~") and not c.startswith("~="):
        v = c[1:].strip()
        u = tilde_upper(v)
        return None if u is None or parts(v) is None else f">={v},<{u}"
    if c[:1] in "=!<>~":
        return c
    return "==" + c if c else None


def is_pep_text(s: str) -> bool:
    """no Poetry-only syntax: every non-empty comma item starts with a PEP 440 operator"""
    return "|" not in s and all(re.match(r"^(~=|==|!=|<=|>=|<|>)", c.strip()) for c in s.split(",") if c.strip())


def desugar(s: str) -> list[str] | None:
    """alternatives (joined by ||), each a comma-joined PEP 440 specifier text; None = no documented meaning."""
    alts = []
    for g in re.split(r"\|\|", s):
        cs = [desugar_clause(c) for c in g.split(",")]
        if any(c is None for c in cs):
            return None
        alts.append(",".join(cs))  # type: ignore[arg-type]
    return alts


Adj = list[tuple[tuple[Any, ...], int]]


def literals(alts: list[str]) -> tuple[list[tuple[Any, ...]], bool, bool, Adj]:
    """(literal parts, all literals readable, some clause uses '!=', bounds) of desugared alternatives.  `bounds` pairs
    every literal, and the implicit upper bound of every `~=V` and `V.*` clause (next prefix), with the index of its
    alternative; it only serves the adjacency test of `a || b` in `in_guard`."""
    lits, ok, ne = [], True, False
    adj: Adj = []
    for k, a in enumerate(alts):
        for c in a.split(","):
            c = c.strip()
            if not c:
                continue  # SpecifierSet drops empty items
            m = re.match(r"^(~=|==|!=|<=|>=|<|>)\s*(.*?)(\.\*)?$", c, re.S)
            if not m:
                ok = False
                continue
            ne = ne or m.group(1) == "!="
            p = parts(m.group(2))
            if p is None:
                ok = False
            else:
                lits.append(p)
                adj.append((p, k))
                if m.group(1) == "~=" and len(p[1]) > 1:
                    adj.append(((p[0], p[1][:-2] + (p[1][-2] + 1,), None, None, None, None), k))
                if m.group(3):
                    adj.append(((p[0], p[1][:-1] + (p[1][-1] + 1,), None, None, None, None), k))
    return lits, ok, ne, adj


CLASS_SIBLING = "sibling-of-another-literal"
CLASS_UNION_GAP = "adjacent-union-gap"


def in_guard(lits: list[tuple[Any, ...]], any_ne: bool, cand: tuple[Any, ...], adj: Adj | None = None) -> str | None:
    """The property's domain guard; returns which disjunct holds, None = outside.

    (1) every literal is a final release and no clause uses '!=';  (2) the candidate's (epoch, release without trailing
    zeros) differs from that of every literal;  (3) the candidate equals a literal exactly.  Inside the literal guard two
    regions are told apart (answer "!<class key>"), because poetry-core's intersect/union are exact on *regular*
    candidates only (C05's hypothesis) and the property is known to fail there; a failure in one of them is reported under
    its class key (known_findings.json), any other failure under its own key:
      * CLASS_SIBLING — (3) holds but the candidate is a pre/post/dev/local sibling of ANOTHER literal of the same set
        (`>1.0,!=1.0.post1,<=1.0.post2` at 1.0.post2: the exclusive lower bound rule of `>1.0` is lost once `!=` replaces
        the lower bound; `==1.0,!=1.0+x` at 1.0).  The per-literal reading of (3) — the candidate equals some literals and
        its release differs from that of all the others — is the answer "exact-literal".
      * CLASS_UNION_GAP — (1) holds for `a || b` but the candidate is a sibling of bounds of two DIFFERENT alternatives
        (`<3 || >=3` at 3.0.dev0, `<=0 || >0` at 0.post1, `~=1.0 || ^2.0.0` at 2.0.0a1 — the implicit upper bound of `~=V`
        and `V.*` counts): each side rejects the sibling by the exclusive comparison rules, poetry-core's union merges
        the two adjacent ranges."""
    sib = [i for i, p in enumerate(lits) if relkey(cand) == relkey(p)]
    g1 = not any_ne and all(is_final(p) for p in lits)
    alts_touched = {k for p, k in adj or [] if relkey(p) == relkey(cand)}
    if g1 and len(alts_touched) <= 1:
        return "final-literals"
    if not sib:
        return "other-release"
    if all(same_version(cand, lits[i]) for i in sib):
        return "exact-literal"
    if g1:
        return "!" + CLASS_UNION_GAP
    if any(same_version(cand, lits[i]) for i in sib):
        return "!" + CLASS_SIBLING
    return None


# ----------------------------------------------------------------------------------------------------------
# generators
# ----------------------------------------------------------------------------------------------------------

RELS = [(1,), (1, 0), (1, 2), (2,), (2, 0, 0), (1, 2, 3), (0,), (0, 1), (3,), (1, 0, 0), (0, 0, 1), (1, 2, 0), (2, 0), (0, 0),
        (0, 0, 0), (1, 2, 3, 4), (1, 0, 0, 0), (10, 20), (1, 2, 3, 4, 5), (0, 9), (1, 9, 9)]
SUFS: list[tuple[Any, Any, Any]] = [(None, None, None)] * 8 + [
    (("a", 1), None, None), (("a", 0), None, None), (("b", 2), None, None), (("rc", 1), None, None), (None, 1, None),
    (None, 0, None), (None, None, 0), (None, None, 3), (("a", 1), None, 2), (None, 1, 1), (("a", 1), 1, None),
    (("rc", 2), 1, 0), (None, 2, None)]
LOCS = ["local", "1", "a.1", "abc.5", "0", "zz"]
PEP_OPS = ["==", "!=", "<", "<=", ">", ">=", "~=", "==*", "!=*", "<", ">", ">=", "<=", "~="]
UNRELATED = ["0.0.1", "0.5", "1.1", "1.5", "1.2.5", "2.5", "3.5", "4", "0.0.0.1", "1.0.1", "1.2.3.1", "1.3", "2.1", "0", "1", "1.0",
             "1.2", "1.2.3", "2", "3", "1!0.5", "2!1", "0.dev0", "100"]
UNREL_SUF = ["", ".dev1", "a2", ".post3", "+loc", ".post2+x.1", "rc1.dev1", ".dev0", "a0", ".post0", "a1.post1"]


def gen_release(rnd: Any, family: list[tuple[int, ...]]) -> tuple[int, ...]:
    k = rnd.random()
    if family and k < 0.55:
        r = list(rnd.choice(family))
        j = rnd.random()
        if j < 0.3:
            return tuple(r)
        if j < 0.45:
            return tuple(r + [0])
        if j < 0.6:
            r[-1] += 1
            return tuple(r)
        if j < 0.7 and len(r) > 1:
            return tuple(r[:-1])
        if j < 0.8:
            return tuple(r + [1])
        if j < 0.9 and len(r) > 1:
            r[-2] += 1
            r[-1] = 0
            return tuple(r)
        return tuple([r[0] + 1] + [0] * (len(r) - 1))
    if k < 0.85:
        return rnd.choice(RELS)
    return tuple(rnd.choice([0, 0, 1, 1, 2, 3, 9, 10]) for _ in range(rnd.choice([1, 2, 2, 3, 3, 4, 5])))


SPELL_PRE = {"a": ["a", "alpha", ".a", "-alpha."], "b": ["b", "beta", "_b"], "rc": ["rc", "c", "pre", ".preview", "RC"]}


def spell(rnd: Any, epoch: int, rel: tuple[int, ...], pre: Any, post: Any, dev: Any, loc: str | None) -> str:
    """an occasionally non-normalised spelling of the literal"""
    if rnd.random() > 0.08:
        return fmt(epoch, rel, pre, post, dev, loc)
    s = rnd.choice(["", "", "v"]) + (f"{epoch}!" if epoch else "") + ".".join(str(x) for x in rel)
    if pre is not None:
        s += rnd.choice(SPELL_PRE[pre[0]]) + str(pre[1])
    if post is not None:
        s += rnd.choice([f".post{post}", f"-{post}", f".rev{post}", f"post{post}", f".POST{post}"])
    if dev is not None:
        s += rnd.choice([f".dev{dev}", f"dev{dev}", f"-dev{dev}", f".DEV{dev}"])
    if loc:
        s += "+" + loc
    return s


def gen_clause(rnd: Any, family: list[tuple[int, ...]]) -> tuple[str, tuple[Any, ...]]:
    """(clause text, parts of its literal)"""
    op = rnd.choice(PEP_OPS)
    epoch = 1 if rnd.random() < 0.07 else 0
    rel = gen_release(rnd, family)
    sp = rnd.choice(["", "", "", " "])
    if op in ("==*", "!=*"):
        family.append(rel)
        return op[:2] + sp + fmt(epoch, rel) + ".*", (epoch, rel, None, None, None, None)
    if op == "~=" and len(rel) < 2:
        rel = rel + (rnd.choice([0, 0, 2]),)
    family.append(rel)
    pre, post, dev = rnd.choice(SUFS)
    loc = rnd.choice(LOCS) if op in ("==", "!=") and rnd.random() < 0.25 else None
    return op + sp + spell(rnd, epoch, rel, pre, post, dev, loc), (epoch, rel, pre, post, dev, loc)


def gen_set(rnd: Any) -> tuple[str, list[tuple[Any, ...]]]:
    family: list[tuple[int, ...]] = []
    cl = [gen_clause(rnd, family) for _ in range(rnd.choice([1, 1, 2, 2, 2, 3]))]
    sep = rnd.choice([",", ",", ", ", " , "])
    return sep.join(c for c, _ in cl), [p for _, p in cl]


def prev_release(rel: tuple[int, ...]) -> tuple[int, ...] | None:
    r = list(rel)
    for i in range(len(r) - 1, -1, -1):
        if r[i] > 0:
            r[i] -= 1
            return tuple(r[:i + 1] + [9] * (len(r) - i - 1))
    return None


def candidates_of(p: tuple[Any, ...]) -> list[str]:
    """candidates around one literal"""
    e, rel, pre, post, dev, loc = p
    if isinstance(loc, tuple):
        loc = ".".join(str(x) for x in loc)
    out = [fmt(e, rel, pre, post, dev), fmt(e, rel, pre, post, dev, "zz"), fmt(e, rel, pre, post, dev, "1")]
    if loc:
        out += [fmt(e, rel, pre, post, dev, loc), fmt(e, rel, pre, post, dev, loc + ".1"), fmt(e, rel, pre, post, dev, loc.upper())]
    out += [fmt(e, rel), fmt(e, rel, None, None, 0), fmt(e, rel, None, None, 1), fmt(e, rel, ("a", 0)), fmt(e, rel, ("a", 1)),
            fmt(e, rel, ("rc", 1)), fmt(e, rel, None, 0), fmt(e, rel, None, 1), fmt(e, rel, None, 1, 0), fmt(e, rel, None, 1, None, "zz"),
            fmt(e, rel, ("a", 1), 1), fmt(e, rel, ("a", 1), None, 0), fmt(e, rel, None, None, None, "zz")]
    if dev is not None:
        out += [fmt(e, rel, pre, post, dev + 1), fmt(e, rel, pre, post, dev + 1, "zz")] + ([fmt(e, rel, pre, post, dev - 1)] if dev else [])
    if post is not None:
        out += [fmt(e, rel, pre, post + 1), fmt(e, rel, pre, post + 1, 0), fmt(e, rel, pre, post, 0), fmt(e, rel, pre, post + 1, None, "zz")]
        out += [fmt(e, rel, pre, post - 1)] if post else []
    if pre is not None:
        out += [fmt(e, rel, (pre[0], pre[1] + 1)), fmt(e, rel, (pre[0], pre[1] + 1), 1), fmt(e, rel, (pre[0], pre[1] + 1), None, 0),
                fmt(e, rel, pre, 0), fmt(e, rel, pre, None, 0), fmt(e, rel, ("rc", pre[1]))]
    nxt = rel[:-1] + (rel[-1] + 1,)
    neigh = [rel + (0,), rel + (1,), rel + (0, 0), nxt]
    if len(rel) > 1:
        neigh += [rel[:-2] + (rel[-2] + 1,), rel[:-2] + (rel[-2] + 1, 0), rel[:-1]]
        neigh += [(rel[0], rel[1] + 1) + (0,) * (len(rel) - 2)] if len(rel) > 3 else []
    neigh.append((rel[0] + 1,) + (0,) * (len(rel) - 1))
    pv = prev_release(rel)
    if pv is not None:
        neigh.append(pv)
    for r in neigh:
        out += [fmt(e, r), fmt(e, r, None, None, 0), fmt(e, r, ("a", 1)), fmt(e, r, None, 1)]
    out += [fmt(e + 1, rel), fmt(e + 1, (0,), None, None, 0)] + ([fmt(e - 1, rel), fmt(e - 1, nxt)] if e else [])
    return out


def candidates(rnd: Any, lits: list[tuple[Any, ...]], limit: int = 44) -> list[str]:
    core_, extra = [], []
    for p in lits:
        c = candidates_of(p)
        core_ += c[:3]
        extra += c[3:]
    for _ in range(5):
        extra.append(rnd.choice(UNRELATED) + rnd.choice(UNREL_SUF))
    seen: list[str] = []
    for x in core_:
        if x not in seen:
            seen.append(x)
    extra = [x for x in dict.fromkeys(extra) if x not in seen]
    room = max(0, limit - len(seen))
    if len(extra) > room:
        extra = rnd.sample(extra, room)
    return seen + extra


def gen_poetry(rnd: Any) -> tuple[str, list[tuple[Any, ...]]]:
    """Poetry-only syntax: ^V, ~V, bare V, a || b (groups of 1-2 clauses)."""
    k = rnd.random()
    if k < 0.6:
        kind = rnd.choice(["^", "^", "~", "~", ""])
        epoch = 1 if rnd.random() < 0.05 else 0
        rel = rnd.choice(RELS + [(0, 2, 3), (0, 0, 3), (0, 2), (1, 2, 3), (0, 0, 0, 4), (2, 5)])
        if kind == "^" and len(rel) > 3 and rel[0] == 0:
            rel = (1,) + rel[1:]
        pre, post, dev = rnd.choice(SUFS)
        loc = rnd.choice(LOCS) if kind == "" and rnd.random() < 0.2 else None
        s = kind + rnd.choice(["", "", " "] if kind else [""]) + fmt(epoch, rel, pre, post, dev, loc)
        if kind == "" and rnd.random() < 0.15:
            s = fmt(epoch, rel) + ".*"
            pre = post = dev = loc = None
        lits = [(epoch, rel, pre, post, dev, loc)]
        if rnd.random() < 0.3:
            c, p = gen_clause(rnd, [rel])
            s, lits = s + "," + c, lits + [p]
        return s, lits
    groups, lits = [], []
    for _ in range(rnd.choice([2, 2, 3])):
        family = [lits[-1][1]] if lits and rnd.random() < 0.6 else []
        cl = [gen_clause(rnd, family) for _ in range(rnd.choice([1, 1, 2]))]
        if rnd.random() < 0.2:
            e, rel = 0, rnd.choice(RELS)
            cl = [(rnd.choice(["^", "~", ""]) + fmt(e, rel), (e, rel, None, None, None, None))]
        groups.append(",".join(c for c, _ in cl))
        lits += [p for _, p in cl]
    return rnd.choice([" || ", "||", " ||"]).join(groups), lits


MUT_TOKENS = [" ", ".", "*", ".*", "=", "+x", "v", ",", "a1", ".post1", ".dev0", "1", "0", "!", "~", "<", ">", "^", "-1", "\t", ".0", "+", "1!", "\xa0", "\x1f", "\u3000"]


def mutate(rnd: Any, s: str) -> str:
    i = rnd.randrange(len(s) + 1)
    k = rnd.random()
    if k < 0.55:
        return s[:i] + rnd.choice(MUT_TOKENS) + s[i:]
    if k < 0.8:
        return s[:i] + s[min(len(s), i + rnd.randint(1, 2)):]
    if k < 0.9:
        return s.upper()
    return s[:i] + s[i:i + 2] * 2 + s[i + 2:]


MALFORMED = ["==1.0a1.*", "==1.0.post1.*", "==1.0.dev0.*", "==1.0+local.*", "!=1.0a1.*", ">=1.0+x", "<1.0+x", "~=1.0+x", "~=1", "~=1a1",
             "~=1.0.*", "<1.0.*", ">=1.*", "=1.0", "===1.0", "== 1.0", "==  1.0.*", "==1.0 .*", "==1.0. *", "==1.0.*.*", "= =1.0", "> =1.0",
             ">=1.0,,<2", ",", "", " ", ">=1.0,", ",>=1.0", ">=v1.0", "==V1.0.*", "==1.0RC1", "== 1.0.POST1 ", "!=1.0-1", "==1.0-1.*", "1.0",
             "^1.0", "~1.0", ">=1.0 <2", ">=1.0 || <0.5", "==*", "==1.*.0", "<>1.0", "!1.0", ">=1.0;", "==1!2.*", "==1!.*", "==.*", "==1..*",
             "\t>=1.0\n", ">=1.0\x1f", "<=1.0a", "<=1.0a.", "==1.0+a_b-c", "==1.0+", "==1.0+a..b", "~=1.0.post", "~=0!1.2", "!= 2.0 , >1"]

CORPUS: list[tuple[str, list[str]]] = [
    ("~=1.2.3.4", ["1.2.4", "1.2.3.4", "1.2.3.5", "1.2.4.dev0", "1.2.5", "1.3", "1.3.dev0"]),
    (">1.0", ["1.0.post1+local", "1.0.post1", "1.0+local", "1.0", "1.0.1.dev0", "1.0.0.post1", "1.0.post1.dev0", "1.1"]),
    ("<1.0", ["1.0.dev0", "1.0a1", "0.9.post1", "1.0a1.dev0", "0.9+x", "1.0.0.dev1", "1!0.1", "1.0"]),
    ("==1.0", ["1.0+x", "1.0.0+x", "1.0.0", "1.0.post0", "1.0.dev0"]),
    ("==1.0+x", ["1.0+x", "1.0.0+x", "1.0.0", "1.0+X", "1.0+x.0", "1.0+y"]),
    ("!=1.0+x", ["1.0+x", "1.0.0+x", "1.0.0", "1.0+y"]),
    ("!=1.0", ["1.0+x", "1.0.0", "1.0.post0", "1.0.dev0", "0.9"]),
    ("<=1.0", ["1.0+x", "1.0.0+x", "1.0.post1", "1.0", "1.0.post0.dev0"]),
    (">=1.0", ["1.0+x", "1.0.dev0", "1.0", "1.0rc1"]),
    ("~=1.0.post1", ["1.0", "1.0.post1", "1.0.post2", "1.5", "2.dev0", "2.0a1", "1.0.post1.dev0", "1.0.post1+x"]),
    ("~=1.0a1", ["1.0", "1.0a1", "1.0a0", "1.0a1.dev0", "1.9", "2.0.dev0"]),
    (">1.0a1", ["1.0a1.post1", "1.0a2.post1", "1.0a2", "1.0a1+x", "1.0", "1.0.post1", "1.0a2.dev0"]),
    (">1.0.post1", ["1.0.post1+x", "1.0.post2.dev0", "1.0.post2", "1.0.post1"]),
    (">1.0.dev1", ["1.0.dev1+x", "1.0.dev2", "1.0a1", "1.0.dev1"]),
    ("<1.0.post1", ["1.0.post1.dev0", "1.0.post0", "1.0", "1.0.post1"]),
    ("<1.0a1", ["1.0a1.dev0", "1.0a0", "1.0.dev0", "1.0a0.post1", "1.0a1"]),
    ("==1.*", ["1.0.dev0", "1.dev0", "1.5+x", "2.dev0", "2.0.dev0", "1!1.0", "0.9.post1"]),
    ("!=1.0.*", ["1.0.dev0", "1.dev0", "1.0.5+x", "1.1.dev0", "1.0.0.1", "1.0a1.post1", "0.9"]),
    ("<0", ["0.dev0", "0", "0a1"]), ("<0.dev0", ["0.dev0", "0"]), ("<=0.dev0", ["0.dev0", "0", "0.0.dev0+x"]),
    (">=1.0,<2.0", ["2.0.dev0", "2.0a1", "1.9.post1", "1.0.dev0", "1.0", "2.0"]),
    (">1.0,!=1.0.post1,<=1.0.post2", ["1.0.post1", "1.0.post2", "1.0.post2+x", "1.0.post3"]),
    (">=1.0,==1.0+x", ["1.0+x", "1.0"]), ("==1.0,!=1.0+x", ["1.0.0.1", "1.0+x", "1.0+y", "1.0", "1.0.1"]),
    ("^1.2.3", ["1.2.3", "2.0.0.dev0", "2.0.0", "1.9.9.post1", "1.2.3.dev0", "1.2.3+x"]),
    ("^0.2.3", ["0.2.3", "0.3.0.dev0", "0.3.0", "0.2.9"]), ("^0.0.3", ["0.0.3", "0.0.4", "0.0.3.1", "0.0.4.dev0"]),
    ("^0.0", ["0.0", "0.0.5", "0.1", "0.1.dev0"]), ("^0", ["0", "0.5", "1", "1.dev0"]), ("~1.2.3", ["1.2.3", "1.2.9", "1.3.0", "1.3.0.dev0"]),
    ("~1.2", ["1.2", "1.2.9", "1.3", "1.3a1"]), ("~1", ["1", "1.9", "2", "2.dev0"]), ("1.0", ["1.0", "1.0+x", "1.0.post0", "1.0.0"]),
    ("~=3.0 || ^2", ["3.0.dev0", "3.0", "2.5", "3rc1", "4.0", "2", "1.9"]), ("<=0.0.0 || >0.0.0", ["0.0.0.post1", "0", "0.1", "0.dev0"]),
    ("<1.0 || >=2.0", ["0.5", "1.0.dev0", "1.5", "2.0", "2.0.dev0"]), ("1.0 || ^2.1", ["1.0", "2.1", "2.9", "3.0", "1.5"]),
]

# ----------------------------------------------------------------------------------------------------------
# the three sides
# ----------------------------------------------------------------------------------------------------------


def ref_batch(reqs: list[dict[str, Any]]) -> list[Any]:
    if not reqs:
        return []
    p = subprocess.run([core.PY, str(core.VERIF / "vp" / "refserver.py")], input=json.dumps(reqs),
                       capture_output=True, text=True, timeout=900)
    if p.returncode != 0:
        raise RuntimeError("refserver failed: " + p.stderr[-400:])
    return json.loads(p.stdout)


def impl_parse(s: str) -> Any:
    from poetry.core.constraints.version import parse_constraint
    try:
        return parse_constraint(s)
    except ValueError:
        return None
    except Exception as e:  # noqa: BLE001
        return e


_PROBE_CACHE: dict[str, Any] = {}


def probe(t: str) -> Any:
    if t not in _PROBE_CACHE:
        if len(_PROBE_CACHE) > 200000:
            _PROBE_CACHE.clear()
        _PROBE_CACHE[t] = V.parse_probe(t)
    return _PROBE_CACHE[t]


_SPEC_OP: list[bool] = []


def spec_op_available(ctx: core.Ctx) -> bool:
    if not _SPEC_OP:
        r = core.run_driver([core.line("speccontains", ">=1", "1")])
        _SPEC_OP.append(r[0] != ["bad-op"])
        if not _SPEC_OP[0]:
            ctx.notes.append("driver op 'speccontains' is not registered in Driver.lean: spec-vs-ref stream skipped")
    return _SPEC_OP[0]


def compat_finding(s: str, cand_text: str) -> bool:
    """Known class: `~=V` with more than three release components is desugared by poetry-core to `[V, next minor)` where
    PEP 440 says `[V, next of V's release without its last component)`.  Recognised at the call site: a `~=` clause whose
    literal has precision > 3 and a candidate in [PEP 440 upper bound, poetry-core's upper bound)."""
    from poetry.core.constraints.version import Version
    c = probe(cand_text)
    if c is None:
        return False
    for alt in desugar(s) or []:
        for cl in alt.split(","):
            cl = cl.strip()
            if not cl.startswith("~="):
                continue
            p = parts(cl[2:])
            if p is None or len(p[1]) <= 3:
                continue
            lo = Version.parse(fmt(p[0], p[1][:-2] + (p[1][-2] + 1,), None, None, 0))
            hi = Version.parse(fmt(p[0], (p[1][0], p[1][1] + 1)))
            if lo <= c < hi:
                return True
    return False


CLASS_LOCAL_MIN = "local-min-intersect"


def local_min_finding(alts: list[str], obj: Any, cand: Any) -> bool:
    """Known class K1 (DESIGN §6, C05's `local-min-intersect`) seen through C04: `==V` intersected with a clause whose range
    has a local build of V as lower bound (`!=V+local`, `>V+local`) is answered `[V+local, next patch of V)`, which admits
    versions `==V` rejects (`==1.0,!=1.0+x` admits 1.0.0.1).  Recognised at the call site exactly like
    vc_engine.local_min_finding: a Version x and a range r with a local lower bound among the clauses / the result, x admits
    r.min, r rejects x, and the candidate lies inside (r.min, next patch of x) while x rejects it."""
    from poetry.core.constraints.version import Version
    objs = [obj]
    for a in alts:
        for c in a.split(","):
            o = impl_parse(c.strip()) if c.strip() else None
            if o is not None and not isinstance(o, Exception):
                objs.append(o)
    items = [x for o in objs for x in o.flatten()]
    xs = [x for x in items if isinstance(x, Version)]
    rs = [r for r in items if not isinstance(r, Version) and r.min is not None and r.min.is_local()]
    for x in xs:
        for r in rs:
            try:
                if x.allows(r.min) and not r.allows(x) and r.min < cand < x.stable.next_patch() and not x.allows(cand):
                    return True
            except Exception:  # noqa: BLE001
                continue
    return False


def run_batch(ctx: core.Ctx, items: list[tuple[str, list[str]]], tag: str, poetry_ops: bool = False) -> None:
    """items: (constraint text, candidate texts).  Runs the streams described in the module docstring."""
    with_spec = (not poetry_ops) and spec_op_available(ctx)
    if not poetry_ops and not with_spec:
        ctx.count("spec-vs-ref:skipped-driver-op-missing", len(items))
    lines: list[str] = []
    reqs: list[dict[str, Any]] = []
    metas: list[dict[str, Any]] = []
    for s, cands in items:
        alts = desugar(s) if poetry_ops else [s]  # PEP 440 streams: the reference reads the raw text
        m = {"s": s, "cands": cands, "alts": alts, "nref": 0}
        lines.append(core.line("cparse", s, *cands))
        if with_spec:
            lines.append(core.line("speccontains", s, *cands))
        if alts is not None:
            for a in alts:
                reqs.append({"op": "specv", "s": a, "vs": cands})
            m["nref"] = len(alts)
        metas.append(m)
    out = core.run_driver(lines)
    ref = ref_batch(reqs)
    k = r = 0
    n_model = d_model = n_oracle = n_spec = d_spec = 0
    sname = "poetry-ops" if poetry_ops else "oracle"
    for m in metas:
        s, cands = m["s"], m["cands"]
        obj = impl_parse(s)
        probes = [probe(c) for c in cands]
        # ---- stream 1: model vs implementation
        mo = out[k]
        k += 1
        n_model += 1
        if obj is None or isinstance(obj, Exception):
            io: list[str] = ["err", "value"] if obj is None else ["exc", type(obj).__name__]
            if io != mo[:2] or obj is not None:
                d_model += 1
                ctx.disagree("parse", s, io, mo)
            ibits = None
        else:
            io = ["ok", *V.report(obj, probes)]
            if io != mo:
                d_model += 1
                ctx.disagree("parse", [s, cands], io, mo)
            ibits = io[5]
        # ---- reference answer (OR over the alternatives)
        rbits: list[Any] | None = None
        rstat = "nodesugar"
        if m["alts"] is not None:
            rs = ref[r:r + m["nref"]]
            r += m["nref"]
            if all(x[0] == "ok" for x in rs):
                rstat = "ok"
                rbits = [None if any(x[1][i] is None for x in rs) else any(x[1][i] for x in rs) for i in range(len(cands))]
            elif any(x[0] == "exc" for x in rs):
                rstat = "exc"
                ctx.notes.append(f"reference raised on {s!r}: {rs}")
            else:
                rstat = "invalid"
        # ---- stream 3: spec vs reference
        if with_spec:
            so = out[k]
            k += 1
            n_spec += 1
            if "===" in s:
                ctx.count("spec-vs-ref:arbitrary-equality-skipped")
            elif so[0] == "ok":
                want = None if rbits is None else "".join("?" if b is None else ("1" if b else "0") for b in rbits)
                if rstat != "ok" or so[1] != want:
                    d_spec += 1
                    ctx.disagree("spec-vs-ref", [s, cands], [rstat, want], so)
                ctx.count("spec-vs-ref:spec-accepts")
            else:
                if rstat == "ok":
                    d_spec += 1
                    ctx.disagree("spec-vs-ref", [s, cands], [rstat], so)
                ctx.count("spec-vs-ref:spec-rejects")
        # ---- streams 2 / 4: property oracle inside the guard
        status = ("both" if rstat == "ok" else "poetry-only") if ibits is not None else ("packaging-only" if rstat == "ok" else "neither")
        ctx.count(f"{sname}:accept:{status}")
        if status != "both":
            ctx.case(f"{tag}:{s}", nontrivial=False)
            continue
        lits, lits_ok, any_ne, adj = literals(m["alts"])
        for i, c in enumerate(cands):
            cp = parts(c)
            if cp is None or rbits[i] is None or probes[i] is None or not lits_ok:  # type: ignore[index]
                ctx.count("guard:unreadable")
                continue
            g = in_guard(lits, any_ne, cp, adj)
            if g is None:
                ctx.count("guard:outside")
                ctx.case(f"{s}\0{c}", nontrivial=False)
                continue
            cls = g[1:] if g.startswith("!") else None
            ctx.count("guard:" + (cls or g))
            n_oracle += 1
            ctx.case(f"{s}\0{c}", nontrivial=True, sample={"s": s, "v": c, "admits": rbits[i]} if (n_oracle % 97 == 1) else None)  # type: ignore[index]
            got = ibits[i]
            if got not in "01":
                if len(ctx.violations) < 12:
                    ctx.violate(f"allows-raises:{s}|{c}", f"parse_constraint({s!r}).allows({c}) raised", {"s": s, "v": c})
            elif (got == "1") != rbits[i]:  # type: ignore[index]
                what = (f"parse_constraint({s!r}) = {io[2]} {'admits' if got == '1' else 'rejects'} {c}; PEP 440 reference "
                        f"({' || '.join(m['alts'])}, pre-releases enabled) {'admits' if rbits[i] else 'rejects'} it [guard: {cls or g}]")  # type: ignore[index]
                if cls is not None:
                    ctx.count(f"guard:{cls}:differs-from-reference")
                    ctx.violate(cls, what, {"s": s, "v": c})
                elif got == "1" and compat_finding(s, c):
                    ctx.violate(KNOWN_COMPAT_KEY, what + " (class: ~= with more than three release components)", {"s": s, "v": c})
                elif got == "1" and local_min_finding(m["alts"], obj, probes[i]):
                    ctx.count(f"guard:{CLASS_LOCAL_MIN}:differs-from-reference")
                    ctx.violate(CLASS_LOCAL_MIN, what + " (class: ==V intersected with a range whose lower bound is a local build of V)",
                                {"s": s, "v": c})
                elif len(ctx.violations) < 12:
                    ctx.violate(f"membership:{s}|{c}", what, {"s": s, "v": c})
    ctx.stream("model-vs-impl", n_model, d_model)
    ctx.stream(sname, n_oracle, 0)
    if with_spec:
        ctx.stream("spec-vs-ref", n_spec, d_spec)


def gen_items(ctx: core.Ctx, n: int) -> list[tuple[str, list[str]]]:
    items = []
    for _ in range(n):
        s, lits = gen_set(ctx.rng)
        for c in s.split(","):
            ctx.count("op:" + re.match(r"\s*([~=!<>]+)", c).group(1) + ("*" if c.rstrip().endswith(".*") else ""))  # type: ignore[union-attr]
        ctx.count(f"clauses:{len(lits)}")
        items.append((s, candidates(ctx.rng, lits)))
    return items


def gen_poetry_items(ctx: core.Ctx, n: int) -> list[tuple[str, list[str]]]:
    items = []
    for _ in range(n):
        s, lits = gen_poetry(ctx.rng)
        alts = desugar(s)
        if alts is not None:  # the computed upper bounds of ^ / ~ are literals too: derive candidates from them as well
            lits = lits + [p for p in literals(alts)[0] if p not in lits]
        ctx.count("poetry-syntax:" + ("union" if "||" in s else ("caret" if "^" in s else ("tilde" if re.search(r"~(?!=)", s) else "bare"))))
        items.append((s, candidates(ctx.rng, lits[:4], limit=40)))
    return items


def gen_malformed(ctx: core.Ctx, n: int) -> list[tuple[str, list[str]]]:
    items = []
    for _ in range(n):
        s, lits = gen_set(ctx.rng)
        s = mutate(ctx.rng, s)
        if ctx.rng.random() < 0.3:
            s = mutate(ctx.rng, s)
        if core.valid_utf8(s) and "===" not in s:
            items.append((s, candidates(ctx.rng, lits, limit=10)))
    return items


def extra_evidence(ctx: core.Ctx) -> dict[str, Any]:
    return {"notes": ctx.notes[:20]}


def chunks(xs: list[Any], n: int) -> list[list[Any]]:
    return [xs[i:i + n] for i in range(0, len(xs), n)]


def correspondence(ctx: core.Ctx) -> None:
    run_batch(ctx, [(s, cs) for s, cs in CORPUS if is_pep_text(s)], "corpus")
    run_batch(ctx, [(s, cs) for s, cs in CORPUS if not is_pep_text(s)], "corpus-poetry", poetry_ops=True)
    run_batch(ctx, [(s, ["1.0", "1.0.dev0", "1.0+x", "2"]) for s in MALFORMED], "malformed-corpus")
    for part in chunks(gen_items(ctx, ctx.budget(4000, 40000)), 2500):
        run_batch(ctx, part, "gen")
    for part in chunks(gen_poetry_items(ctx, ctx.budget(1200, 10000)), 2500):
        run_batch(ctx, part, "gen-poetry", poetry_ops=True)
    for part in chunks(gen_malformed(ctx, ctx.budget(2000, 20000)), 4000):
        run_batch(ctx, part, "gen-malformed")


def search(ctx: core.Ctx) -> None:
    """Something broke (proof or correspondence): look harder for an input on which the property itself fails."""
    seeds = [d["input"] for d in ctx.disagreements if isinstance(d["input"], list) and len(d["input"]) == 2
             and isinstance(d["input"][1], list)]
    items = []
    for s, cands in seeds[:400]:
        alts = desugar(s)
        lits = literals(alts)[0] if alts else []
        more = [c for p in lits for c in candidates_of(p)]
        items.append((s, list(dict.fromkeys(list(cands) + more))[:160]))
    if items:
        run_batch(ctx, [it for it in items if is_pep_text(it[0])], "search-disagreeing")
        run_batch(ctx, [it for it in items if not is_pep_text(it[0])], "search-disagreeing-poetry", poetry_ops=True)
    classes = (KNOWN_COMPAT_KEY, CLASS_SIBLING, CLASS_UNION_GAP, CLASS_LOCAL_MIN)
    new = [v for v in ctx.violations if v.key not in classes]
    if not new:
        for part in chunks(gen_items(ctx, 6000), 2000):
            run_batch(ctx, part, "search-gen")
            if [v for v in ctx.violations if v.key not in classes]:
                return
        for part in chunks(gen_poetry_items(ctx, 2000), 2000):
            run_batch(ctx, part, "search-gen-poetry", poetry_ops=True)


def replay(ctx: core.Ctx, payload: dict[str, Any]) -> bool:
    """Re-evaluate witness {"s", "v"} with the property oracle on the real code: True iff the property still fails."""
    w = payload.get("witness", payload)
    s, v = w["s"], w["v"]
    alts = desugar(s)
    obj = impl_parse(s)
    pv = probe(v)
    cp = parts(v)
    if alts is None or obj is None or isinstance(obj, Exception) or pv is None or cp is None:
        return False
    rs = ref_batch([{"op": "specv", "s": a, "vs": [v]} for a in alts])
    if not all(x[0] == "ok" and x[1][0] is not None for x in rs):
        return False
    want = any(x[1][0] for x in rs)
    lits, lits_ok, any_ne, adj = literals(alts)
    g = in_guard(lits, any_ne, cp, adj)
    if not lits_ok or g is None:
        return False
    try:
        got = bool(obj.allows(pv))
    except Exception:  # noqa: BLE001
        ctx.violate(f"allows-raises:{s}|{v}", f"parse_constraint({s!r}).allows({v}) raised", {"s": s, "v": v})
        return True
    if got == want:
        return False
    what = (f"parse_constraint({s!r}) = {V.dump(obj)} {'admits' if got else 'rejects'} {v}; PEP 440 reference "
            f"({' || '.join(alts)}, pre-releases enabled) {'admits' if want else 'rejects'} it [guard: {g.lstrip('!')}]")
    if g.startswith("!"):
        key = g[1:]
    elif got and compat_finding(s, v):
        key = KNOWN_COMPAT_KEY
    elif got and local_min_finding(alts, obj, pv):
        key = CLASS_LOCAL_MIN
    else:
        key = f"membership:{s}|{v}"
    ctx.violate(key, what, {"s": s, "v": v})
    return True
