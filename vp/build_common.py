"""Run the real build backend (from /repo's working tree, in-process) and re-read what it wrote.

* `build(root, kind, api, …)` — kind ∈ {wheel, editable, sdist}, api ∈ {hook, builder}: hook = the PEP 517 functions of
  `poetry.core.masonry.api` (cwd = project root), builder = `WheelBuilder.make_in` / `SdistBuilder(...).build` directly.
* `OpLog` wraps `WheelBuilder._add_file/_write_to_zip/_write_record` (and `find_files_to_add`, `_copy_dist_info`) on the
  class, in-process — no source hook — and records the operation sequence the builder performed together with what the
  harness itself read from disk (bytes hashed independently of the builder).
* `read_wheel` / `read_sdist` re-read archives with stdlib zipfile/csv/hashlib/email/tarfile/gzip only.
"""
from __future__ import annotations

import base64
import contextlib
import csv
import email.parser
import email.policy
import gzip
import hashlib
import io
import logging
import os
import shutil
import stat
import struct
import tarfile
import tempfile
import time
import warnings
import zipfile
from dataclasses import dataclass, field
from pathlib import Path
from typing import Any, Iterator

from . import core
from .gen_project import Project


def b64digest(data: bytes) -> str:
    return base64.urlsafe_b64encode(hashlib.sha256(data).digest()).decode("ascii").rstrip("=")


def scratch(prefix: str = "pcv-") -> Path:
    """A scratch directory outside /repo and /verif (real path, so that Path.resolve() is the identity on it)."""
    d = Path(tempfile.mkdtemp(prefix=prefix)).resolve()
    for forbidden in (core.REPO.resolve(), core.VERIF.resolve()):
        assert forbidden not in d.parents and d != forbidden, d
    return d


def rmtree(p: str | os.PathLike[str]) -> None:
    shutil.rmtree(p, ignore_errors=True)


# --------------------------------------------------------------------------------------
# operation log (in-process wrappers)
# --------------------------------------------------------------------------------------

@dataclass
class OpLog:
    ops: list[tuple[Any, ...]] = field(default_factory=list)       # ("add", rel, st_mode, digest, size, full) | ("write", rel, digest, size) | ("record", rel, digest, size, text)
    to_add: list[tuple[str, str, str]] = field(default_factory=list)  # wheel: (abs path, project-relative, target) in set-iteration order
    dist_info_listing: list[str] = field(default_factory=list)     # files under the prepared dist-info, in glob order
    dist_info_bytes: dict[str, bytes] = field(default_factory=dict)
    dist_info_modes: dict[str, int] = field(default_factory=dict)
    dist_info_source: str = ""
    records_after: list[tuple[str, str, int]] = field(default_factory=list)
    project_root: str = ""
    file_scripts: list[str] = field(default_factory=list)
    pth: list[str] = field(default_factory=list)
    tarinfos_in: list[tuple[str, int, int, int, str, str, float]] = field(default_factory=list)  # sdist: before clean_tarinfo
    sdist_to_add: list[tuple[str, str]] = field(default_factory=list)   # sdist: (abs path, relative_to_source_root) in set-iteration order


@contextlib.contextmanager
def logged() -> Iterator[OpLog]:
    """Wrap the writers of WheelBuilder / SdistBuilder for the duration of the block."""
    from poetry.core.masonry.builders.sdist import SdistBuilder
    from poetry.core.masonry.builders.wheel import WheelBuilder

    log = OpLog()
    o_add, o_write, o_record = WheelBuilder._add_file, WheelBuilder._write_to_zip, WheelBuilder._write_record
    o_find, o_copy, o_scripts = WheelBuilder.find_files_to_add, WheelBuilder._copy_dist_info, WheelBuilder._copy_file_scripts
    o_clean = SdistBuilder.clean_tarinfo
    o_sfind = SdistBuilder.find_files_to_add
    state = {"in_record": False}

    def add_file(self: Any, wheel: Any, full_path: Path, rel_path: Path) -> None:
        data = Path(full_path).read_bytes()
        st_mode = os.stat(full_path).st_mode
        log.ops.append(("add", Path(rel_path).as_posix(), st_mode, b64digest(data), len(data), str(full_path)))
        return o_add(self, wheel, full_path, rel_path)

    @contextlib.contextmanager
    def write_to_zip(self: Any, wheel: Any, rel_path: str) -> Iterator[io.StringIO]:
        box: dict[str, str] = {}
        with o_write(self, wheel, rel_path) as sio:
            yield sio
            box["text"] = sio.getvalue()
        b = box["text"].encode("utf-8")
        if state["in_record"]:
            log.ops.append(("record", rel_path, b64digest(b), len(b), box["text"]))
        else:
            log.ops.append(("write", rel_path, b64digest(b), len(b)))

    def write_record(self: Any, wheel: Any) -> None:
        state["in_record"] = True
        try:
            o_record(self, wheel)
        finally:
            state["in_record"] = False
        log.records_after = list(self._records)

    def find_files_to_add(self: Any, exclude_build: bool = True) -> Any:
        res = o_find(self, exclude_build)
        log.project_root = str(self._path)
        log.to_add = [(str(f.path), f.relative_to_project_root().as_posix(), f.relative_to_target_root().as_posix())
                      for f in res]
        return res

    def sdist_find_files_to_add(self: Any, exclude_build: bool = False) -> Any:
        res = o_sfind(self, exclude_build)
        log.project_root = str(self._path)
        log.sdist_to_add = [(str(f.path), f.relative_to_source_root().as_posix()) for f in res]
        return res

    def copy_dist_info(self: Any, wheel: Any, source: Path) -> None:
        listing = [f for f in source.glob("**/*")]
        log.dist_info_listing = [f.relative_to(source).as_posix() for f in listing if f.is_file()]
        log.dist_info_bytes = {f.relative_to(source).as_posix(): f.read_bytes() for f in listing if f.is_file()}
        log.dist_info_modes = {f.relative_to(source).as_posix(): os.stat(f).st_mode for f in listing if f.is_file()}
        log.dist_info_source = str(source)
        return o_copy(self, wheel, source)

    def copy_file_scripts(self: Any, wheel: Any) -> None:
        log.file_scripts = [str(p) for p in self.convert_script_files()]
        return o_scripts(self, wheel)

    def clean_tarinfo(self: Any, ti: Any) -> Any:
        log.tarinfos_in.append((ti.name, ti.mode, ti.uid, ti.gid, ti.uname, ti.gname, ti.mtime))
        return o_clean(self, ti)

    WheelBuilder._add_file = add_file  # type: ignore[method-assign]
    WheelBuilder._write_to_zip = write_to_zip  # type: ignore[method-assign]
    WheelBuilder._write_record = write_record  # type: ignore[method-assign]
    WheelBuilder.find_files_to_add = find_files_to_add  # type: ignore[method-assign]
    WheelBuilder._copy_dist_info = copy_dist_info  # type: ignore[method-assign]
    WheelBuilder._copy_file_scripts = copy_file_scripts  # type: ignore[method-assign]
    SdistBuilder.clean_tarinfo = clean_tarinfo  # type: ignore[method-assign]
    SdistBuilder.find_files_to_add = sdist_find_files_to_add  # type: ignore[method-assign]
    try:
        yield log
    finally:
        WheelBuilder._add_file = o_add  # type: ignore[method-assign]
        WheelBuilder._write_to_zip = o_write  # type: ignore[method-assign]
        WheelBuilder._write_record = o_record  # type: ignore[method-assign]
        WheelBuilder.find_files_to_add = o_find  # type: ignore[method-assign]
        WheelBuilder._copy_dist_info = o_copy  # type: ignore[method-assign]
        WheelBuilder._copy_file_scripts = o_scripts  # type: ignore[method-assign]
        SdistBuilder.clean_tarinfo = o_clean  # type: ignore[method-assign]
        SdistBuilder.find_files_to_add = o_sfind  # type: ignore[method-assign]


# --------------------------------------------------------------------------------------
# building
# --------------------------------------------------------------------------------------

@dataclass
class Built:
    kind: str
    api: str
    ok: bool
    returned: str = ""            # name returned by the hook / builder
    out_dir: str = ""
    listing: list[str] = field(default_factory=list)   # directory listing of out_dir after the build
    error: str = ""
    log: OpLog | None = None
    warnings: list[str] = field(default_factory=list)
    meta: dict[str, Any] = field(default_factory=dict)  # what the builder object says (names, version, tag …)

    @property
    def path(self) -> Path:
        return Path(self.out_dir) / self.returned


@contextlib.contextmanager
def env(cwd: str | None = None, environ: dict[str, str | None] | None = None, umask: int | None = None) -> Iterator[None]:
    """Temporarily change cwd / environment variables (None = unset) / umask; always restored."""
    old_cwd = os.getcwd()
    old_env: dict[str, str | None] = {}
    old_umask = None
    try:
        if environ:
            for k, v in environ.items():
                old_env[k] = os.environ.get(k)
                if v is None:
                    os.environ.pop(k, None)
                else:
                    os.environ[k] = v
            if "TZ" in environ:
                time.tzset()
        if umask is not None:
            old_umask = os.umask(umask)
        if cwd is not None:
            os.chdir(cwd)
        yield
    finally:
        os.chdir(old_cwd)
        if old_umask is not None:
            os.umask(old_umask)
        for k, v in old_env.items():
            if v is None:
                os.environ.pop(k, None)
            else:
                os.environ[k] = v
        if environ and "TZ" in environ:
            time.tzset()


class _Scan:
    """stand-in for the iterator/context manager os.scandir returns"""

    def __init__(self, entries: list[Any]) -> None:
        self._it = iter(entries)

    def __iter__(self) -> "_Scan":
        return self

    def __next__(self) -> Any:
        return next(self._it)

    def __enter__(self) -> "_Scan":
        return self

    def __exit__(self, *a: Any) -> None:
        return None

    def close(self) -> None:
        return None


@contextlib.contextmanager
def listing_order(inside: str | os.PathLike[str], mode: str, seed: int = 0) -> Iterator[dict[str, int]]:
    """Permute what the file system reports as directory listing order, in this process, for directories under
    `inside` only (lark, importlib, tempfile … see their own directories unchanged).  os.scandir and os.listdir are
    wrapped: os.walk, Path.iterdir, Path.glob/rglob and shutil are built on them.  mode: "sorted" | "reversed" |
    "shuffled" (seeded per directory).  Yields a counter of permuted listings."""
    import random as _random
    root = os.path.realpath(os.fspath(inside))
    o_scandir, o_listdir = os.scandir, os.listdir
    stats = {"listings": 0}

    def _in(path: Any) -> bool:
        try:
            if isinstance(path, int):
                return False
            ap = os.path.realpath(os.fspath(path) if path is not None else ".")
            if isinstance(ap, bytes):
                ap = os.fsdecode(ap)
        except (TypeError, OSError, ValueError):
            return False
        return ap == root or ap.startswith(root + os.sep)

    def _perm(items: list[Any], key: Any, path: Any) -> list[Any]:
        items = sorted(items, key=key)
        if mode == "reversed":
            items.reverse()
        elif mode == "shuffled":
            _random.Random(f"{seed}|{os.fspath(path) if path is not None else '.'}").shuffle(items)
        stats["listings"] += 1
        return items

    def scandir(path: Any = ".") -> Any:
        if not _in(path):
            return o_scandir(path)
        with o_scandir(path) as it:
            entries = list(it)
        return _Scan(_perm(entries, lambda e: os.fsdecode(e.name), path))

    def listdir(path: Any = ".") -> Any:
        res = o_listdir(path)
        if not _in(path):
            return res
        return _perm(list(res), os.fsdecode, path)

    os.scandir, os.listdir = scandir, listdir  # type: ignore[assignment]
    try:
        yield stats
    finally:
        os.scandir, os.listdir = o_scandir, o_listdir  # type: ignore[assignment]


def _quiet() -> None:
    logging.getLogger("poetry.core").setLevel(logging.CRITICAL)


def builder_facts(b: Any) -> dict[str, Any]:
    out = {"package_name": str(b._package.name), "pretty_name": str(b._package.pretty_name), "meta_version": b._meta.version,
           "meta_name": b._meta.name, "module_name": b._module.name}
    if hasattr(b, "wheel_filename"):
        out.update({"wheel_filename": b.wheel_filename, "dist_info": b.dist_info, "data_folder": b.wheel_data_folder,
                    "tag": b.tag, "supports_py2": b.supports_python2(),
                    "python_constraint": str(b._package.python_constraint)})
    return out


def build(root: str | os.PathLike[str], kind: str, api: str, out_dir: str | os.PathLike[str],
          config_settings: dict[str, str] | None = None, metadata_directory: str | None = None,
          cwd: str | None = None, want_log: bool = True) -> Built:
    """Run one real build. `cwd` only matters for the builder API (the hook API must run from the project root)."""
    _quiet()
    from poetry.core.factory import Factory
    from poetry.core.masonry import api as hook
    from poetry.core.masonry.builders.sdist import SdistBuilder
    from poetry.core.masonry.builders.wheel import WheelBuilder

    root = str(root)
    res = Built(kind, api, False, out_dir=str(out_dir))
    cfg = dict(config_settings) if config_settings else None
    ctx = logged() if want_log else contextlib.nullcontext(None)
    # WheelBuilder writes to `tempfile.mkstemp(suffix=".whl")` first and leaves that file behind when the build raises: keep such
    # leftovers inside the scratch directory of this build (removed with it) instead of the system temp directory
    import tempfile
    old_tmpdir = tempfile.tempdir
    tempfile.tempdir = str(Path(out_dir).parent)
    try:
        with warnings.catch_warnings(record=True) as w, ctx as log:
            warnings.simplefilter("always")
            res.log = log        # kept also when the build raises: the writer calls made so far are evidence
            if api == "hook":
                with env(cwd=root):
                    if kind == "wheel":
                        res.returned = hook.build_wheel(str(out_dir), cfg, metadata_directory)
                    elif kind == "editable":
                        res.returned = hook.build_editable(str(out_dir), cfg, metadata_directory)
                    else:
                        res.returned = hook.build_sdist(str(out_dir), cfg)
            else:
                with env(cwd=cwd or os.getcwd()):
                    poetry = Factory().create_poetry(Path(root), with_groups=False)
                    if kind in ("wheel", "editable"):
                        md = None if metadata_directory is None else Path(metadata_directory)
                        wb = WheelBuilder(poetry, editable=(kind == "editable"), metadata_directory=md, config_settings=cfg)
                        p = wb.build(target_dir=Path(out_dir))
                        res.returned = wb.wheel_filename
                        res.meta = builder_facts(wb)
                        res.meta["build_returned_path"] = str(p)
                    else:
                        sb = SdistBuilder(poetry, config_settings=cfg)
                        p = sb.build(Path(out_dir))
                        res.returned = p.name
                        res.meta = builder_facts(sb)
            res.log = log
            res.warnings = [str(x.message) for x in w]
        res.ok = True
    except Exception as e:  # noqa: BLE001 - a failing build is data, not a harness error
        res.error = f"{type(e).__name__}: {e}"
    finally:
        tempfile.tempdir = old_tmpdir
    try:
        res.listing = sorted(os.listdir(out_dir))
    except OSError:
        res.listing = []
    return res


def facts(root: str | os.PathLike[str], config_settings: dict[str, str] | None = None) -> dict[str, Any]:
    """Names/version/tag as the WheelBuilder object computes them (no build)."""
    _quiet()
    from poetry.core.factory import Factory
    from poetry.core.masonry.builders.wheel import WheelBuilder
    poetry = Factory().create_poetry(Path(root), with_groups=False)
    wb = WheelBuilder(poetry, config_settings=dict(config_settings) if config_settings else None)
    out = builder_facts(wb)
    out["raw_name"] = poetry.local_config.get("name") or poetry.pyproject.data.get("project", {}).get("name")
    out["raw_version"] = poetry.pyproject.data.get("project", {}).get("version") or poetry.local_config.get("version")
    return out


def prepare_metadata(root: str | os.PathLike[str], metadata_directory: str | os.PathLike[str],
                     config_settings: dict[str, str] | None = None) -> tuple[str, dict[str, bytes]]:
    """prepare_metadata_for_build_wheel through the hook; returns (name, {relative path: bytes})."""
    _quiet()
    from poetry.core.masonry import api as hook
    with env(cwd=str(root)):
        name = hook.prepare_metadata_for_build_wheel(str(metadata_directory), dict(config_settings) if config_settings else None)
    base = Path(metadata_directory) / name
    files = {p.relative_to(base).as_posix(): p.read_bytes() for p in sorted(base.glob("**/*")) if p.is_file()}
    return name, files


# --------------------------------------------------------------------------------------
# re-reading archives (stdlib only)
# --------------------------------------------------------------------------------------

@dataclass
class WheelDesc:
    file_name: str
    members: list[dict[str, Any]]             # in archive order: name, mode, attr_low, date_time, digest, size, is_dir
    record_name: str | None
    record_text: str
    record_rows: list[list[str]]
    wheel_headers: list[tuple[str, str]]
    metadata_headers: list[tuple[str, str]]
    testzip: str | None
    dist_info_dirs: list[str]
    dist_info_bytes: dict[str, bytes]
    raw_sha256: str

    def canonical(self) -> list[Any]:
        """what C08 compares besides the bytes"""
        return [[m["name"], m["mode"], m["attr_low"], list(m["date_time"]), m["digest"], m["size"]] for m in self.members]


def read_wheel(path: str | os.PathLike[str]) -> WheelDesc:
    raw = Path(path).read_bytes()
    with zipfile.ZipFile(io.BytesIO(raw)) as z:
        bad = z.testzip()
        members = []
        for zi in z.infolist():
            data = z.read(zi)
            members.append({"name": zi.filename, "mode": zi.external_attr >> 16, "attr_low": zi.external_attr & 0xFFFF,
                            "date_time": tuple(zi.date_time), "digest": b64digest(data), "size": len(data),
                            "file_size": zi.file_size, "is_dir": zi.is_dir(), "compress_type": zi.compress_type,
                            "create_system": zi.create_system})
        names = [m["name"] for m in members]
        di_dirs = sorted({n.split("/")[0] for n in names if n.split("/")[0].endswith(".dist-info")})
        rec_names = [n for n in names if n.endswith(".dist-info/RECORD") and n.count("/") == 1]
        record_text, rows = "", []
        if rec_names:
            record_text = z.read(rec_names[-1]).decode("utf-8")
            rows = [list(r) for r in csv.reader(io.StringIO(record_text, newline=""))]

        def headers(suffix: str) -> list[tuple[str, str]]:
            cands = [n for n in names if n.endswith(".dist-info/" + suffix) and n.count("/") == 1]
            if not cands:
                return []
            msg = email.parser.BytesParser(policy=email.policy.compat32).parsebytes(z.read(cands[-1]))
            return [(k, str(v)) for k, v in msg.items()]

        di_bytes = {}
        for d in di_dirs:
            for n in names:
                if n.startswith(d + "/") and not n.endswith("/RECORD"):
                    di_bytes[n[len(d) + 1:]] = z.read(n)
        return WheelDesc(Path(path).name, members, rec_names[-1] if rec_names else None, record_text, rows,
                         headers("WHEEL"), headers("METADATA"), bad, di_dirs, di_bytes, hashlib.sha256(raw).hexdigest())


@dataclass
class SdistDesc:
    file_name: str
    gzip_mtime: int
    gzip_flags: int
    gzip_fname: str
    gzip_xfl_os: tuple[int, int]
    members: list[dict[str, Any]]   # in archive order
    raw_sha256: str

    def canonical(self) -> list[Any]:
        return [self.gzip_mtime, self.gzip_fname] + [
            [m["name"], m["mode"], m["mtime"], m["uid"], m["gid"], m["uname"], m["gname"], m["type"], m["digest"], m["size"]]
            for m in self.members]


def read_sdist(path: str | os.PathLike[str]) -> SdistDesc:
    raw = Path(path).read_bytes()
    magic, method, flags, mtime, xfl, osb = struct.unpack("<HBBIBB", raw[:10])
    assert magic == 0x8B1F and method == 8, "not a gzip file"
    fname = ""
    if flags & 0x08:
        end = raw.index(b"\0", 10)
        fname = raw[10:end].decode("latin-1")
    members = []
    with tarfile.open(fileobj=io.BytesIO(gzip.decompress(raw)), mode="r:") as tf:
        for ti in tf.getmembers():
            data = b""
            if ti.isreg():
                fo = tf.extractfile(ti)
                data = fo.read() if fo else b""
            members.append({"name": ti.name, "mode": ti.mode, "mtime": ti.mtime, "uid": ti.uid, "gid": ti.gid,
                            "uname": ti.uname, "gname": ti.gname, "type": ti.type.decode("latin-1"),
                            "digest": b64digest(data), "size": ti.size, "pax": dict(ti.pax_headers), "linkname": ti.linkname})
    return SdistDesc(Path(path).name, mtime, flags, fname, (xfl, osb), members, hashlib.sha256(raw).hexdigest())


def materialise(project: Project, order: list[int] | None = None, mtimes: dict[str, float] | None = None,
                parent: str | None = None, dirname: str = "proj") -> Path:
    """Write the project under a fresh scratch directory; returns the project root (parent of it = the scratch dir)."""
    base = Path(parent) if parent else scratch()
    root = base / dirname
    root.mkdir(parents=True)
    project.write(root, order=order, mtimes=mtimes)
    return root


def zip_dos_time(dt: Any) -> tuple[int, ...]:
    """what a zip directory entry can store of a date-time: MS-DOS time has a 2-second resolution (encoder trait)"""
    t = tuple(int(x) for x in dt)
    return t[:5] + (t[5] // 2 * 2,)


def file_mode_class(mode: int) -> int:
    return 0o755 if mode & stat.S_IXUSR else 0o644
